//! C08, columnar crate directly: writer -> bytes -> reader, and merge_columnar.
use super::{model_decode, modelv, oracle, pick_len, probe_indices};
use crate::model::{hex, nat_list, parse_nat_list};
use crate::rng::Rng;
use crate::Ctx;
use serde_json::{json, Value};
use std::collections::{BTreeMap, BTreeSet};
use std::fmt::Debug;
use std::net::Ipv6Addr;
use tantivy_columnar::{
    merge_columnar, BytesColumn, Cardinality, Column, ColumnIndex, ColumnType, ColumnarReader, ColumnarWriter,
    DynamicColumn, DynamicColumnHandle, MergeRowOrder, MonotonicallyMappableToU128, MonotonicallyMappableToU64,
    RowAddr, ShuffleMergeOrder, StackMergeOrder,
};
use tantivy_common::{BitSet, DateTime, OwnedBytes, ReadOnlyBitSet};

#[derive(Clone, Debug)]
pub enum Val {
    U64(u64),
    I64(i64),
    F64(f64),
    Bool(bool),
    Date(i64),
    Ip(u128),
    Bytes(Vec<u8>),
    Str(String),
}

impl Val {
    /// injective, order-preserving key inside one type (the total order the column uses)
    pub fn key(&self) -> (u8, u128, Vec<u8>) {
        match self {
            Val::U64(v) => (0, *v as u128, vec![]),
            Val::I64(v) => (1, v.to_u64() as u128, vec![]),
            Val::F64(v) => (2, v.to_u64() as u128, vec![]),
            Val::Bool(v) => (3, *v as u128, vec![]),
            Val::Date(v) => (4, v.to_u64() as u128, vec![]),
            Val::Ip(v) => (5, *v, vec![]),
            Val::Bytes(b) => (6, 0, b.clone()),
            Val::Str(s) => (7, 0, s.as_bytes().to_vec()),
        }
    }
    pub fn show(&self) -> String {
        match self {
            Val::F64(f) => format!("F64({f:?}/{:#x})", f.to_bits()),
            other => format!("{other:?}"),
        }
    }
}

fn same(a: &[Val], b: &[Val]) -> bool {
    a.len() == b.len() && a.iter().zip(b).all(|(x, y)| x.key() == y.key())
}

#[derive(Clone, Copy, Debug, PartialEq, Eq, PartialOrd, Ord, Hash)]
pub enum Cat {
    Numerical,
    Bytes,
    Str,
    Bool,
    Ip,
    Date,
}

#[derive(Clone, Copy, Debug, PartialEq, Eq)]
pub enum NumT {
    I64,
    U64,
    F64,
}

#[derive(Clone, Debug)]
pub struct ColSpec {
    pub name: String,
    pub cat: Cat,
    pub rows: Vec<Vec<Val>>,
    /// `record_column_type` before any value (numerical only)
    pub force: Option<NumT>,
}

/// mirrors the documented coercion rule (first of i64, u64, f64 compatible with all values)
pub fn numeric_type<'a>(vals: impl Iterator<Item = &'a Val>, force: Option<NumT>) -> NumT {
    if let Some(t) = force {
        return t;
    }
    let (mut i_ok, mut u_ok) = (true, true);
    for v in vals {
        match v {
            Val::I64(x) => u_ok &= *x >= 0,
            Val::U64(x) => i_ok &= *x < i64::MAX as u64,
            Val::F64(_) => { i_ok = false; u_ok = false; }
            _ => {}
        }
    }
    if i_ok { NumT::I64 } else if u_ok { NumT::U64 } else { NumT::F64 }
}

/// value as seen in a column of numerical type `t`; `None` = not representable (would be a defect)
pub fn coerce(v: &Val, t: NumT) -> Option<Val> {
    Some(match (v, t) {
        (Val::I64(x), NumT::I64) => Val::I64(*x),
        (Val::U64(x), NumT::I64) => { if *x > i64::MAX as u64 { return None; } Val::I64(*x as i64) }
        (Val::I64(x), NumT::U64) => { if *x < 0 { return None; } Val::U64(*x as u64) }
        (Val::U64(x), NumT::U64) => Val::U64(*x),
        (Val::I64(x), NumT::F64) => Val::F64(*x as f64),
        (Val::U64(x), NumT::F64) => Val::F64(*x as f64),
        (Val::F64(x), NumT::F64) => Val::F64(*x),
        (Val::F64(_), _) => return None,
        (other, _) => other.clone(),
    })
}

fn gen_str(rng: &mut Rng, pool: &[String]) -> String {
    if rng.chance(4, 5) { rng.pick(pool).clone() } else {
        let alphabet = ["a", "b", "ab", "é", "日本", "\u{10348}", "", "z", "A", "0", " ", "\u{0}", "ÿ"];
        (0..rng.below(5)).map(|_| *rng.pick(&alphabet)).collect()
    }
}

fn gen_val(rng: &mut Rng, cat: Cat, flavour: u64, pool: &[String], i: usize) -> Val {
    match cat {
        Cat::Numerical => match flavour % 8 {
            0 => Val::U64(i as u64 * 3 + 7),                                  // linear, pure u64
            1 => Val::U64(*rng.pick(&[0u64, 1, u64::MAX, u64::MAX - 1, 1 << 63, i64::MAX as u64, i64::MAX as u64 - 1])),
            2 => Val::I64(*rng.pick(&[i64::MIN, i64::MAX, -1, 0, 1, i64::MIN + 1])),
            3 => Val::F64(*rng.pick(&[0.0f64, -0.0, f64::INFINITY, f64::NEG_INFINITY, 1.5, -2.25, f64::MAX, f64::MIN, f64::MIN_POSITIVE, 1e300])),
            4 => Val::I64(rng.next_u64() as i64 >> rng.below(64)),
            5 => match rng.below(3) { 0 => Val::I64(-(rng.below(1000) as i64)), 1 => Val::U64(rng.below(1 << 54)), _ => Val::F64(rng.below(1000) as f64 / 8.0) }, // mixed -> f64
            6 => match rng.below(2) { 0 => Val::I64(rng.below(1 << 40) as i64), _ => Val::U64(rng.below(1 << 40)) },                               // mixed ints -> i64
            _ => Val::U64(1_000_000 + 1000 * rng.below(500)),                                                                                          // gcd
        },
        Cat::Bool => Val::Bool(if flavour % 3 == 0 { true } else { rng.chance(1, 2) }),
        Cat::Date => Val::Date(match flavour % 3 { 0 => 1_600_000_000_000_000_000 + (i as i64) * 1_000_000_000, 1 => *rng.pick(&[i64::MIN, i64::MAX, 0, -1]), _ => rng.next_u64() as i64 }),
        Cat::Ip => Val::Ip(match flavour % 4 {
            0 => Ipv6Addr::from(std::net::Ipv4Addr::from(rng.next_u64() as u32).to_ipv6_mapped()).to_u128(),
            1 => *rng.pick(&[0u128, u128::MAX, 1, u128::MAX - 1, 1u128 << 127, 1u128 << 64]),
            2 => ((rng.next_u64() as u128) << 64) | rng.next_u64() as u128,
            _ => 0x2001_0db8_0000_0000_0000_0000_0000_0000u128 + rng.below(300) as u128,
        }),
        Cat::Bytes => Val::Bytes(match flavour % 3 { 0 => rng.pick(pool).as_bytes().to_vec(), 1 => { let n = rng.usize_below(6); rng.bytes(n) }, _ => vec![*rng.pick(&[0u8, 255, 1, 0x7f, 0x80])] }),
        Cat::Str => Val::Str(gen_str(rng, pool)),
    }
}

pub fn gen_colspec(rng: &mut Rng, name: &str, cat: Cat, num_docs: usize, pool: &[String]) -> ColSpec {
    let flavour = rng.next_u64() >> 8;
    let profile = rng.below(9);
    let p_present = 1 + rng.below(99);
    let mut rows: Vec<Vec<Val>> = Vec::with_capacity(num_docs);
    let mut vi = 0usize;
    for d in 0..num_docs {
        let k = match profile {
            0 | 1 => 1,                                                       // full
            2 => (rng.below(100) < p_present) as usize,                       // optional, any density
            3 => if d + 1 == num_docs { 0 } else { 1 },                       // full except the last row
            4 => if d == 0 { 0 } else { 1 },                                  // full except the first row
            5 => rng.usize_below(4),                                          // multivalued
            6 => if rng.chance(1, 50) { 2 + rng.usize_below(20) } else { (rng.below(100) < p_present) as usize },
            7 => if d % 64 == 63 || d % 512 == 0 { 0 } else { 1 },            // gaps at block boundaries
            _ => if d == num_docs / 2 { 2 } else { 1 },                       // a single multivalued row
        };
        let mut row = Vec::with_capacity(k);
        for _ in 0..k {
            row.push(gen_val(rng, cat, flavour, pool, vi));
            vi += 1;
        }
        rows.push(row);
    }
    let force = if cat == Cat::Numerical && rng.chance(1, 3) {
        let t = numeric_type(rows.iter().flatten(), None);
        // forcing is only legal when every recorded value already has that exact type
        let all_exact = rows.iter().flatten().all(|v| matches!((v, t), (Val::I64(_), NumT::I64) | (Val::U64(_), NumT::U64) | (Val::F64(_), NumT::F64)));
        if all_exact { Some(t) } else if rows.iter().flatten().all(|v| matches!(v, Val::U64(_))) { Some(NumT::U64) } else { None }
    } else { None };
    ColSpec { name: name.to_string(), cat, rows, force }
}

fn col_type(t: NumT) -> ColumnType {
    match t { NumT::I64 => ColumnType::I64, NumT::U64 => ColumnType::U64, NumT::F64 => ColumnType::F64 }
}

pub fn build_columnar(cols: &[ColSpec], num_docs: usize) -> Vec<u8> {
    build_columnar_sorted(cols, num_docs, None)
}

/// `old_to_new`: the row permutation applied by `ColumnarWriter::serialize` (index sorting)
pub fn build_columnar_sorted(cols: &[ColSpec], num_docs: usize, old_to_new: Option<&[u32]>) -> Vec<u8> {
    let mut w = ColumnarWriter::default();
    for c in cols {
        if let Some(t) = c.force {
            w.record_column_type(&c.name, col_type(t), false);
        }
    }
    for d in 0..num_docs {
        for c in cols {
            for v in &c.rows[d] {
                let doc = d as u32;
                match v {
                    Val::U64(x) => w.record_numerical(doc, &c.name, *x),
                    Val::I64(x) => w.record_numerical(doc, &c.name, *x),
                    Val::F64(x) => w.record_numerical(doc, &c.name, *x),
                    Val::Bool(x) => w.record_bool(doc, &c.name, *x),
                    Val::Date(x) => w.record_datetime(doc, &c.name, DateTime::from_timestamp_nanos(*x)),
                    Val::Ip(x) => w.record_ip_addr(doc, &c.name, Ipv6Addr::from_u128(*x)),
                    Val::Bytes(b) => w.record_bytes(doc, &c.name, b),
                    Val::Str(s) => w.record_str(doc, &c.name, s),
                }
            }
        }
    }
    let mut out = vec![];
    w.serialize(num_docs as u32, old_to_new, &mut out).unwrap();
    out
}

pub fn cat_of(t: ColumnType) -> Cat {
    match t {
        ColumnType::I64 | ColumnType::U64 | ColumnType::F64 => Cat::Numerical,
        ColumnType::Bytes => Cat::Bytes,
        ColumnType::Str => Cat::Str,
        ColumnType::Bool => Cat::Bool,
        ColumnType::IpAddr => Cat::Ip,
        ColumnType::DateTime => Cat::Date,
    }
}

/// everything observable of a typed column, checked against the expected rows
fn check_typed<T: PartialOrd + Copy + Debug + Send + Sync + 'static>(
    ctx: &mut Ctx, rng: &mut Rng, col: &Column<T>, exp: &[Vec<T>], key: &dyn Fn(T) -> u128, what: &str, case: &Value,
) -> bool {
    let n = exp.len();
    if col.num_docs() as usize != n {
        oracle(ctx, "C08:column-num-docs", format!("{what}: num_docs {} for {n} rows", col.num_docs()), case);
        return false;
    }
    let total: usize = exp.iter().map(|r| r.len()).sum();
    if col.values.num_vals() as usize != total {
        oracle(ctx, "C08:column-num-vals", format!("{what}: {} stored values for {total} indexed values", col.values.num_vals()), case);
        return false;
    }
    let (mn, mx) = (key(col.min_value()), key(col.max_value()));
    for (d, row) in exp.iter().enumerate() {
        let got: Vec<T> = col.values_for_doc(d as u32).collect();
        if got.len() != row.len() || got.iter().zip(row).any(|(a, b)| key(*a) != key(*b)) {
            oracle(ctx, "C08:column-row-values", format!("{what}: row {d} returns {got:?}, indexed {row:?}"), case);
            return false;
        }
        let first = col.first(d as u32);
        if first.map(|x| key(x)) != row.first().map(|x| key(*x)) {
            oracle(ctx, "C08:column-first", format!("{what}: first({d}) = {first:?}, indexed {:?}", row.first()), case);
            return false;
        }
        if col.index.has_value(d as u32) != !row.is_empty() {
            oracle(ctx, "C08:column-has-value", format!("{what}: has_value({d}) wrong"), case);
            return false;
        }
        for v in row {
            if key(*v) < mn || key(*v) > mx {
                oracle(ctx, "C08:column-minmax-bound", format!("{what}: value {v:?} in row {d} outside [min_value {:?}, max_value {:?}]", col.min_value(), col.max_value()), case);
                return false;
            }
        }
    }
    // rows beyond num_docs: no values for an optional / multivalued index
    // cardinality is consistent with the data
    let card = col.get_cardinality();
    let fits = match card {
        Cardinality::Full => exp.iter().all(|r| r.len() == 1),
        Cardinality::Optional => exp.iter().all(|r| r.len() <= 1),
        Cardinality::Multivalued => true,
    };
    if !fits {
        oracle(ctx, "C08:column-cardinality", format!("{what}: cardinality {card:?} inconsistent with the indexed rows"), case);
        return false;
    }
    ctx.report.count(&format!("columnar:cardinality:{card:?}"));
    // first_vals batch
    if n > 0 {
        let docs: Vec<u32> = (0..n.min(200) as u32).collect();
        let mut outv: Vec<Option<T>> = vec![None; docs.len()];
        col.first_vals(&docs, &mut outv);
        for (d, o) in docs.iter().zip(&outv) {
            if o.map(|x| key(x)) != exp[*d as usize].first().map(|x| key(*x)) {
                oracle(ctx, "C08:column-first-vals", format!("{what}: first_vals at doc {d} = {o:?}"), case);
                return false;
            }
        }
    }
    // range lookup = brute force (documents holding a value in range, ascending, once each)
    let all: Vec<T> = exp.iter().flatten().copied().collect();
    if !all.is_empty() {
        for round in 0..4 {
            let a = all[rng.usize_below(all.len())];
            let b = all[rng.usize_below(all.len())];
            let (lo, hi) = if key(a) <= key(b) { (a, b) } else { (b, a) };
            let (s, e) = if round == 0 { (0, n) } else { let s = rng.usize_below(n); (s, s + rng.usize_below(n - s + 1)) };
            let mut docs = vec![];
            col.get_docids_for_value_range(lo..=hi, s as u32..e as u32, &mut docs);
            let brute: Vec<u32> = (s..e).filter(|&d| exp[d].iter().any(|v| key(*v) >= key(lo) && key(*v) <= key(hi))).map(|d| d as u32).collect();
            if docs != brute {
                oracle(ctx, "C08:column-range-lookup", format!("{what}: get_docids_for_value_range({lo:?}..={hi:?}, {s}..{e}) = {} docs {:?}.., brute force {} docs {:?}..", docs.len(), &docs[..docs.len().min(5)], brute.len(), &brute[..brute.len().min(5)]), case);
                return false;
            }
        }
    }
    true
}

fn exp_of<T>(rows: &[Vec<Val>], f: impl Fn(&Val) -> Option<T>) -> Option<Vec<Vec<T>>> {
    rows.iter().map(|r| r.iter().map(|v| f(v)).collect::<Option<Vec<T>>>()).collect()
}

/// checks a dictionary encoded column; returns the expected ordinal rows on success
fn check_dict(ctx: &mut Ctx, rng: &mut Rng, bc: &BytesColumn, exp: &[Vec<Vec<u8>>], what: &str, case: &Value) -> Option<Vec<Vec<u64>>> {
    let nterms = bc.num_terms();
    let mut terms: Vec<Vec<u8>> = Vec::with_capacity(nterms);
    for ord in 0..nterms as u64 {
        let mut b = vec![];
        match bc.ord_to_bytes(ord, &mut b) {
            Ok(true) => terms.push(b),
            other => { oracle(ctx, "C08:dict-ord-missing", format!("{what}: ord_to_bytes({ord}) = {other:?} with {nterms} terms"), case); return None; }
        }
    }
    if terms.windows(2).any(|w| w[0] >= w[1]) {
        oracle(ctx, "C08:dict-not-sorted", format!("{what}: dictionary is not strictly increasing"), case);
        return None;
    }
    let distinct: BTreeSet<&Vec<u8>> = exp.iter().flatten().collect();
    if distinct.len() != nterms {
        ctx.report.count("dict:unused-terms");
        if distinct.iter().any(|t| terms.binary_search(t).is_err()) {
            oracle(ctx, "C08:dict-term-missing", format!("{what}: an indexed term is missing from the dictionary"), case);
            return None;
        }
    }
    let mut ord_rows = Vec::with_capacity(exp.len());
    for row in exp {
        let mut r = vec![];
        for t in row {
            match terms.binary_search(t) {
                Ok(o) => r.push(o as u64),
                Err(_) => { oracle(ctx, "C08:dict-term-missing", format!("{what}: indexed term {t:?} is missing from the dictionary"), case); return None; }
            }
        }
        ord_rows.push(r);
    }
    if !check_typed(ctx, rng, bc.ords(), &ord_rows, &|x| x as u128, &format!("{what} (ordinals)"), case) {
        return None;
    }
    // term_ords + ord_to_bytes per row
    for (d, row) in exp.iter().enumerate().take(3000) {
        let got: Vec<Vec<u8>> = bc.term_ords(d as u32).map(|o| { let mut b = vec![]; bc.ord_to_bytes(o, &mut b).unwrap(); b }).collect();
        if &got != row {
            oracle(ctx, "C08:dict-row-values", format!("{what}: row {d} resolves to {got:?}, indexed {row:?}"), case);
            return None;
        }
    }
    Some(ord_rows)
}

/// model cross-decoding of a real column file: cardinality byte, optional index, start offsets, values
fn cross_decode(ctx: &mut Ctx, rng: &mut Rng, handle: &DynamicColumnHandle, exp_u64: &[Vec<u64>], ip_flat: Option<Vec<u128>>, what: &str, case: &Value) {
    let raw = match handle.file_slice().read_bytes() { Ok(b) => b.as_slice().to_vec(), Err(_) => return };
    let mut col: &[u8] = &raw;
    if matches!(handle.column_type(), ColumnType::Bytes | ColumnType::Str) {
        if col.len() < 4 { return; }
        let dl = u32::from_le_bytes(col[col.len() - 4..].try_into().unwrap()) as usize;
        if dl + 4 > col.len() { return; }
        col = &col[dl..col.len() - 4];
    }
    if matches!(handle.column_type(), ColumnType::Bytes | ColumnType::Str) && raw.len() <= 8_000 && !exp_u64.is_empty() {
        // the model splits the Str / Bytes column file itself (open_column_bytes) and reads the ordinals
        let n = exp_u64.len();
        let mut r2 = Rng(crate::report::fnv(&raw) ^ 0xC01F_11E7);
        let docs = probe_indices(&mut r2, n, 300, 40);
        let resp = ctx.model.ask(&format!("C08 colfilebytes {} {}", hex(&raw), nat_list(&docs.iter().map(|&d| d as u64).collect::<Vec<_>>())));
        let flat_len: usize = exp_u64.iter().map(|r| r.len()).sum();
        let dl = raw.len() - 4 - col.len();
        let tail = format!(" {n} {flat_len};{}", rows_text(&docs.iter().map(|&d| exp_u64[d].clone()).collect::<Vec<_>>()));
        if !(resp.starts_with(&format!("{dl} ")) && resp.ends_with(&tail)) {
            modelv(ctx, "C08:bytes-column-file-cross-decode", format!("{what}: the model reading the real Str/Bytes column file gives {}, expected {dl} <card>{}", &resp[..resp.len().min(120)], &tail[..tail.len().min(120)]), case);
        }
        ctx.report.count("cross-decode:bytes-column-file");
    }
    if col.len() < 5 { return; }
    let il = u32::from_le_bytes(col[col.len() - 4..].try_into().unwrap()) as usize;
    if il + 4 > col.len() || il == 0 {
        modelv(ctx, "C08:column-layout", format!("{what}: column file does not end with a valid index length"), case);
        return;
    }
    let index = &col[..il];
    let values = &col[il..col.len() - 4];
    let n = exp_u64.len();
    // the model opens the whole column file (index length, cardinality code, optional index, start
    // offsets column, values column) and reads documents through its readers
    if let (Some(ips), true) = (ip_flat.as_ref(), handle.column_type() == ColumnType::IpAddr && col.len() <= 8_000 && n > 0) {
        let mut r2 = Rng(crate::report::fnv(col) ^ 0xC01F_11E6);
        let docs = probe_indices(&mut r2, n, 300, 40);
        let mut starts = Vec::with_capacity(n + 1);
        let mut acc = 0usize;
        for r in exp_u64 { starts.push(acc); acc += r.len(); }
        starts.push(acc);
        let resp = ctx.model.ask(&format!("C08 colfile128 {} {}", hex(col), nat_list(&docs.iter().map(|&d| d as u64).collect::<Vec<_>>())));
        let row_txt = |d: usize| if starts[d] == starts[d + 1] { "-".to_string() } else { ips[starts[d]..starts[d + 1]].iter().map(|v| v.to_string()).collect::<Vec<_>>().join(",") };
        let exp = format!("{} {n} {};{}", index[0], ips.len(), docs.iter().map(|&d| row_txt(d)).collect::<Vec<_>>().join("|"));
        if resp != exp {
            modelv(ctx, "C08:column-file-cross-decode", format!("{what}: the model reading the real u128 column file gives {}, expected {}", &resp[..resp.len().min(120)], &exp[..exp.len().min(120)]), case);
        }
        ctx.report.count("cross-decode:column-file-u128");
    }
    if handle.column_type() != ColumnType::IpAddr && col.len() <= 8_000 && n > 0 {
        let mut r2 = Rng(crate::report::fnv(col) ^ 0xC01F_11E5);
        let docs = probe_indices(&mut r2, n, 300, 40);
        let resp = ctx.model.ask(&format!("C08 colfile {} {}", hex(col), nat_list(&docs.iter().map(|&d| d as u64).collect::<Vec<_>>())));
        let flat_len: usize = exp_u64.iter().map(|r| r.len()).sum();
        let exp = format!("{} {n} {flat_len};{}", index[0], rows_text(&docs.iter().map(|&d| exp_u64[d].clone()).collect::<Vec<_>>()));
        if resp != exp {
            modelv(ctx, "C08:column-file-cross-decode", format!("{what}: the model reading the real column file gives {}, expected {}", &resp[..resp.len().min(120)], &exp[..exp.len().min(120)]), case);
        }
        ctx.report.count("cross-decode:column-file");
    }
    let non_null: Vec<u32> = (0..n).filter(|&d| !exp_u64[d].is_empty()).map(|d| d as u32).collect();
    let flat: Vec<u64> = exp_u64.iter().flatten().copied().collect();
    ctx.report.count(&format!("cross-decode:index-code:{}", index[0]));
    let mut model_opt = |ctx: &mut Ctx, rng: &mut Rng, bytes: &[u8]| {
        let mut docs: Vec<u32> = (0..20.min(n)).map(|_| rng.below(n as u64) as u32).collect();
        docs.extend(non_null.iter().take(5));
        if n > 0 { docs.extend([0, n as u32 - 1]); }
        docs.sort(); docs.dedup();
        let ranks: Vec<u32> = if non_null.is_empty() { vec![] } else { let mut r: Vec<u32> = (0..10).map(|_| rng.below(non_null.len() as u64) as u32).collect(); r.push(0); r.push(non_null.len() as u32 - 1); r.sort(); r.dedup(); r };
        let r = ctx.model.ask(&format!("C08 optidx {} {} {}", hex(bytes), nat_list(&docs), nat_list(&ranks)));
        let brute = |d: u32| non_null.partition_point(|&x| x < d);
        let show = |v: Vec<Option<usize>>| if v.is_empty() { "-".to_string() } else { v.iter().map(|o| o.map(|x| x.to_string()).unwrap_or("x".into())).collect::<Vec<_>>().join(",") };
        let e = format!("{n} {};{};{};{}", non_null.len(),
            show(docs.iter().map(|&d| Some(brute(d))).collect()),
            show(docs.iter().map(|&d| if non_null.binary_search(&d).is_ok() { Some(brute(d)) } else { None }).collect()),
            show(ranks.iter().map(|&k| Some(non_null[k as usize] as usize)).collect()));
        if r != e {
            modelv(ctx, "C08:column-index-cross-decode", format!("{what}: model rank/select on the optional index of the real column file differs"), case);
        }
    };
    match index[0] {
        0 => {}
        1 => model_opt(ctx, rng, &index[1..]),
        2 => {
            let body = &index[1..];
            if body.len() < 4 { return; }
            let ol = u32::from_le_bytes(body[body.len() - 4..].try_into().unwrap()) as usize;
            if ol + 4 > body.len() { return; }
            model_opt(ctx, rng, &body[..ol]);
            // compact start offsets: 0 :: running sums of the non-empty row lengths
            let mut starts = vec![0u64];
            let mut acc = 0u64;
            for r in exp_u64.iter().filter(|r| !r.is_empty()) { acc += r.len() as u64; starts.push(acc); }
            let idxs = probe_indices(rng, starts.len(), 600, 60);
            match model_decode(ctx, &body[ol..body.len() - 4], &idxs) {
                Some((_, _, _, _, rows, mv)) if rows as usize == starts.len() && mv == idxs.iter().map(|&i| starts[i]).collect::<Vec<_>>() => {}
                _ => modelv(ctx, "C08:start-offsets-cross-decode", format!("{what}: model decode of the multivalued start offsets differs"), case),
            }
        }
        c => modelv(ctx, "C08:column-layout", format!("{what}: unknown cardinality code {c}"), case),
    }
    if handle.column_type() == ColumnType::IpAddr {
        // compact-space codec: the model opens the real bytes (header, footer, compact space) and maps
        // the bit-packed compact values back to u128
        let Some(ips) = ip_flat else { return };
        let idxs = probe_indices(rng, ips.len(), 600, 60);
        let r = ctx.model.ask(&format!("C08 decode128 {} {}", hex(values), nat_list(&idxs)));
        let ok = match r.split_once(';') {
            Some((head, vals)) => {
                let h: Vec<&str> = head.split(' ').collect();
                let exp: Vec<String> = idxs.iter().map(|&i| ips[i].to_string()).collect();
                let exp_txt = if exp.is_empty() { "-".to_string() } else { exp.join(",") };
                let (mn, mx) = (ips.iter().min().copied().unwrap_or(0), ips.iter().max().copied().unwrap_or(0));
                h.len() == 5 && h[0] == ips.len().to_string() && h[1] == mn.to_string() && h[2] == mx.to_string() && vals == exp_txt
            }
            None => false,
        };
        // range lookup on the compact values: model (range conversion incl. gaps) vs real
        if ok && !ips.is_empty() && ips.len() <= 1500 {
            if let Ok(DynamicColumn::IpAddr(col)) = handle.open() {
                let mut r4 = Rng(crate::report::fnv(values) ^ 0x1b1b);
                for round in 0..2 {
                    let a = ips[r4.usize_below(ips.len())];
                    let b = ips[r4.usize_below(ips.len())];
                    let (mut lo, mut hi) = (a.min(b), a.max(b));
                    if round == 1 { lo = lo.saturating_sub(r4.below(1000) as u128 + 1); hi = hi.saturating_add(r4.below(1000) as u128 + 1); }
                    if r4.chance(1, 5) { lo = hi.saturating_add(1); hi = lo.saturating_add(r4.below(50) as u128); } // possibly inside a gap
                    let s = r4.usize_below(ips.len());
                    let e = s + r4.usize_below(ips.len() - s + 1);
                    let mut pos = vec![];
                    col.values.get_row_ids_for_value_range(Ipv6Addr::from_u128(lo)..=Ipv6Addr::from_u128(hi), s as u32..e as u32, &mut pos);
                    let brute: Vec<u32> = (s..e).filter(|&i| ips[i] >= lo && ips[i] <= hi).map(|i| i as u32).collect();
                    if pos != brute {
                        oracle(ctx, "C08:ip-range-lookup", format!("{what}: get_row_ids_for_value_range({lo:#x}..={hi:#x}, {s}..{e}) = {} rows, brute force {}", pos.len(), brute.len()), case);
                    }
                    let m = ctx.model.ask(&format!("C08 range128 {} {lo} {hi} {s} {e}", hex(values)));
                    if m != nat_list(&pos) {
                        modelv(ctx, "C08:ip-range-lookup-model", format!("{what}: model compact-space range lookup ({lo:#x}..={hi:#x}, {s}..{e}) differs from the real result"), case);
                    }
                    ctx.report.count("columnar:ip-range-lookup-model-compared");
                }
            }
        }
        if ok { ctx.report.count("cross-decode:codec:compact-space"); } else {
            modelv(ctx, "C08:ip-column-cross-decode", format!("{what}: model decode of the real compact-space column differs from the indexed addresses ({})", &r[..r.len().min(60)]), case);
        }
        return;
    }
    let idxs = probe_indices(rng, flat.len(), 800, 80);
    match model_decode(ctx, values, &idxs) {
        Some((codec, _, _, _, rows, mv)) if rows as usize == flat.len() && mv == idxs.iter().map(|&i| flat[i]).collect::<Vec<_>>() => {
            ctx.report.count(&format!("cross-decode:codec:{codec}"));
        }
        _ => modelv(ctx, "C08:column-values-cross-decode", format!("{what}: model decode of the real column values differs from the indexed values"), case),
    }
}

/// compares one opened dynamic column with the expected rows (already in the column's type)
pub fn check_dynamic(ctx: &mut Ctx, rng: &mut Rng, handle: Option<&DynamicColumnHandle>, dc: &DynamicColumn, exp: &[Vec<Val>], what: &str, case: &Value) -> Option<Vec<Vec<u64>>> {
    let bad = |ctx: &mut Ctx| { oracle(ctx, "C08:column-type", format!("{what}: expected values do not have the column's type {:?}", dc.column_type()), case); None };
    let u64rows: Option<Vec<Vec<u64>>> = match dc {
        DynamicColumn::U64(c) => { let Some(e) = exp_of(exp, |v| if let Val::U64(x) = v { Some(*x) } else { None }) else { return bad(ctx) }; check_typed(ctx, rng, c, &e, &|x| x as u128, what, case).then_some(e) }
        DynamicColumn::I64(c) => { let Some(e) = exp_of(exp, |v| if let Val::I64(x) = v { Some(*x) } else { None }) else { return bad(ctx) }; check_typed(ctx, rng, c, &e, &|x| x.to_u64() as u128, what, case).then(|| e.iter().map(|r| r.iter().map(|x| x.to_u64()).collect()).collect()) }
        DynamicColumn::F64(c) => { let Some(e) = exp_of(exp, |v| if let Val::F64(x) = v { Some(*x) } else { None }) else { return bad(ctx) }; check_typed(ctx, rng, c, &e, &|x| x.to_u64() as u128, what, case).then(|| e.iter().map(|r| r.iter().map(|x| x.to_u64()).collect()).collect()) }
        DynamicColumn::Bool(c) => { let Some(e) = exp_of(exp, |v| if let Val::Bool(x) = v { Some(*x) } else { None }) else { return bad(ctx) }; check_typed(ctx, rng, c, &e, &|x| x as u128, what, case).then(|| e.iter().map(|r| r.iter().map(|x| *x as u64).collect()).collect()) }
        DynamicColumn::DateTime(c) => { let Some(e) = exp_of(exp, |v| if let Val::Date(x) = v { Some(DateTime::from_timestamp_nanos(*x)) } else { None }) else { return bad(ctx) }; check_typed(ctx, rng, c, &e, &|x| x.to_u64() as u128, what, case).then(|| e.iter().map(|r| r.iter().map(|x| x.to_u64()).collect()).collect()) }
        DynamicColumn::IpAddr(c) => { let Some(e) = exp_of(exp, |v| if let Val::Ip(x) = v { Some(Ipv6Addr::from_u128(*x)) } else { None }) else { return bad(ctx) }; check_typed(ctx, rng, c, &e, &|x| x.to_u128(), what, case).then(|| e.iter().map(|r| r.iter().map(|_| 0u64).collect()).collect()) }
        DynamicColumn::Bytes(c) => { let Some(e) = exp_of(exp, |v| if let Val::Bytes(x) = v { Some(x.clone()) } else { None }) else { return bad(ctx) }; check_dict(ctx, rng, c, &e, what, case) }
        DynamicColumn::Str(c) => {
            let Some(e) = exp_of(exp, |v| if let Val::Str(x) = v { Some(x.as_bytes().to_vec()) } else { None }) else { return bad(ctx) };
            let r = check_dict(ctx, rng, c, &e, what, case);
            if r.is_some() {
                for (d, row) in exp.iter().enumerate().take(500) {
                    for (k, o) in c.term_ords(d as u32).enumerate() {
                        let mut s = String::new();
                        let ok = c.ord_to_str(o, &mut s).unwrap_or(false);
                        if !ok || Val::Str(s.clone()).key() != row[k].key() {
                            oracle(ctx, "C08:str-row-values", format!("{what}: row {d} value {k} = {s:?}, indexed {:?}", row[k]), case);
                            return None;
                        }
                    }
                }
            }
            r
        }
    };
    if let (Some(h), Some(rows)) = (handle, &u64rows) {
        let ip_flat: Option<Vec<u128>> = if let DynamicColumn::IpAddr(_) = dc {
            Some(exp.iter().flatten().map(|v| if let Val::Ip(x) = v { *x } else { 0 }).collect())
        } else { None };
        cross_decode(ctx, rng, h, rows, ip_flat, what, case);
    }
    u64rows
}

const NAMES: [&str; 15] = ["a", "ab", "a.b", "a.b.c", "a.bc", "price", "attributes.color", "attributes.size", "json.nested.deep.leaf", "x", "été", "名前", "attributes\u{1}color", "attributes\u{1}size\u{1}w", "attributes"];

fn gen_pool(rng: &mut Rng) -> Vec<String> {
    let n = 1 + rng.usize_below(40);
    let mut pool: Vec<String> = (0..n).map(|i| match rng.below(4) { 0 => format!("t{i}"), 1 => format!("{}", i * 7919), 2 => format!("prefix-{}", i % 5), _ => format!("é{i}日") }).collect();
    pool.push(String::new());
    pool
}

fn pick_cat(rng: &mut Rng) -> Cat {
    *rng.pick(&[Cat::Numerical, Cat::Numerical, Cat::Numerical, Cat::Bytes, Cat::Str, Cat::Str, Cat::Bool, Cat::Ip, Cat::Date])
}

pub fn gen_table(rng: &mut Rng, num_docs: usize, max_cols: usize, pool: &[String]) -> Vec<ColSpec> {
    let ncols = 1 + rng.usize_below(max_cols);
    let mut seen: BTreeSet<(String, Cat)> = BTreeSet::new();
    let mut cols = vec![];
    for _ in 0..ncols {
        let name = rng.pick(&NAMES).to_string();
        let cat = pick_cat(rng);
        if seen.insert((name.clone(), cat)) {
            cols.push(gen_colspec(rng, &name, cat, num_docs, pool));
        }
    }
    cols
}

/// expected rows of a column in the type the real column has; `Err` = the real type cannot hold a value
fn expected_in_type(rows: &[Vec<Val>], t: ColumnType) -> Result<Vec<Vec<Val>>, String> {
    let nt = match t { ColumnType::I64 => Some(NumT::I64), ColumnType::U64 => Some(NumT::U64), ColumnType::F64 => Some(NumT::F64), _ => None };
    match nt {
        None => Ok(rows.to_vec()),
        Some(nt) => rows.iter().map(|r| r.iter().map(|v| coerce(v, nt).ok_or_else(|| format!("{} is not representable as {:?}", v.show(), nt))).collect()).collect(),
    }
}

fn find_handle<'a>(handles: &'a [(String, DynamicColumnHandle)], name: &str, cat: Cat) -> Vec<&'a DynamicColumnHandle> {
    handles.iter().filter(|(n, h)| n == name && cat_of(h.column_type()) == cat).map(|(_, h)| h).collect()
}

pub fn case_columnar(ctx: &mut Ctx, seed: u64, case: &Value) {
    let mut rng = Rng(seed);
    let num_docs = pick_len(&mut rng, true);
    let pool = gen_pool(&mut rng);
    let mut cols = gen_table(&mut rng, num_docs, if num_docs > 10_000 { 2 } else { 6 }, &pool);
    // now and then the writer serialises under a row permutation (old row -> new row)
    let bytes = if num_docs > 1 && rng.chance(1, 5) {
        let mut perm: Vec<u32> = (0..num_docs as u32).collect();
        rng.shuffle(&mut perm);
        let b = build_columnar_sorted(&cols, num_docs, Some(&perm));
        for c in cols.iter_mut() {
            let mut rows = vec![vec![]; num_docs];
            for (old, r) in c.rows.iter().enumerate() { rows[perm[old] as usize] = r.clone(); }
            c.rows = rows;
        }
        ctx.report.count("columnar:serialized-with-row-permutation");
        b
    } else { build_columnar(&cols, num_docs) };
    let reader = match ColumnarReader::open(bytes.clone()) {
        Ok(r) => r,
        Err(e) => { oracle(ctx, "C08:columnar-open", format!("ColumnarReader::open failed: {e}"), case); return; }
    };
    if reader.num_docs() as usize != num_docs {
        oracle(ctx, "C08:columnar-num-docs", format!("num_docs {} for {num_docs} documents", reader.num_docs()), case);
    }
    let handles = reader.list_columns().unwrap_or_default();
    let nontrivial = cols.iter().any(|c| c.rows.iter().any(|r| r.len() != 1));
    ctx.report.case(&format!("columnar|{num_docs}|{}|{}", cols.len(), crate::report::fnv(&bytes)), nontrivial && num_docs > 0);
    let mut expected_present = 0;
    for c in &cols {
        let what = format!("column {:?} ({:?}, {} docs)", c.name, c.cat, num_docs);
        let has_values = c.rows.iter().any(|r| !r.is_empty());
        let hs = find_handle(&handles, &c.name, c.cat);
        if !has_values && c.force.is_none() {
            if !hs.is_empty() {
                // a column without values may exist only as an all-empty column
                ctx.report.count("columnar:empty-column-present");
            }
            continue;
        }
        if hs.len() != 1 {
            oracle(ctx, "C08:column-missing", format!("{what}: {} columns of that name and category in the file", hs.len()), case);
            continue;
        }
        expected_present += 1;
        let h = hs[0];
        // through read_columns as well
        let via_name = reader.read_columns(&c.name).unwrap_or_default();
        if !via_name.iter().any(|x| x.column_type() == h.column_type()) {
            oracle(ctx, "C08:column-lookup-by-name", format!("{what}: read_columns does not return the column that list_columns shows"), case);
        }
        if c.cat == Cat::Numerical {
            let want = numeric_type(c.rows.iter().flatten(), c.force);
            ctx.report.count(&format!("columnar:numeric-type:{want:?}"));
            if h.column_type() != col_type(want) {
                // any type that represents every value exactly would keep the promise; report only otherwise
                ctx.report.count("columnar:numeric-type-differs-from-rule");
            }
        }
        ctx.report.count(&format!("columnar:type:{:?}", h.column_type()));
        let exp = match expected_in_type(&c.rows, h.column_type()) {
            Ok(e) => e,
            Err(e) => { oracle(ctx, "C08:coercion-not-representable", format!("{what}: column type {:?} but {e}", h.column_type()), case); continue; }
        };
        if c.cat == Cat::Numerical && h.column_type() == ColumnType::F64 && c.rows.iter().flatten().any(|v| match v { Val::I64(x) => (*x as f64) as i128 != *x as i128, Val::U64(x) => (*x as f64) as u128 != *x as u128, _ => false }) {
            ctx.report.count("columnar:lossy-f64-coercion");
        }
        let dc = match h.open() {
            Ok(d) => d,
            Err(e) => { oracle(ctx, "C08:column-open", format!("{what}: open failed: {e}"), case); continue; }
        };
        let u64rows = check_dynamic(ctx, &mut rng, Some(h), &dc, &exp, &what, case);
        // the model of the writer (operation log -> cardinality detection -> index builder) predicts the
        // cardinality of the written column and, for u64-representable values, the rows read back
        if num_docs <= 1500 {
            let txt = match &u64rows {
                Some(r) if !matches!(c.cat, Cat::Ip) => rows_text(r),
                _ => rows_text(&c.rows.iter().map(|r| vec![0u64; r.len()]).collect::<Vec<_>>()),
            };
            let resp = ctx.model.ask(&format!("C08 writer {txt}"));
            let real_card = match dc.get_cardinality() { Cardinality::Full => "full", Cardinality::Optional => "optional", Cardinality::Multivalued => "multivalued" };
            let (mc, mrows) = resp.split_once(';').unwrap_or(("", ""));
            if mc != real_card {
                modelv(ctx, "C08:writer-cardinality", format!("{what}: written with cardinality {real_card}, the model of ColumnWriter detects {mc}"), case);
            } else if mrows != txt {
                modelv(ctx, "C08:writer-model-rows", format!("{what}: model writer pipeline does not read back its own rows"), case);
            }
            ctx.report.count("columnar:writer-model-compared");
            // Column::get_docids_for_value_range through the index: model (docid_range_to_rowids, matching
            // rows, select_batch_in_place) vs real, on u64 columns
            if let (DynamicColumn::U64(col), Some(r)) = (&dc, &u64rows) {
                let flat: Vec<u64> = r.iter().flatten().copied().collect();
                if !flat.is_empty() && num_docs > 0 {
                    let mut r3 = Rng(seed ^ 0x7272_7272 ^ crate::report::fnv(c.name.as_bytes()));
                    let a = flat[r3.usize_below(flat.len())];
                    let b = flat[r3.usize_below(flat.len())];
                    let (lo, hi) = (a.min(b), a.max(b));
                    let s = r3.usize_below(num_docs);
                    let e = s + r3.usize_below(num_docs - s + 1);
                    let mut docs = vec![];
                    col.get_docids_for_value_range(lo..=hi, s as u32..e as u32, &mut docs);
                    let m = ctx.model.ask(&format!("C08 colrange {lo} {hi} {s} {e} {txt}"));
                    if m != nat_list(&docs) {
                        modelv(ctx, "C08:column-range-lookup-model", format!("{what}: model get_docids_for_value_range({lo}..={hi}, {s}..{e}) differs from the real result ({} docs)", docs.len()), case);
                    }
                    ctx.report.count("columnar:range-lookup-model-compared");
                }
            }
        }
    }
    ctx.report.count_n("columnar:columns-checked", expected_present);
    // sub-path listing (JSON-like dotted names)
    if let Ok(sub) = reader.read_subpath_columns("attributes") {
        let want = cols.iter().filter(|c| c.name.starts_with("attributes\u{1}") && c.rows.iter().any(|r| !r.is_empty())).count();
        if sub.len() != {
            let mut g: BTreeSet<(String, Cat)> = BTreeSet::new();
            for c in cols.iter().filter(|c| c.name.starts_with("attributes\u{1}") && (c.rows.iter().any(|r| !r.is_empty()) || c.force.is_some())) { g.insert((c.name.clone(), c.cat)); }
            let _ = want; g.len() } {
            oracle(ctx, "C08:subpath-columns", format!("read_subpath_columns(\"attributes\") returned {} columns, {want} indexed", sub.len()), case);
        }
    }
    if ctx.report.samples.len() < 4 && num_docs > 2 {
        ctx.report.sample(json!({"section": "columnar", "docs": num_docs, "columns": cols.iter().map(|c| format!("{}:{:?}:{}", c.name, c.cat, c.rows.iter().take(3).map(|r| format!("{:?}", r.iter().map(|v| v.show()).collect::<Vec<_>>())).collect::<Vec<_>>().join(" "))).collect::<Vec<_>>()}));
    }
}

// ------------------------------------------------------------------------------------------
// merge
// ------------------------------------------------------------------------------------------
fn read_only_bitset(num_rows: u32, alive: &[u32]) -> ReadOnlyBitSet {
    let mut bs = BitSet::with_max_value(num_rows);
    for &a in alive { bs.insert(a); }
    let mut buf = vec![];
    bs.serialize(&mut buf).unwrap();
    ReadOnlyBitSet::open(OwnedBytes::new(buf))
}

fn rows_text(rows: &[Vec<u64>]) -> String {
    if rows.is_empty() { ".".into() } else { rows.iter().map(|r| nat_list(r)).collect::<Vec<_>>().join("|") }
}

fn parse_rows_text(s: &str) -> Option<Vec<Vec<u64>>> {
    if s == "." { return Some(vec![]); }
    s.split('|').map(parse_nat_list).collect()
}

fn bytes_column_of(dc: &DynamicColumn) -> Option<BytesColumn> {
    match dc {
        DynamicColumn::Bytes(c) => Some(c.clone()),
        DynamicColumn::Str(c) => Some(c.clone().into()),
        _ => None,
    }
}

fn dict_terms(bc: &BytesColumn) -> Option<Vec<Vec<u8>>> {
    (0..bc.num_terms() as u64).map(|o| { let mut b = vec![]; match bc.ord_to_bytes(o, &mut b) { Ok(true) => Some(b), _ => None } }).collect()
}

fn opt_list(s: &str) -> Option<Vec<Option<u64>>> {
    if s == "-" { return Some(vec![]); }
    s.split(',').map(|t| if t == "x" { Some(None) } else { t.parse::<u64>().ok().map(Some) }).collect()
}

/// the model of the dictionary merge (TermMerger k-way merge + term ordinal mapping) against the real
/// merged Str / Bytes column: its dictionary, and the ordinals every merged row holds
#[allow(clippy::too_many_arguments)]
fn dict_merge_model(ctx: &mut Ctx, readers: &[ColumnarReader], name: &str, cat: Cat, stacked: bool, order: &[(usize, usize)], alive_info: &[Option<Vec<usize>>], merged: &DynamicColumn, merged_ords: &[Vec<u64>], what: &str, case: &Value) {
    let Some(mbc) = bytes_column_of(merged) else { return };
    let Some(mterms) = dict_terms(&mbc) else { return };
    let mut cols: Vec<Option<BytesColumn>> = vec![];
    for r in readers {
        let h = r.list_columns().unwrap_or_default().into_iter().find(|(n, h)| n == name && cat_of(h.column_type()) == cat).map(|(_, h)| h);
        cols.push(h.and_then(|h| h.open().ok()).and_then(|dc| bytes_column_of(&dc)));
    }
    let mut dicts: Vec<Vec<Vec<u8>>> = vec![];
    for c in &cols {
        match c { Some(bc) => { let Some(t) = dict_terms(bc) else { return }; dicts.push(t) } None => dicts.push(vec![]) }
    }
    if dicts.iter().map(|d| d.len()).sum::<usize>() > 1200 { return; }
    let universe: Vec<Vec<u8>> = dicts.iter().flatten().cloned().collect::<BTreeSet<_>>().into_iter().collect();
    let rank = |t: &Vec<u8>| universe.binary_search(t).ok().map(|i| i as u64);
    let dict_txt: Vec<String> = dicts.iter().map(|d| nat_list(&d.iter().map(|t| rank(t).unwrap()).collect::<Vec<_>>())).collect();
    // the terms a surviving row uses, where the merge was given an alive bitset
    let used_txt: Vec<String> = cols.iter().enumerate().map(|(s, c)| match (c, &alive_info[s]) {
        (Some(bc), Some(alive)) => {
            let u: BTreeSet<u64> = alive.iter().flat_map(|&r| bc.term_ords(r as u32).collect::<Vec<_>>()).collect();
            nat_list(&u.into_iter().collect::<Vec<_>>())
        }
        _ => "*".to_string(),
    }).collect();
    let ask = |ctx: &mut Ctx, used: &[String]| -> Option<(Vec<u64>, Vec<Vec<Option<u64>>>)> {
        let resp = ctx.model.ask(&format!("C08 dictmerge {} {}", used.join("/"), dict_txt.join("/")));
        let (m, maps) = resp.split_once(';')?;
        Some((parse_nat_list(m)?, maps.split('/').map(opt_list).collect::<Option<Vec<_>>>()?))
    };
    let Some((model_merged, model_maps)) = ask(ctx, &used_txt) else {
        modelv(ctx, "C08:dict-merge-model", format!("{what}: the model refused the dictionary merge"), case);
        return;
    };
    ctx.report.count("merge:dict-model-compared");
    if used_txt.iter().any(|u| u != "*") { ctx.report.count("merge:dict-model-with-unused-terms"); }
    let real_merged: Option<Vec<u64>> = mterms.iter().map(|t| rank(t)).collect();
    if real_merged.as_ref() != Some(&model_merged) {
        modelv(ctx, "C08:dict-merge-dictionary", format!("{what}: merged dictionary {real_merged:?} (term ranks), the model's {model_merged:?}"), case);
        return;
    }
    for (i, &(s, r)) in order.iter().enumerate() {
        let exp: Option<Vec<u64>> = match &cols[s] {
            Some(bc) => bc.term_ords(r as u32).map(|o| model_maps.get(s).and_then(|m| m.get(o as usize).copied().flatten())).collect(),
            None => Some(vec![]),
        };
        if exp.as_ref() != Some(&merged_ords[i]) {
            modelv(ctx, "C08:dict-merge-remap", format!("{what}: merged row {i} (segment {s} row {r}) holds ordinals {:?}, the model's remap gives {exp:?}", merged_ords[i]), case);
            return;
        }
    }
    // the whole merged column as the model builds it (dictionary, index, remapped ordinals)
    if order.len() <= 400 && readers.iter().map(|r| r.num_docs() as usize).sum::<usize>() <= 800 {
        let ins_txt: Vec<String> = cols.iter().zip(readers).map(|(c, r)| match c {
            Some(bc) => rows_text(&(0..r.num_docs()).map(|d| bc.term_ords(d).collect::<Vec<u64>>()).collect::<Vec<_>>()),
            None => format!("~{}", r.num_docs()),
        }).collect();
        let o = if order.is_empty() { "-".to_string() } else { order.iter().map(|(s, r)| format!("{s}:{r}")).collect::<Vec<_>>().join(",") };
        let resp = ctx.model.ask(&format!("C08 dictshuffle {} {o} {} {}", used_txt.join("/"), dict_txt.join("/"), ins_txt.join("/")));
        let parsed = resp.split_once(';').and_then(|(m, rows)| Some((parse_nat_list(m)?, parse_rows_text(rows)?)));
        if parsed != Some((model_merged.clone(), merged_ords.to_vec())) {
            modelv(ctx, "C08:dict-merge-column", format!("{what}: the model's merged dictionary column differs from the real one"), case);
            return;
        }
        ctx.report.count("merge:dict-column-compared");
        // the same with the term bitsets computed by the model from the alive rows (compute_term_bitset)
        let alive_txt: Vec<String> = alive_info.iter().map(|a| match a { Some(rows) => nat_list(&rows.iter().map(|&r| r as u64).collect::<Vec<_>>()), None => "*".to_string() }).collect();
        let resp = ctx.model.ask(&format!("C08 dictalive {} {o} {} {}", alive_txt.join("/"), dict_txt.join("/"), ins_txt.join("/")));
        let parsed = resp.split_once(';').and_then(|(m, rows)| Some((parse_nat_list(m)?, parse_rows_text(rows)?)));
        if parsed != Some((model_merged.clone(), merged_ords.to_vec())) {
            modelv(ctx, "C08:dict-merge-term-bitset", format!("{what}: with the model's term bitsets the merged dictionary column differs from the real one"), case);
            return;
        }
        ctx.report.count("merge:dict-alive-compared");
        if stacked {
            let resp = ctx.model.ask(&format!("C08 dictstack {} {}", dict_txt.join("/"), ins_txt.join("/")));
            let parsed = resp.split_once(';').and_then(|(m, rows)| Some((parse_nat_list(m)?, parse_rows_text(rows)?)));
            if parsed != Some((model_merged.clone(), merged_ords.to_vec())) {
                modelv(ctx, "C08:dict-merge-stack", format!("{what}: the model's stacked dictionary column differs from the real one"), case);
                return;
            }
            ctx.report.count("merge:dict-stack-compared");
        }
    }
    // the public all-terms mapping (index sorting uses it): every input present
    if cols.iter().all(|c| c.is_some()) {
        let present: Vec<BytesColumn> = cols.iter().flatten().cloned().collect();
        let all: Vec<String> = present.iter().map(|_| "*".to_string()).collect();
        if let (Ok(real), Some((_, maps))) = (tantivy_columnar::compute_merged_term_ord_mapping(&present), ask(ctx, &all)) {
            let real: Vec<Vec<Option<u64>>> = real.into_iter().map(|m| m.into_iter().map(Some).collect()).collect();
            if real != maps {
                modelv(ctx, "C08:dict-merge-mapping", format!("{what}: compute_merged_term_ord_mapping {real:?}, the model's {maps:?}"), case);
            }
            ctx.report.count("merge:dict-mapping-compared");
        }
    }
}

pub fn case_merge(ctx: &mut Ctx, seed: u64, case: &Value) {
    let mut rng = Rng(seed);
    let k = 1 + rng.usize_below(4);
    let pool = gen_pool(&mut rng);
    // a shared pool of (name, category): the inputs draw different subsets
    let ngroups = 1 + rng.usize_below(5);
    let mut groups: Vec<(String, Cat)> = vec![];
    for _ in 0..ngroups {
        let g = (rng.pick(&NAMES).to_string(), pick_cat(&mut rng));
        if !groups.contains(&g) { groups.push(g); }
    }
    let mut inputs: Vec<(usize, Vec<ColSpec>)> = vec![];
    for _ in 0..k {
        let nd = match rng.below(8) { 0 => 0, 1 => 1, 2 => 64 + rng.usize_below(3), 3 => 500 + rng.usize_below(30), _ => rng.usize_below(250) };
        let mut cols = vec![];
        for (name, cat) in &groups {
            if rng.chance(2, 3) {
                cols.push(gen_colspec(&mut rng, name, *cat, nd, &pool));
            }
        }
        inputs.push((nd, cols));
    }
    let files: Vec<Vec<u8>> = inputs.iter().map(|(nd, cols)| build_columnar(cols, *nd)).collect();
    let readers: Vec<ColumnarReader> = files.iter().map(|f| ColumnarReader::open(f.clone()).unwrap()).collect();
    let reader_refs: Vec<&ColumnarReader> = readers.iter().collect();
    // the row order
    let shuffled = rng.chance(3, 5);
    let mut order: Vec<(usize, usize)> = vec![];
    let mut any_delete = false;
    // per input: the alive rows handed to the merge as a bitset (None: no bitset, every term is kept)
    let mut alive_info: Vec<Option<Vec<usize>>> = vec![None; k];
    let merge_order: MergeRowOrder = if !shuffled {
        for (s, (nd, _)) in inputs.iter().enumerate() { for r in 0..*nd { order.push((s, r)); } }
        StackMergeOrder::stack(&reader_refs).into()
    } else {
        let mut alive_sets: Vec<Option<ReadOnlyBitSet>> = vec![];
        let mut per_seg: Vec<Vec<usize>> = vec![];
        for (nd, _) in &inputs {
            let mode = rng.below(5);
            let alive: Vec<usize> = (0..*nd).filter(|_| match mode { 0 => true, 1 => rng.chance(1, 2), 2 => rng.chance(9, 10), 3 => rng.chance(1, 10), _ => false }).collect();
            let alive = if mode == 4 && *nd > 0 { vec![rng.usize_below(*nd)] } else { alive };
            if alive.len() != *nd { any_delete = true; }
            alive_sets.push(if alive.len() == *nd && rng.chance(1, 2) { None } else { Some(read_only_bitset(*nd as u32, &alive.iter().map(|&a| a as u32).collect::<Vec<_>>())) });
            if alive_sets.last().unwrap().is_some() { alive_info[per_seg.len()] = Some(alive.clone()); }
            per_seg.push(alive);
        }
        match rng.below(3) {
            0 => { for (s, a) in per_seg.iter().enumerate() { for &r in a { order.push((s, r)); } } }   // stacked with deletes
            1 => {                                                                                   // order-preserving interleave
                let mut cur = vec![0usize; k];
                loop {
                    let live: Vec<usize> = (0..k).filter(|&s| cur[s] < per_seg[s].len()).collect();
                    if live.is_empty() { break; }
                    let s = *rng.pick(&live);
                    order.push((s, per_seg[s][cur[s]]));
                    cur[s] += 1;
                }
            }
            _ => { for (s, a) in per_seg.iter().enumerate() { for &r in a { order.push((s, r)); } } rng.shuffle(&mut order); } // any permutation
        }
        ShuffleMergeOrder { new_row_id_to_old_row_id: order.iter().map(|&(s, r)| RowAddr { segment_ord: s as u32, row_id: r as u32 }).collect(), alive_bitsets: alive_sets }.into()
    };
    ctx.report.count(if shuffled { "merge:shuffled" } else { "merge:stack" });
    if any_delete { ctx.report.count("merge:with-deletes"); }
    ctx.report.case(&format!("merge|{k}|{shuffled}|{}|{}", order.len(), crate::report::fnv(&files.concat())), k >= 2 || any_delete);
    let mut out = vec![];
    if let Err(e) = merge_columnar(&reader_refs, &[], merge_order, &mut out) {
        oracle(ctx, "C08:merge-error", format!("merge_columnar failed: {e}"), case);
        return;
    }
    let merged = match ColumnarReader::open(out) {
        Ok(r) => r,
        Err(e) => { oracle(ctx, "C08:merge-open", format!("merged columnar does not open: {e}"), case); return; }
    };
    if merged.num_docs() as usize != order.len() {
        oracle(ctx, "C08:merge-num-docs", format!("merged num_docs {} for {} surviving rows", merged.num_docs(), order.len()), case);
        return;
    }
    let handles = merged.list_columns().unwrap_or_default();
    // per-input real column types (the writer may have coerced already)
    let mut seen_groups: BTreeMap<(String, Cat), ()> = BTreeMap::new();
    for (name, cat) in &groups {
        seen_groups.insert((name.clone(), *cat), ());
        let what = format!("merged column {name:?} ({cat:?}, {} inputs, {})", k, if shuffled { "shuffled" } else { "stacked" });
        // expected rows in the *original* values, through each input's own column type
        let mut exp: Vec<Vec<Val>> = Vec::with_capacity(order.len());
        let mut in_types: Vec<Option<ColumnType>> = vec![];
        for (s, (_, cols)) in inputs.iter().enumerate() {
            let t = readers[s].list_columns().unwrap_or_default().into_iter().find(|(n, h)| n == name && cat_of(h.column_type()) == *cat).map(|(_, h)| h.column_type());
            let _ = cols;
            in_types.push(t);
        }
        let mut coercion_problem = None;
        for &(s, r) in &order {
            let row = inputs[s].1.iter().find(|c| &c.name == name && c.cat == *cat).map(|c| c.rows[r].clone()).unwrap_or_default();
            let row = match in_types[s] { Some(t) => match expected_in_type(&[row], t) { Ok(mut e) => e.pop().unwrap(), Err(e) => { coercion_problem = Some(e); vec![] } }, None => vec![] };
            exp.push(row);
        }
        if let Some(p) = coercion_problem {
            oracle(ctx, "C08:coercion-not-representable", format!("{what}: input column {p}"), case);
            continue;
        }
        let hs = find_handle(&handles, name, *cat);
        let survivors = exp.iter().any(|r| !r.is_empty());
        if !survivors {
            if let Some(h) = hs.first() {
                if let Ok(dc) = h.open() { if dc.num_values() != 0 { oracle(ctx, "C08:merge-ghost-values", format!("{what}: no value survives but the merged column holds {}", dc.num_values()), case); } }
            }
            continue;
        }
        if hs.len() != 1 {
            oracle(ctx, "C08:merge-column-missing", format!("{what}: {} merged columns of that name and category", hs.len()), case);
            continue;
        }
        let h = hs[0];
        ctx.report.count(&format!("merge:type:{:?}", h.column_type()));
        if in_types.iter().flatten().any(|t| *t != h.column_type()) { ctx.report.count("merge:numeric-coercion-across-inputs"); }
        let exp_t = match expected_in_type(&exp, h.column_type()) {
            Ok(e) => e,
            Err(e) => { oracle(ctx, "C08:coercion-not-representable", format!("{what}: merged type {:?} but {e}", h.column_type()), case); continue; }
        };
        let dc = match h.open() { Ok(d) => d, Err(e) => { oracle(ctx, "C08:column-open", format!("{what}: open failed: {e}"), case); continue; } };
        let u64rows = check_dynamic(ctx, &mut rng, Some(h), &dc, &exp_t, &what, case);
        if let (Some(rows), true) = (u64rows.as_ref(), order.len() <= 1500 && matches!(cat, Cat::Bytes | Cat::Str)) {
            dict_merge_model(ctx, &readers, name, *cat, !shuffled, &order, &alive_info, &dc, rows, &what, case);
        }
        // model row mapping on u64-valued groups (merged values as the model's opaque values)
        if let (Some(rows), true) = (u64rows, order.len() <= 700 && !matches!(cat, Cat::Ip | Cat::Bytes | Cat::Str)) {
            // inputs as the model sees them: rows of each input in the merged type's u64 image
            let mut ins_txt = vec![];
            let mut ok = true;
            for (s, (nd, cols)) in inputs.iter().enumerate() {
                match (cols.iter().find(|c| &c.name == name && c.cat == *cat), in_types[s]) {
                    (Some(c), Some(t)) => {
                        let e = expected_in_type(&c.rows, t).and_then(|e| expected_in_type(&e, h.column_type()));
                        match e {
                            Ok(e) => ins_txt.push(rows_text(&e.iter().map(|r| r.iter().map(|v| v.key().1 as u64).collect()).collect::<Vec<Vec<u64>>>())),
                            Err(_) => ok = false,
                        }
                    }
                    _ => ins_txt.push(format!("~{nd}")),
                }
            }
            if ok {
                let req = if shuffled {
                    let o = if order.is_empty() { "-".to_string() } else { order.iter().map(|(s, r)| format!("{s}:{r}")).collect::<Vec<_>>().join(",") };
                    format!("C08 shuffle {o} {}", ins_txt.join("/"))
                } else { format!("C08 stack {}", ins_txt.join("/")) };
                let resp = ctx.model.ask(&req);
                if parse_rows_text(&resp) != Some(rows) {
                    modelv(ctx, "C08:merge-row-mapping", format!("{what}: read(model merge) differs from the real merged column"), case);
                }
                ctx.report.count("merge:model-row-mapping-compared");
            }
        }
    }
    // no column appears that no input had
    for (n, h) in &handles {
        if !seen_groups.contains_key(&(n.clone(), cat_of(h.column_type()))) {
            oracle(ctx, "C08:merge-unknown-column", format!("merged columnar has column {n:?} ({:?}) that no input had", h.column_type()), case);
        }
    }
    if ctx.report.samples.len() < 5 && order.len() > 3 && k >= 2 {
        ctx.report.sample(json!({"section": "merge", "inputs": inputs.iter().map(|(nd, c)| json!({"docs": nd, "columns": c.iter().map(|c| format!("{}:{:?}", c.name, c.cat)).collect::<Vec<_>>()})).collect::<Vec<_>>(), "order": if shuffled { "shuffled" } else { "stack" }, "deletes": any_delete, "first_rows": order.iter().take(6).collect::<Vec<_>>()}));
    }
}

