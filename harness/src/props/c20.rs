//! C20 — checksum validation detects any corruption of a segment file.
//!
//! Ties `Model/Footer.lean` + `Model/Crc32.lean` to `src/directory/footer.rs`,
//! `ManagedDirectory::{open_write, open_read, validate_checksum}`, `Index::validate_checksum`:
//!  * every file written through the index directory = body ++ model footer bytes (byte-exact);
//!  * for damaged raw bytes the real verdict equals the model's verdict;
//!  * oracle on the implementation alone: body damage is always reported, intact is never
//!    reported, nothing panics.
use crate::dirs::VDir;
use crate::model::{hex, unhex};
use crate::rng::Rng;
use crate::Ctx;
use serde_json::json;
use std::collections::HashSet;
use std::io::Write;
use std::panic::{catch_unwind, AssertUnwindSafe};
use std::path::{Path, PathBuf};
use tantivy::directory::error::OpenReadError;
use tantivy::directory::ManagedDirectory;
use tantivy::schema::{Schema, FAST, INDEXED, STORED, STRING, TEXT};
use tantivy::{doc, Directory, Index, IndexWriter, Term};

#[derive(Debug, Clone, PartialEq, Eq)]
enum Real {
    Intact,
    Damaged,
    Err(String),
    Panic,
}

fn real_validate(md: &ManagedDirectory, path: &Path) -> Real {
    match catch_unwind(AssertUnwindSafe(|| md.validate_checksum(path))) {
        Ok(Ok(true)) => Real::Intact,
        Ok(Ok(false)) => Real::Damaged,
        Ok(Err(e)) => Real::Err(match e {
            OpenReadError::FileDoesNotExist(_) => "missing".into(),
            OpenReadError::IoError { .. } => "io".into(),
            OpenReadError::IncompatibleIndex(_) => "incompatible".into(),
        }),
        Err(_) => Real::Panic,
    }
}

fn real_open(md: &ManagedDirectory, path: &Path) -> String {
    match catch_unwind(AssertUnwindSafe(|| md.open_read(path).map(|f| f.read_bytes().map(|b| b.as_slice().to_vec())))) {
        Ok(Ok(Ok(b))) => format!("body:{}", hex(&b)),
        Ok(Ok(Err(_))) => "corrupt".into(),
        Ok(Err(OpenReadError::IncompatibleIndex(_))) => "incompatible".into(),
        Ok(Err(_)) => "corrupt".into(),
        Err(_) => "panic".into(),
    }
}

/// where the footer regions of a well-formed file start: (payload_start, trailer_start)
fn regions(raw: &[u8]) -> Option<(usize, usize)> {
    if raw.len() < 8 {
        return None;
    }
    let t = raw.len() - 8;
    let flen = u32::from_le_bytes(raw[t..t + 4].try_into().unwrap()) as usize;
    if flen + 8 > raw.len() {
        return None;
    }
    Some((raw.len() - 8 - flen, t))
}

struct Damage {
    kind: &'static str,
    bytes: Vec<u8>,
    /// touched only the body (the property promises detection)
    body_only: bool,
    /// touched the JSON payload (model and serde_json may classify differently: compare
    /// only intact / not-intact)
    in_payload: bool,
    desc: String,
}

fn damages(rng: &mut Rng, raw: &[u8], exhaustive_limit: usize, samples: usize) -> Vec<Damage> {
    let mut out = vec![];
    let (pstart, tstart) = match regions(raw) {
        Some(x) => x,
        None => return out,
    };
    let body_len = pstart;
    // bit flips in the body
    let mut positions: Vec<usize> = vec![];
    if body_len * 8 <= exhaustive_limit {
        positions.extend(0..body_len * 8);
    } else {
        for b in [0usize, 1, 7, 8, body_len * 8 - 1, body_len * 8 - 8, (body_len / 2) * 8] {
            if b < body_len * 8 {
                positions.push(b);
            }
        }
        for _ in 0..samples {
            positions.push(rng.usize_below(body_len * 8));
        }
    }
    for bit in positions {
        let mut d = raw.to_vec();
        d[bit / 8] ^= 1 << (bit % 8);
        out.push(Damage { kind: "bitflip", bytes: d, body_only: true, in_payload: false, desc: format!("flip bit {bit}") });
    }
    // byte substitutions in the body
    if body_len > 0 {
        for _ in 0..samples.min(64) {
            let i = rng.usize_below(body_len);
            let mut nb = rng.next_u64() as u8;
            if nb == raw[i] {
                nb = nb.wrapping_add(1);
            }
            let mut d = raw.to_vec();
            d[i] = nb;
            out.push(Damage { kind: "bytesub", bytes: d, body_only: true, in_payload: false, desc: format!("byte {i} := {nb}") });
        }
    }
    // truncations of the file
    let mut cuts: Vec<usize> = (0..=12.min(raw.len())).collect();
    cuts.extend([tstart, tstart + 1, tstart + 4, tstart + 7, pstart, pstart + 1, raw.len() - 1]);
    if body_len > 0 {
        cuts.extend([body_len / 2, body_len - 1]);
        for _ in 0..8 {
            cuts.push(rng.usize_below(raw.len()));
        }
    }
    cuts.sort();
    cuts.dedup();
    for c in cuts {
        if c < raw.len() {
            out.push(Damage { kind: "truncate", bytes: raw[..c].to_vec(), body_only: false, in_payload: c > pstart, desc: format!("truncate to {c}") });
        }
    }
    // extension of the body (footer kept) and of the file
    for n in [1usize, 2, 9] {
        let mut d = raw[..pstart].to_vec();
        d.extend(rng.bytes(n));
        d.extend_from_slice(&raw[pstart..]);
        out.push(Damage { kind: "extend-body", bytes: d, body_only: true, in_payload: false, desc: format!("insert {n} bytes at end of body") });
        let mut d = raw.to_vec();
        d.extend(rng.bytes(n));
        out.push(Damage { kind: "extend-file", bytes: d, body_only: false, in_payload: true, desc: format!("append {n} bytes after footer") });
    }
    // damage inside the payload and the trailer
    for _ in 0..12 {
        let i = pstart + rng.usize_below(raw.len() - pstart);
        let mut d = raw.to_vec();
        d[i] ^= 1 << rng.below(8);
        out.push(Damage { kind: if i >= tstart { "trailer-flip" } else { "payload-flip" }, bytes: d, body_only: false, in_payload: i < tstart, desc: format!("flip a bit of byte {i}") });
    }
    out
}

fn model_validate(ctx: &mut Ctx, bytes: &[u8]) -> String {
    ctx.model.ask(&format!("C20 validate {}", hex(bytes)))
}

/// compare one (possibly damaged) raw file; returns false if something was reported
fn check_bytes(ctx: &mut Ctx, vdir: &VDir, md: &ManagedDirectory, path: &Path, original: &[u8], dmg: &Damage) {
    vdir.overwrite_raw(path, &dmg.bytes);
    let real = real_validate(md, path);
    let model = model_validate(ctx, &dmg.bytes);
    vdir.overwrite_raw(path, original);
    ctx.report.count(&format!("damage:{}", dmg.kind));
    ctx.report.count(&format!("model-verdict:{}", model.split(':').next().unwrap_or("")));
    let canon = format!("{}|{}|{}", path.display(), dmg.kind, dmg.desc);
    ctx.report.case(&canon, true);
    let case = json!({
        "kind": "damage", "path": path.to_string_lossy(), "original": hex(original),
        "damaged": hex(&dmg.bytes), "damage": dmg.desc, "damage_kind": dmg.kind,
        "body_only": dmg.body_only, "in_payload": dmg.in_payload,
    });
    judge(ctx, &real, &model, dmg.body_only, dmg.in_payload, dmg.bytes.len(), &dmg.desc, case);
}

fn judge(ctx: &mut Ctx, real: &Real, model: &str, body_only: bool, in_payload: bool, len: usize, desc: &str, case: serde_json::Value) {
    // O5: the property's own oracle on the implementation
    if *real == Real::Panic {
        let key = if (4..8).contains(&len) { "C20:tiny-file-panic" } else { "C20:panic" };
        ctx.report.violation("oracle", key, format!("validate_checksum panicked on a {len}-byte file ({desc})"), case);
        return;
    }
    if body_only && *real == Real::Intact {
        ctx.report.violation("oracle", "C20:body-damage-undetected", format!("body damage not reported ({desc})"), case);
        return;
    }
    // O4: correspondence with the model
    let agree = match (real, model) {
        (Real::Intact, "intact") => true,
        (Real::Damaged, "damaged") => true,
        (Real::Err(_), m) if m.starts_with("unreadable") => true,
        (Real::Damaged, m) | (Real::Err(_), m) if in_payload && m != "intact" => true,
        _ => false,
    };
    if !agree {
        ctx.report.violation("model", "C20:verdict-mismatch", format!("real {:?} vs model {model} ({desc})", real), case);
    }
}

fn build_index(rng: &mut Rng, vdir: &VDir) -> Index {
    let mut sb = Schema::builder();
    let title = sb.add_text_field("title", TEXT | STORED);
    let tag = sb.add_text_field("tag", STRING | FAST);
    let num = sb.add_u64_field("num", FAST | INDEXED | STORED);
    let schema = sb.build();
    let index = Index::create(vdir.clone(), schema, Default::default()).unwrap();
    let mut w: IndexWriter = index.writer_with_num_threads(1, 20_000_000).unwrap();
    let rounds = 1 + rng.usize_below(3);
    let words = ["alpha", "beta", "gamma", "delta", "epsilon", "zeta", "eta", "theta"];
    for r in 0..rounds {
        let n = match rng.below(4) { 0 => 1, 1 => 3, 2 => 40, _ => 200 + rng.usize_below(300) };
        for i in 0..n {
            let len = 1 + rng.usize_below(12);
            let text: Vec<&str> = (0..len).map(|_| *rng.pick(&words)).collect();
            w.add_document(doc!(title => text.join(" "), tag => format!("t{}", i % 7), num => (r * 1000 + i) as u64)).unwrap();
        }
        w.commit().unwrap();
        if rng.chance(1, 2) {
            w.delete_term(Term::from_field_text(tag, "t3"));
            w.commit().unwrap();
        }
    }
    drop(w);
    index
}

fn segment_files(index: &Index) -> Vec<PathBuf> {
    let mut files: Vec<PathBuf> = vec![];
    for m in index.searchable_segment_metas().unwrap() {
        files.extend(m.list_files());
    }
    let managed = index.directory().list_managed_files();
    files.retain(|p| managed.contains(p) && index.directory().exists(p).unwrap_or(false));
    files.sort();
    files
}

fn version_fields(raw: &[u8]) -> Option<(u64, u64, u64, u64, u64)> {
    let (p, t) = regions(raw)?;
    let v: serde_json::Value = serde_json::from_slice(&raw[p..t]).ok()?;
    Some((
        v["version"]["major"].as_u64()?,
        v["version"]["minor"].as_u64()?,
        v["version"]["patch"].as_u64()?,
        v["version"]["index_format_version"].as_u64()?,
        v["crc"].as_u64()?,
    ))
}

fn check_index(ctx: &mut Ctx, exhaustive_limit: usize, samples: usize) {
    let mut rng = ctx.rng.fork();
    let vdir = VDir::new();
    let index = build_index(&mut rng, &vdir);
    let md = index.directory().clone();
    let files = segment_files(&index);
    // intact index: nothing reported
    match catch_unwind(AssertUnwindSafe(|| index.validate_checksum())) {
        Ok(Ok(set)) if set.is_empty() => {}
        other => ctx.report.violation("oracle", "C20:intact-reported", format!("validate_checksum on an intact index: {:?}", other.map(|r| r.map_err(|e| e.to_string()))), json!({"kind":"intact-index","seed":ctx.seed})),
    }
    for path in &files {
        let raw = vdir.raw(path).unwrap();
        ctx.report.count(&format!("ext:{}", path.extension().map(|e| e.to_string_lossy().to_string()).unwrap_or_default()));
        // byte-exact file shape: body ++ model footer
        let body_real = real_open(&md, path);
        let body_model = ctx.model.ask(&format!("C20 open {}", hex(&raw)));
        if body_real != body_model {
            ctx.report.violation("model", "C20:open-read-mismatch", format!("open_read of {}: real {} model {}", path.display(), &body_real[..body_real.len().min(40)], &body_model[..body_model.len().min(40)]), json!({"kind":"open","raw":hex(&raw)}));
            continue;
        }
        if let (Some((ma, mi, pa, fm, _crc)), Some(body)) = (version_fields(&raw), body_real.strip_prefix("body:").and_then(unhex)) {
            let mut h = crc32fast::Hasher::new();
            h.update(&body);
            let crc = h.finalize();
            let crc_model = ctx.model.ask(&format!("C20 crc {}", hex(&body)));
            let footer_model = ctx.model.ask(&format!("C20 footer {ma} {mi} {pa} {fm} {crc}"));
            let footer_real = hex(&raw[body.len()..]);
            if crc_model != crc.to_string() || footer_model != footer_real {
                ctx.report.violation("model", "C20:footer-bytes-mismatch", format!("{}: crc32fast {crc} vs model {crc_model}; footer real {footer_real} vs model {footer_model}", path.display()), json!({"kind":"footer","raw":hex(&raw)}));
            }
            // unsupported versions are refused
            for bad in [0u64, 3, 8, 9, 4_000_000_000] {
                let f = unhex(&ctx.model.ask(&format!("C20 footer {ma} {mi} {pa} {bad} {crc}"))).unwrap();
                let mut d = body.clone();
                d.extend(f);
                vdir.overwrite_raw(path, &d);
                let r = real_open(&md, path);
                let m = ctx.model.ask(&format!("C20 open {}", hex(&d)));
                vdir.overwrite_raw(path, &raw);
                ctx.report.case(&format!("{}|version|{bad}", path.display()), true);
                ctx.report.count("damage:version");
                if r != "incompatible" {
                    ctx.report.violation("oracle", "C20:bad-version-accepted", format!("index_format_version {bad} not refused: {}", &r[..r.len().min(30)]), json!({"kind":"open-expect-incompatible","raw":hex(&d)}));
                } else if m != r {
                    ctx.report.violation("model", "C20:version-mismatch", format!("version {bad}: real {r} model {m}"), json!({"kind":"open","raw":hex(&d)}));
                }
            }
        }
        let intact = Damage { kind: "none", bytes: raw.clone(), body_only: false, in_payload: false, desc: "intact".into() };
        check_bytes(ctx, &vdir, &md, path, &raw, &intact);
        let ds = damages(&mut rng, &raw, exhaustive_limit, samples);
        for d in &ds {
            check_bytes(ctx, &vdir, &md, path, &raw, d);
        }
        // Index::validate_checksum reports exactly the damaged file
        if let Some(d) = ds.iter().find(|d| d.kind == "bitflip") {
            vdir.overwrite_raw(path, &d.bytes);
            let res = catch_unwind(AssertUnwindSafe(|| index.validate_checksum()));
            vdir.overwrite_raw(path, &raw);
            let expected: HashSet<PathBuf> = [path.clone()].into_iter().collect();
            match res {
                Ok(Ok(set)) if set == expected => {}
                other => ctx.report.violation("oracle", "C20:index-validate-wrong-set", format!("Index::validate_checksum with {} damaged: {:?}", path.display(), other.map(|r| r.map_err(|e| e.to_string()))), json!({"kind":"damage","path":path.to_string_lossy(),"original":hex(&raw),"damaged":hex(&d.bytes),"damage":d.desc,"damage_kind":"index-validate","body_only":true,"in_payload":false})),
            }
            ctx.report.count("index-validate-set");
            // the same through a freshly re-opened Index (its managed-file list comes from the
            // persisted `.managed.json`, not from the writer's memory): every committed file must
            // still be walked
            vdir.overwrite_raw(path, &d.bytes);
            let res = catch_unwind(AssertUnwindSafe(|| Index::open(vdir.clone()).and_then(|reopened| reopened.validate_checksum())));
            vdir.overwrite_raw(path, &raw);
            match res {
                Ok(Ok(set)) if set == expected => {}
                other => ctx.report.violation("oracle", "C20:reopened-index-validate-wrong-set", format!("Index::open + validate_checksum with {} damaged: {:?} (expected exactly that file)", path.display(), other.map(|r| r.map_err(|e| e.to_string()))), json!({"kind":"damage","path":path.to_string_lossy(),"original":hex(&raw),"damaged":hex(&d.bytes),"damage":d.desc,"damage_kind":"reopened-index-validate","body_only":true,"in_payload":false})),
            }
            ctx.report.count("reopened-index-validate-set");
        }
    }
    // the persisted managed list must name every committed segment file (Index::validate_checksum
    // only walks files that are both referenced by meta.json and managed)
    {
        let reopened = Index::open(vdir.clone());
        match reopened {
            Ok(r) => {
                let managed = r.directory().list_managed_files();
                let missing: Vec<String> = files.iter().filter(|p| !managed.contains(*p)).map(|p| p.to_string_lossy().to_string()).collect();
                if !missing.is_empty() {
                    ctx.report.violation("oracle", "C20:committed-file-not-in-persisted-managed-list", format!("after re-opening, committed segment files are missing from .managed.json and would be skipped by validate_checksum: {:?}", missing), json!({"kind":"reopen-managed","missing":missing}));
                }
            }
            Err(e) => ctx.report.violation("oracle", "C20:reopen-failed", format!("Index::open on an intact index failed: {e}"), json!({"kind":"reopen"})),
        }
        ctx.report.case("reopen|managed-list", true);
    }
    if ctx.report.samples.len() < 3 {
        ctx.report.sample(json!({"index_files": files.iter().map(|p| p.to_string_lossy().to_string()).collect::<Vec<_>>(), "example": "each file: intact + bit flips + byte substitutions + truncations + extensions + footer damage + bad versions"}));
    }
}

/// FooterProxy under adversarial partial-write sinks, through `ManagedDirectory::open_write`.
fn check_proxy(ctx: &mut Ctx) {
    let mut rng = ctx.rng.fork();
    let vdir = VDir::new();
    vdir.with_state(|s| {
        s.partial = Some(rng.fork());
        s.record_data = true;
    });
    let md = ManagedDirectory::wrap(Box::new(vdir.clone())).unwrap();
    let path = PathBuf::from(format!("proxy{}.bin", rng.below(1_000_000)));
    let mut w = md.open_write(&path).unwrap();
    let mut data: Vec<u8> = vec![];
    let chunks = rng.usize_below(12);
    for _ in 0..chunks {
        let n = match rng.below(4) { 0 => 0, 1 => 1 + rng.usize_below(8), 2 => 100 + rng.usize_below(400), _ => 8192 + rng.usize_below(9000) };
        let c = rng.bytes(n);
        w.write_all(&c).unwrap();
        data.extend(c);
        if rng.chance(1, 3) {
            w.flush().unwrap();
        }
    }
    tantivy::directory::TerminatingWrite::terminate(w).unwrap();
    let raw = vdir.raw(&path).unwrap();
    let log = vdir.log();
    let nwrites = log.iter().filter(|r| r.kind == crate::dirs::OpKind::Write && r.path == path.to_string_lossy()).count();
    ctx.report.count_n("proxy:sink-write-calls", nwrites as u64);
    ctx.report.case(&format!("proxy|{}|{}", data.len(), nwrites), data.len() > 0);
    let body_real = real_open(&md, &path);
    let m = ctx.model.ask(&format!("C20 validate {}", hex(&raw)));
    let case = json!({"kind":"proxy","data":hex(&data),"raw":hex(&raw)});
    if body_real != format!("body:{}", hex(&data)) {
        ctx.report.violation("oracle", "C20:proxy-body-differs", format!("file written through FooterProxy with partial writes does not read back ({} bytes, {} sink writes)", data.len(), nwrites), case);
    } else if m != "intact" || real_validate(&md, &path) != Real::Intact {
        ctx.report.violation("oracle", "C20:proxy-crc-wrong", format!("file written through FooterProxy with partial writes fails validation: model {m}"), case);
    }
}

pub fn replay(ctx: &mut Ctx, case: &serde_json::Value) {
    let kind = case["kind"].as_str().unwrap_or("");
    let vdir = VDir::new();
    let md = ManagedDirectory::wrap(Box::new(vdir.clone())).unwrap();
    let path = PathBuf::from("replay.bin");
    match kind {
        "damage" => {
            let bytes = unhex(case["damaged"].as_str().unwrap()).unwrap();
            vdir.overwrite_raw(&path, &bytes);
            let real = real_validate(&md, &path);
            let model = model_validate(ctx, &bytes);
            ctx.report.case("replay", true);
            ctx.report.notes.push(format!("replay: real {:?} model {model}", real));
            judge(ctx, &real, &model, case["body_only"].as_bool().unwrap_or(false), case["in_payload"].as_bool().unwrap_or(false), bytes.len(), case["damage"].as_str().unwrap_or(""), case.clone());
        }
        "open" | "open-expect-incompatible" | "footer" => {
            let bytes = unhex(case["raw"].as_str().unwrap()).unwrap();
            vdir.overwrite_raw(&path, &bytes);
            let r = real_open(&md, &path);
            let m = ctx.model.ask(&format!("C20 open {}", hex(&bytes)));
            ctx.report.case("replay", true);
            if kind == "open-expect-incompatible" && r != "incompatible" {
                ctx.report.violation("oracle", "C20:bad-version-accepted", format!("not refused: {}", &r[..r.len().min(30)]), case.clone());
            } else if r != m {
                ctx.report.violation("model", "C20:open-read-mismatch", format!("real {} model {}", &r[..r.len().min(40)], &m[..m.len().min(40)]), case.clone());
            }
        }
        _ => ctx.report.notes.push(format!("replay kind {kind} re-runs the generated stream")),
    }
}

pub fn run(ctx: &mut Ctx) {
    ctx.report.rule = "cases = (file of a generated index, damage) pairs and FooterProxy write schedules; \
        distinct = distinct (file, damage kind, position); all are non-trivial (each changes or re-reads real file bytes)".into();
    ctx.report.correspondence_obligations = vec![
        "file bytes = body ++ model footerBytes (byte exact)".into(),
        "crc32fast = model crc32".into(),
        "validate_checksum verdict = model verdict on the same raw bytes".into(),
        "open_read = model openRead (body / incompatible / corrupt)".into(),
        "FooterProxy under partial writes: file validates and reads back".into(),
    ];
    if let Some(case) = ctx.replay.clone() {
        replay(ctx, &case);
        return;
    }
    // corpus first: the tiny-file truncations (known finding F7 region) on a minimal file
    {
        let vdir = VDir::new();
        let md = ManagedDirectory::wrap(Box::new(vdir.clone())).unwrap();
        let path = PathBuf::from("corpus.bin");
        let mut w = md.open_write(&path).unwrap();
        w.write_all(b"hello").unwrap();
        tantivy::directory::TerminatingWrite::terminate(w).unwrap();
        let raw = vdir.raw(&path).unwrap();
        for n in 0..raw.len() {
            let d = Damage { kind: "truncate", bytes: raw[..n].to_vec(), body_only: false, in_payload: n > 5, desc: format!("truncate to {n}") };
            check_bytes(ctx, &vdir, &md, &path, &raw, &d);
        }
    }
    // corpus: the CRC-32 collision witness of `C20_extension_counterexample` replayed on the real
    // code (a 4-byte extension of the body with the footer kept; inherent to a 32-bit checksum)
    {
        let vdir = VDir::new();
        let md = ManagedDirectory::wrap(Box::new(vdir.clone())).unwrap();
        let path = PathBuf::from("collision.bin");
        let mut w = md.open_write(&path).unwrap();
        w.write_all(b"hello").unwrap();
        tantivy::directory::TerminatingWrite::terminate(w).unwrap();
        let raw = vdir.raw(&path).unwrap();
        let mut d = b"hello".to_vec();
        d.extend([4u8, 204, 23, 200]);
        d.extend_from_slice(&raw[5..]);
        vdir.overwrite_raw(&path, &d);
        let real = real_validate(&md, &path);
        let model = model_validate(ctx, &d);
        ctx.report.case("corpus|crc-collision-extension", true);
        let mut h1 = crc32fast::Hasher::new();
        h1.update(b"hello");
        let mut h2 = crc32fast::Hasher::new();
        h2.update(&d[..9]);
        let collides = h1.finalize() == h2.finalize();
        let case = json!({"kind":"damage","path":"collision.bin","original":hex(&raw),"damaged":hex(&d),"damage":"append the colliding 4 bytes 04 cc 17 c8 to body 'hello'","damage_kind":"crc-collision","body_only":true,"in_payload":false});
        if real == Real::Intact && collides {
            // attributed only because the harness itself verified that the two bodies have equal CRC-32
            ctx.report.violation("oracle", "C20:crc32-collision-4-byte-extension", "body extended by 4 bytes with equal CRC-32 is reported intact (inherent to a 32-bit checksum)".into(), case);
        } else if !collides {
            ctx.report.violation("model", "C20:crc-collision-witness-stale", format!("the stored collision witness no longer collides under crc32fast (real {:?}, model {model})", real), case);
        }
        if (model == "intact") != (real == Real::Intact) {
            ctx.report.violation("model", "C20:verdict-mismatch", format!("collision witness: real {:?} vs model {model}", real), json!({"kind":"damage","damaged":hex(&d),"body_only":false,"in_payload":false,"damage":"collision witness"}));
        }
    }
    let indexes = ctx.budget(6, 40);
    let exhaustive_limit = if ctx.thorough() { 2048 * 8 } else { 256 * 8 };
    let samples = if ctx.thorough() { 1500 } else { 150 };
    for _ in 0..indexes {
        check_index(ctx, exhaustive_limit, samples);
    }
    let proxies = ctx.budget(300, 5000);
    for _ in 0..proxies {
        check_proxy(ctx);
    }
}
