use crate::Ctx;
pub mod c20;

pub fn run(prop: &str, ctx: &mut Ctx) -> bool {
    match prop {
        "C20" => c20::run(ctx),
        _ => return false,
    }
    true
}
