//! C02 — a commit publishes exactly the sequential effect of the operations before it.
//!
//! Generated histories over the public `IndexWriter` API (add_document, delete_term,
//! delete_query, run(batch), delete_all_documents, commit, prepare_commit + set_payload +
//! commit / abort / drop, rollback, merge + wait, wait_merging_threads + reopen, drop + reopen,
//! two producer threads sharing `&IndexWriter`), under 1..8 indexing threads, the
//! `set_segment_cut_docs` hook (segments cut every few documents) and {NoMergePolicy,
//! LogMergePolicy with a small min_num_segments}.
//!
//! After every commit / rollback a freshly reloaded searcher is dumped three ways (stored
//! fields, fast field, term queries); the multiset of ids must equal
//!   * the harness's own sequential replay            (oracle),
//!   * `replay` of the Lean specification             (oracle; `C02 replay …`),
//!   * the Lean implementation-level model under a pseudo-random schedule, ticked to the
//!     observed opstamps, when the history satisfies the hypothesis of
//!     `C02_commit_refines_replay_partial`            (model correspondence; `C02 impl …`).
//! Return values: opstamps strictly increasing as documented, commit() = PreparedCommit::opstamp
//! = IndexMeta::opstamp, payload, rollback() = last commit, commit_opstamp().
use crate::rng::Rng;
use crate::Ctx;
use serde::{Deserialize, Serialize};
use serde_json::json;
use std::collections::{BTreeMap, BTreeSet};
use std::ops::Bound;
use std::panic::{catch_unwind, AssertUnwindSafe};
use tantivy::collector::Count;
use tantivy::directory::{MmapDirectory, RamDirectory};
use tantivy::indexer::{LogMergePolicy, NoMergePolicy, UserOperation};
use tantivy::query::{AllQuery, BooleanQuery, EmptyQuery, Occur, Query, RangeQuery, TermQuery};
use tantivy::schema::{Field, IndexRecordOption, Schema, Value, FAST, INDEXED, STORED, STRING, TEXT};
use tantivy::{DocAddress, Index, IndexWriter, ReloadPolicy, TantivyDocument, Term};

const NTAG: u64 = 5;
const NWORD: u64 = 6;
const NGRP: u64 = 3;

const K_F1: &str = "C02:commit-opstamp-stale";
const K_F2: &str = "C02:delete-all-misses-pending-docs";
const K_F3: &str = "C02:delete-all-reverts-stamper";
const K_F8: &str = "C02:reopen-first-delete-published-by-merge";
/// rollback() / drop only set a flag that stops NEW segment-updater tasks: a task that is running
/// (end_merge: save_metas + GC) goes on after the new writer has loaded meta.json
/// with two producer threads a batch stamped earlier can reach the worker later than a younger
/// one; `skip_to(first opstamp of the segment)` has then already passed the deletes of the batch
const K_F10: &str = "C02:producer-race-skip-to-passes-own-delete";
const K_F9: &str = "C02:stale-updater-task-overwrites-meta-after-rollback";
const K_F11: &str = "C02:reused-opstamp-advance-deletes-early-return";

fn mix(mut z: u64) -> u64 {
    z = z.wrapping_add(0x9E37_79B9_7F4A_7C15);
    z = (z ^ (z >> 30)).wrapping_mul(0xBF58_476D_1CE4_E5B9);
    z = (z ^ (z >> 27)).wrapping_mul(0x94D0_49BB_1331_11EB);
    z ^ (z >> 31)
}
// the content of a document is a function of its id (so a case is described by ids alone)
fn doc_tag(id: u64) -> u64 {
    mix(id ^ 0xA1A1) % NTAG
}
fn doc_grp(id: u64) -> u64 {
    mix(id ^ 0xB2B2) % NGRP
}
fn doc_words(id: u64) -> Vec<u64> {
    let h = mix(id ^ 0xC3C3);
    let n = 1 + (h % 3);
    let mut ws: Vec<u64> = (0..n).map(|i| (h >> (8 * (i + 1))) % NWORD).collect();
    ws.sort();
    ws.dedup();
    ws
}
/// ids from FAT_BASE on carry `fat_tokens(id)` tokens that no other document has: a few hundred of
/// them fill the 15 MB arena of an indexing worker (real memory-budget segment cuts)
const FAT_BASE: u64 = 5_000_000;
const FATTER_BASE: u64 = 6_000_000;
fn fat_tokens(id: u64) -> u64 {
    if (FAT_BASE..FATTER_BASE).contains(&id) {
        200
    } else if (FATTER_BASE..FATTER_BASE + 1_000_000).contains(&id) {
        700
    } else {
        0
    }
}
fn doc_body(id: u64) -> String {
    let mut s = doc_words(id).iter().map(|w| format!("w{w}")).collect::<Vec<_>>().join(" ");
    for j in 0..fat_tokens(id) {
        s.push_str(&format!(" u{id}x{j}"));
    }
    s
}
fn short(ids: &[u64]) -> String {
    if ids.len() <= 12 {
        format!("{ids:?}")
    } else {
        format!("{:?} … ({} documents)", &ids[..12], ids.len())
    }
}

/// delete targets; `Id/Tag/Word/Grp` are terms (usable with delete_term and in batches)
#[derive(Serialize, Deserialize, Clone, Debug, PartialEq)]
enum Q {
    Id(u64),
    Tag(u64),
    Word(u64),
    Grp(u64),
    And(Box<Q>, Box<Q>),
    Or(Box<Q>, Box<Q>),
    Range(u64, u64),
    All,
    Nothing,
}

fn q_matches(q: &Q, id: u64) -> bool {
    match q {
        Q::Id(k) => id == *k,
        Q::Tag(t) => doc_tag(id) == *t,
        Q::Word(w) => doc_words(id).contains(w),
        Q::Grp(g) => doc_grp(id) == *g,
        Q::And(a, b) => q_matches(a, id) && q_matches(b, id),
        Q::Or(a, b) => q_matches(a, id) || q_matches(b, id),
        Q::Range(lo, hi) => *lo <= id && id < *hi,
        Q::All => true,
        Q::Nothing => false,
    }
}

#[derive(Clone, Copy)]
struct Fields {
    id: Field,
    tag: Field,
    body: Field,
    grp: Field,
}

fn q_term(q: &Q, f: &Fields) -> Term {
    match q {
        Q::Id(k) => Term::from_field_u64(f.id, *k),
        Q::Tag(t) => Term::from_field_text(f.tag, &format!("t{t}")),
        Q::Word(w) => Term::from_field_text(f.body, &format!("w{w}")),
        Q::Grp(g) => Term::from_field_u64(f.grp, *g),
        _ => panic!("not a term"),
    }
}

fn q_build(q: &Q, f: &Fields) -> Box<dyn Query> {
    match q {
        Q::Id(_) | Q::Tag(_) | Q::Word(_) | Q::Grp(_) => Box::new(TermQuery::new(q_term(q, f), IndexRecordOption::Basic)),
        Q::And(a, b) => Box::new(BooleanQuery::new(vec![(Occur::Must, q_build(a, f)), (Occur::Must, q_build(b, f))])),
        Q::Or(a, b) => Box::new(BooleanQuery::new(vec![(Occur::Should, q_build(a, f)), (Occur::Should, q_build(b, f))])),
        Q::Range(lo, hi) => Box::new(RangeQuery::new(
            Bound::Included(Term::from_field_u64(f.id, *lo)),
            Bound::Excluded(Term::from_field_u64(f.id, *hi)),
        )),
        Q::All => Box::new(AllQuery),
        Q::Nothing => Box::new(EmptyQuery),
    }
}

#[derive(Serialize, Deserialize, Clone, Debug)]
enum BItem {
    Add(u64),
    Del(Q),
}

#[derive(Serialize, Deserialize, Clone, Debug)]
enum HOp {
    Add(u64),
    DelTerm(Q),
    DelQuery(Q),
    Batch(Vec<BItem>),
    DeleteAll,
    Commit,
    CommitPrepared(Option<u64>),
    PrepareDrop,
    PrepareAbort,
    Rollback,
    Merge(u64),
    WaitMergeReopen,
    DropReopen(bool),
    Concurrent(Vec<Vec<HOp>>),
}

#[derive(Serialize, Deserialize, Clone, Debug)]
struct Config {
    threads: usize,
    cut: u32,
    /// 0 = NoMergePolicy, n>0 = LogMergePolicy with min_num_segments n
    policy: usize,
    mmap: bool,
    /// index sorting: 0 none, 1 by `grp` ascending, 2 by `grp` descending, 3 by `id` descending
    /// (doc ids inside a segment are then NOT in opstamp order: the per-document opstamp map of
    /// `apply_deletes` is permuted)
    #[serde(default)]
    sort: u8,
}

#[derive(Serialize, Deserialize, Clone, Debug)]
struct Case {
    config: Config,
    ops: Vec<HOp>,
}

/// token of the Lean line protocol, rendered late (a delete's extension ranges over all ids of
/// the history so far, including documents added after it)
#[derive(Clone, Debug)]
enum Tok {
    Add(u64),
    Del(Q),
    Batch(Vec<BItem>),
    DeleteAll,
    Commit(Option<u64>),
    Rollback,
    Prepare,
}

fn ext(q: &Q, all_ids: &[u64]) -> String {
    let v: Vec<u64> = all_ids.iter().cloned().filter(|i| q_matches(q, *i)).collect();
    crate::model::nat_list(&v)
}

fn render(toks: &[(Tok, Option<u64>)], all_ids: &[u64], with_obs: bool) -> String {
    let mut out = String::new();
    for (t, obs) in toks {
        if !out.is_empty() {
            out.push(' ');
        }
        match t {
            Tok::Add(i) => out.push_str(&format!("a{i}")),
            Tok::Del(q) => out.push_str(&format!("d{}", ext(q, all_ids))),
            Tok::Batch(items) => {
                if items.is_empty() {
                    out.push_str("b-");
                } else {
                    out.push('b');
                    for (k, it) in items.iter().enumerate() {
                        if k > 0 {
                            out.push(';');
                        }
                        match it {
                            BItem::Add(i) => out.push_str(&format!("a{i}")),
                            BItem::Del(q) => out.push_str(&format!("d{}", ext(q, all_ids))),
                        }
                    }
                }
            }
            Tok::DeleteAll => out.push('x'),
            Tok::Commit(None) => out.push('c'),
            Tok::Commit(Some(p)) => out.push_str(&format!("c{p}")),
            Tok::Rollback => out.push('r'),
            Tok::Prepare => out.push('p'),
        }
        if with_obs {
            if let Some(o) = obs {
                out.push_str(&format!("@{o}"));
            }
        }
    }
    out
}

enum Dir {
    Ram(RamDirectory),
    Mmap(tempfile::TempDir),
    /// instrumented RAM directory (operation log with thread ids), used to attribute storage races
    V(crate::dirs::VDir),
}

/// (sequence number of the directory operation, OS thread id) and harness marks, for diagnosis
static TIDS: std::sync::Mutex<Vec<(u64, String)>> = std::sync::Mutex::new(Vec::new());
static MARKS: std::sync::Mutex<Vec<(usize, String)>> = std::sync::Mutex::new(Vec::new());

fn vdir_with_hook(delay_meta_ms: u64) -> crate::dirs::VDir {
    let v = crate::dirs::VDir::new();
    v.with_state(|s| s.record_data = true);
    TIDS.lock().unwrap().clear();
    MARKS.lock().unwrap().clear();
    v.set_hook(Some(std::sync::Arc::new(move |rec: &crate::dirs::OpRec| {
        TIDS.lock().unwrap().push((rec.seq, format!("{:?}", std::thread::current().id())));
        if delay_meta_ms > 0 && rec.kind == crate::dirs::OpKind::AtomicWrite && rec.path.ends_with("meta.json") && rec.thread == "segment_updater" {
            std::thread::sleep(std::time::Duration::from_millis(delay_meta_ms));
        }
    })));
    v
}

impl Dir {
    fn open(&self) -> Box<dyn tantivy::Directory> {
        match self {
            Dir::Ram(r) => Box::new(r.clone()),
            Dir::Mmap(t) => Box::new(MmapDirectory::open(t.path()).unwrap()),
            Dir::V(v) => Box::new(v.clone()),
        }
    }
}

fn make_doc(f: &Fields, id: u64) -> TantivyDocument {
    let mut d = TantivyDocument::default();
    d.add_u64(f.id, id);
    d.add_text(f.tag, format!("t{}", doc_tag(id)));
    d.add_text(f.body, doc_body(id));
    d.add_u64(f.grp, doc_grp(id));
    d
}

/// state of one executed history
struct Exec {
    cfg: Config,
    dir: Dir,
    index: Index,
    f: Fields,
    writer: Option<IndexWriter>,
    // sequential replay (the harness's own oracle)
    committed: Vec<u64>,
    pending: Vec<u64>,
    all_ids: Vec<u64>,
    toks: Vec<(Tok, Option<u64>)>,
    // opstamp bookkeeping
    session_start: u64,
    last_stamp: Option<u64>,
    last_commit: Option<u64>,
    last_payload: Option<Option<u64>>,
    // attribution of the known delete_all defects
    tx_added: Vec<u64>,
    session_dels: Vec<(Q, u64)>,
    stale_dels: Vec<(Q, u64)>,
    stuck_dels: Vec<Q>,
    /// largest opstamp of an add of the current transaction / of adds that were pending at a
    /// delete_all_documents of this writer (they keep their large opstamps in the pipeline: a
    /// worker that serves one of them moves its delete cursor past every younger-stamped delete)
    tx_max_add_op: Option<u64>,
    stale_add_max: Option<u64>,
    f2_cands: BTreeSet<u64>,
    f3_missing: BTreeSet<u64>,
    f3_extra: BTreeSet<u64>,
    dirty_delete_all: bool,
    /// documents of the committed state matched by a delete that was the first stamped operation
    /// of a re-created writer (its opstamp equals the commit opstamp: a merge of committed
    /// segments, whose target is that opstamp, applies and publishes it)
    f8_cands: BTreeSet<u64>,
    /// second manifestation of F8: the same first delete is LOST for the documents of a committed
    /// segment whose delete_opstamp equals the commit opstamp (`advance_deletes` returns early:
    /// "already up to date") when a merge gives the merged segment the advanced cursor of another
    /// source: committed documents matched by that delete whose segment had
    /// delete_opstamp == opstamp at writer creation
    f8_lost_cands: BTreeSet<u64>,
    /// committed documents matched by such a first delete whose segment HAS delete_opstamp ==
    /// commit opstamp: `merge()` skips that source (advance_deletes returns early), so the
    /// unchanged code does not publish the delete through ONE merge; only a chain of merges
    /// (the merged segment, which has no delete_opstamp, merged again) does
    f8_chain_cands: BTreeSet<u64>,
    /// some committed segment had delete_opstamp != commit opstamp when the first delete was issued
    f8_other_source: bool,
    /// the first delete of the re-created writer, and the committed segments at the reopen check
    /// point: (segment id, delete_opstamp, alive ids)
    first_del_q: Option<Q>,
    last_segments: Vec<(String, Option<u64>, Vec<u64>)>,
    /// what the Lean model of merge()/end_merge (with delete_opstamp) says a fresh searcher shows
    /// after the one explicit merge of all committed segments that followed that delete
    merge_prediction: Option<Vec<u64>>,
    explicit_merges_since_first_del: u32,
    /// delete_opstamp of the segment of every published document at the last check point
    last_seg_delop: BTreeMap<u64, Option<u64>>,
    /// documents added by a producer thread and deleted later by the SAME thread inside one
    /// concurrent block in which another thread also adds (every linearisation deletes them)
    f10_cands: BTreeSet<u64>,
    producer_race_seen: bool,
    first_del: bool,
    /// a merge of committed segments can have run since such a delete: a merge policy is set, an
    /// explicit merge was issued, or rollback() re-created the writer (which silently resets the
    /// merge policy to the default LogMergePolicy)
    merge_possible: bool,
    had_delete: bool,
    nsegs_max: usize,
    /// the adds of every `run()` batch of the current transaction (one unit: one segment)
    tx_batches: Vec<Vec<u64>>,
    /// the writer still has the merge policy set by `open_writer` (rollback() resets it)
    policy_intact: bool,
    /// the current writer replaced one (rollback / abort / drop) whose merges could be in flight
    replaced_busy_writer: bool,
    /// a storage race of F9 was observed: the rest of the history is not meaningful
    poisoned: bool,
    fresh: bool,
    was_fresh: bool,
    checkpoints: u64,
    errors: Vec<String>,
}

struct Finding {
    kind: &'static str,
    key: String,
    what: String,
}

impl Exec {
    fn new(cfg: &Config) -> Exec {
        let mut sb = Schema::builder();
        let id = sb.add_u64_field("id", FAST | INDEXED | STORED);
        let tag = sb.add_text_field("tag", STRING | STORED);
        let body = sb.add_text_field("body", TEXT | STORED);
        let grp = sb.add_u64_field("grp", FAST | INDEXED | STORED);
        let schema = sb.build();
        let dir = if let Ok(ms) = std::env::var("C02_VDIR") {
            Dir::V(vdir_with_hook(ms.parse().unwrap_or(0)))
        } else if cfg.mmap {
            Dir::Mmap(tempfile::tempdir().unwrap())
        } else {
            Dir::Ram(RamDirectory::create())
        };
        let mut settings = tantivy::IndexSettings::default();
        settings.sort_by_field = match cfg.sort {
            1 => Some(tantivy::IndexSortByField { field: "grp".into(), order: tantivy::Order::Asc }),
            2 => Some(tantivy::IndexSortByField { field: "grp".into(), order: tantivy::Order::Desc }),
            3 => Some(tantivy::IndexSortByField { field: "id".into(), order: tantivy::Order::Desc }),
            _ => None,
        };
        let index = Index::create(dir.open(), schema, settings).unwrap();
        tantivy::verif::set_segment_cut_docs(cfg.cut);
        let mut e = Exec {
            cfg: cfg.clone(),
            dir,
            index,
            f: Fields { id, tag, body, grp },
            writer: None,
            committed: vec![],
            pending: vec![],
            all_ids: vec![],
            toks: vec![],
            session_start: 0,
            last_stamp: None,
            last_commit: None,
            last_payload: None,
            tx_added: vec![],
            session_dels: vec![],
            stale_dels: vec![],
            stuck_dels: vec![],
            tx_max_add_op: None,
            stale_add_max: None,
            f2_cands: BTreeSet::new(),
            f3_missing: BTreeSet::new(),
            f3_extra: BTreeSet::new(),
            dirty_delete_all: false,
            f8_cands: BTreeSet::new(),
            f8_lost_cands: BTreeSet::new(),
            f8_chain_cands: BTreeSet::new(),
            f8_other_source: false,
            first_del_q: None,
            last_segments: vec![],
            merge_prediction: None,
            explicit_merges_since_first_del: 0,
            last_seg_delop: BTreeMap::new(),
            f10_cands: BTreeSet::new(),
            producer_race_seen: false,
            first_del: false,
            merge_possible: cfg.policy != 0,
            had_delete: false,
            nsegs_max: 0,
            tx_batches: vec![],
            policy_intact: true,
            replaced_busy_writer: false,
            poisoned: false,
            fresh: false,
            was_fresh: false,
            checkpoints: 0,
            errors: vec![],
        };
        e.open_writer();
        e
    }

    fn open_writer(&mut self) {
        let w: IndexWriter = self.index.writer_with_num_threads(self.cfg.threads, self.cfg.threads * 15_000_000).unwrap();
        if self.cfg.policy == 0 {
            w.set_merge_policy(Box::new(NoMergePolicy));
        } else {
            let mut p = LogMergePolicy::default();
            p.set_min_num_segments(self.cfg.policy);
            w.set_merge_policy(Box::new(p));
        }
        self.session_start = self.index.load_metas().unwrap().opstamp;
        self.policy_intact = true;
        self.tx_max_add_op = None;
        self.stale_add_max = None;
        self.tx_batches.clear();
        self.writer = Some(w);
        self.last_stamp = None;
        self.session_dels.clear();
        self.stale_dels.clear();
        self.stuck_dels.clear();
    }

    fn w(&self) -> &IndexWriter {
        self.writer.as_ref().unwrap()
    }

    /// Before replacing the writer (rollback / abort / drop): let the segment-updater thread
    /// finish the tasks it has (a `garbage_collect_files` task queued behind them and waited
    /// for). rollback()/drop do not do that themselves (finding F9, reproduced deterministically
    /// by `lifecycle_race`); without it the generated histories would hit that race at random.
    fn quiesce(&mut self) {
        if let Some(w) = self.writer.as_ref() {
            let _ = w.garbage_collect_files().wait();
        }
        if self.merge_possible {
            self.replaced_busy_writer = true;
        }
    }

    /// a "file does not exist" error on a segment file after the writer replaced a busy one is the
    /// residue of F9 (a merge thread can still slip an end_merge task in between `quiesce` and
    /// the kill flag); anything else keeps its own key
    fn storage_error(&mut self, key: &str, what: String, out: &mut Vec<Finding>) {
        let missing_segment_file = what.contains("FileDoesNotExist") && {
            let name = what.split('"').nth(1).unwrap_or("").rsplit('/').next().unwrap_or("").to_string();
            let stem = name.split('.').next().unwrap_or("");
            stem.len() == 32 && stem.chars().all(|c| c.is_ascii_hexdigit())
        };
        if missing_segment_file && self.replaced_busy_writer {
            self.poisoned = true;
            out.push(Finding { kind: "oracle", key: K_F9.into(), what: format!("{what} — the writer was re-created (rollback / drop) while merges of the previous writer could be in flight") });
        } else {
            out.push(Finding { kind: "oracle", key: key.into(), what });
        }
    }

    /// an opstamp returned by add / delete / run / commit / prepare: strictly increasing
    fn stamp(&mut self, o: u64, what: &str, out: &mut Vec<Finding>) {
        if let Some(prev) = self.last_stamp {
            if o <= prev {
                out.push(Finding { kind: "oracle", key: "C02:opstamp-not-increasing".into(), what: format!("{what} returned opstamp {o} after {prev}") });
            }
        }
        self.last_stamp = Some(o);
        self.was_fresh = self.fresh;
        self.fresh = false;
    }

    /// more than one merge of committed segments can have run since the first delete of the
    /// re-created writer: a merge policy is active (the configured one, or the default one that
    /// rollback() silently installs), or two explicit merges were issued
    fn merge_chain_possible(&self) -> bool {
        self.cfg.policy != 0 || !self.policy_intact || self.explicit_merges_since_first_del >= 2
    }

    fn tainted(&self, now: u64) -> bool {
        self.stale_dels.iter().any(|(_, o)| *o >= now) || self.stale_add_max.map_or(false, |m| m >= now)
    }

    fn note_add(&mut self, id: u64, op: u64) {
        self.all_ids.push(id);
        self.pending.push(id);
        self.tx_added.push(id);
        self.tx_max_add_op = Some(self.tx_max_add_op.map_or(op, |m| m.max(op)));
        // F3: a delete issued before a delete_all of this session can still hit the document,
        // either directly (the reverted stamper gave the add a smaller opstamp) or through a
        // later delete queued behind it (applied without per-document opstamps once reached)
        if self.stale_dels.iter().any(|(q, dop)| q_matches(q, id) && op < *dop) {
            self.f3_missing.insert(id);
        }
        if self.tainted(op) && self.stuck_dels.iter().any(|q| q_matches(q, id)) {
            self.f3_missing.insert(id);
        }
    }

    fn note_del(&mut self, q: &Q, op: u64) {
        self.had_delete = true;
        if op == self.session_start && self.was_fresh {
            self.first_del = true;
            self.first_del_q = Some(q.clone());
            self.explicit_merges_since_first_del = 0;
            // what the model of merge() / end_merge predicts for the unchanged code: a source whose
            // delete_opstamp equals the commit opstamp C is skipped by advance_deletes(target = C),
            // every other source gets the delete applied (and end_merge publishes it); the catch-up
            // of end_merge (`delete.opstamp < C`) never applies a delete stamped C
            let c = self.session_start;
            if self.last_seg_delop.values().any(|d| *d != Some(c)) {
                self.f8_other_source = true;
            }
            for id in self.committed.iter().filter(|i| q_matches(q, **i)) {
                if self.last_seg_delop.get(id).cloned().flatten() == Some(c) {
                    self.f8_lost_cands.insert(*id);
                    self.f8_chain_cands.insert(*id);
                } else {
                    self.f8_cands.insert(*id);
                }
            }
        }
        if self.tainted(op) {
            // queued behind a delete with a larger opstamp: may be applied late or never
            for id in self.pending.iter().filter(|i| q_matches(q, **i)) {
                self.f3_extra.insert(*id);
            }
            self.stuck_dels.push(q.clone());
        }
        self.pending.retain(|i| !q_matches(q, *i));
        self.session_dels.push((q.clone(), op));
    }

    fn apply(&mut self, ctx: &mut Ctx, op: &HOp, case: &Case, out: &mut Vec<Finding>) {
        match op {
            HOp::Add(id) => match self.w().add_document(make_doc(&self.f, *id)) {
                Ok(o) => {
                    self.stamp(o, "add_document", out);
                    self.note_add(*id, o);
                    self.toks.push((Tok::Add(*id), Some(o)));
                }
                Err(e) => self.errors.push(format!("add_document: {e}")),
            },
            HOp::DelTerm(q) => {
                let o = self.w().delete_term(q_term(q, &self.f));
                self.stamp(o, "delete_term", out);
                self.note_del(q, o);
                self.toks.push((Tok::Del(q.clone()), Some(o)));
            }
            HOp::DelQuery(q) => match self.w().delete_query(q_build(q, &self.f)) {
                Ok(o) => {
                    self.stamp(o, "delete_query", out);
                    self.note_del(q, o);
                    self.toks.push((Tok::Del(q.clone()), Some(o)));
                }
                Err(e) => self.errors.push(format!("delete_query: {e}")),
            },
            HOp::Batch(items) => {
                let ops: Vec<UserOperation> = items
                    .iter()
                    .map(|it| match it {
                        BItem::Add(id) => UserOperation::Add(make_doc(&self.f, *id)),
                        BItem::Del(q) => UserOperation::Delete(q_term(q, &self.f)),
                    })
                    .collect();
                match self.w().run(ops) {
                    Ok(o) => {
                        self.stamp(o, "run", out);
                        let n = items.len() as u64;
                        for (k, it) in items.iter().enumerate() {
                            let iop = (o + k as u64).saturating_sub(n);
                            match it {
                                BItem::Add(id) => self.note_add(*id, iop),
                                BItem::Del(q) => self.note_del(q, iop),
                            }
                        }
                        let adds: Vec<u64> = items.iter().filter_map(|it| if let BItem::Add(i) = it { Some(*i) } else { None }).collect();
                        if adds.len() > 1 {
                            self.tx_batches.push(adds);
                        }
                        self.toks.push((Tok::Batch(items.clone()), Some(o)));
                    }
                    Err(e) => self.errors.push(format!("run: {e}")),
                }
            }
            HOp::DeleteAll => match self.w().delete_all_documents() {
                Ok(o) => {
                    // the returned value is IndexWriter::committed_opstamp (see F1)
                    let expect = self.last_commit_of_session();
                    if o != expect {
                        if o == self.session_start {
                            out.push(Finding { kind: "oracle", key: K_F1.into(), what: format!("delete_all_documents returned {o}, the opstamp at writer creation, although the last commit returned {expect}") });
                        } else {
                            out.push(Finding { kind: "oracle", key: "C02:delete-all-opstamp-wrong".into(), what: format!("delete_all_documents returned {o}; last commit {expect}; writer created at {}", self.session_start) });
                        }
                    }
                    if !self.tx_added.is_empty() || !self.session_dels.is_empty() {
                        self.dirty_delete_all = true;
                    }
                    for id in &self.tx_added {
                        self.f2_cands.insert(*id);
                    }
                    self.stale_dels = self.session_dels.clone();
                    if let Some(m) = self.tx_max_add_op {
                        self.stale_add_max = Some(self.stale_add_max.map_or(m, |x| x.max(m)));
                    }
                    self.tx_batches.clear();
                    self.fresh = false;
                    self.pending.clear();
                    self.last_stamp = None; // the stamper was reverted (documented: "reverted stamp")
                    self.toks.push((Tok::DeleteAll, Some(o)));
                }
                Err(e) => self.errors.push(format!("delete_all_documents: {e}")),
            },
            HOp::Commit => {
                let r = self.writer.as_mut().unwrap().commit();
                match r {
                    Ok(o) => self.after_commit(ctx, o, None, None, case, out),
                    Err(e) => self.storage_error("C02:commit-error", format!("commit failed: {e}"), out),
                }
            }
            HOp::CommitPrepared(payload) => {
                let w = self.writer.as_mut().unwrap();
                let r = w.prepare_commit().and_then(|mut pc| {
                    let po = pc.opstamp();
                    if let Some(p) = payload {
                        pc.set_payload(&format!("payload-{p}"));
                    }
                    pc.commit().map(|o| (po, o))
                });
                match r {
                    Ok((po, o)) => self.after_commit(ctx, o, Some(po), *payload, case, out),
                    Err(e) => self.storage_error("C02:commit-error", format!("prepared commit failed: {e}"), out),
                }
            }
            HOp::PrepareDrop => {
                let r = self.writer.as_mut().unwrap().prepare_commit().map(|pc| pc.opstamp());
                match r {
                    Ok(o) => {
                        self.stamp(o, "prepare_commit", out);
                        self.toks.push((Tok::Prepare, Some(o)));
                    }
                    Err(e) => self.errors.push(format!("prepare_commit: {e}")),
                }
            }
            HOp::PrepareAbort => {
                self.quiesce();
                let r = self.writer.as_mut().unwrap().prepare_commit().and_then(|pc| pc.abort());
                match r {
                    Ok(o) => {
                        self.merge_possible = true;
                        self.policy_intact = false;
                        self.after_rollback(ctx, Some(o), "abort", case, out)
                    }
                    Err(e) => out.push(Finding { kind: "oracle", key: "C02:rollback-error".into(), what: format!("abort failed: {e}") }),
                }
            }
            HOp::Rollback => {
                self.quiesce();
                let r = self.writer.as_mut().unwrap().rollback();
                match r {
                    Ok(o) => {
                        self.merge_possible = true;
                        self.policy_intact = false;
                        self.after_rollback(ctx, Some(o), "rollback", case, out)
                    }
                    Err(e) => out.push(Finding { kind: "oracle", key: "C02:rollback-error".into(), what: format!("rollback failed: {e}") }),
                }
            }
            HOp::Merge(mask) => {
                let mut ids = self.index.searchable_segment_ids().unwrap_or_default();
                ids.sort();
                let chosen: Vec<_> = ids.iter().enumerate().filter(|(k, _)| (mask >> (k % 16)) & 1 == 1).map(|(_, i)| *i).collect();
                if !chosen.is_empty() {
                    self.merge_possible = true;
                    self.explicit_merges_since_first_del += 1;
                    ctx.report.count("op:merge-started");
                    // model correspondence for the corner next to F8: first delete of a re-created
                    // writer, then ONE explicit merge of ALL committed segments, no merge policy
                    let predictable = self.first_del && self.explicit_merges_since_first_del == 1 && self.cfg.policy == 0
                        && self.policy_intact && chosen.len() == ids.len() && self.toks.last().map_or(false, |(t, _)| matches!(t, Tok::Del(_) | Tok::Batch(_)))
                        && self.session_dels.len() == 1;
                    let fut = self.writer.as_mut().unwrap().merge(&chosen);
                    let merged = fut.wait();
                    if predictable && merged.is_ok() {
                        if let Some(q) = self.first_del_q.clone() {
                            let mut segs: Vec<&(String, Option<u64>, Vec<u64>)> = vec![];
                            for sid in &chosen {
                                if let Some(s) = self.last_segments.iter().find(|s| s.0 == sid.uuid_string()) {
                                    segs.push(s);
                                }
                            }
                            if segs.len() == chosen.len() {
                                let victims: Vec<u64> = self.committed.iter().cloned().filter(|i| q_matches(&q, *i)).collect();
                                let segtxt: Vec<String> = segs.iter().map(|s| format!("{}:{}", s.1.map_or("-".to_string(), |d| d.to_string()), crate::model::nat_list(&s.2))).collect();
                                let resp = ask(ctx, &format!("C02 mergecorner {} {} {}", self.session_start, crate::model::nat_list(&victims), segtxt.join(";")));
                                ctx.report.count("merge-corner:model-asked");
                                self.merge_prediction = field(&resp, "pub").and_then(|s| crate::model::parse_nat_list(&s));
                            }
                        }
                    }
                    match merged {
                        Ok(_) => ctx.report.count("op:merge-ok"),
                        Err(_) => ctx.report.count("op:merge-refused"),
                    }
                }
            }
            HOp::WaitMergeReopen => {
                let w = self.writer.take().unwrap();
                if let Err(e) = w.wait_merging_threads() {
                    self.errors.push(format!("wait_merging_threads: {e}"));
                }
                self.open_writer();
                self.after_rollback(ctx, None, "wait_merging_threads+reopen", case, out);
            }
            HOp::DropReopen(open_index) => {
                self.quiesce();
                drop(self.writer.take());
                if *open_index {
                    self.index = Index::open(self.dir.open()).unwrap();
                }
                self.open_writer();
                self.after_rollback(ctx, None, "drop+reopen", case, out);
            }
            HOp::Concurrent(threads) => self.concurrent(threads, out),
        }
    }

    /// two (or more) producer threads share `&IndexWriter`; their operations touch disjoint ids
    fn concurrent(&mut self, threads: &[Vec<HOp>], out: &mut Vec<Finding>) {
        let f = self.f;
        let w = self.writer.as_ref().unwrap();
        let results: Vec<Vec<(HOp, Result<u64, String>)>> = std::thread::scope(|s| {
            let hs: Vec<_> = threads
                .iter()
                .map(|ops| {
                    s.spawn(move || {
                        let mut res = vec![];
                        for op in ops {
                            let r = match op {
                                HOp::Add(id) => w.add_document(make_doc(&f, *id)).map_err(|e| e.to_string()),
                                HOp::DelTerm(q) => Ok(w.delete_term(q_term(q, &f))),
                                HOp::DelQuery(q) => w.delete_query(q_build(q, &f)).map_err(|e| e.to_string()),
                                HOp::Batch(items) => {
                                    let ops: Vec<UserOperation> = items
                                        .iter()
                                        .map(|it| match it {
                                            BItem::Add(id) => UserOperation::Add(make_doc(&f, *id)),
                                            BItem::Del(q) => UserOperation::Delete(q_term(q, &f)),
                                        })
                                        .collect();
                                    w.run(ops).map_err(|e| e.to_string())
                                }
                                _ => Err("unsupported in a producer thread".to_string()),
                            };
                            res.push((op.clone(), r));
                        }
                        res
                    })
                })
                .collect();
            hs.into_iter().map(|h| h.join().unwrap()).collect()
        });
        // F10 candidates: added, then deleted by the same thread, while another thread adds
        let adders = threads.iter().filter(|ops| ops.iter().any(|o| matches!(o, HOp::Add(_)) || matches!(o, HOp::Batch(items) if items.iter().any(|i| matches!(i, BItem::Add(_)))))).count();
        if adders >= 2 {
            for ops in threads {
                let mut flat: Vec<(bool, u64, Option<Q>)> = vec![];
                for op in ops {
                    match op {
                        HOp::Add(i) => flat.push((true, *i, None)),
                        HOp::DelTerm(q) | HOp::DelQuery(q) => flat.push((false, 0, Some(q.clone()))),
                        HOp::Batch(items) => for it in items {
                            match it {
                                BItem::Add(i) => flat.push((true, *i, None)),
                                BItem::Del(q) => flat.push((false, 0, Some(q.clone()))),
                            }
                        },
                        _ => {}
                    }
                }
                for (k, (is_add, id, _)) in flat.iter().enumerate() {
                    if *is_add && flat[k + 1..].iter().any(|(a, _, q)| !*a && q.as_ref().map_or(false, |q| q_matches(q, *id))) {
                        self.f10_cands.insert(*id);
                    }
                }
            }
        }
        // per thread: opstamps strictly increasing in program order
        let mut all: Vec<(u64, HOp)> = vec![];
        for (t, res) in results.iter().enumerate() {
            let mut prev: Option<u64> = self.last_stamp;
            for (op, r) in res {
                match r {
                    Ok(o) => {
                        if let Some(p) = prev {
                            if *o <= p {
                                out.push(Finding { kind: "oracle", key: "C02:opstamp-not-increasing".into(), what: format!("producer thread {t}: opstamp {o} after {p}") });
                            }
                        }
                        prev = Some(*o);
                        all.push((*o, op.clone()));
                    }
                    Err(e) => self.errors.push(format!("producer thread {t}: {e}")),
                }
            }
        }
        // linearise by opstamp (the operations of different threads commute: disjoint ids)
        all.sort_by_key(|(o, _)| *o);
        let mut seen = BTreeSet::new();
        for (o, op) in all {
            if !seen.insert(o) {
                out.push(Finding { kind: "oracle", key: "C02:opstamp-duplicate".into(), what: format!("two concurrent operations returned opstamp {o}") });
            }
            self.last_stamp = Some(self.last_stamp.map_or(o, |p| p.max(o)));
            self.was_fresh = self.fresh;
            self.fresh = false;
            match op {
                HOp::Add(id) => {
                    self.note_add(id, o);
                    self.toks.push((Tok::Add(id), Some(o)));
                }
                HOp::DelTerm(q) | HOp::DelQuery(q) => {
                    self.note_del(&q, o);
                    self.toks.push((Tok::Del(q), Some(o)));
                }
                HOp::Batch(items) => {
                    let n = items.len() as u64;
                    for (k, it) in items.iter().enumerate() {
                        let iop = (o + k as u64).saturating_sub(n);
                        match it {
                            BItem::Add(id) => self.note_add(*id, iop),
                            BItem::Del(q) => self.note_del(q, iop),
                        }
                    }
                    let adds: Vec<u64> = items.iter().filter_map(|it| if let BItem::Add(i) = it { Some(*i) } else { None }).collect();
                    if adds.len() > 1 {
                        self.tx_batches.push(adds);
                    }
                    self.toks.push((Tok::Batch(items), Some(o)));
                }
                _ => {}
            }
        }
    }

    fn last_commit_of_session(&self) -> u64 {
        self.index.load_metas().map(|m| m.opstamp).unwrap_or(0)
    }

    fn after_commit(&mut self, ctx: &mut Ctx, o: u64, prepared: Option<u64>, payload: Option<u64>, case: &Case, out: &mut Vec<Finding>) {
        // larger than every operation it includes
        self.stamp(o, "commit", out);
        let prev_payload: Option<Option<u64>> = self.last_payload;
        if let Some(po) = prepared {
            if po != o {
                out.push(Finding { kind: "oracle", key: "C02:commit-opstamp-mismatch".into(), what: format!("PreparedCommit::opstamp() = {po} but commit() returned {o}") });
            }
        }
        self.committed = self.pending.clone();
        self.merge_prediction = None;
        self.tx_added.clear();
        self.tx_max_add_op = None;
        self.last_commit = Some(o);
        self.last_payload = Some(payload);
        self.toks.push((Tok::Commit(payload), Some(o)));
        match self.index.load_metas() {
            Ok(m) => {
                if m.opstamp != o {
                    out.push(Finding { kind: "oracle", key: "C02:meta-opstamp-mismatch".into(), what: format!("commit() returned {o} but meta.json has opstamp {}", m.opstamp) });
                }
                let want = payload.map(|p| format!("payload-{p}"));
                if m.payload != want {
                    // residue of F9: an end_merge task of the PREVIOUS writer saved meta.json with the
                    // payload (and opstamp) it had loaded, after this commit
                    let stale = prev_payload.map(|pp| pp.map(|x| format!("payload-{x}")));
                    if self.replaced_busy_writer && stale == Some(m.payload.clone()) {
                        self.poisoned = true;
                        out.push(Finding { kind: "oracle", key: K_F9.into(), what: format!("meta.json carries the payload {:?} of the previous commit instead of {:?}: an end_merge task of the previous writer saved its own meta.json after this writer's commit (the writer was re-created while merges could be in flight)", m.payload, want) });
                    } else {
                        out.push(Finding { kind: "oracle", key: "C02:payload-mismatch".into(), what: format!("payload {:?} published, {:?} expected", m.payload, want) });
                    }
                }
            }
            Err(e) => out.push(Finding { kind: "oracle", key: "C02:meta-unreadable".into(), what: format!("load_metas after commit: {e}") }),
        }
        let cop = self.w().commit_opstamp();
        if cop != o {
            if cop == self.session_start {
                out.push(Finding { kind: "oracle", key: K_F1.into(), what: format!("commit() returned {o} but commit_opstamp() = {cop}, the opstamp at writer creation") });
            } else {
                out.push(Finding { kind: "oracle", key: "C02:commit-opstamp-wrong".into(), what: format!("commit() returned {o}, commit_opstamp() = {cop}, writer created at {}", self.session_start) });
            }
        }
        self.checkpoint(ctx, "commit", Some(cop), case, out);
    }

    fn after_rollback(&mut self, ctx: &mut Ctx, ret: Option<u64>, how: &str, case: &Case, out: &mut Vec<Finding>) {
        self.pending = self.committed.clone();
        self.tx_added.clear();
        self.tx_batches.clear();
        self.tx_max_add_op = None;
        self.stale_add_max = None;
        self.session_dels.clear();
        self.stale_dels.clear();
        self.stuck_dels.clear();
        self.last_stamp = None;
        let meta_op = self.index.load_metas().map(|m| m.opstamp).unwrap_or(u64::MAX);
        self.session_start = meta_op;
        if let Some(r) = ret {
            if r != meta_op {
                out.push(Finding { kind: "oracle", key: "C02:rollback-opstamp-wrong".into(), what: format!("{how} returned {r}, meta.json has opstamp {meta_op}") });
            }
        }
        if let Some(lc) = self.last_commit {
            if lc != meta_op {
                out.push(Finding { kind: "oracle", key: "C02:meta-opstamp-mismatch".into(), what: format!("after {how}: meta.json opstamp {meta_op}, last commit returned {lc}") });
            }
        }
        self.toks.push((Tok::Rollback, None));
        self.fresh = true;
        let cop = self.w().commit_opstamp();
        if cop != meta_op {
            out.push(Finding { kind: "oracle", key: "C02:commit-opstamp-wrong".into(), what: format!("after {how}: commit_opstamp() = {cop}, meta.json opstamp {meta_op}") });
        }
        self.checkpoint(ctx, how, Some(cop), case, out);
    }

    /// dump a fresh searcher three ways
    fn dump(&mut self) -> Result<(Vec<u64>, Vec<u64>, Vec<u64>, Vec<String>, BTreeMap<u64, usize>), String> {
        let reader = self.index.reader_builder().reload_policy(ReloadPolicy::Manual).try_into().map_err(|e: tantivy::TantivyError| e.to_string())?;
        reader.reload().map_err(|e| e.to_string())?;
        let searcher = reader.searcher();
        let mut stored = vec![];
        let mut fast = vec![];
        let mut field_errors = vec![];
        let mut seg_of: BTreeMap<u64, usize> = BTreeMap::new();
        let mut delops: BTreeMap<u64, Option<u64>> = BTreeMap::new();
        let mut segments: Vec<(String, Option<u64>, Vec<u64>)> = vec![];
        self.nsegs_max = self.nsegs_max.max(searcher.segment_readers().len());
        let mut total = 0u64;
        for (ord, sr) in searcher.segment_readers().iter().enumerate() {
            let col = sr.fast_fields().u64("id").map_err(|e| e.to_string())?;
            if std::env::var("C02_DIAG_ALL").is_ok() {
                let all: Vec<(u32, Option<u64>, bool)> = (0..sr.max_doc()).map(|d| (d, col.first(d), sr.alive_bitset().map_or(true, |b| b.is_alive(d)))).collect();
                eprintln!("DIAG checkpoint {} segment {} ord {} docs(doc,id,alive) {:?}", self.checkpoints, sr.segment_id().uuid_string(), ord, all);
            }
            let gcol = sr.fast_fields().u64("grp").map_err(|e| e.to_string())?;
            segments.push((sr.segment_id().uuid_string(), sr.delete_opstamp(), sr.doc_ids_alive().filter_map(|d| col.first(d)).collect()));
            total += sr.num_docs() as u64;
            for doc in sr.doc_ids_alive() {
                let fid = col.first(doc);
                match fid {
                    Some(v) => fast.push(v),
                    None => field_errors.push(format!("segment {ord} doc {doc}: no fast id")),
                }
                let d: TantivyDocument = searcher.doc(DocAddress::new(ord as u32, doc)).map_err(|e| e.to_string())?;
                let sid = d.get_first(self.f.id).and_then(|v| v.as_u64());
                match sid {
                    Some(id) => {
                        stored.push(id);
                        seg_of.insert(id, ord);
                        delops.insert(id, sr.delete_opstamp());
                        let tag = d.get_first(self.f.tag).and_then(|v| v.as_str().map(|s| s.to_string()));
                        let body = d.get_first(self.f.body).and_then(|v| v.as_str().map(|s| s.to_string()));
                        let grp = d.get_first(self.f.grp).and_then(|v| v.as_u64());
                        if tag != Some(format!("t{}", doc_tag(id))) || body != Some(doc_body(id)) || grp != Some(doc_grp(id)) || gcol.first(doc) != Some(doc_grp(id)) || fid != Some(id) {
                            field_errors.push(format!("document {id}: fields tag={tag:?} body={:?} grp={grp:?} fast-id={fid:?}", body.map(|b| b.chars().take(60).collect::<String>())));
                        }
                    }
                    None => field_errors.push(format!("segment {ord} doc {doc}: no stored id")),
                }
            }
        }
        if total != stored.len() as u64 || searcher.num_docs() != total {
            field_errors.push(format!("num_docs {} / {} vs {} alive documents", searcher.num_docs(), total, stored.len()));
        }
        // inverted index: every id ever added, by term query
        let mut by_term = vec![];
        for id in &self.all_ids {
            let q = TermQuery::new(Term::from_field_u64(self.f.id, *id), IndexRecordOption::Basic);
            let n = searcher.search(&q, &Count).map_err(|e| e.to_string())?;
            for _ in 0..n {
                by_term.push(*id);
            }
        }
        // and the other indexed fields agree with the stored content
        for t in 0..NTAG {
            let q = TermQuery::new(Term::from_field_text(self.f.tag, &format!("t{t}")), IndexRecordOption::Basic);
            let n = searcher.search(&q, &Count).map_err(|e| e.to_string())?;
            let want = stored.iter().filter(|i| doc_tag(**i) == t).count();
            if n != want {
                field_errors.push(format!("term tag:t{t} matches {n} documents, {want} stored documents carry it"));
            }
        }
        for w in 0..NWORD {
            let q = TermQuery::new(Term::from_field_text(self.f.body, &format!("w{w}")), IndexRecordOption::Basic);
            let n = searcher.search(&q, &Count).map_err(|e| e.to_string())?;
            let want = stored.iter().filter(|i| doc_words(**i).contains(&w)).count();
            if n != want {
                field_errors.push(format!("term body:w{w} matches {n} documents, {want} stored documents carry it"));
            }
        }
        stored.sort();
        fast.sort();
        by_term.sort();
        self.last_seg_delop = delops;
        self.last_segments = segments;
        Ok((stored, fast, by_term, field_errors, seg_of))
    }

    fn checkpoint(&mut self, ctx: &mut Ctx, how: &str, cop: Option<u64>, _case: &Case, out: &mut Vec<Finding>) {
        self.checkpoints += 1;
        ctx.report.count(&format!("checkpoint:{how}"));
        let (stored, fast, by_term, ferrs, seg_of) = match self.dump() {
            Ok(x) => x,
            Err(e) => {
self.storage_error("C02:searcher-unreadable", format!("after {how}: {e}"), out);
                return;
            }
        };
        for fe in ferrs.iter().take(2) {
            out.push(Finding { kind: "oracle", key: "C02:survivor-fields-wrong".into(), what: format!("after {how}: {fe}") });
        }
        if stored != fast || stored != by_term {
            out.push(Finding { kind: "oracle", key: "C02:dump-methods-disagree".into(), what: format!("after {how}: stored {} fast {} term-queries {}", short(&stored), short(&fast), short(&by_term)) });
        }
        // batch atomicity: the adds of one run() batch reach one worker as one unit, i.e. sit in one
        // segment (checked at the commit that publishes them, while nothing can have merged them:
        // NoMergePolicy still set, segments of the transaction are not reachable by merge())
        if how == "commit" {
            if self.cfg.policy == 0 && self.policy_intact {
                for b in &self.tx_batches {
                    let segs: BTreeSet<usize> = b.iter().filter_map(|i| seg_of.get(i).cloned()).collect();
                    ctx.report.count("batch-unit:checked");
                    if segs.len() > 1 {
                        out.push(Finding { kind: "oracle", key: "C02:batch-split-across-segments".into(), what: format!("the adds {} of one run() batch are published in {} different segments", short(b), segs.len()) });
                    }
                }
            }
            self.tx_batches.clear();
        }
        if how != "commit" {
            if let Some(pred) = self.merge_prediction.take() {
                ctx.report.count("merge-corner:compared");
                if pred != stored {
                    out.push(Finding { kind: "model", key: "C02:merge-corner-model-mismatch".into(), what: format!("after {how}: one merge of all committed segments after the first delete of a re-created writer: a fresh searcher shows {}, the Lean model of merge()/end_merge predicts {}", short(&stored), short(&pred)) });
                }
            }
        }
        let mut expected = self.committed.clone();
        expected.sort();
        // the Lean specification
        let spec_line = render(&self.toks, &self.all_ids, false);
        let spec = ask(ctx, &format!("C02 replay {spec_line}"));
        let spec_committed = spec.split(';').next().and_then(|s| s.strip_prefix("committed=")).and_then(crate::model::parse_nat_list);
        let spec_last = field(&spec, "last");
        let spec_payload = field(&spec, "payload");
        match &spec_committed {
            Some(sc) if *sc == expected => {}
            _ => out.push(Finding { kind: "model", key: "C02:spec-replay-vs-harness-replay".into(), what: format!("Lean replay {spec} vs harness replay {:?}", expected) }),
        }
        let want_payload = match self.last_payload { Some(Some(p)) => p.to_string(), _ => "-".to_string() };
        if spec_payload.as_deref() != Some(&want_payload) {
            out.push(Finding { kind: "model", key: "C02:spec-payload".into(), what: format!("Lean replay payload {:?}, harness {want_payload}", spec_payload) });
        }
        let _ = spec_last;
        let clean = ask(ctx, &format!("C02 clean {spec_line}"));
        let cfield = |name: &str| clean.split(';').find_map(|p| p.strip_prefix(&format!("{name}:")).map(|s| s.to_string()));
        let lean_dirty = cfield("dirty").map_or(false, |s| s != "-");
        let lean_first = cfield("firstdel").map_or(false, |s| s != "-");
        // (the history-level rule of the model cannot see a stamp drawn by consider_merge_options
        // before the first call of a re-created writer: it may flag more first-deletes, never fewer)
        if lean_dirty != self.dirty_delete_all || (self.first_del && !lean_first) || (clean == "clean") != !(lean_dirty || lean_first) {
            out.push(Finding { kind: "model", key: "C02:clean-verdict".into(), what: format!("Lean side conditions say {clean}, harness dirty={} first-delete={}", self.dirty_delete_all, self.first_del) });
        }
        let lean_clean = !lean_dirty;
        ctx.report.count(if clean == "clean" { "history:hypothesis-holds" } else if lean_dirty { "history:dirty-delete-all" } else { "history:first-delete-after-reopen" });
        // the property's oracle on the implementation
        let mut dup = vec![];
        for w in stored.windows(2) {
            if w[0] == w[1] {
                dup.push(w[0]);
            }
        }
        if !dup.is_empty() {
            out.push(Finding { kind: "oracle", key: "C02:duplicate-document".into(), what: format!("after {how}: documents {:?} are present more than once", dup) });
        }
        let real: BTreeSet<u64> = stored.iter().cloned().collect();
        let exp: BTreeSet<u64> = expected.iter().cloned().collect();
        let extra: Vec<u64> = real.difference(&exp).cloned().collect();
        let missing: Vec<u64> = exp.difference(&real).cloned().collect();
        if !extra.is_empty() || !missing.is_empty() {
            ctx.report.count("checkpoint:differs-from-replay");
            let (mut f2, mut f3e, mut other_e) = (vec![], vec![], vec![]);
            let mut f10 = vec![];
            let mut f8l = vec![];
            for id in &extra {
                if self.f10_cands.contains(id) {
                    f10.push(*id);
                } else if lean_first && self.first_del && self.merge_possible && self.f8_lost_cands.contains(id)
                    && (self.f8_other_source || self.merge_chain_possible())
                {
                    f8l.push(*id);
                } else if !lean_clean && self.f2_cands.contains(id) {
                    f2.push(*id);
                } else if !lean_clean && self.f3_extra.contains(id) {
                    f3e.push(*id);
                } else {
                    other_e.push(*id);
                }
            }
            let (mut f3m, mut other_m) = (vec![], vec![]);
            let mut f8 = vec![];
            for id in &missing {
                if !lean_clean && self.f3_missing.contains(id) {
                    f3m.push(*id);
                } else if lean_first && self.first_del && self.merge_possible
                    && (self.f8_cands.contains(id) || (self.f8_chain_cands.contains(id) && self.merge_chain_possible()))
                {
                    f8.push(*id);
                } else {
                    other_m.push(*id);
                }
            }
            if !f8.is_empty() {
                out.push(Finding { kind: "oracle", key: K_F8.into(), what: format!("after {how}: documents {:?} were removed and published without a commit: the first delete of a re-created writer has the opstamp of the last commit and a merge of committed segments (target = that opstamp) applied it", f8) });
            }
            if !f8l.is_empty() {
                out.push(Finding { kind: "oracle", key: K_F8.into(), what: format!("after {how}: documents {:?} survive the first delete of a re-created writer: it has the opstamp of the last commit, their segment has delete_opstamp == that opstamp, so advance_deletes(target = that opstamp) skips it as up to date while the merged segment takes the cursor of another, advanced source", f8l) });
            }
            if !f10.is_empty() {
                self.producer_race_seen = true;
                out.push(Finding { kind: "oracle", key: K_F10.into(), what: format!("after {how}: documents {} were added and then deleted by the same producer thread (another thread was adding concurrently) and are published", short(&f10)) });
            }
            if !f2.is_empty() {
                out.push(Finding { kind: "oracle", key: K_F2.into(), what: format!("after {how}: documents {:?} were added before a delete_all_documents of the same transaction and are published", f2) });
            }
            if !f3m.is_empty() {
                out.push(Finding { kind: "oracle", key: K_F3.into(), what: format!("after {how}: documents {:?}, added after a delete_all_documents, were removed by a delete issued before it", f3m) });
            }
            if !f3e.is_empty() {
                out.push(Finding { kind: "oracle", key: K_F3.into(), what: format!("after {how}: documents {:?} survive a later delete: delete_all_documents reverted the stamper below operations still in the pipeline (a delete queued behind one with a larger opstamp, or a worker whose cursor moved past the delete while serving an older document with a larger opstamp)", f3e) });
            }
            if !other_e.is_empty() {
                out.push(Finding { kind: "oracle", key: "C02:unexpected-survivor".into(), what: format!("after {how}: documents {} are published but not in the sequential replay", short(&other_e)) });
            }
            if !other_m.is_empty() {
                out.push(Finding { kind: "oracle", key: "C02:missing-document".into(), what: format!("after {how}: documents {} of the sequential replay are not published", short(&other_m)) });
            }
        }
        // the implementation-level model (every schedule gives the same answer when the hypothesis holds)
        if clean == "clean" && self.producer_race_seen {
            ctx.report.count("impl-model:skipped-after-producer-race");
        } else if clean == "clean" {
            let line = render(&self.toks, &self.all_ids, true);
            let seed = mix(self.checkpoints ^ (self.all_ids.len() as u64) << 8) % 1_000_000_007;
            let resp = ask(ctx, &format!("C02 impl {} {} {}", self.cfg.threads, seed, line));
            ctx.report.count("impl-model:runs");
            let pubs = field(&resp, "pub").and_then(|s| crate::model::parse_nat_list(&s));
            if pubs.as_ref() != Some(&stored) {
                out.push(Finding { kind: "model", key: "C02:impl-model-published-mismatch".into(), what: format!("after {how}: implementation publishes {}, model {}", short(&stored), resp.chars().take(300).collect::<String>()) });
            } else {
                // the same events on the Lean machine with the bookkeeping of advance_deletes
                // (delete_opstamp early return; C02_bookkeeping_refines says when it cannot differ)
                ctx.report.count("impl-model:bookkeeping-compared");
                // how many of these histories the bookkeeping theorem covers (its extra hypothesis:
                // delete_all_documents only on a writer object that has not committed yet)
                let book = ask(ctx, &format!("C02 book {}", render(&self.toks, &self.all_ids, false)));
                ctx.report.count(&format!("impl-model:bookkeeping-hypothesis:{}", if book == "ok" { "holds" } else if book == "dirty" { "fails" } else { "bad-answer" }));
                let pubd = field(&resp, "pubD").and_then(|s| crate::model::parse_nat_list(&s));
                if pubd.as_ref() != Some(&stored) {
                    out.push(Finding { kind: "model", key: "C02:bookkeeping-model-published-mismatch".into(), what: format!("after {how}: implementation publishes {}, the Lean machine with the advance_deletes bookkeeping {:?} (the core machine agrees with the implementation)", short(&stored), field(&resp, "pubD")) });
                }
                let rets = field(&resp, "ret").and_then(|s| crate::model::parse_nat_list(&s)).unwrap_or_default();
                let obs: Vec<Option<u64>> = self.toks.iter().map(|(_, o)| *o).collect();
                for (k, o) in obs.iter().enumerate() {
                    if let (Some(o), Some(r)) = (o, rets.get(k)) {
                        if o != r {
                            out.push(Finding { kind: "model", key: "C02:impl-model-opstamp-mismatch".into(), what: format!("after {how}: call #{k} returned {o}, model {r}") });
                            break;
                        }
                    }
                }
                let meta_model = field(&resp, "meta").and_then(|s| s.parse::<u64>().ok());
                let meta_real = self.index.load_metas().map(|m| m.opstamp).ok();
                if meta_model != meta_real {
                    out.push(Finding { kind: "model", key: "C02:impl-model-meta-opstamp".into(), what: format!("after {how}: meta.json opstamp {:?}, model {:?}", meta_real, meta_model) });
                }
                let cop_model = field(&resp, "cop").and_then(|s| s.parse::<u64>().ok());
                if cop.is_some() && cop_model != cop {
                    out.push(Finding { kind: "model", key: "C02:impl-model-commit-opstamp".into(), what: format!("after {how}: commit_opstamp() {:?}, model {:?}", cop, cop_model) });
                }
                if let Some(n) = field(&resp, "merges").and_then(|s| s.parse::<u64>().ok()) {
                    ctx.report.count_n("impl-model:merges-in-flight-at-end", n);
                }
            }
        }
        let canon = format!("{:?}|{}", (self.cfg.threads, self.cfg.cut, self.cfg.policy), spec_line);
        let nontrivial = self.had_delete && !self.all_ids.is_empty();
        ctx.report.case(&canon, nontrivial);
    }
}

fn ask(ctx: &mut Ctx, line: &str) -> String {
    if let Ok(p) = std::env::var("C02_TRACE") {
        use std::io::Write;
        if let Ok(mut f) = std::fs::OpenOptions::new().create(true).append(true).open(p) {
            let _ = writeln!(f, "{line}");
        }
    }
    ctx.model.ask(line)
}

fn field(resp: &str, name: &str) -> Option<String> {
    resp.split(';').find_map(|p| p.strip_prefix(&format!("{name}=")).map(|s| s.to_string()))
}

// ------------------------------------------------------------------------------------------
// generation

struct Gen {
    next_id: u64,
    live_guess: Vec<u64>,
}

impl Gen {
    fn fresh(&mut self) -> u64 {
        let id = self.next_id;
        self.next_id += 1;
        self.live_guess.push(id);
        id
    }
    fn term(&mut self, rng: &mut Rng) -> Q {
        match rng.below(10) {
            0..=3 => {
                // an existing id, a future id, or an id never used
                match rng.below(6) {
                    0 => Q::Id(self.next_id + rng.below(3)),
                    1 => Q::Id(1_000_000 + rng.below(5)),
                    _ if !self.live_guess.is_empty() => Q::Id(*rng.pick(&self.live_guess)),
                    _ => Q::Id(self.next_id),
                }
            }
            4..=6 => Q::Tag(rng.below(NTAG)),
            7..=8 => Q::Word(rng.below(NWORD)),
            _ => Q::Grp(rng.below(NGRP)),
        }
    }
    fn query(&mut self, rng: &mut Rng) -> Q {
        match rng.below(12) {
            0..=3 => Q::And(Box::new(self.term(rng)), Box::new(self.term(rng))),
            4..=5 => Q::Or(Box::new(self.term(rng)), Box::new(self.term(rng))),
            6..=8 => {
                let lo = rng.below(self.next_id + 2);
                Q::Range(lo, lo + 1 + rng.below(6))
            }
            9 => Q::Nothing,
            10 => Q::And(Box::new(Q::Tag(rng.below(NTAG))), Box::new(Q::Range(0, self.next_id + 3))),
            _ => {
                if rng.chance(1, 4) {
                    Q::All
                } else {
                    self.term(rng)
                }
            }
        }
    }
    fn batch(&mut self, rng: &mut Rng) -> Vec<BItem> {
        let n = match rng.below(8) { 0 => 0, 1 => 1, _ => 2 + rng.usize_below(5) };
        let mut items = vec![];
        for _ in 0..n {
            match rng.below(10) {
                0..=5 => items.push(BItem::Add(self.fresh())),
                6 => {
                    // delete a document added earlier in this very batch, or one added right after
                    let adds: Vec<u64> = items.iter().filter_map(|i| if let BItem::Add(x) = i { Some(*x) } else { None }).collect();
                    if !adds.is_empty() && rng.chance(2, 3) {
                        items.push(BItem::Del(Q::Id(*rng.pick(&adds))));
                    } else {
                        items.push(BItem::Del(Q::Id(self.next_id)));
                    }
                }
                _ => items.push(BItem::Del(self.term(rng))),
            }
        }
        items
    }
}

fn gen_case(rng: &mut Rng, profile: u64) -> Case {
    let threads = match rng.below(6) { 0 | 1 => 1, 2 => 2, 3 => 3, 4 => 4, _ => 8 };
    let cut = *rng.pick(&[0u32, 0, 1, 2, 3, 5]);
    let policy = *rng.pick(&[0usize, 0, 2, 3]);
    let config = Config { threads, cut, policy, mmap: rng.chance(1, 12), sort: *rng.pick(&[0u8, 0, 0, 0, 1, 2, 3, 3]) };
    let mut g = Gen { next_id: rng.below(3), live_guess: vec![] };
    let mut ops: Vec<HOp> = vec![];
    let n = 8 + rng.usize_below(if profile == 2 { 70 } else { 40 });
    // profile 0: no delete_all; 1: delete_all shapes; 2: long, many segments; 3: producers
    while ops.len() < n {
        let mut r = rng.below(1000);
        if (400..670).contains(&r) && matches!(ops.last(), Some(HOp::Rollback) | Some(HOp::PrepareAbort) | Some(HOp::WaitMergeReopen) | Some(HOp::DropReopen(_))) && rng.chance(5, 6) {
            r = 0; // an add first: the first stamped operation of a re-created writer is special (F8)
        }
        match r {
            0..=399 => ops.push(HOp::Add(g.fresh())),
            400..=519 => ops.push(HOp::DelTerm(g.term(rng))),
            520..=589 => ops.push(HOp::DelQuery(g.query(rng))),
            590..=669 => ops.push(HOp::Batch(g.batch(rng))),
            670..=759 => ops.push(if rng.chance(1, 2) { HOp::Commit } else { HOp::CommitPrepared(if rng.chance(2, 3) { Some(rng.below(1000)) } else { None }) }),
            760..=789 => ops.push(HOp::Rollback),
            790..=799 => ops.push(HOp::PrepareAbort),
            800..=814 => ops.push(HOp::PrepareDrop),
            815..=849 => ops.push(HOp::Merge(1 + rng.below(65535))),
            850..=864 => ops.push(HOp::WaitMergeReopen),
            865..=894 => ops.push(HOp::DropReopen(rng.chance(1, 2))),
            895..=939 if profile == 3 || rng.chance(1, 4) => {
                // producer threads: thread t owns ids of its own range; deletes by id term / id range only
                let nt = 2 + rng.usize_below(2);
                let mut threads_ops = vec![];
                for _ in 0..nt {
                    let base = g.next_id;
                    let cnt = 2 + rng.below(8);
                    g.next_id += cnt + 2;
                    let mut tops = vec![];
                    let mut added: Vec<u64> = vec![];
                    let mut nxt = base;
                    for _ in 0..(cnt + rng.below(4)) {
                        match rng.below(10) {
                            0..=5 if nxt < base + cnt => {
                                tops.push(HOp::Add(nxt));
                                added.push(nxt);
                                nxt += 1;
                            }
                            6..=7 if !added.is_empty() => tops.push(HOp::DelTerm(Q::Id(*rng.pick(&added)))),
                            8 => tops.push(HOp::DelTerm(Q::Id(nxt))),
                            9 if nxt + 1 < base + cnt => {
                                tops.push(HOp::Batch(vec![BItem::Add(nxt), BItem::Del(Q::Id(nxt)), BItem::Add(nxt + 1)]));
                                added.push(nxt + 1);
                                nxt += 2;
                            }
                            _ => {
                                let lo = base + rng.below(cnt);
                                tops.push(HOp::DelQuery(Q::Range(lo, (lo + 1 + rng.below(2)).min(base + cnt + 2))));
                            }
                        }
                    }
                    g.live_guess.extend(added);
                    threads_ops.push(tops);
                }
                ops.push(HOp::Concurrent(threads_ops));
            }
            940..=999 if profile == 1 => {
                // delete_all_documents, near the three known shapes and in the clean shape
                match rng.below(5) {
                    0 => {
                        // clean: nothing pending, no delete issued by this writer
                        ops.push(if rng.chance(1, 2) { HOp::Rollback } else { HOp::Commit });
                        if !matches!(ops.last(), Some(HOp::Rollback)) {
                            ops.push(HOp::DropReopen(rng.chance(1, 2)));
                        }
                        ops.push(HOp::DeleteAll);
                    }
                    1 => {
                        // F2 shape: adds of the current transaction, then delete_all
                        for _ in 0..1 + rng.below(3) {
                            ops.push(HOp::Add(g.fresh()));
                        }
                        ops.push(HOp::DeleteAll);
                    }
                    2 => {
                        // F3 shape: pending delete, delete_all, then a matching add
                        let t = g.term(rng);
                        ops.push(HOp::DelTerm(t.clone()));
                        ops.push(HOp::DeleteAll);
                        for _ in 0..1 + rng.below(4) {
                            let id = g.fresh();
                            ops.push(HOp::Add(id));
                        }
                        if let Q::Id(k) = t {
                            if k >= g.next_id && k < g.next_id + 4 {
                                while g.next_id <= k {
                                    ops.push(HOp::Add(g.fresh()));
                                }
                            }
                        }
                    }
                    3 => {
                        // committed, session has deletes
                        ops.push(HOp::Commit);
                        ops.push(HOp::DeleteAll);
                    }
                    _ => ops.push(HOp::DeleteAll),
                }
            }
            _ => ops.push(HOp::Add(g.fresh())),
        }
    }
    ops.push(HOp::Commit);
    if rng.chance(1, 3) {
        ops.push(HOp::DropReopen(true));
    }
    Case { config, ops }
}

/// the corner next to F8 where the unchanged code is right: the previous writer's last commit
/// deleted a document in EVERY segment (so every segment has delete_opstamp == commit opstamp),
/// reopen, the first operation deletes an alive document, ONE explicit merge of the committed
/// segments, then a fresh searcher without commit (rollback / reopen) and a commit.
/// `some_clean` leaves some segments without a delete: there the unchanged code publishes (F8).
fn gen_reopen_corner(rng: &mut Rng, shape: u64) -> Case {
    let nseg = 2 + rng.below(3);
    let per = 2 + rng.below(2) as u32;
    let mut ops = vec![];
    let mut id = 1 + rng.below(3);
    let mut firsts = vec![];
    let mut alive = vec![];
    for _ in 0..nseg {
        firsts.push(id);
        for k in 0..per as u64 {
            ops.push(HOp::Add(id));
            if k > 0 {
                alive.push(id);
            }
            id += 1;
        }
    }
    let some_clean = shape % 4 == 3;
    for (k, f) in firsts.iter().enumerate() {
        if some_clean && k % 2 == 1 {
            alive.push(*f);
            continue;
        }
        ops.push(HOp::DelTerm(Q::Id(*f)));
    }
    ops.push(if rng.chance(1, 2) { HOp::Commit } else { HOp::CommitPrepared(Some(rng.below(50))) });
    ops.push(HOp::DropReopen(rng.chance(1, 2)));
    // first operation of the re-created writer: a delete of alive documents
    let victim = *rng.pick(&alive);
    match shape % 3 {
        0 => ops.push(HOp::DelTerm(Q::Id(victim))),
        1 => ops.push(HOp::DelQuery(Q::Range(victim, victim + 1))),
        _ => ops.push(HOp::Batch(vec![BItem::Del(Q::Id(victim)), BItem::Add(id)])),
    }
    ops.push(HOp::Merge(0xFFFF));
    // a fresh searcher before any commit
    ops.push(match rng.below(3) { 0 => HOp::Rollback, 1 => HOp::DropReopen(true), _ => HOp::WaitMergeReopen });
    ops.push(HOp::Add(id + 1));
    ops.push(HOp::DelTerm(Q::Id(victim)));
    ops.push(HOp::Commit);
    Case { config: Config { threads: 1, cut: per, policy: 0, mmap: false, sort: 0 }, ops }
}

/// real memory-budget cuts (no hook): `run()` batches of documents with many unique terms, so that
/// the indexing worker reaches `budget - margin` in the middle of a batch
fn gen_memcut_case(rng: &mut Rng, shape: u64) -> Case {
    let mut next = FAT_BASE + rng.below(1000);
    let mut small = rng.below(5);
    let mut fat = |n: u64| -> Vec<u64> {
        let v: Vec<u64> = (next..next + n).collect();
        next += n;
        v
    };
    let adds = |ids: Vec<u64>| -> HOp { HOp::Batch(ids.into_iter().map(BItem::Add).collect()) };
    let mut ops: Vec<HOp> = vec![];
    let mut threads = 1;
    match shape % 7 {
        0 => {
            // one batch, about twice what fits
            ops.push(adds(fat(240 + rng.below(120))));
        }
        1 => {
            // batches back to back: the second starts in a partly filled / fresh segment
            ops.push(adds(fat(150 + rng.below(80))));
            ops.push(adds(fat(150 + rng.below(80))));
            ops.push(adds(fat(20 + rng.below(60))));
        }
        2 => {
            // single adds fill the arena almost, a batch crosses the limit
            for id in fat(90 + rng.below(40)) {
                ops.push(HOp::Add(id));
            }
            ops.push(adds(fat(60 + rng.below(60))));
            ops.push(HOp::Add(fat(1)[0]));
        }
        3 => {
            // deletes inside and around the batch
            ops.push(HOp::Add(small));
            small += 1;
            ops.push(HOp::DelTerm(Q::Tag(rng.below(NTAG))));
            let ids = fat(230 + rng.below(60));
            let mut items = vec![];
            for (k, id) in ids.iter().enumerate() {
                items.push(BItem::Add(*id));
                if k % 17 == 5 {
                    items.push(BItem::Del(Q::Id(ids[k - rng.usize_below(5)])));
                }
                if k % 41 == 7 {
                    items.push(BItem::Del(Q::Id(ids[(k + 3).min(ids.len() - 1)])));
                }
                if k == 100 {
                    items.push(BItem::Del(Q::Grp(rng.below(NGRP))));
                }
            }
            ops.push(HOp::Batch(items));
            ops.push(HOp::DelTerm(Q::Tag(rng.below(NTAG))));
            ops.push(HOp::Add(small));
        }
        4 => {
            threads = 2 + rng.usize_below(2);
            for _ in 0..4 {
                ops.push(adds(fat(150 + rng.below(60))));
            }
        }
        5 => {
            ops.push(adds(fat(200 + rng.below(60))));
            ops.push(HOp::Rollback);
            ops.push(adds(fat(200 + rng.below(60))));
            ops.push(HOp::CommitPrepared(Some(rng.below(100))));
            ops.push(HOp::DropReopen(true));
            ops.push(adds(fat(180 + rng.below(40))));
        }
        _ => {
            // fewer, fatter documents
            let base = FATTER_BASE + rng.below(1000);
            let n = 55 + rng.below(30);
            let v: Vec<u64> = (base..base + n).collect();
            ops.push(HOp::Batch(v.into_iter().map(BItem::Add).collect()));
        }
    }
    ops.push(HOp::Commit);
    Case { config: Config { threads, cut: 0, policy: 0, mmap: false, sort: 0 }, ops }
}

/// F9, deterministically: the segment-updater thread of the old writer is held (by the
/// instrumented directory) inside `save_metas` of an `end_merge` task while the main thread calls
/// `rollback()`; the new writer loads the old meta.json, then the old task writes its own.
/// The finding is reported only if the directory log shows exactly that: the last meta.json was
/// written by the OLD updater thread after rollback() returned, it names a segment, and a file of
/// that segment was then deleted by ANOTHER (the new writer's) updater thread.
fn lifecycle_race(ctx: &mut Ctx) {
    use crate::dirs::{OpKind, OpRec, VDir};
    use std::sync::atomic::{AtomicU8, Ordering};
    use std::sync::{Arc, Mutex};
    let v = VDir::new();
    v.with_state(|s| s.record_data = true);
    let state = Arc::new(AtomicU8::new(0)); // 0 idle, 1 armed, 2 held, 3 released
    let skip = Arc::new(AtomicU8::new(1)); // meta.json writes of the updater to let pass (the commit's own)
    let tids: Arc<Mutex<Vec<(u64, String)>>> = Arc::new(Mutex::new(vec![]));
    {
        let state = state.clone();
        let skip = skip.clone();
        let tids = tids.clone();
        v.set_hook(Some(Arc::new(move |rec: &OpRec| {
            tids.lock().unwrap().push((rec.seq, format!("{:?}", std::thread::current().id())));
            if rec.kind == OpKind::AtomicWrite && rec.path.ends_with("meta.json") && rec.thread == "segment_updater"
                && state.load(Ordering::SeqCst) == 1
                && skip.fetch_update(Ordering::SeqCst, Ordering::SeqCst, |x| x.checked_sub(1)).is_err()
                && state.compare_exchange(1, 2, Ordering::SeqCst, Ordering::SeqCst).is_ok()
            {
                let t0 = std::time::Instant::now();
                while state.load(Ordering::SeqCst) != 3 && t0.elapsed().as_millis() < 3000 {
                    std::thread::sleep(std::time::Duration::from_millis(1));
                }
            }
        })));
    }
    let res = catch_unwind(AssertUnwindSafe(|| -> Option<String> {
        let mut sb = Schema::builder();
        let id = sb.add_u64_field("id", FAST | INDEXED | STORED);
        let index = Index::create(v.clone(), sb.build(), Default::default()).ok()?;
        tantivy::verif::set_segment_cut_docs(1);
        let mut w: IndexWriter = index.writer_with_num_threads(1, 15_000_000).ok()?;
        let mut pol = LogMergePolicy::default();
        pol.set_min_num_segments(2);
        w.set_merge_policy(Box::new(pol));
        for i in 1..=4u64 {
            let mut d = TantivyDocument::default();
            d.add_u64(id, i);
            w.add_document(d).ok()?;
        }
        // the policy merges the committed segments after the commit; hold its end_merge at the
        // meta.json write (the commit's own write passes)
        state.store(1, Ordering::SeqCst);
        w.commit().ok()?;
        let t0 = std::time::Instant::now();
        while state.load(Ordering::SeqCst) != 2 && t0.elapsed().as_millis() < 3000 {
            std::thread::sleep(std::time::Duration::from_millis(1));
        }
        if state.load(Ordering::SeqCst) != 2 {
            state.store(3, Ordering::SeqCst);
            return Some("not-reached".into());
        }
        w.rollback().ok()?;
        let after_rollback = v.log_len();
        state.store(3, Ordering::SeqCst);
        // the old task finishes (meta.json, GC) and the old updater is dropped
        std::thread::sleep(std::time::Duration::from_millis(150));
        let _ = w.garbage_collect_files().wait();
        let opened = Index::open(v.clone()).and_then(|i| i.reader_builder().reload_policy(ReloadPolicy::Manual).try_into());
        let err = match opened {
            Ok(_) => return Some("quiet".into()),
            Err(e) => e.to_string(),
        };
        drop(w);
        // verify the signature on the directory log
        let log = v.log();
        let tids = tids.lock().unwrap().clone();
        let tid = |seq: u64| tids.iter().find(|(s, _)| *s == seq).map(|(_, t)| t.clone()).unwrap_or_default();
        let metas: Vec<&OpRec> = log.iter().filter(|r| r.kind == OpKind::AtomicWrite && r.path.ends_with("meta.json") && r.thread == "segment_updater").collect();
        let last = metas.last()?;
        let old_updater = tid(metas.first()?.seq);
        let last_segs: Vec<String> = last.data.as_ref().and_then(|d| serde_json::from_slice::<serde_json::Value>(d).ok())
            .and_then(|m| m["segments"].as_array().map(|a| a.iter().filter_map(|s| s["segment_id"].as_str().map(|x| x.replace('-', ""))).collect()))
            .unwrap_or_default();
        let missing = err.split('"').nth(1).unwrap_or("").rsplit('/').next().unwrap_or("").to_string();
        let stem = missing.split('.').next().unwrap_or("").to_string();
        let del = log.iter().enumerate().find(|(_, r)| r.kind == OpKind::Delete && r.path == missing);
        let sig = tid(last.seq) == old_updater
            && last_segs.contains(&stem)
            && del.map_or(false, |(k, r)| k >= after_rollback && tid(r.seq) != old_updater && r.thread == "segment_updater");
        if sig {
            Some(format!("F9|{err}|meta.json written by the old writer's updater thread {} (held inside end_merge while rollback() ran and returned) names segment {stem}; its file {missing} was then deleted by the new writer's updater thread {}", old_updater, del.map(|(_, r)| tid(r.seq)).unwrap_or_default()))
        } else {
            Some(format!("other|{err}"))
        }
    }));
    tantivy::verif::set_segment_cut_docs(0);
    state.store(3, std::sync::atomic::Ordering::SeqCst);
    let case = json!({"kind": "lifecycle-race"});
    match res {
        Ok(Some(s)) if s == "quiet" => ctx.report.count("lifecycle-race:quiet"),
        Ok(Some(s)) if s == "not-reached" => ctx.report.count("lifecycle-race:window-not-reached"),
        Ok(Some(s)) if s.starts_with("F9|") => {
            ctx.report.count("lifecycle-race:reproduced");
            ctx.report.violation("oracle", K_F9, format!("after rollback() a fresh Index::open / reader fails: {}", &s[3..]), case);
        }
        Ok(Some(s)) => ctx.report.violation("oracle", "C02:index-unreadable-after-rollback", format!("rollback while an end_merge task runs: {s}"), case),
        Ok(None) => ctx.report.count("lifecycle-race:setup-failed"),
        Err(_) => ctx.report.violation("oracle", "C02:panic", "panic in the rollback / end_merge race scenario".into(), case),
    }
    ctx.report.case("lifecycle-race", true);
}

// ------------------------------------------------------------------------------------------
// forced producer schedules (DESIGN H3): two producer threads, one call each, every order of
// {stamp1, publish1, stamp2, publish2}, through `tantivy::verif::set_pause_hook`

/// the pairs of calls (the first one stamps first); ids 1, 2 are committed, 3 is pending
fn forced_pairs() -> Vec<(HOp, HOp)> {
    let (x, y, z) = (10u64, 11u64, 12u64);
    vec![
        (HOp::Batch(vec![BItem::Add(x), BItem::Del(Q::Id(x)), BItem::Add(y)]), HOp::Add(z)),
        (HOp::Add(z), HOp::Batch(vec![BItem::Add(x), BItem::Del(Q::Id(x)), BItem::Add(y)])),
        (HOp::Add(x), HOp::DelTerm(Q::Id(x))),
        (HOp::DelTerm(Q::Id(x)), HOp::Add(x)),
        (HOp::Batch(vec![BItem::Add(x), BItem::Add(y)]), HOp::DelTerm(Q::Id(x))),
        (HOp::DelTerm(Q::Id(1)), HOp::DelTerm(Q::Id(3))),
        (HOp::Batch(vec![BItem::Del(Q::Id(3)), BItem::Add(x)]), HOp::Add(y)),
        (HOp::Add(x), HOp::Add(y)),
        (HOp::Batch(vec![BItem::Add(x), BItem::Del(Q::Id(y)), BItem::Add(z)]), HOp::Batch(vec![BItem::Add(y), BItem::Del(Q::Id(x))])),
        (HOp::DelTerm(Q::Id(3)), HOp::Batch(vec![BItem::Add(x), BItem::Del(Q::Id(1))])),
        (HOp::DelQuery(Q::Range(0, 100)), HOp::Add(x)),
        (HOp::Batch(vec![BItem::Add(x), BItem::Del(Q::Id(x)), BItem::Add(x + 50)]), HOp::Batch(vec![BItem::Add(y), BItem::Del(Q::Id(y)), BItem::Add(y + 50)])),
    ]
}

fn forced_tok(op: &HOp) -> Tok {
    match op {
        HOp::Add(i) => Tok::Add(*i),
        HOp::DelTerm(q) | HOp::DelQuery(q) => Tok::Del(q.clone()),
        HOp::Batch(items) => Tok::Batch(items.clone()),
        _ => Tok::Prepare,
    }
}

/// schedule 0: s1 p1 s2 p2 (sequential); 1: s1 s2 p1 p2; 2: s1 s2 p2 p1
fn forced_schedule(ctx: &mut Ctx, pair_idx: usize, schedule: u64, cut: u32) {
    use std::sync::{Arc, Condvar, Mutex};
    let pairs = forced_pairs();
    let (op1, op2) = pairs[pair_idx % pairs.len()].clone();
    #[derive(Default)]
    struct Gate {
        stamped: [bool; 2],
        go: [bool; 2],
    }
    let gate: Arc<(Mutex<Gate>, Condvar)> = Arc::new((Mutex::new(Gate::default()), Condvar::new()));
    let wait_for = |gate: &Arc<(Mutex<Gate>, Condvar)>, f: &dyn Fn(&Gate) -> bool| -> bool {
        let (m, cv) = &**gate;
        let g = m.lock().unwrap();
        let (g, res) = cv.wait_timeout_while(g, std::time::Duration::from_secs(5), |g| !f(g)).unwrap();
        drop(g);
        !res.timed_out()
    };
    {
        let gate = gate.clone();
        tantivy::verif::set_pause_hook(Some(Arc::new(move |_name: &'static str| {
            let k = match std::thread::current().name() {
                Some("c02-prod-0") => 0,
                Some("c02-prod-1") => 1,
                _ => return,
            };
            let (m, cv) = &*gate;
            let mut g = m.lock().unwrap();
            g.stamped[k] = true;
            cv.notify_all();
            let _ = cv.wait_timeout_while(g, std::time::Duration::from_secs(5), |g| !g.go[k]).unwrap();
        })));
    }
    let res = catch_unwind(AssertUnwindSafe(|| -> Option<(Vec<u64>, [Option<u64>; 2])> {
        let mut sb = Schema::builder();
        let id = sb.add_u64_field("id", FAST | INDEXED | STORED);
        let tag = sb.add_text_field("tag", STRING | STORED);
        let body = sb.add_text_field("body", TEXT | STORED);
        let grp = sb.add_u64_field("grp", FAST | INDEXED | STORED);
        let f = Fields { id, tag, body, grp };
        let index = Index::create(RamDirectory::create(), sb.build(), Default::default()).ok()?;
        tantivy::verif::set_segment_cut_docs(cut);
        let mut w: IndexWriter = index.writer_with_num_threads(1, 15_000_000).ok()?;
        w.set_merge_policy(Box::new(NoMergePolicy));
        w.add_document(make_doc(&f, 1)).ok()?;
        w.add_document(make_doc(&f, 2)).ok()?;
        w.commit().ok()?;
        w.add_document(make_doc(&f, 3)).ok()?;
        let call = |w: &IndexWriter, op: &HOp| -> Option<u64> {
            match op {
                HOp::Add(i) => w.add_document(make_doc(&f, *i)).ok(),
                HOp::DelTerm(q) => Some(w.delete_term(q_term(q, &f))),
                HOp::DelQuery(q) => w.delete_query(q_build(q, &f)).ok(),
                HOp::Batch(items) => w
                    .run(items.iter().map(|it| match it {
                        BItem::Add(i) => UserOperation::Add(make_doc(&f, *i)),
                        BItem::Del(q) => UserOperation::Delete(q_term(q, &f)),
                    }).collect::<Vec<_>>())
                    .ok(),
                _ => None,
            }
        };
        let mut rets: [Option<u64>; 2] = [None, None];
        let ok = {
            let w = &w;
            let (op1, op2) = (&op1, &op2);
            let call = &call;
            let gate = &gate;
            std::thread::scope(|s| -> bool {
                let spawn = |k: usize, op: &'_ HOp| {
                    let op = op.clone();
                    std::thread::Builder::new().name(format!("c02-prod-{k}")).spawn_scoped(s, move || call(w, &op)).unwrap()
                };
                let release = |k: usize| {
                    let (m, cv) = &**gate;
                    m.lock().unwrap().go[k] = true;
                    cv.notify_all();
                };
                let h0 = spawn(0, op1);
                let mut ok = wait_for(gate, &|g| g.stamped[0]);
                if schedule == 0 {
                    release(0);
                    rets[0] = h0.join().ok().flatten();
                    let h1 = spawn(1, op2);
                    ok &= wait_for(gate, &|g| g.stamped[1]);
                    release(1);
                    rets[1] = h1.join().ok().flatten();
                } else {
                    let h1 = spawn(1, op2);
                    ok &= wait_for(gate, &|g| g.stamped[1]);
                    if schedule == 1 {
                        release(0);
                        rets[0] = h0.join().ok().flatten();
                        release(1);
                        rets[1] = h1.join().ok().flatten();
                    } else {
                        release(1);
                        rets[1] = h1.join().ok().flatten();
                        release(0);
                        rets[0] = h0.join().ok().flatten();
                    }
                }
                ok
            })
        };
        if !ok {
            return None;
        }
        w.commit().ok()?;
        let reader: tantivy::IndexReader = index.reader_builder().reload_policy(ReloadPolicy::Manual).try_into().ok()?;
        reader.reload().ok()?;
        let searcher = reader.searcher();
        let mut ids = vec![];
        for sr in searcher.segment_readers() {
            let col = sr.fast_fields().u64("id").ok()?;
            for doc in sr.doc_ids_alive() {
                ids.push(col.first(doc)?);
            }
        }
        ids.sort();
        Some((ids, rets))
    }));
    tantivy::verif::set_pause_hook(None);
    tantivy::verif::set_segment_cut_docs(0);
    let case = json!({"kind": "forced", "pair": pair_idx, "schedule": schedule, "cut": cut});
    let sname = ["s1 p1 s2 p2", "s1 s2 p1 p2", "s1 s2 p2 p1"][schedule as usize % 3];
    ctx.report.count(&format!("forced-schedule:{sname}"));
    let canon = format!("forced|{pair_idx}|{schedule}|{cut}");
    ctx.report.case(&canon, true);
    let (real, rets) = match res {
        Ok(Some(x)) => x,
        Ok(None) => {
            ctx.report.count("forced-schedule:setup-failed");
            return;
        }
        Err(_) => {
            ctx.report.violation("oracle", "C02:panic", format!("panic in forced schedule {sname} of {:?} | {:?}", op1, op2), case);
            return;
        }
    };
    // the stamp order is the forced one
    if let (Some(a), Some(b)) = (rets[0], rets[1]) {
        if a >= b {
            ctx.report.violation("oracle", "C02:opstamp-not-increasing", format!("forced schedule {sname}: the call that stamped first returned {a}, the other {b}"), case.clone());
        }
    }
    let all_ids: Vec<u64> = vec![1, 2, 3, 10, 11, 12, 60, 61];
    let prior = vec![(Tok::Add(1), None), (Tok::Add(2), None), (Tok::Commit(None), None), (Tok::Add(3), None)];
    // correspondence with the Lean state machine: its sub-step events `stamp` / `publish`, run in
    // the same schedule with one worker, predict what the real writer publishes and returns
    // (F10 included: the model has the defect too, C02_substeps_counterexample)
    {
        let mut toks = vec![(forced_tok(&op1), None), (forced_tok(&op2), None)];
        toks.extend(prior.iter().cloned());
        let resp = ask(ctx, &format!("C02 substeps {cut} {schedule} {}", render(&toks, &all_ids, false)));
        // (the worker thread is not under the harness's control: `pub` = it took each batch as
        // soon as it was sent, `lazy` = only when the commit waited for it; the absolute opstamps
        // are not compared: `consider_merge_options` draws stamps whenever a segment is registered)
        let eager = field(&resp, "pub").and_then(|s| crate::model::parse_nat_list(&s));
        let lazy = field(&resp, "lazy").and_then(|s| crate::model::parse_nat_list(&s));
        match (eager, lazy) {
            (Some(eager), Some(lazy)) => {
                ctx.report.count("forced-schedule:model-compared");
                if eager != lazy {
                    ctx.report.count("forced-schedule:model-worker-timing-matters");
                }
                if real == eager {
                    ctx.report.count("forced-schedule:model-agrees:eager-worker");
                } else if real == lazy {
                    ctx.report.count("forced-schedule:model-agrees:lazy-worker");
                } else {
                    ctx.report.violation("model", "C02:forced-schedule-model-mismatch", format!("forced schedule {sname} (cut {cut}) of {:?} | {:?}: the real writer published {:?}, the Lean state machine with the same sub-step schedule {:?} (eager worker) / {:?} (lazy worker)", op1, op2, real, eager, lazy), case.clone());
                }
            }
            _ => ctx.report.violation("model", "C02:model-bad-answer", format!("substeps: {resp}"), case.clone()),
        }
    }
    // admissible outcomes: the sequential replay of the two calls in call order, and - when the
    // calls overlap - in the other order (Lean specification)
    let mut admissible: Vec<Vec<u64>> = vec![];
    let orders: Vec<[&HOp; 2]> = if schedule == 0 { vec![[&op1, &op2]] } else { vec![[&op1, &op2], [&op2, &op1]] };
    for o in orders {
        let mut toks = prior.clone();
        toks.push((forced_tok(o[0]), None));
        toks.push((forced_tok(o[1]), None));
        toks.push((Tok::Commit(None), None));
        let resp = ask(ctx, &format!("C02 replay {}", render(&toks, &all_ids, false)));
        if let Some(c) = field(&resp, "committed").and_then(|s| crate::model::parse_nat_list(&s)) {
            admissible.push(c);
        }
    }
    if admissible.contains(&real) {
        ctx.report.count("forced-schedule:linearizable");
        return;
    }
    // F10: the first call is a batch that adds and then deletes a document; the other call
    // stamped later, published an add first; exactly those documents are the extra ones
    let own_deleted: Vec<u64> = match &op1 {
        HOp::Batch(items) => items.iter().enumerate().filter_map(|(k, it)| match it {
            BItem::Add(i) if items[k + 1..].iter().any(|d| matches!(d, BItem::Del(q) if q_matches(q, *i))) => Some(*i),
            _ => None,
        }).collect(),
        _ => vec![],
    };
    let other_adds = matches!(&op2, HOp::Add(_)) || matches!(&op2, HOp::Batch(items) if items.iter().any(|i| matches!(i, BItem::Add(_))));
    let f10 = schedule == 2 && !own_deleted.is_empty() && other_adds && admissible.iter().any(|a| {
        let mut with = a.clone();
        with.extend(own_deleted.iter().cloned());
        with.sort();
        with == real
    });
    if f10 {
        ctx.report.count("forced-schedule:F10");
        ctx.report.violation("oracle", K_F10, format!("forced schedule {sname} (segment cut every {cut} docs): call 1 = {:?} drew its stamps and queued its delete, call 2 = {:?} stamped later and was sent first, then call 1 was sent: documents {:?}, which call 1 itself deletes, are published: {:?}; admissible {:?}", op1, op2, own_deleted, real, admissible), case);
    } else {
        ctx.report.violation("oracle", "C02:forced-schedule-not-linearizable", format!("forced schedule {sname} (cut {cut}) of {:?} | {:?}: published {:?}, admissible {:?}", op1, op2, real, admissible), case);
    }
}

/// The early return of `advance_deletes` after a reverted stamper
/// (Lean: `C02_stale_catchup_lost_delete_counterexample`).  `delete_all_documents` reverts the
/// stamper to the stale `committed_opstamp`, below the opstamp T of meta.json; while a merge of
/// two new uncommitted segments is running, deletes are pushed: `end_merge` finds one older than
/// T, catches the merged segment up "to the last commit" and records `delete_opstamp = T`; filler
/// operations bring the reused opstamps back to T - `slack`, a last delete of a document of the
/// merged segment follows, and the commit gets exactly T: `advance_deletes` says "already
/// up-to-date" and the delete is not applied.
fn stale_catchup(ctx: &mut Ctx, slack: u64) {
    struct Out {
        t: u64,
        c0: u64,
        rd: u64,
        rc: u64,
        victim: u64,
        sacrificed: Vec<u64>,
        published: Vec<u64>,
        expected: Vec<u64>,
    }
    let res = catch_unwind(AssertUnwindSafe(|| -> Option<Out> {
        let mut sb = Schema::builder();
        let id = sb.add_u64_field("id", FAST | INDEXED | STORED);
        let body = sb.add_text_field("body", TEXT);
        let index = Index::create(RamDirectory::create(), sb.build(), Default::default()).ok()?;
        tantivy::verif::set_segment_cut_docs(0);
        let mut w: IndexWriter = index.writer_with_num_threads(1, 200_000_000).ok()?;
        w.set_merge_policy(Box::new(NoMergePolicy));
        let tiny = |i: u64| {
            let mut d = TantivyDocument::default();
            d.add_u64(id, i);
            d
        };
        let fat = |i: u64| {
            let mut d = TantivyDocument::default();
            d.add_u64(id, i);
            let mut s = String::new();
            for k in 0..500 {
                s.push_str(&format!("u{i}x{k} "));
            }
            d.add_text(body, s);
            d
        };
        for i in 0..2500u64 {
            w.add_document(tiny(100_000 + i)).ok()?;
        }
        let t = w.commit().ok()?;
        let c0 = w.delete_all_documents().ok()?;
        let mut p = LogMergePolicy::default();
        p.set_min_num_segments(2);
        w.set_merge_policy(Box::new(p));
        let per: u64 = 250;
        tantivy::verif::set_segment_cut_docs(per as u32);
        for i in 0..2 * per {
            w.add_document(fat(i)).ok()?;
        }
        // deletes spread over the time the worker indexes and the merge runs
        let mut sacrificed = vec![];
        for k in 0..200u64 {
            w.delete_term(Term::from_field_u64(id, k));
            sacrificed.push(k);
            std::thread::sleep(std::time::Duration::from_millis(4));
        }
        std::thread::sleep(std::time::Duration::from_millis(300));
        w.set_merge_policy(Box::new(NoMergePolicy));
        tantivy::verif::set_segment_cut_docs(0);
        let mut filler = vec![];
        let mut n = 0u64;
        loop {
            let r = w.add_document(tiny(200_000 + n)).ok()?;
            filler.push(200_000 + n);
            n += 1;
            if r + slack + 1 >= t || n > 100_000 {
                break;
            }
        }
        let victim = per - 1;
        let rd = w.delete_term(Term::from_field_u64(id, victim));
        let rc = w.commit().ok()?;
        let reader: tantivy::IndexReader = index.reader_builder().reload_policy(ReloadPolicy::Manual).try_into().ok()?;
        reader.reload().ok()?;
        let searcher = reader.searcher();
        let mut published = vec![];
        for sr in searcher.segment_readers() {
            let col = sr.fast_fields().u64("id").ok()?;
            for doc in sr.doc_ids_alive() {
                published.push(col.first(doc)?);
            }
        }
        published.sort();
        let mut expected: Vec<u64> = (0..2 * per).filter(|i| !sacrificed.contains(i) && *i != victim).collect();
        expected.extend(filler);
        expected.sort();
        // no merge thread outlives the scenario
        let _ = w.wait_merging_threads();
        Some(Out { t, c0, rd, rc, victim, sacrificed, published, expected })
    }));
    tantivy::verif::set_segment_cut_docs(0);
    let case = json!({"kind": "stale-catchup", "slack": slack});
    ctx.report.case(&format!("stale-catchup|{slack}"), true);
    let o = match res {
        Ok(Some(o)) => o,
        Ok(None) => {
            ctx.report.count("stale-catchup:setup-failed");
            return;
        }
        Err(_) => {
            ctx.report.violation("oracle", "C02:panic", "panic in the stale catch-up scenario".into(), case);
            return;
        }
    };
    if std::env::var("C02_STALE").is_ok() {
        eprintln!("stale-catchup slack {slack}: T={} delete_all returned {} last delete {} commit {} extra {:?} missing {:?}", o.t, o.c0, o.rd, o.rc,
            o.published.iter().filter(|i| !o.expected.contains(i)).collect::<Vec<_>>(), o.expected.iter().filter(|i| !o.published.contains(i)).take(5).collect::<Vec<_>>());
    }
    if o.rc != o.t {
        ctx.report.count("stale-catchup:commit-opstamp-not-reused");
    } else {
        ctx.report.count("stale-catchup:commit-opstamp-reused");
    }
    if o.published == o.expected {
        ctx.report.count("stale-catchup:sequential");
        return;
    }
    let extra: Vec<u64> = o.published.iter().filter(|i| !o.expected.contains(i)).cloned().collect();
    let missing = o.expected.iter().any(|i| !o.published.contains(i));
    // signature: the commit got the opstamp of the earlier commit again, the stamper had been
    // reverted below it, nothing is missing, and the extra documents are documents of the merged
    // segment whose deletes were still pending, the last one among them
    let sig = o.rc == o.t && o.c0 < o.t && o.rd < o.t && !missing && extra.contains(&o.victim)
        && extra.iter().all(|i| *i == o.victim || o.sacrificed.contains(i));
    if sig {
        ctx.report.count("stale-catchup:reproduced");
        ctx.report.violation("oracle", K_F11, format!("commit {} (meta.json), delete_all_documents reverted the stamper to {}; two uncommitted segments were merged while deletes were pushed (end_merge caught the merged segment up to {} and recorded it as its delete_opstamp); the reused opstamps reached {} again: delete_term(id {}) returned {}, the commit {} - advance_deletes returned early, documents {:?} whose deletes are older than the commit are published", o.t, o.c0, o.t, o.t, o.victim, o.rd, o.rc, extra), case);
    } else {
        ctx.report.violation("oracle", "C02:stale-catchup-not-sequential", format!("T={} delete_all returned {} last delete {} commit {}: extra {:?}, missing some: {}", o.t, o.c0, o.rd, o.rc, extra, missing), case);
    }
}

/// F10 searched for directly: producer A issues batches `[add x, delete x, add y]`, producer B
/// single adds, one indexing worker, every batch its own segment (so every batch starts with a
/// `skip_to`). Whatever the interleaving, no `x` may be published.
fn producer_race(ctx: &mut Ctx, rounds: u64) {
    let res = catch_unwind(AssertUnwindSafe(|| -> Option<(Vec<u64>, u64)> {
        let mut sb = Schema::builder();
        let id = sb.add_u64_field("id", FAST | INDEXED | STORED);
        let index = Index::create(RamDirectory::create(), sb.build(), Default::default()).ok()?;
        tantivy::verif::set_segment_cut_docs(1);
        let mut w: IndexWriter = index.writer_with_num_threads(1, 15_000_000).ok()?;
        w.set_merge_policy(Box::new(NoMergePolicy));
        let mk = |i: u64| {
            let mut d = TantivyDocument::default();
            d.add_u64(id, i);
            d
        };
        {
            let w = &w;
            std::thread::scope(|s| {
                s.spawn(move || {
                    for k in 0..rounds {
                        let x = 3 * k;
                        let _ = w.run(vec![UserOperation::Add(mk(x)), UserOperation::Delete(Term::from_field_u64(id, x)), UserOperation::Add(mk(x + 1))]);
                    }
                });
                s.spawn(move || {
                    for k in 0..2 * rounds {
                        let _ = w.add_document(mk(1_000_000 + k));
                    }
                });
            });
        }
        w.commit().ok()?;
        let reader = index.reader_builder().reload_policy(ReloadPolicy::Manual).try_into().ok()?;
        let searcher: tantivy::Searcher = { let r: tantivy::IndexReader = reader; r.reload().ok()?; r.searcher() };
        let mut survivors = vec![];
        let mut others = 0u64;
        for sr in searcher.segment_readers() {
            let col = sr.fast_fields().u64("id").ok()?;
            for doc in sr.doc_ids_alive() {
                match col.first(doc) {
                    Some(v) if v < 1_000_000 && v % 3 == 0 => survivors.push(v),
                    _ => others += 1,
                }
            }
        }
        survivors.sort();
        Some((survivors, others))
    }));
    tantivy::verif::set_segment_cut_docs(0);
    let case = json!({"kind": "producer-race", "rounds": rounds});
    ctx.report.case("producer-race", true);
    match res {
        Ok(Some((survivors, others))) => {
            if others != 3 * rounds {
                ctx.report.violation("oracle", "C02:missing-document", format!("producer scenario: {others} of {} documents that nothing deletes are published", 3 * rounds), case.clone());
            }
            if survivors.is_empty() {
                ctx.report.count("producer-race:quiet");
            } else {
                ctx.report.count("producer-race:reproduced");
                ctx.report.violation("oracle", K_F10, format!("two producer threads, one worker: {} of {rounds} documents x that their own batch `[add x, delete_term(x), add y]` deletes are published after commit (e.g. {})", survivors.len(), short(&survivors)), case);
            }
        }
        Ok(None) => ctx.report.count("producer-race:setup-failed"),
        Err(_) => ctx.report.violation("oracle", "C02:panic", "panic in the producer race scenario".into(), case),
    }
}

fn run_case(ctx: &mut Ctx, case: &Case) -> Vec<Finding> {
    let mut out: Vec<Finding> = vec![];
    let res = catch_unwind(AssertUnwindSafe(|| {
        let mut e = Exec::new(&case.config);
        let mut found: Vec<Finding> = vec![];
        for op in &case.ops {
            ctx.report.count(&format!("op:{}", op_name(op)));
            if std::env::var("C02_TRACE").is_ok() {
                eprintln!("op {:?} cfg {:?}", op, case.config);
            }
            if let Dir::V(v) = &e.dir {
                MARKS.lock().unwrap().push((v.log_len(), format!("{}", op_name(op))));
            }
            if e.poisoned {
                ctx.report.count("history:stopped-after-F9-residue");
                break;
            }
            e.apply(ctx, op, case, &mut found);
        }
        if let Dir::V(v) = &e.dir {
            if let Some(f) = found.iter().find(|f| f.what.contains("FileDoesNotExist") || (std::env::var("C02_DIAG_ALL").is_ok() && (f.key.contains("unexpected-survivor") || f.key.contains("missing-document")))) {
                eprintln!("DIAG finding {} {}", f.key, f.what);
                if let Ok(metas) = e.index.searchable_segment_metas() {
                    for m in metas {
                        eprintln!("DIAG meta {} max_doc={} deleted={} delete_opstamp={:?}", m.id().uuid_string(), m.max_doc(), m.num_deleted_docs(), m.delete_opstamp());
                    }
                }
                let name = f.what.split('"').nth(1).unwrap_or("").trim_end_matches('\\').to_string();
                let stem = name.split('.').next().unwrap_or("").to_string();
                let tids = TIDS.lock().unwrap().clone();
                let tid = |seq: u64| tids.iter().find(|(s, _)| *s == seq).map(|(_, t)| t.clone()).unwrap_or_default();
                eprintln!("DIAG missing file {name}");
                let marks = MARKS.lock().unwrap().clone();
                let log = v.log();
                let mut mi = 0;
                for (k, r) in log.iter().enumerate() {
                    while mi < marks.len() && marks[mi].0 <= k {
                        eprintln!("DIAG   ---- harness op: {}", marks[mi].1);
                        mi += 1;
                    }
                    let interesting = (r.path.contains(&stem) && (r.kind == crate::dirs::OpKind::Delete || r.kind == crate::dirs::OpKind::OpenWrite || (r.kind == crate::dirs::OpKind::OpenRead && !r.ok)))
                        || (r.path.ends_with("meta.json") && r.kind == crate::dirs::OpKind::AtomicWrite)
                        || r.path.ends_with(".lock")
                        || (std::env::var("C02_DIAG_ALL").is_ok() && r.kind != crate::dirs::OpKind::Write && r.kind != crate::dirs::OpKind::Flush && r.kind != crate::dirs::OpKind::Terminate && r.kind != crate::dirs::OpKind::Exists);
                    if interesting {
                        let extra = if r.path.ends_with("meta.json") && (r.kind == crate::dirs::OpKind::AtomicWrite || r.kind == crate::dirs::OpKind::AtomicRead) {
                            r.data.as_ref().and_then(|d| serde_json::from_slice::<serde_json::Value>(d).ok()).map(|v| {
                                let segs: Vec<String> = v["segments"].as_array().map(|a| a.iter().map(|s| s["segment_id"].as_str().unwrap_or("").chars().take(8).collect::<String>()).collect()).unwrap_or_default();
                                format!(" opstamp={} segs={:?}", v["opstamp"], segs)
                            }).unwrap_or_default()
                        } else { String::new() };
                        eprintln!("DIAG {} {} {} {} ok={} tid={}{}", r.seq, r.thread, r.kind.name(), r.path, r.ok, tid(r.seq), extra);
                    }
                }
            }
        }
        for err in e.errors.iter().take(2) {
            found.push(Finding { kind: "oracle", key: "C02:api-error".into(), what: err.clone() });
        }
        ctx.report.count(&format!("threads:{}", case.config.threads));
        ctx.report.count(&format!("cut:{}", case.config.cut));
        ctx.report.count(&format!("sort:{}", ["none", "grp-asc", "grp-desc", "id-desc"][(case.config.sort % 4) as usize]));
        ctx.report.count(&format!("merge-policy:{}", if case.config.policy == 0 { "none".to_string() } else { format!("log{}", case.config.policy) }));
        ctx.report.count(&format!("max-segments:{}", match e.nsegs_max { 0 => "0", 1 => "1", 2..=3 => "2-3", 4..=7 => "4-7", _ => "8+" }));
        drop(e.writer.take());
        tantivy::verif::set_segment_cut_docs(0);
        found
    }));
    match res {
        Ok(f) => out.extend(f),
        Err(p) => {
            tantivy::verif::set_segment_cut_docs(0);
            let msg = p.downcast_ref::<String>().cloned().or_else(|| p.downcast_ref::<&str>().map(|s| s.to_string())).unwrap_or_default();
            out.push(Finding { kind: "oracle", key: "C02:panic".into(), what: format!("panic while executing the history: {msg}") });
        }
    }
    out
}

fn op_name(op: &HOp) -> &'static str {
    match op {
        HOp::Add(_) => "add",
        HOp::DelTerm(_) => "delete_term",
        HOp::DelQuery(_) => "delete_query",
        HOp::Batch(_) => "run",
        HOp::DeleteAll => "delete_all",
        HOp::Commit => "commit",
        HOp::CommitPrepared(_) => "prepare+commit",
        HOp::PrepareDrop => "prepare+drop",
        HOp::PrepareAbort => "prepare+abort",
        HOp::Rollback => "rollback",
        HOp::Merge(_) => "merge",
        HOp::WaitMergeReopen => "wait_merging_threads",
        HOp::DropReopen(_) => "drop+reopen",
        HOp::Concurrent(_) => "producers",
    }
}

fn report_findings(ctx: &mut Ctx, case: &Case, findings: Vec<Finding>) {
    let mut seen: BTreeMap<String, u32> = BTreeMap::new();
    for f in findings {
        let n = seen.entry(f.key.clone()).or_insert(0);
        *n += 1;
        if *n > 1 {
            continue;
        }
        ctx.report.violation(f.kind, &f.key, f.what, serde_json::to_value(case).unwrap());
    }
}

/// hand-written corpus: the three known shapes and their clean neighbours
fn corpus() -> Vec<Case> {
    let cfg = |threads, cut| Config { threads, cut, policy: 0, mmap: false, sort: 0 };
    vec![
        // F1
        Case { config: cfg(1, 0), ops: vec![HOp::Add(1), HOp::Add(2), HOp::Commit] },
        // F2: add a; commit; add b; delete_all; commit
        Case { config: cfg(1, 0), ops: vec![HOp::Add(1), HOp::Commit, HOp::Add(2), HOp::DeleteAll, HOp::Commit] },
        // F3: commit; delete_term(k); delete_all; add(k); commit; adds; commit
        Case { config: cfg(1, 0), ops: vec![HOp::Commit, HOp::DelTerm(Q::Id(7)), HOp::DeleteAll, HOp::Add(7), HOp::Commit, HOp::Add(8), HOp::Add(9), HOp::Add(10), HOp::Commit] },
        // F3': the stale delete was already committed by the same writer
        Case { config: cfg(1, 0), ops: vec![HOp::DelTerm(Q::Id(5)), HOp::DelTerm(Q::Id(7)), HOp::Commit, HOp::DeleteAll, HOp::Add(7), HOp::Commit] },
        // F8: first delete of a re-created writer + merge of committed segments, no commit
        Case { config: cfg(1, 0), ops: vec![HOp::Add(7), HOp::Add(8), HOp::Commit, HOp::Rollback, HOp::DelTerm(Q::Id(7)), HOp::Merge(1), HOp::DropReopen(true)] },
        // F8 through the merge policy (shape reported by the C01 check): one-document segments,
        // reopen, first operation a delete by term, adds, wait_merging_threads without commit
        Case { config: Config { threads: 1, cut: 1, policy: 2, mmap: false, sort: 0 }, ops: vec![HOp::Add(1), HOp::Add(2), HOp::Add(3), HOp::Commit, HOp::DropReopen(true), HOp::DelTerm(Q::Grp(doc_grp(2))), HOp::Add(4), HOp::Add(5), HOp::Add(6), HOp::WaitMergeReopen] },
        // the same with the delete as *second* operation: must equal the replay (a difference here
        // would be a new violation, not F8)
        Case { config: Config { threads: 1, cut: 1, policy: 2, mmap: false, sort: 0 }, ops: vec![HOp::Add(1), HOp::Add(2), HOp::Add(3), HOp::Commit, HOp::DropReopen(true), HOp::Add(4), HOp::DelTerm(Q::Grp(doc_grp(2))), HOp::Add(5), HOp::Add(6), HOp::WaitMergeReopen] },
        // F8, second manifestation (lost delete): a committed segment with delete_opstamp = commit
        // opstamp, reopen, first operation a delete matching one of its documents, merge
        Case { config: Config { threads: 1, cut: 2, policy: 0, mmap: false, sort: 0 }, ops: vec![HOp::Add(1), HOp::Add(2), HOp::Add(3), HOp::Add(4), HOp::DelTerm(Q::Id(3)), HOp::Commit, HOp::DropReopen(true), HOp::DelTerm(Q::Id(4)), HOp::Merge(3), HOp::Add(5), HOp::Commit] },
        // clean delete_all: equals replay
        Case { config: cfg(2, 1), ops: vec![HOp::Add(1), HOp::Add(2), HOp::Commit, HOp::DropReopen(true), HOp::DeleteAll, HOp::Add(3), HOp::Commit, HOp::Add(4), HOp::Rollback, HOp::DeleteAll, HOp::Commit] },
        // delete only earlier, same segment / other segment / committed segment
        Case { config: cfg(1, 2), ops: vec![HOp::Add(1), HOp::Add(2), HOp::Add(3), HOp::Commit, HOp::Add(4), HOp::DelQuery(Q::All), HOp::Add(5), HOp::Add(6), HOp::DelTerm(Q::Id(7)), HOp::Add(7), HOp::Commit] },
        // the same on indexes sorted by id descending / grp ascending: doc ids are not in opstamp order
        Case { config: Config { threads: 1, cut: 3, policy: 0, mmap: false, sort: 3 }, ops: vec![HOp::Add(1), HOp::Add(2), HOp::Add(3), HOp::Commit, HOp::Add(4), HOp::DelQuery(Q::All), HOp::Add(5), HOp::Add(6), HOp::DelTerm(Q::Id(7)), HOp::Add(7), HOp::DelTerm(Q::Tag(doc_tag(6))), HOp::Add(8), HOp::Commit, HOp::Merge(3), HOp::DropReopen(true)] },
        Case { config: Config { threads: 2, cut: 0, policy: 2, mmap: false, sort: 1 }, ops: vec![HOp::Add(1), HOp::Add(2), HOp::DelTerm(Q::Grp(doc_grp(2))), HOp::Add(3), HOp::Add(4), HOp::Batch(vec![BItem::Add(5), BItem::Del(Q::Id(5)), BItem::Add(6), BItem::Del(Q::Grp(doc_grp(1)))]), HOp::Add(7), HOp::Commit, HOp::Add(8), HOp::DelTerm(Q::Id(3)), HOp::Commit] },
        // batch: delete then re-add inside one batch
        Case { config: cfg(3, 1), ops: vec![HOp::Add(1), HOp::Batch(vec![BItem::Del(Q::Id(1)), BItem::Add(2), BItem::Del(Q::Id(2)), BItem::Add(3), BItem::Del(Q::Id(4)), BItem::Add(4)]), HOp::Batch(vec![]), HOp::Commit] },
    ]
}

pub fn run(ctx: &mut Ctx) {
    ctx.report.rule = "a case = one check point (commit / rollback / abort / reopen) of a generated history; \
        distinct = distinct (configuration, history prefix); non-trivial = the prefix contains at least one \
        document and at least one delete operation".into();
    ctx.report.correspondence_obligations = vec![
        "published id multiset (stored fields = fast field = term queries) = harness sequential replay".into(),
        "published id multiset = Lean `replay` of the same history".into(),
        "published id multiset = Lean implementation-level model under a pseudo-random schedule (hypothesis of C02_commit_refines_replay_partial holds)".into(),
        "returned opstamps = model opstamps (stamper ticked to the observed values); meta.json opstamp; commit_opstamp()".into(),
        "Lean side condition (`C02 clean`) = harness classification of delete_all_documents calls".into(),
        "every survivor once, with all its fields; payload; rollback() = last commit".into(),
    ];
    if let Some(case) = ctx.replay.clone() {
        if case["kind"] == "lifecycle-race" {
            lifecycle_race(ctx);
            return;
        }
        if case["kind"] == "forced" {
            forced_schedule(ctx, case["pair"].as_u64().unwrap_or(0) as usize, case["schedule"].as_u64().unwrap_or(2), case["cut"].as_u64().unwrap_or(0) as u32);
            return;
        }
        if case["kind"] == "stale-catchup" {
            stale_catchup(ctx, case["slack"].as_u64().unwrap_or(2));
            return;
        }
        if case["kind"] == "producer-race" {
            producer_race(ctx, case["rounds"].as_u64().unwrap_or(400));
            return;
        }
        match serde_json::from_value::<Case>(case) {
            Ok(c) => {
                let f = run_case(ctx, &c);
                for x in &f {
                    ctx.report.notes.push(format!("replay: {} {} {}", x.kind, x.key, x.what));
                }
                report_findings(ctx, &c, f);
            }
            Err(e) => ctx.report.notes.push(format!("replay case not understood: {e}")),
        }
        return;
    }
    for c in corpus() {
        let f = run_case(ctx, &c);
        report_findings(ctx, &c, f);
    }
    // rollback() while a task of the old segment updater is running (F9), gated deterministically
    for _ in 0..ctx.budget(2, 10) {
        lifecycle_race(ctx);
    }
    // the early return of advance_deletes when reused opstamps meet a recorded delete_opstamp
    // (the commit draws its stamp after the registration of the last segment drew one: slack 2)
    stale_catchup(ctx, 2);
    if ctx.thorough() {
        for slack in 1..4 {
            stale_catchup(ctx, slack);
        }
    }
    // forced producer schedules: every pair of calls, every order of {stamp, publish} x 2
    for pair in 0..forced_pairs().len() {
        for schedule in 0..3 {
            for cut in [0u32, 1] {
                forced_schedule(ctx, pair, schedule, cut);
            }
        }
    }
    // producer threads racing between stamp and send (F10), free-running (thorough tier only:
    // the forced schedules above give the deterministic witness)
    if ctx.thorough() {
        producer_race(ctx, 1200);
    }
    // re-created writer, first operation a delete, one merge of committed segments
    for k in 0..ctx.budget(12, 200) {
        let mut rng = ctx.rng.fork();
        let case = gen_reopen_corner(&mut rng, k);
        let f = run_case(ctx, &case);
        ctx.report.count("reopen-corner:cases");
        report_findings(ctx, &case, f);
    }
    // real memory-budget cuts in the middle of run() batches
    let memcut = ctx.budget(7, 49);
    for k in 0..memcut {
        let mut rng = ctx.rng.fork();
        let case = gen_memcut_case(&mut rng, k);
        let before = ctx.report.distribution.get("max-segments:1").cloned().unwrap_or(0);
        let f = run_case(ctx, &case);
        let after = ctx.report.distribution.get("max-segments:1").cloned().unwrap_or(0);
        ctx.report.count(if after > before { "memcut:one-segment" } else { "memcut:several-segments" });
        report_findings(ctx, &case, f);
    }
    let histories = ctx.budget(170, 2600);
    for k in 0..histories {
        let mut rng = ctx.rng.fork();
        let profile = match k % 10 { 0..=4 => 0, 5 | 6 => 1, 7 | 8 => 2, _ => 3 };
        let case = gen_case(&mut rng, profile);
        let f = run_case(ctx, &case);
        if ctx.report.samples.len() < 4 && k % 7 == 3 {
            ctx.report.sample(json!({"config": case.config, "ops": case.ops.len(), "first_ops": case.ops.iter().take(12).collect::<Vec<_>>(), "findings": f.iter().map(|x| x.key.clone()).collect::<Vec<_>>()}));
        }
        report_findings(ctx, &case, f);
    }
    ctx.report.traces_validated_against_impl = ctx.report.distribution.get("impl-model:runs").cloned().unwrap_or(0);
}
