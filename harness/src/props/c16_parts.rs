// included by c16.rs — checks, child process, replay, run

// ------------------------------------------------------------------------------------------
// (a) totality on one string
// ------------------------------------------------------------------------------------------

/// attribution of "strict accepts, lenient differs": counterfactual, see c16_attr.rs
fn classify_lenient_diff(model: &mut crate::model::Model, s: &str, _strict: &UserInputAst, _lenient: &UserInputAst, _errs: &[String]) -> &'static str {
    attribute_divergence(model, s)
}

/// does the tree contain a field name with a tab / newline that the input did not escape
fn field_with_raw_whitespace(v: &Value, s: &str) -> bool {
    match v {
        Value::Object(m) => {
            for k in ["field_name", "field"] {
                if let Some(Value::String(f)) = m.get(k) {
                    if f.chars().any(|c| c == '\t' || c == '\n' || c == '\r') && !s.contains("\\\t") && !s.contains("\\\n") && !s.contains("\\\r") {
                        return true;
                    }
                }
            }
            m.values().any(|x| field_with_raw_whitespace(x, s))
        }
        Value::Array(a) => a.iter().any(|x| field_with_raw_whitespace(x, s)),
        _ => false,
    }
}

/// a panic while executing a parsed query (outside the parser; DocSet contract, see C13)
fn search_panic_key(msg: &str) -> &'static str {
    if msg.contains("should be greater than or equal to doc") {
        KEY_SEEK_ASSERT
    } else if msg.contains("attempt to subtract with overflow") {
        KEY_RANGE_SEEK_OVERFLOW
    } else {
        "C16:search-panic"
    }
}

fn short(s: &str) -> String {
    let t: String = s.chars().take(120).collect();
    if t.len() < s.len() { format!("{t:?}… ({} bytes)", s.len()) } else { format!("{t:?}") }
}

/// all four entry points on one input; returns a one-word status for the child protocol
fn check_string(ctx: &mut Ctx, w: &World, s: &str, origin: &str) -> String {
    ctx.report.count(&format!("string:{origin}"));
    let case = json!({"kind": "string", "text": s, "origin": origin});
    let mut status = "ok".to_string();
    let strict = catch_unwind(AssertUnwindSafe(|| parse_query(s)));
    let lenient = catch_unwind(AssertUnwindSafe(|| parse_query_lenient(s)));
    let mut strict_ast: Option<UserInputAst> = None;
    // character layer: the Lean strict and lenient parsers predict both outcomes on any text
    // (`model_reproduces`: second leg of the attribution of a strict/lenient divergence)
    let mut model_reproduces = false;
    if s.len() <= 1200 {
        let tree_of = |ast: &UserInputAst| {
            let mut out = vec![];
            canon_chars(&serde_json::to_value(ast).unwrap_or(Value::Null), &mut out);
            out.join(",")
        };
        let real = match &strict {
            Err(_) => "panic".to_string(),
            Ok(Err(_)) => "error".to_string(),
            Ok(Ok(ast)) => format!("tree {}", tree_of(ast)),
        };
        let real_l = match &lenient {
            Err(_) => "panic".to_string(),
            Ok((ast, errs)) => format!("tree {} {}", errs.len(), tree_of(ast)),
        };
        let answer = ctx.model.ask(&format!("C16 parse2 {}", crate::model::hex(s.as_bytes())));
        let mut parts = answer.splitn(3, '|');
        let (m_strict, m_lenient, m_ff) = (parts.next().unwrap_or("?"), parts.next().unwrap_or("?"), parts.next().unwrap_or("?"));
        // the agreement statement (C16_lenient_agrees_chars) evaluated on this text: no catalogued
        // divergence feature + strict accepts  =>  lenient returns the same tree and no error
        if m_ff == "1" {
            if let (Ok(Ok(a)), Ok((l, errs))) = (&strict, &lenient) {
                ctx.report.count("agreement:feature-free-and-strict-ok");
                if a != l || !errs.is_empty() {
                    ctx.report.violation("model", "C16:agreement-predicate-refuted", format!("{}: no catalogued divergence feature (featureFree) and strict accepts, but lenient returns {:?} with {} errors (strict: {:?})", short(s), l, errs.len(), a), case.clone());
                }
            }
        } else if matches!(&strict, Ok(Ok(_))) {
            ctx.report.count("agreement:strict-ok-with-feature");
        }
        let model = normalise_model_tree(m_strict);
        let model_l = match m_lenient.strip_prefix("tree ").and_then(|r| r.split_once(' ')) {
            Some((n, t)) => format!("tree {n} {}", normalise_model_tree(&format!("tree {t}")).trim_start_matches("tree ")),
            None => m_lenient.to_string(),
        };
        ctx.report.count(&format!("char-layer:{}", real.split(' ').next().unwrap_or("")));
        if model != real {
            ctx.report.violation("model", "C16:char-layer-mismatch", format!("{}: real strict parser {} ≠ Lean character-layer parser {}", short(s), short(&real), short(&model)), case.clone());
        }
        if model_l != real_l {
            ctx.report.violation("model", "C16:char-layer-lenient-mismatch", format!("{}: real lenient parser {} ≠ Lean lenient parser {}", short(s), short(&real_l), short(&model_l)), case.clone());
        }
        model_reproduces = model == real && model_l == real_l;
    }
    match strict {
        Err(e) => {
            let msg = panic_text(e);
            status = format!("panic {msg}");
            ctx.report.violation("oracle", panic_key(&msg), format!("tantivy_query_grammar::parse_query panics on {}: {msg}", short(s)), case.clone());
        }
        Ok(Ok(ast)) => {
            ctx.report.count("grammar-strict:ok");
            let js = serde_json::to_string(&ast).unwrap_or_default();
            if field_with_raw_whitespace(&serde_json::to_value(&ast).unwrap_or(Value::Null), s) {
                ctx.report.violation("oracle", KEY_FIELD_WS, format!("an unescaped tab/newline is absorbed into a field name: {} parses as {}", short(s), short(&js)), case.clone());
            }
            strict_ast = Some(ast);
        }
        Ok(Err(_)) => ctx.report.count("grammar-strict:err"),
    }
    match lenient {
        Err(e) => {
            let msg = panic_text(e);
            status = format!("panic {msg}");
            ctx.report.violation("oracle", if panic_key(&msg) == "C16:panic" { "C16:lenient-panic" } else { panic_key(&msg) }, format!("parse_query_lenient panics on {}: {msg}", short(s)), case.clone());
        }
        Ok((last, errs)) => {
            if errs.is_empty() {
                ctx.report.count("grammar-lenient:clean");
            } else {
                ctx.report.count("grammar-lenient:with-errors");
            }
            if let Some(ast) = &strict_ast {
                if *ast != last || !errs.is_empty() {
                    // attributed to a catalogued family only if (1) the counterfactual explains it and
                    // (2) the Lean models reproduce it: lenient = model-of-lenient ≠ model-of-strict = strict
                    let key = if model_reproduces || s.len() > 1200 { classify_lenient_diff(&mut ctx.model, s, ast, &last, &errs.iter().map(|e| e.message.clone()).collect::<Vec<_>>()) } else { "C16:lenient-differs-from-strict" };
                    ctx.report.violation(
                        "oracle",
                        key,
                        format!("strict accepts {} as {:?} but lenient returns {:?} with errors {:?}", short(s), ast, last, errs.iter().map(|e| e.message.clone()).collect::<Vec<_>>()),
                        case.clone(),
                    );
                }
            }
        }
    }
    for (mode, p) in [("or", &w.parser_or), ("and", &w.parser_and)] {
        let st = catch_unwind(AssertUnwindSafe(|| p.parse_query(s).map(|q| format!("{q:?}")).map_err(|e| e.to_string())));
        let le = catch_unwind(AssertUnwindSafe(|| {
            let (q, errs) = p.parse_query_lenient(s);
            (format!("{q:?}").len(), errs.len())
        }));
        let mut strict_ok = false;
        match st {
            Err(e) => {
                let msg = panic_text(e);
                status = format!("panic {msg}");
                ctx.report.violation("oracle", if panic_key(&msg) == "C16:panic" { "C16:queryparser-panic" } else { panic_key(&msg) }, format!("QueryParser::parse_query ({mode}) panics on {}: {msg}", short(s)), case.clone());
            }
            Ok(Ok(_)) => {
                strict_ok = true;
                ctx.report.count("queryparser-strict:ok");
            }
            Ok(Err(_)) => ctx.report.count("queryparser-strict:err"),
        }
        match le {
            Err(e) => {
                let msg = panic_text(e);
                status = format!("panic {msg}");
                ctx.report.violation("oracle", if panic_key(&msg) == "C16:panic" { "C16:queryparser-lenient-panic" } else { panic_key(&msg) }, format!("QueryParser::parse_query_lenient ({mode}) panics on {}: {msg}", short(s)), case.clone());
            }
            Ok((_, nerr)) => {
                if strict_ok && nerr > 0 && strict_ast.is_some() {
                    // only reported when the grammars agreed (otherwise already reported above)
                    let (last, errs) = parse_query_lenient(s);
                    if errs.is_empty() && Some(&last) == strict_ast.as_ref() {
                        ctx.report.violation("oracle", "C16:queryparser-lenient-errors-on-accepted", format!("QueryParser ({mode}) accepts {} but the lenient variant reports {nerr} errors", short(s)), case.clone());
                    }
                }
            }
        }
    }
    status
}

// ------------------------------------------------------------------------------------------
// string streams
// ------------------------------------------------------------------------------------------

const ALPHABET: &[&str] = &[
    "+", "-", "^", "`", ":", "{", "}", "\"", "'", "[", "]", "(", ")", "!", "\\", "*", "~", "<", ">", "=", "/", ".", ",",
    " ", " ", " ", "\t", "\n", "\r", "\u{a0}", "\u{2028}", "\u{85}", "\0", "\u{7}", "\u{1b}",
    "a", "b", "title", "n_u64", "x", "1", "2", "0", "9", "5.5",
    "é", "日", "本", "😀", "\u{301}", "ß", "İ", "\u{200d}",
    "AND", "OR", "NOT", "IN", "TO", "AND ", "OR ", "NOT ", " TO ", "[",
];

fn random_text(rng: &mut Rng) -> String {
    let n = match rng.below(6) {
        0 => rng.below(4),
        1 | 2 => 1 + rng.below(12),
        3 | 4 => 5 + rng.below(40),
        _ => 50 + rng.below(300),
    };
    let mut s = String::new();
    for _ in 0..n {
        if rng.chance(1, 12) {
            // arbitrary scalar value
            let c = loop {
                let v = match rng.below(4) {
                    0 => rng.below(0x80) as u32,
                    1 => rng.below(0x800) as u32,
                    2 => rng.below(0x10000) as u32,
                    _ => rng.below(0x110000) as u32,
                };
                if let Some(c) = char::from_u32(v) {
                    break c;
                }
            };
            s.push(c);
        } else {
            s.push_str(*rng.pick(ALPHABET));
        }
    }
    s
}

fn mutate(rng: &mut Rng, s: &str) -> String {
    let mut cs: Vec<char> = s.chars().collect();
    let k = 1 + rng.below(3);
    for _ in 0..k {
        if cs.is_empty() {
            cs.push('(');
            continue;
        }
        let i = rng.usize_below(cs.len());
        match rng.below(9) {
            0 => {
                cs.remove(i);
            }
            1 => {
                let c = cs[i];
                cs.insert(i, c);
            }
            2 => {
                let j = rng.usize_below(cs.len());
                cs.swap(i, j);
            }
            3 => cs.insert(i, *rng.pick(&['"', '\'', '(', ')', '[', ']', '{', '}'])),
            4 => cs.insert(i, *rng.pick(&['+', '-', '^', '~', '*', ':', '\\', '!', '<', '>', '/'])),
            5 => {
                // drop the first closing delimiter at or after i
                if let Some(p) = cs[i..].iter().position(|c| ")]}\"'".contains(*c)) {
                    cs.remove(i + p);
                }
            }
            6 => {
                let t: Vec<char> = rng.pick(&[" AND ", " OR ", " NOT ", " TO ", " IN ", "AND", "OR "]).chars().collect();
                for (k, c) in t.into_iter().enumerate() {
                    cs.insert(i + k, c);
                }
            }
            7 => cs.insert(i, *rng.pick(&['é', '日', '😀', '\u{301}', '\0', '\u{a0}'])),
            _ => cs.truncate(i),
        }
    }
    cs.into_iter().collect()
}

const EDGES: &[&str] = &[
    "", " ", "AND", "OR", "NOT", "IN", "TO", "AND ", "OR ", "NOT ", "OR AND", "AND OR", "AND AND a", "a AND", "a OR", "a AND ", "a OR ",
    "a AND AND b", "a OR OR b", "a AND OR b", "AND a", "OR a", "+", "-", "+-", "-+", "++a", "--a", "+-a", "+ a", "- a", "a +", "a -",
    "+ *", "- *", "+  *", "(+ *)", "a + *", "a AND + *", "NOT + *", "*", "**", "* *", "*a", "a*", "*:*", "*:a", "a:*", "a: *", "a:*b", "a:**",
    "^", "a^", "a^^2", "a^2^3", "^2", "a^-1", "a^1e5", "a^.5", "a^5.", "a^1", "a^1.0", "*^2", "(a)^2", "()^2",
    "~", "a~", "a~2", "\"a\"~", "\"a b\"~", "\"a b\"~2", "\"a b\"~-1", "\"a b\"~99999999999", "\"a b\"~4294967295", "\"a b\"~4294967296", "\"é\"~2", "\"é b\"~é", "\"a b\"~2é", "\"日本\"*", "\"a b\"*~2", "\"a b\"~2*",
    "\"", "'", "\"a", "'a", "a\"", "\"\"", "''", "\"\"*", "\"\\", "\"\\\"", "'\\''", "\"a\\", "a\\", "\\", "\\\\", "\\ ", "a\\ b", "\\-a", "\\+a",
    "(", ")", "()", "( )", "(a", "a)", "((a)", "(a))", ")(", "(()", "())", "a:(", "a:()", "a:( )", "a:(b", "a:(*)", "a:(b *)", "a:(b:(c))",
    "[", "]", "{", "}", "[]", "{}", "[a", "[a TO", "[a TO ", "[a TO b", "[a TO b]", "{a TO b}", "[a TO b}", "{a TO b]", "[* TO *]", "{* TO *}", "[* TO b}", "{a TO *]", "a:[* TO *]",
    "[a TOb]", "[aTO b]", "[a  TO  b]", "[ a TO b ]", "[TO TO TO]", "[a TO]", "[ TO b]", "[a b]", "a:[1 TO 2", "a:[1 TO 2]]", "a:[[1 TO 2]", "[\"a\" TO \"b\"]",
    ">", "<", ">=", "<=", ">a", "<a", ">=a", "<=a", "> a", "a:>", "a:>=", "a:>1", "a:> 1", "a:>=1", "a:< -1", "a:<=-1.5", "a:>>1", "a:><1", "a:=1", ">)", "(>)", "(>a)",
    "(a NOT b)^2", "(a NOT b)", "(a a)^2", "a\ntitle:b", "a\ttitle:b", "x title:a\nbody:b", "NOT\ta", "NOT\na b", "IN [ 'a']", "title: IN [ \"a\" b]", "IN [\u{85}", "a: IN [b\u{a0}c]", "IN [a\u{2028}", "js.a\0b:x", "js.\0:x", "title\0:x",
    "IN", "IN ", "IN [", "IN []", "IN [a", "IN [a]", "IN [a b]", "IN [a b ]", "IN[a]", "a:IN [b]", "a: IN [b]", "a: IN [\"b c\" d]", "a: IN [b", "a: IN ]", "a: IN [[b]]", "a: IN [IN]", "IN [a] b", "IN (a)",
    "/", "//", "/a/", "/a", "a:/b/", "a:/b", "a:/b/c", "a:/b/ c", "a:/b/^2", "a:/\\//", "a:/[/", "cat:/a/b",
    ":", "::", "a:", ":a", "a::b", "a:b:c", "a :b", "a: b", "a : b", "a\\:b", "a\\ b:c", "-a:b", "!a:b", "a.b:c", "a.b.c.d:e",
    "a b", "a  b", "a\tb", "a\nb", "a\rb", "a\u{a0}b", "a\u{2028}b", "a AND\tb", "a AND\nb", "a\tAND b", "a\nOR b", "aANDb", "a ANDb", "aAND b", "a and b", "a Or b",
    "NOTa", "NOT a", "NOT  a", "NOT\ta", "NOT(a)", "NOT (a)", "NOT NOT a", "NOT -a", "-NOT a", "a NOT b", "a AND NOT b", "a OR NOT b", "NOT *", "NOT", "a NOT",
    "a OR -b", "-a OR b", "-a OR -b", "-a AND -b", "+a OR +b", "+a AND -b", "a AND -b AND c", "-a", "-(a b)", "-(-a)", "(-a)", "((-a))", "a (-b)", "(+a +a) b", "b (+a +a)", "b (a OR a)", "(a a)", "a a", "a a a", "(a a) (a a)",
    "\0", "a\0b", "\u{feff}a", "\u{202e}a", "a\u{301}", "\u{301}", "İ", "ß:ß", "日本:語", "😀", "😀:😀", "\"😀 😀\"~1", "é:[é TO é]", "é: IN [é]",
];

fn long_inputs(rng: &mut Rng, scale: usize) -> Vec<(String, String)> {
    let mut v: Vec<(String, String)> = vec![];
    let n = scale;
    v.push(("long".into(), "a ".repeat(n)));
    v.push(("long".into(), (0..n).map(|i| format!("w{}", i % 97)).collect::<Vec<_>>().join(" OR ")));
    v.push(("long".into(), (0..n).map(|i| format!("w{}", i % 89)).collect::<Vec<_>>().join(" AND ")));
    v.push(("long".into(), (0..n).map(|i| format!("{}w{}", ["+", "-", ""][i % 3], i)).collect::<Vec<_>>().join(" ")));
    v.push(("long".into(), "x".repeat(n * 4)));
    v.push(("long".into(), format!("\"{}\"", "a b ".repeat(n))));
    v.push(("long".into(), format!("title: IN [{}]", "a ".repeat(n))));
    v.push(("long".into(), format!("a^{}", "9".repeat(n.min(5000)))));
    v.push(("long".into(), format!("\"a b\"~{}", "9".repeat(n.min(5000)))));
    v.push(("long".into(), "\\".repeat(n)));
    v.push(("long".into(), "\"".repeat(n)));
    v.push(("long".into(), "é".repeat(n)));
    v.push(("long".into(), "AND ".repeat(n)));
    v.push(("long".into(), "NOT ".repeat(n.min(3000)) + "a"));
    v.push(("long".into(), (0..n / 10 + 1).map(|_| random_text(rng)).collect::<Vec<_>>().join(" ")));
    v
}

fn deep_inputs(depths: &[usize]) -> Vec<(String, String)> {
    let mut v = vec![];
    for &d in depths {
        v.push(("deep".into(), format!("{}a{}", "(".repeat(d), ")".repeat(d))));
        v.push(("deep".into(), format!("{}a{}", "+(".repeat(d), ")".repeat(d))));
        v.push(("deep".into(), format!("{}a{}", "title:(".repeat(d), ")".repeat(d))));
        v.push(("deep".into(), format!("{}a b{}", "(a OR ".repeat(d), ")".repeat(d))));
        v.push(("deep".into(), "(".repeat(d)));
        v.push(("deep".into(), format!("{}a", "NOT ".repeat(d.min(3000)))));
        v.push(("deep".into(), format!("{}a", "-(".repeat(d))));
    }
    v
}

// ------------------------------------------------------------------------------------------
// child process: inputs that may overflow the stack or hang
// ------------------------------------------------------------------------------------------

fn child_main(ctx: &mut Ctx) -> bool {
    let (inp, outp) = match (std::env::var("C16_CHILD_IN"), std::env::var("C16_CHILD_OUT")) {
        (Ok(i), Ok(o)) => (i, o),
        _ => return false,
    };
    let from: usize = std::env::var("C16_CHILD_FROM").ok().and_then(|s| s.parse().ok()).unwrap_or(0);
    let inputs: Vec<String> = serde_json::from_str(&std::fs::read_to_string(inp).unwrap()).unwrap();
    let mut rng = Rng::new(1);
    let w = build_world(&mut rng, 3);
    use std::io::Write;
    let mut f = std::fs::OpenOptions::new().append(true).create(true).open(outp).unwrap();
    let origins: Vec<String> = std::env::var("C16_CHILD_ORIGINS").ok().and_then(|p| std::fs::read_to_string(p).ok()).and_then(|t| serde_json::from_str(&t).ok()).unwrap_or_default();
    let mut seen_viol = 0usize;
    for (i, s) in inputs.iter().enumerate().skip(from) {
        writeln!(f, "start {i}").unwrap();
        f.flush().unwrap();
        let origin = origins.get(i).map(|s| s.as_str()).unwrap_or("child");
        let _ = check_string(ctx, &w, s, origin);
        while seen_viol < ctx.report.violations.len() {
            let v = &ctx.report.violations[seen_viol];
            writeln!(f, "viol {}", serde_json::to_string(&json!({"kind": v.kind, "key": v.key, "what": v.what, "case": v.case})).unwrap()).unwrap();
            seen_viol += 1;
        }
        writeln!(f, "done {i}").unwrap();
        f.flush().unwrap();
    }
    writeln!(f, "dist {}", serde_json::to_string(&ctx.report.distribution).unwrap()).unwrap();
    f.flush().unwrap();
    std::process::exit(0);
}

fn own_model_path() -> String {
    let args: Vec<String> = std::env::args().collect();
    args.iter().position(|a| a == "--model").and_then(|i| args.get(i + 1).cloned()).unwrap_or_else(|| "/verif/lean/.lake/build/bin/tvmodel".into())
}

/// does a child process finish this single input (no hang, no memory blow-up, clean exit)
fn probe_completes(text: &str, secs: u64) -> bool {
    let dir = tempfile::tempdir().unwrap();
    let inp = dir.path().join("in.json");
    let outp = dir.path().join("out.txt");
    std::fs::write(&inp, serde_json::to_string(&vec![text]).unwrap()).unwrap();
    let exe = std::env::current_exe().unwrap();
    let cmd = format!("ulimit -v 8000000; exec '{}' C16 --tier quick --seed 1 --model '{}' --out /dev/null", exe.display(), own_model_path());
    let mut child = match std::process::Command::new("sh")
        .args(["-c", &cmd])
        .env("C16_CHILD_IN", &inp)
        .env("C16_CHILD_OUT", &outp)
        .env("C16_CHILD_FROM", "0")
        .stdout(std::process::Stdio::null())
        .stderr(std::process::Stdio::null())
        .spawn()
    {
        Ok(c) => c,
        Err(_) => return false,
    };
    let t0 = std::time::Instant::now();
    loop {
        match child.try_wait() {
            Ok(Some(st)) => return st.success() && std::fs::read_to_string(&outp).unwrap_or_default().contains("done 0"),
            Ok(None) => {
                let rss_pages: u64 = std::fs::read_to_string(format!("/proc/{}/statm", child.id())).ok().and_then(|t| t.split(' ').nth(1).and_then(|x| x.parse().ok())).unwrap_or(0);
                if rss_pages * 4096 > 600_000_000 || t0.elapsed().as_secs() > secs {
                    let _ = child.kill();
                    let _ = child.wait();
                    return false;
                }
                std::thread::sleep(std::time::Duration::from_millis(10));
            }
            Err(_) => return false,
        }
    }
}

/// the endless loop of `set_infallible`: the input has a non-nom Unicode space inside `IN [ … ]`
/// and, counterfactually, completes once those characters are plain spaces
fn is_set_loop(text: &str) -> bool {
    if !set_loop_risk(text) {
        return false;
    }
    let fixed: String = text.chars().map(|c| if c.is_whitespace() && !" \t\r\n".contains(c) { ' ' } else { c }).collect();
    probe_completes(&fixed, 20)
}

/// run the inputs in child processes (address space limited, killed when no input completes
/// within `stall_secs`); report panics, aborts (stack overflow), hangs and memory blow-ups
fn run_in_children(ctx: &mut Ctx, inputs: &[(String, String)], stall_secs: u64) {
    if inputs.is_empty() {
        return;
    }
    let dir = tempfile::tempdir().unwrap();
    let inp = dir.path().join("in.json");
    let orig = dir.path().join("origins.json");
    let outp = dir.path().join("out.txt");
    let texts: Vec<&String> = inputs.iter().map(|(_, s)| s).collect();
    let origins: Vec<&String> = inputs.iter().map(|(o, _)| o).collect();
    std::fs::write(&inp, serde_json::to_string(&texts).unwrap()).unwrap();
    std::fs::write(&orig, serde_json::to_string(&origins).unwrap()).unwrap();
    let mut from = 0usize;
    let mut restarts = 0;
    while from < inputs.len() && restarts < 300 {
        let _ = std::fs::remove_file(&outp);
        let exe = std::env::current_exe().unwrap();
        let cmd = format!(
            "ulimit -v 8000000; exec '{}' C16 --tier quick --seed 1 --model '{}' --out /dev/null",
            exe.display(),
            own_model_path()
        );
        let mut child = std::process::Command::new("sh")
            .args(["-c", &cmd])
            .env("C16_CHILD_IN", &inp)
            .env("C16_CHILD_OUT", &outp)
            .env("C16_CHILD_ORIGINS", &orig)
            .env("C16_CHILD_FROM", from.to_string())
            .stdout(std::process::Stdio::null())
            .stderr(std::process::Stdio::null())
            .spawn()
            .expect("spawn child");
        let mut last_progress = std::time::Instant::now();
        let mut last_len = 0u64;
        let mut timed_out = false;
        let mut mem_blowup = false;
        let status = loop {
            match child.try_wait().unwrap() {
                Some(st) => break Some(st),
                None => {
                    // resident set of the child (pages): a parser that allocates without bound is stopped early
                    let rss_pages: u64 = std::fs::read_to_string(format!("/proc/{}/statm", child.id())).ok().and_then(|t| t.split(' ').nth(1).and_then(|x| x.parse().ok())).unwrap_or(0);
                    if rss_pages * 4096 > 600_000_000 {
                        let _ = child.kill();
                        let _ = child.wait();
                        mem_blowup = true;
                        break None;
                    }
                    let len = std::fs::metadata(&outp).map(|m| m.len()).unwrap_or(0);
                    if len != last_len {
                        last_len = len;
                        last_progress = std::time::Instant::now();
                    }
                    if last_progress.elapsed().as_secs() > stall_secs {
                        let _ = child.kill();
                        let _ = child.wait();
                        timed_out = true;
                        break None;
                    }
                    std::thread::sleep(std::time::Duration::from_millis(10));
                }
            }
        };
        let log = std::fs::read_to_string(&outp).unwrap_or_default();
        let mut last_started: Option<usize> = None;
        let mut last_done: Option<usize> = None;
        for line in log.lines() {
            let (tag, rest) = line.split_once(' ').unwrap_or((line, ""));
            match tag {
                "start" => last_started = rest.parse().ok(),
                "done" => {
                    if let Ok(i) = rest.parse::<usize>() {
                        last_done = Some(i);
                        let (origin, text) = &inputs[i];
                        let nontrivial = text.chars().any(|c| "()[]{}\"'+-^~:*".contains(c)) || text.contains("AND") || text.contains("OR");
                        if text.len() > 300 {
                            ctx.report.case(&format!("{origin}|{}|{}", text.len(), crate::report::fnv(text.as_bytes())), true);
                        } else {
                            ctx.report.case(&format!("str|{text}"), nontrivial);
                        }
                    }
                }
                "viol" => {
                    if let Ok(v) = serde_json::from_str::<Value>(rest) {
                        ctx.report.violation(v["kind"].as_str().unwrap_or("oracle"), v["key"].as_str().unwrap_or("C16:panic"), v["what"].as_str().unwrap_or("").to_string(), v["case"].clone());
                    }
                }
                "dist" => {
                    if let Ok(Value::Object(m)) = serde_json::from_str::<Value>(rest) {
                        for (k, v) in m {
                            if !k.starts_with("violation:") {
                                ctx.report.count_n(&k, v.as_u64().unwrap_or(0));
                            }
                        }
                    }
                }
                _ => {}
            }
        }
        let clean = status.map(|s| s.success()).unwrap_or(false);
        if clean && last_done == Some(inputs.len() - 1) {
            break;
        }
        // the child died or hung on `last_started`
        let bad = match last_started {
            Some(i) if last_done != Some(i) => i,
            _ => {
                ctx.report.violation("model", "C16:child-protocol", format!("child exited ({status:?}) without a pending input"), json!({"kind":"child"}));
                break;
            }
        };
        let (origin, text) = &inputs[bad];
        let shape: String = text.chars().take(24).collect();
        let case = if text.len() <= 4000 { json!({"kind":"string","text":text,"origin":origin,"in_child":true}) } else { json!({"kind":"string-gen","origin":origin,"len":text.len(),"prefix":shape}) };
        if mem_blowup || timed_out {
            let how = if mem_blowup { "allocates without bound (> 600 MB resident, process killed)".to_string() } else { format!("gives no answer within {stall_secs}s (process killed)") };
            let key = if is_set_loop(text) { KEY_SET_LOOP } else if mem_blowup { "C16:memory-blowup" } else { "C16:hang" };
            ctx.report.violation("oracle", key, format!("the parser {how} on {origin} input {}", short(text)), case);
        } else {
            let key = if origin == "deep" { KEY_DEEP } else { "C16:abort" };
            ctx.report.violation("oracle", key, format!("process died ({status:?}: stack overflow or memory exhaustion) on {origin} input {}", short(text)), case);
        }
        ctx.report.count(&format!("child-died:{origin}"));
        if std::env::var("C16_VERBOSE").is_ok() {
            eprintln!("child died/hung (timeout={timed_out} mem={mem_blowup}) on {origin}: {}", short(text));
        }
        from = bad + 1;
        restarts += 1;
    }
}

// ------------------------------------------------------------------------------------------
// (b) fold correspondence
// ------------------------------------------------------------------------------------------

fn check_fold_case(ctx: &mut Ctx, w: &World, g: &Gen, q: &Q, text: &str) {
    let mut intern = Intern::default();
    let mut toks = vec![];
    g.encode(&mut intern, q, &mut toks);
    let qtok = toks.join(",");
    let case = json!({"kind": "fold", "text": text, "q": qtok});
    let resp = ctx.model.ask(&format!("C16 build {qtok}"));
    let mut parts = resp.split(' ');
    let model_ast = parts.next().unwrap_or("").to_string();
    let model_early: usize = parts.next().and_then(|x| x.parse().ok()).unwrap_or(usize::MAX);
    if resp == "bad-op" {
        ctx.report.violation("model", "C16:model-rejects-request", format!("model rejects {qtok}"), case);
        return;
    }
    let st = check_string(ctx, w, text, "printed-wild");
    if st != "ok" {
        return;
    }
    let strict = parse_query(text);
    let (last, lerrs) = parse_query_lenient(text);
    let nontrivial = toks.iter().filter(|t| *t == "s").count() >= 1 && toks.len() > 12;
    ctx.report.case(&format!("fold|{text}"), nontrivial);
    match strict {
        Ok(ast) => {
            ctx.report.count("fold:strict-ok");
            if model_early > 0 {
                ctx.report.violation("oracle", "C16:strict-accepts-leading-operator", format!("strict parser accepts {}", short(text)), case.clone());
            }
            let real = canon(&ast, &mut intern);
            if real != model_ast {
                ctx.report.violation("model", "C16:fold-mismatch", format!("{}: real tree {real} ≠ model tree {model_ast}", short(text)), case.clone());
            }
        }
        Err(_) => {
            if model_early == 0 {
                ctx.report.violation("model", "C16:generated-text-rejected", format!("strict parser rejects the printed query {}", short(text)), case.clone());
                return;
            }
            let cs: Vec<char> = text.chars().collect();
            let quirk = cs.windows(2).any(|w| (w[0] == '[' && w[1].is_whitespace()) || (w[0].is_whitespace() && (w[1] == ']' || w[1] == '}'))) || text.contains('/');
            if quirk {
                // the lenient grammar's known deviations (reported by (a) under their own keys) change the tree
                ctx.report.count("fold:lenient-only-skipped-known-quirk");
                return;
            }
            ctx.report.count("fold:lenient-only");
            let real = canon(&last, &mut intern);
            let early = lerrs.iter().filter(|e| e.message.contains("unexpected boolean operator before term")).count();
            if real != model_ast || early != model_early {
                ctx.report.violation("model", "C16:lenient-fold-mismatch", format!("{}: lenient tree {real} ({early} early-operator errors) ≠ model {model_ast} ({model_early})", short(text)), case.clone());
            }
        }
    }
}

fn check_fold(ctx: &mut Ctx, w: &World) {
    let mut rng = ctx.rng.fork();
    let (g, mut q) = gen_query(&mut rng, true, true);
    if rng.chance(1, 10) {
        if let Q::Seq(items) = &mut q {
            items[0].0 = Some(if rng.chance(1, 2) { Op::And } else { Op::Or });
        }
    }
    let text = g.print(&mut rng, &q, true);
    if ctx.report.samples.len() < 2 {
        ctx.report.sample(json!({"fold_case": text}));
    }
    check_fold_case(ctx, w, &g, &q, &text);
}

// ------------------------------------------------------------------------------------------
// (c) semantics
// ------------------------------------------------------------------------------------------

fn valuations(g: &Gen, intern: &mut Intern, docs: &[DocRec]) -> String {
    let mut out: Vec<String> = vec![];
    for d in docs {
        let mut keys: BTreeSet<String> = BTreeSet::new();
        for l in &g.leaves {
            let (_, desc) = l.descriptor();
            let id = intern.id(&desc);
            let fields: Vec<usize> = match (l, l.field()) {
                (LeafSpec::All, _) | (LeafSpec::Exists { .. }, _) => vec![],
                (_, Some(f)) => vec![f],
                (_, None) => vec![F_TITLE, F_BODY, F_TAG],
            };
            for f in fields {
                if l.matches_on(f, d) {
                    keys.insert(format!("{f}.{id}"));
                }
            }
        }
        out.push(if keys.is_empty() { "-".into() } else { keys.into_iter().collect::<Vec<_>>().join(";") });
    }
    out.join("|")
}

fn check_sem_case(ctx: &mut Ctx, w: &World, g: &Gen, q: &Q, text: &str) {
    let mut intern = Intern::default();
    let mut toks = vec![];
    g.encode(&mut intern, q, &mut toks);
    let qtok = toks.join(",");
    let vals = valuations(g, &mut intern, &w.docs);
    let n = w.docs.len();
    let want_err = expect_err(g, q, None);
    let dups = has_dup_items(q);
    for (mode, and_mode, p) in [("o", false, &w.parser_or), ("a", true, &w.parser_and)] {
        let case = json!({"kind": "sem", "text": text, "q": qtok, "mode": mode, "docs": w.docs.iter().enumerate().map(|(i, d)| d.to_json(i as u64)).collect::<Vec<_>>()});
        let expected: BTreeSet<usize> = (0..n).filter(|i| eval(g, q, and_mode, None, &w.docs[*i])).collect();
        let exp_bits = bits(&expected, n);
        let semq = ctx.model.ask(&format!("C16 semq {mode} 0,1 {qtok} {vals}"));
        let sem = ctx.model.ask(&format!("C16 sem {mode} 0,1 {qtok} {vals}"));
        let (m_strict, m_lenient) = sem.split_once('/').unwrap_or(("?", "?"));
        // counterfactual for the known PhrasePrefixScorer defect: the same evaluation with the gap
        // before the prefix term ignored (expectation and model valuations)
        let has_gap = has_prefix_gap_leaf(g);
        let (exp_bits_d, m_strict_d, m_lenient_d) = if has_gap {
            PREFIX_GAP_DEFECT.store(true, std::sync::atomic::Ordering::Relaxed);
            let e: BTreeSet<usize> = (0..n).filter(|i| eval(g, q, and_mode, None, &w.docs[*i])).collect();
            let vals_d = valuations(g, &mut intern, &w.docs);
            PREFIX_GAP_DEFECT.store(false, std::sync::atomic::Ordering::Relaxed);
            let sem_d = ctx.model.ask(&format!("C16 sem {mode} 0,1 {qtok} {vals_d}"));
            let (a, b) = sem_d.split_once('/').map(|(a, b)| (a.to_string(), b.to_string())).unwrap_or_default();
            (bits(&e, n), a, b)
        } else {
            (String::new(), String::new(), String::new())
        };
        if semq != exp_bits {
            ctx.report.violation("model", "C16:semq-vs-bruteforce", format!("{}: Lean semQ {semq} ≠ harness brute force {exp_bits}", short(text)), case.clone());
        }
        let nontrivial = !expected.is_empty() && expected.len() < n && toks.len() > 12;
        ctx.report.case(&format!("sem|{mode}|{text}"), nontrivial);
        ctx.report.count(if want_err { "sem:expect-error" } else { "sem:expect-ok" });
        let strict = catch_unwind(AssertUnwindSafe(|| p.parse_query(text)));
        let lenient = catch_unwind(AssertUnwindSafe(|| p.parse_query_lenient(text)));
        let mut strict_set: Option<BTreeSet<usize>> = None;
        match strict {
            Err(e) => {
                let msg = panic_text(e);
                ctx.report.violation("oracle", panic_key(&msg), format!("QueryParser::parse_query panics on {}: {msg}", short(text)), case.clone());
            }
            Ok(Err(e)) => {
                ctx.report.count("sem:strict-err");
                if !want_err {
                    ctx.report.violation("oracle", "C16:wellformed-rejected", format!("well-formed query {} is rejected: {e}", short(text)), case.clone());
                } else if !m_strict.contains('e') {
                    ctx.report.violation("model", "C16:model-misses-error", format!("{}: real error {e}, model {m_strict}", short(text)), case.clone());
                }
            }
            Ok(Ok(query)) => match catch_unwind(AssertUnwindSafe(|| run_query(w, &*query))) {
                Err(e) => {
                    let msg = panic_text(e);
                    ctx.report.violation("oracle", search_panic_key(&msg), format!("searching {} panics: {msg}", short(text)), case.clone());
                }
                Ok(Err(e)) => ctx.report.violation("oracle", "C16:search-error", format!("searching {} fails: {e}", short(text)), case.clone()),
                Ok(Ok(set)) => {
                    let real_bits = bits(&set, n);
                    if want_err {
                        ctx.report.violation("model", "C16:expected-error-accepted", format!("{} accepted although an error was expected", short(text)), case.clone());
                    } else if real_bits != exp_bits {
                        let safe = ctx.model.ask(&format!("C16 safe {mode} {qtok}"));
                        let key = if safe == "0" && dups && real_bits == m_strict {
                            KEY_UNWRAP
                        } else if has_gap && real_bits == exp_bits_d {
                            KEY_PREFIX_GAP
                        } else if real_bits == m_strict && neg_under_boost(q, false) {
                            KEY_BOOST_SKIP
                        } else {
                            "C16:meaning-mismatch"
                        };
                        ctx.report.violation("oracle", key, format!("{} (mode {mode}): parsed query matches {real_bits}, documented meaning {exp_bits}", short(text)), case.clone());
                    }
                    if real_bits != m_strict && !(has_gap && real_bits == m_strict_d) {
                        ctx.report.violation("model", "C16:pipeline-model-mismatch", format!("{} (mode {mode}): real {real_bits} ≠ model of the parser pipeline {m_strict}", short(text)), case.clone());
                    }
                    strict_set = Some(set);
                }
            },
        }
        match lenient {
            Err(e) => {
                let msg = panic_text(e);
                ctx.report.violation("oracle", panic_key(&msg), format!("QueryParser::parse_query_lenient panics on {}: {msg}", short(text)), case.clone());
            }
            Ok((query, errs)) => match catch_unwind(AssertUnwindSafe(|| run_query(w, &*query))) {
                Ok(Ok(set)) => {
                    let lb = bits(&set, n);
                    if let Some(s) = &strict_set {
                        if *s != set || !errs.is_empty() {
                            let key = match (parse_query(text), parse_query_lenient(text)) {
                                (Ok(a), (l, e)) if a != l || !e.is_empty() => classify_lenient_diff(&mut ctx.model, text, &a, &l, &e.iter().map(|x| x.message.clone()).collect::<Vec<_>>()),
                                _ => "C16:queryparser-lenient-differs",
                            };
                            ctx.report.violation("oracle", key, format!("{} (mode {mode}): strict {} lenient {lb} errors {:?}", short(text), bits(s, n), errs.iter().map(|e| e.to_string()).collect::<Vec<_>>()), case.clone());
                        }
                    }
                    let grammar_differs = match (parse_query(text), parse_query_lenient(text)) {
                        (Ok(a), (l, e)) => a != l || !e.is_empty(),
                        _ => true,
                    };
                    if lb != m_lenient && !grammar_differs && !(has_gap && lb == m_lenient_d) {
                        ctx.report.violation("model", "C16:lenient-pipeline-model-mismatch", format!("{} (mode {mode}): real lenient {lb} ≠ model {m_lenient}", short(text)), case.clone());
                    }
                }
                Ok(Err(e)) => ctx.report.violation("oracle", "C16:search-error", format!("searching lenient {} fails: {e}", short(text)), case.clone()),
                Err(e) => {
                    let msg = panic_text(e);
                    ctx.report.violation("oracle", search_panic_key(&msg), format!("searching lenient {} panics: {msg}", short(text)), case.clone());
                }
            },
        }
    }
}

/// tokens of a random item of a list: a well-formed operand, or (the kinds of
/// `C16_print_parse_boosted`) a boost on an operand that ends with a closing bracket
fn lean_item_tokens(rng: &mut Rng, depth: u32, out: &mut Vec<String>) {
    if rng.chance(1, 6) {
        for _ in 0..12 {
            let mut tmp: Vec<String> = vec![];
            lean_opd_tokens(rng, depth, &mut tmp);
            if matches!(tmp[0].as_str(), "r" | "fr" | "s" | "fs" | "g" | "fg" | "a" | "x" | "pq" | "w" | "fw" | "pe" | "fpe") {
                out.push("b".into());
                out.push(rng.pick(&["2", "1", "0", "10", "007", "3"]).to_string());
                out.push(rng.pick(&["-", "-", "5", "0", "25", "50"]).to_string());
                out.extend(tmp);
                return;
            }
        }
    }
    lean_opd_tokens(rng, depth, out);
}

/// tokens of a random well-formed operand (`WFOpd`) for the Lean printer
fn lean_opd_tokens(rng: &mut Rng, depth: u32, out: &mut Vec<String>) {
    const VOC: &[&str] = &["a", "b", "abc", "x1", "ANDROID", "ORx", "NOTE", "INDIA", "IN2", "AN", "O", "NO", "42", "Zed", "andor"];
    const PHR: &[&str] = &["a b", "x", "", "it's", "a  b:c", "AND", "(x) +y", " b OR c ", "caf\u{e9} x", "a*", "t~2", "[a TO b]", "IN [a]"];
    const BND: &[&str] = &["a", "b", "1", "42", "TO", "AND", "zed", "2024", "x1"];
    if rng.chance(1, 7) {
        if rng.chance(1, 2) {
            out.push("r".into());
        } else {
            out.push("fr".into());
            out.push(crate::model::hex(rng.pick(&["title", "body", "t", "n"]).as_bytes()));
        }
        out.push(rng.below(2).to_string());
        out.push(rng.below(2).to_string());
        out.push(crate::model::hex(rng.pick(BND).as_bytes()));
        out.push(crate::model::hex(rng.pick(BND).as_bytes()));
        return;
    }
    if rng.chance(1, 8) {
        if rng.chance(1, 2) {
            out.push("s".into());
        } else {
            out.push("fs".into());
            out.push(crate::model::hex(rng.pick(&["title", "body", "t", "tag"]).as_bytes()));
        }
        out.push(rng.below(3).to_string());
        out.push(rng.below(3).to_string());
        out.push(crate::model::hex(rng.pick(VOC).as_bytes()));
        let n = rng.usize_below(4);
        out.push(n.to_string());
        for _ in 0..n {
            out.push(rng.below(3).to_string());
            out.push(crate::model::hex(rng.pick(VOC).as_bytes()));
        }
        return;
    }
    const ESC: &[&str] = &["say \"hi\"", "a\\b", "\\", "\"", "c:\\dir\\", "tab\there", "x\\\"y", "\"\"", "a b", "", "\\\\ \"", "caf\u{e9} \"x\""];
    if rng.chance(1, 7) {
        if rng.chance(1, 2) {
            out.push("pe".into());
        } else {
            out.push("fpe".into());
            out.push(crate::model::hex(rng.pick(&["title", "body", "t", "stop"]).as_bytes()));
        }
        out.push(crate::model::hex(rng.pick(ESC).as_bytes()));
        out.push(rng.pick(&["-", "-", "-", "*", "s1", "s30"]).to_string());
        return;
    }
    if rng.chance(1, 8) {
        match rng.below(4) {
            0 => out.push("a".into()),
            1 => {
                out.push("x".into());
                out.push(crate::model::hex(rng.pick(&["title", "body", "t", "n"]).as_bytes()));
            }
            2 => {
                out.push("el".into());
                out.push(rng.below(5).to_string());
                out.push(crate::model::hex(rng.pick(BND).as_bytes()));
            }
            _ => {
                out.push("fel".into());
                out.push(crate::model::hex(rng.pick(&["title", "body", "t", "n"]).as_bytes()));
                out.push(rng.below(5).to_string());
                out.push(crate::model::hex(rng.pick(BND).as_bytes()));
            }
        }
        return;
    }
    const ESQ: &[&str] = &["it's", "a\\b", "\\", "'", "a b", "", "say \"hi\"", "''", "x\\'y"];
    if rng.chance(1, 9) {
        if rng.chance(1, 2) {
            out.push("pq".into());
        } else {
            out.push("fpq".into());
            out.push(crate::model::hex(rng.pick(&["title", "body", "t", "stop"]).as_bytes()));
        }
        out.push(crate::model::hex(rng.pick(ESQ).as_bytes()));
        out.push(rng.pick(&["-", "-", "-", "*", "s1", "s30"]).to_string());
        return;
    }
    const SFX: &[&str] = &["*", "s0", "s1", "s2", "s10", "s007", "s4294967295", "-"];
    if rng.chance(1, 6) {
        if rng.chance(1, 2) {
            out.push("ps".into());
        } else {
            out.push("fps".into());
            out.push(crate::model::hex(rng.pick(&["title", "body", "t", "stop"]).as_bytes()));
        }
        out.push(crate::model::hex(rng.pick(PHR).as_bytes()));
        out.push(rng.pick(SFX).to_string());
        return;
    }
    const FLD: &[&str] = &["title", "body", "t", "x1", "INx", "NOTE", "stop", "ANDy", "O"];
    if rng.chance(1, 5) {
        let f = crate::model::hex(rng.pick(FLD).as_bytes());
        if rng.chance(1, 2) {
            out.push("fw".into());
            out.push(f);
            out.push(crate::model::hex(rng.pick(VOC).as_bytes()));
        } else {
            out.push("fp".into());
            out.push(f);
            out.push(crate::model::hex(rng.pick(PHR).as_bytes()));
        }
        return;
    }
    if rng.chance(1, 5) {
        out.push("p".into());
        out.push(crate::model::hex(rng.pick(PHR).as_bytes()));
        return;
    }
    if depth > 0 && rng.chance(1, 8) {
        out.push("n".into());
        out.push(rng.below(3).to_string());
        lean_opd_tokens(rng, depth - 1, out);
        return;
    }
    if depth == 0 || rng.chance(3, 5) {
        out.push("w".into());
        out.push(crate::model::hex(rng.pick(VOC).as_bytes()));
        return;
    }
    let n = rng.usize_below(4);
    if rng.chance(1, 4) {
        out.push("fg".into());
        out.push(crate::model::hex(rng.pick(&["title", "body", "t", "stop"]).as_bytes()));
    } else {
        out.push("g".into());
    }
    out.push(rng.below(3).to_string());
    out.push(rng.pick(&["-", "-", "m", "x", "s"]).to_string());
    out.push(rng.below(3).to_string());
    out.push(n.to_string());
    lean_item_tokens(rng, depth - 1, out);
    for _ in 0..n {
        out.push(rng.pick(&["-", "a", "o"]).to_string());
        out.push(rng.pick(&["-", "-", "m", "x", "s"]).to_string());
        out.push(rng.below(3).to_string());
        out.push(rng.below(3).to_string());
        lean_item_tokens(rng, depth - 1, out);
    }
}

/// nested operand lists printed by the Lean printer of `C16_print_parse_nested`
fn check_lean_printed_nested(ctx: &mut Ctx, w: &World) {
    let mut rng = ctx.rng.fork();
    let n = rng.usize_below(4);
    let mut toks: Vec<String> = vec![rng.below(3).to_string(), rng.pick(&["-", "-", "m", "x", "s"]).to_string(), rng.below(3).to_string(), n.to_string()];
    lean_item_tokens(&mut rng, 3, &mut toks);
    for _ in 0..n {
        toks.push(rng.pick(&["-", "a", "o"]).to_string());
        toks.push(rng.pick(&["-", "-", "m", "x", "s"]).to_string());
        toks.push(rng.below(3).to_string());
        toks.push(rng.below(3).to_string());
        lean_item_tokens(&mut rng, 3, &mut toks);
    }
    let req = format!("C16 printt {}", toks.join(","));
    let resp = ctx.model.ask(&req);
    let text = match crate::model::unhex(&resp).and_then(|b| String::from_utf8(b).ok()) {
        Some(t) => t,
        None => {
            ctx.report.violation("model", "C16:model-rejects-request", format!("model rejects {req}: {resp}"), json!({"kind": "printt", "req": req}));
            return;
        }
    };
    ctx.report.case(&format!("lean-printed-nested|{text}"), text.contains('('));
    if parse_query(&text).is_err() {
        ctx.report.violation("model", "C16:lean-printed-text-rejected", format!("the strict parser rejects the text printed by the Lean printer: {text:?}"), json!({"kind": "string", "text": text, "origin": "lean-printed"}));
    }
    check_string(ctx, w, &text, "lean-printed-nested");
}

/// the Lean printer of `C16_print_parse_operands`: operand lists of plain words printed by the
/// model with random layout; the real parsers and the Lean parsers are compared on that text
fn check_lean_printed(ctx: &mut Ctx, w: &World) {
    let mut rng = ctx.rng.fork();
    const VOC: &[&str] = &["a", "b", "abc", "x1", "ANDROID", "ORx", "NOTE", "INDIA", "IN2", "AN", "O", "NO", "42", "Zed", "andor"];
    let occ = |rng: &mut Rng| *rng.pick(&["-", "-", "m", "x", "s"]);
    let hexw = |s: &str| crate::model::hex(s.as_bytes());
    let n = rng.usize_below(6);
    let items: Vec<String> = (0..n)
        .map(|_| format!("{},{},{},{},{}", rng.pick(&["-", "a", "o"]), occ(&mut rng), hexw(*rng.pick(VOC)), rng.below(3), rng.below(3)))
        .collect();
    let req = format!("C16 printl {} {} {} {} {}", rng.below(3), occ(&mut rng), hexw(*rng.pick(VOC)), rng.below(3), if items.is_empty() { "-".to_string() } else { items.join(";") });
    let resp = ctx.model.ask(&req);
    let text = match crate::model::unhex(&resp).and_then(|b| String::from_utf8(b).ok()) {
        Some(t) => t,
        None => {
            ctx.report.violation("model", "C16:model-rejects-request", format!("model rejects {req}: {resp}"), json!({"kind": "printl", "req": req}));
            return;
        }
    };
    ctx.report.case(&format!("lean-printed|{text}"), n >= 1);
    if parse_query(&text).is_err() {
        ctx.report.violation("model", "C16:lean-printed-text-rejected", format!("the strict parser rejects the text printed by the Lean printer: {text:?}"), json!({"kind": "string", "text": text, "origin": "lean-printed"}));
    }
    check_string(ctx, w, &text, "lean-printed");
}

/// offsets `(n, Term(` of the phrase terms in the Debug text of a compiled query
fn debug_offsets(dbg: &str) -> Vec<u64> {
    let mut out = vec![];
    let b = dbg.as_bytes();
    let mut i = 0;
    while i < b.len() {
        if b[i] == b'(' {
            let mut j = i + 1;
            while j < b.len() && b[j].is_ascii_digit() {
                j += 1;
            }
            if j > i + 1 && dbg[j..].starts_with(", Term(") {
                out.push(dbg[i + 1..j].parse().unwrap_or(u64::MAX));
            }
        }
        i += 1;
    }
    out
}

/// the compile step of a quoted literal: the offsets of the phrase terms of the real compiled
/// query = the analyzer's token positions (oracle) = Lean `Phrase.compile (analyse …)` (model)
fn check_phrase_offsets(ctx: &mut Ctx, w: &World) {
    let mut rng = ctx.rng.fork();
    let n = 2 + rng.usize_below(5);
    let words: Vec<String> = (0..n).map(|_| if rng.chance(2, 5) { rng.pick(STOP_WORDS).to_string() } else { rng.pick(WORDS).to_string() }).collect();
    let kept = kept_positions(F_STOP, &words);
    if kept.len() < 2 {
        return;
    }
    let suffix = match rng.below(4) {
        0 => "~2",
        1 if !STOP_WORDS.contains(&words[n - 1].as_str()) => "*",
        _ => "",
    };
    let text = format!("stop:\"{}\"{suffix}", words.join(" "));
    let case = json!({"kind": "string", "text": text, "origin": "phrase-offsets"});
    ctx.report.case(&format!("phrase-offsets|{text}"), kept.len() < n);
    ctx.report.count("phrase-offsets:cases");
    let dbg = match catch_unwind(AssertUnwindSafe(|| w.parser_or.parse_query(&text).map(|q| format!("{q:?}")))) {
        Ok(Ok(d)) => d,
        Ok(Err(e)) => {
            ctx.report.violation("oracle", "C16:wellformed-rejected", format!("{text:?} is rejected: {e}"), case);
            return;
        }
        Err(e) => {
            ctx.report.violation("oracle", panic_key(&panic_text(e)), format!("QueryParser::parse_query panics on {text:?}"), case);
            return;
        }
    };
    let real = debug_offsets(&dbg);
    let expected: Vec<u64> = kept.iter().map(|(p, _)| *p as u64).collect();
    let flags: Vec<u64> = words.iter().map(|x| if STOP_WORDS.contains(&x.as_str()) { 0 } else { 1 }).collect();
    let model = ctx.model.ask(&format!("C16 phrase {}", crate::model::nat_list(&flags)));
    if real != expected {
        ctx.report.violation("oracle", "C16:phrase-offsets-not-token-positions", format!("{text:?}: the compiled phrase terms have offsets {real:?}, the analyzer's token positions are {expected:?}"), case.clone());
    }
    if model != crate::model::nat_list(&real) {
        ctx.report.violation("model", "C16:phrase-offsets-model-mismatch", format!("{text:?}: real offsets {real:?} ≠ Lean Phrase.compile {model}"), case);
    }
}

/// an unmarked `NOT x` clause of a marker list somewhere below a boost: `rewrite_ast` does not
/// descend into `Boost`, so the clause is not normalised to `-x`
fn neg_under_boost(q: &Q, boosted: bool) -> bool {
    match q {
        Q::Leaf(_) => false,
        Q::Boost(i, _) => neg_under_boost(i, true),
        Q::Neg(i) | Q::Scoped(_, i) => neg_under_boost(i, boosted),
        Q::Seq(items) => items.iter().any(|(_, occ, s)| (boosted && occ.is_none() && matches!(s, Q::Neg(_)) && is_marks(items)) || neg_under_boost(s, boosted)),
    }
}

fn check_sem(ctx: &mut Ctx, w: &World) {
    let mut rng = ctx.rng.fork();
    let dups = rng.chance(1, 6);
    let (g, q) = gen_query(&mut rng, false, dups);
    let text = g.print(&mut rng, &q, true);
    for l in &g.leaves {
        ctx.report.count(&format!(
            "leaf:{}",
            match l {
                LeafSpec::Lit { field: None, .. } => "word-default-fields".to_string(),
                LeafSpec::Lit { field: Some(f), .. } => format!("term-{}", FIELDS[*f]),
                LeafSpec::Phrase { slop, prefix, .. } => format!("phrase{}{}", if *slop > 0 { "-slop" } else { "" }, if *prefix { "-prefix" } else { "" }),
                LeafSpec::Range { elastic, lo, hi, field } => format!("range-{}{}-{}", if *elastic { "elastic" } else { "brackets" }, if matches!(lo, Bd::Unbounded) || matches!(hi, Bd::Unbounded) { "-open" } else { "" }, FIELDS[field.unwrap_or(0)]),
                LeafSpec::Set { .. } => "set".into(),
                LeafSpec::Exists { .. } => "exists".into(),
                LeafSpec::All => "all".into(),
            }
        ));
    }
    if ctx.report.samples.len() < 5 {
        ctx.report.sample(json!({"sem_case": text}));
    }
    check_sem_case(ctx, w, &g, &q, &text);
}

// ------------------------------------------------------------------------------------------
// replay and run
// ------------------------------------------------------------------------------------------

pub fn replay(ctx: &mut Ctx, case: &Value) {
    let mut rng = Rng::new(7);
    let w = build_world(&mut rng, 4);
    match case["kind"].as_str().unwrap_or("") {
        "string" | "fold" | "sem" => {
            let text = case["text"].as_str().unwrap_or("").to_string();
            ctx.report.case("replay", true);
            if text.len() > 5000 || case["in_child"] == true {
                run_in_children(ctx, &[(case["origin"].as_str().unwrap_or("long").to_string(), text)], 30);
            } else {
                check_string(ctx, &w, &text, "replay");
                if case["kind"] == "fold" {
                    // tree comparison against the stored model request
                    let qtok = case["q"].as_str().unwrap_or("");
                    let resp = ctx.model.ask(&format!("C16 build {qtok}"));
                    ctx.report.notes.push(format!("replay: model tree {resp}; real strict {:?}", parse_query(&text)));
                }
                if case["kind"] == "sem" {
                    replay_sem(ctx, case, &text);
                }
            }
        }
        "string-gen" => {
            let origin = case["origin"].as_str().unwrap_or("deep").to_string();
            let len = case["len"].as_u64().unwrap_or(0) as usize;
            let prefix = case["prefix"].as_str().unwrap_or("");
            let all = if origin == "deep" { deep_inputs(&[200, 2000, 20000, 200000]) } else { long_inputs(&mut Rng::new(ctx.seed), if ctx.thorough() { 200_000 } else { 20_000 }) };
            let sel: Vec<(String, String)> = all.into_iter().filter(|(_, s)| s.len() == len && s.starts_with(prefix)).collect();
            ctx.report.case("replay", true);
            run_in_children(ctx, &sel, 120);
        }
        k => ctx.report.notes.push(format!("replay kind {k} not supported")),
    }
}

/// re-run a semantic case from its stored documents (index rebuilt from the JSON documents)
fn replay_sem(ctx: &mut Ctx, case: &Value, text: &str) {
    let docs = case["docs"].as_array().cloned().unwrap_or_default();
    let (schema, index) = new_index();
    let mut wr: IndexWriter = index.writer_with_num_threads(1, 20_000_000).unwrap();
    for d in &docs {
        wr.add_document(TantivyDocument::parse_json(&schema, &d.to_string()).unwrap()).unwrap();
    }
    wr.commit().unwrap();
    let defaults: Vec<_> = DEFAULT_FIELDS.iter().map(|f| schema.get_field(FIELDS[*f]).unwrap()).collect();
    let mut p = QueryParser::for_index(&index, defaults);
    let mode = case["mode"].as_str().unwrap_or("o");
    if mode == "a" {
        p.set_conjunction_by_default();
    }
    let w = World { index, docs: vec![], parser_or: p.clone(), parser_and: p.clone() };
    if std::env::var("C16_BT").is_ok() {
        let _ = std::panic::take_hook();
    }
    let texts: Vec<String> = match std::env::var("C16_TEXTS") {
        Ok(p) => serde_json::from_str(&std::fs::read_to_string(p).unwrap()).unwrap(),
        Err(_) => vec![text.to_string()],
    };
    for t in &texts {
        let rl = catch_unwind(AssertUnwindSafe(|| run_query(&w, &*p.parse_query_lenient(t).0)));
        eprintln!("lenient {t:?} -> {:?}", rl.map_err(panic_text));
    }
    let res = catch_unwind(AssertUnwindSafe(|| p.parse_query(text).map_err(|e| e.to_string()).and_then(|q| run_query(&w, &*q))));
    ctx.report.notes.push(format!("replay sem: {text:?} mode {mode}: real {:?}", res.as_ref().map_err(|_| "panic")));
    // the expectation is recomputed by the model from the stored request
    let qtok = case["q"].as_str().unwrap_or("");
    ctx.report.notes.push(format!("model tree: {}", ctx.model.ask(&format!("C16 build {qtok}"))));
    let safe = ctx.model.ask(&format!("C16 safe {mode} {qtok}"));
    if safe == "0" {
        ctx.report.violation("oracle", KEY_UNWRAP, format!("{text:?}: rewrite_ast unwraps a deduplicated singleton clause and changes its occur"), case.clone());
    } else {
        ctx.report.violation("oracle", "C16:meaning-mismatch", format!("{text:?}: stored semantic mismatch, see notes"), case.clone());
    }
}

pub fn run(ctx: &mut Ctx) {
    if child_main(ctx) {
        return;
    }
    ctx.report.rule = "cases = (a) input strings (printed abstract queries, mutations, random UTF-8, operator edge cases, long and deeply nested inputs), \
        (b) printed operand lists compared tree-for-tree with the Lean fold model, (c) (query text, mode) pairs evaluated on a typed corpus; \
        non-trivial = (a) mutated/printed strings with at least one operator, bracket or quote, (b) at least one nested operand list and > 12 tokens, \
        (c) result neither empty nor the whole corpus and > 12 tokens".into();
    ctx.report.correspondence_obligations = vec![
        "UserInputAst of parse_query (canonicalised) = rewrite (build q) of the Lean fold model".into(),
        "lenient tree and early-operator error count = Lean lenientFold on inputs the strict parser rejects for a leading operator".into(),
        "doc-id set of QueryParser::parse_query = Lean model of rewrite + compute_logical_ast + simplify + BooleanQuery semantics".into(),
        "doc-id set of QueryParser::parse_query_lenient = Lean lenient pipeline".into(),
        "offsets of the phrase terms of the compiled query = Lean Phrase.compile (analyse keep words)".into(),
        "Lean semQ = harness brute-force meaning of the abstract query".into(),
    ];
    if let Some(case) = ctx.replay.clone() {
        replay(ctx, &case);
        return;
    }
    let mut rng = ctx.rng.fork();
    if let Ok(n) = std::env::var("C16_GENTEST") {
        let n: usize = n.parse().unwrap_or(10);
        for i in 0..n {
            let t0 = std::time::Instant::now();
            let wild = rng.chance(1, 2);
            let (g, q) = gen_query(&mut rng, wild, true);
            let t1 = t0.elapsed();
            let s = g.print(&mut rng, &q, true);
            eprintln!("{i} wild={wild} leaves={} gen={:?} print={:?} len={} {}", g.leaves.len(), t1, t0.elapsed(), s.len(), short(&s));
        }
        return;
    }
    let w = build_world(&mut rng, 40);

    // corpus: operator edge cases and past findings first
    let mut batch: Vec<(String, String)> = EDGES.iter().map(|s| ("edge".to_string(), s.to_string())).collect();

    let only = std::env::var("C16_ONLY").unwrap_or_default();
    let on = |p: &str| only.is_empty() || only.contains(p);
    // (a) strings
    let n_strings = if on("a") { ctx.budget(12_000, 600_000) } else { 0 };
    for i in 0..n_strings {
        let origin;
        let s = match i % 4 {
            0 => {
                origin = "random-utf8";
                random_text(&mut rng)
            }
            1 => {
                origin = "printed";
                let wild = rng.chance(1, 2);
                let (g, q) = gen_query(&mut rng, wild, true);
                g.print(&mut rng, &q, true)
            }
            _ => {
                origin = "mutated";
                let wild = rng.chance(1, 2);
                let (g, q) = gen_query(&mut rng, wild, true);
                let t = g.print(&mut rng, &q, true);
                mutate(&mut rng, &t)
            }
        };
        batch.push((origin.to_string(), s));
    }
    if on("a") {
        // every string runs in a child process: a hang or a memory blow-up must not take the run down
        run_in_children(ctx, &batch, 12);
    }

    // (b) fold correspondence
    let n_fold = if on("b") { ctx.budget(4_000, 200_000) } else { 0 };
    for _ in 0..n_fold {
        check_fold(ctx, &w);
    }

    // corpus: a phrase keeps the gap of a token its field's analyzer drops
    if on("c") {
        let mut base = gen_doc(&mut Rng::new(5));
        base.title = vec![];
        base.body = vec![];
        let texts = ["quick the fox", "quick fox", "quick brown fox", "the quick fox of", "fox quick", "quick the of fox", "fox quick the fox", "fox quick fox"];
        let docs: Vec<DocRec> = texts
            .iter()
            .map(|t| {
                let mut d = base.clone();
                d.stop = t.split(' ').map(|x| x.to_string()).collect();
                d
            })
            .collect();
        let w3 = build_world_docs(docs, 3);
        for (words, slop, prefix) in [
            (vec!["quick", "the", "fox"], 0u32, false),
            (vec!["quick", "the", "fox"], 1, false),
            (vec!["quick", "the", "fo"], 0, true),
            (vec!["quick", "the", "of", "fox"], 0, false),
            (vec!["the", "quick", "fox"], 0, false),
            (vec!["quick", "fox"], 0, false),
            // known defect of PhrasePrefixScorer: a gap right before the prefix term (>= 3 kept terms)
            (vec!["the", "quick", "of", "fo"], 0, true),
            (vec!["fox", "quick", "the", "fo"], 0, true),
        ] {
            let g = Gen { leaves: vec![LeafSpec::Phrase { field: Some(F_STOP), words: words.iter().map(|x| x.to_string()).collect(), delim: Delim::Double, slop, prefix }] };
            let q = Q::Leaf(0);
            let text = g.print(&mut ctx.rng.fork(), &q, true);
            ctx.report.count("sem:stop-word-phrase-corpus");
            check_sem_case(ctx, &w3, &g, &q, &text);
        }
    }

    // texts printed by the Lean printer (the printer of C16_print_parse_operands)
    if on("b") {
        for _ in 0..ctx.budget(400, 20_000) {
            check_lean_printed(ctx, &w);
            check_lean_printed_nested(ctx, &w);
        }
    }

    // compile step of quoted literals on the token-dropping field
    if on("c") {
        for _ in 0..ctx.budget(300, 5000) {
            check_phrase_offsets(ctx, &w);
        }
    }

    // (c) semantics on several corpora
    let worlds = if on("c") { ctx.budget(6, 60) } else { 0 };
    let per_world = ctx.budget(120, 400);
    for _ in 0..worlds {
        let mut r2 = ctx.rng.fork();
        let nd = *r2.pick(&[12usize, 30, 60]);
        let w2 = build_world(&mut r2, nd);
        for _ in 0..per_world {
            check_sem(ctx, &w2);
        }
    }

    // long and deeply nested inputs in child processes
    let scale = if ctx.thorough() { 200_000 } else { 20_000 };
    let mut heavy = long_inputs(&mut rng, scale);
    heavy.extend(deep_inputs(&[200, 2000, 20000, 200000]));
    if on("d") {
        run_in_children(ctx, &heavy, if ctx.thorough() { 600 } else { 90 });
    }
}
