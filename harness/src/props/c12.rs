//! C12 — relevance scores are BM25 over the searcher's statistics; explain agrees.
//!
//! (A) formula level: `Bm25Weight::{for_one_term, boost_by, score, max_score, explain}` and
//!     `FieldNormReader::{id_to_fieldnorm, fieldnorm_to_id}` (all public) vs `Model/Bm25.lean`
//!     evaluated in Float32 — bit for bit, sweeping all 256 field-norm codes.
//! (B) index level: the same generated documents (token sequences with repeated 2-3 term phrases)
//!     indexed under 1..6 segmentations, incl. segments larger than one and two 4096-document
//!     windows of the buffered union scorer; the inputs of the formula (N, total tokens, doc_freq,
//!     tf, fieldnorm id) read through the public API AND recomputed from the generated documents.
//!     Oracles on the implementation alone, for EVERY matching document: a boolean query scores
//!     the sum of its matching clauses' own scores and a dis-max query max + tie·(sum − max) of
//!     them (clauses evaluated on their own on the same searcher); TopDocs = scoring collector;
//!     scores independent of the segmentation; explain = collected score (documents of every
//!     window). Then the model: score with the document's OWN tf / phrase count — bit for bit for
//!     single clauses (term, phrase, boosted, const) and sums / dis-max of at most two matching
//!     clauses (IEEE addition is commutative), within 4 ulp per clause otherwise. Phrases:
//!     2-3 terms slop 0 (frequency counted from the documents) and 2 terms slop 1 (frequency taken
//!     from the implementation's stand-alone phrase scorer), alone and as leading / non-leading
//!     legs of conjunctions and inside boolean trees.
use crate::rng::Rng;
use crate::Ctx;
use serde_json::{json, Value};
use std::collections::HashMap;
use std::panic::{catch_unwind, AssertUnwindSafe};
use tantivy::collector::{Collector, SegmentCollector, TopDocs};
use tantivy::fieldnorm::FieldNormReader;
use tantivy::merge_policy::NoMergePolicy;
use tantivy::query::{
    Bm25StatisticsProvider, Bm25Weight, BooleanQuery, BoostQuery, ConstScoreQuery, DisjunctionMaxQuery,
    Occur, Query, TermQuery,
};
use tantivy::schema::{Field, IndexRecordOption, Schema, FAST, TEXT};
use tantivy::postings::Postings;
use tantivy::{DocAddress, DocId, DocSet, Index, IndexWriter, Score, Searcher, SegmentReader, TantivyDocument, Term};

const VOCAB: [&str; 6] = ["a", "b", "c", "d", "e", "z"];

fn ulp_tol(units: usize, a: f32, b: f32) -> f32 {
    4.0 * units as f32 * f32::EPSILON * a.abs().max(b.abs()).max(f32::MIN_POSITIVE)
}

fn bits(x: f32) -> String {
    x.to_bits().to_string()
}

// ---------------------------------------------------------------------------------------------
// (A) formula level
// ---------------------------------------------------------------------------------------------

fn model_term(ctx: &mut Ctx, n_docs: u64, tokens: u64, n: u64, fid: u8, tf: u32, boost: f32) -> Option<[f32; 6]> {
    let r = ctx.model.ask(&format!("C12 term {n_docs} {tokens} {n} {fid} {tf} {}", bits(boost)));
    let v: Vec<u32> = r.split(' ').filter_map(|x| x.parse().ok()).collect();
    if v.len() != 6 {
        return None;
    }
    Some([f32::from_bits(v[0]), f32::from_bits(v[1]), f32::from_bits(v[2]), f32::from_bits(v[3]), f32::from_bits(v[4]), f32::from_bits(v[5])])
}

/// idf as reported in the explanation tree of the real weight (to localise a mismatch)
fn real_idf(w: &Bm25Weight) -> Option<f32> {
    let v: Value = serde_json::from_str(&w.explain(1, 1).to_pretty_json()).ok()?;
    for d in v["details"].as_array()? {
        if d["description"].as_str()?.starts_with("idf") {
            return Some(d["value"].as_f64()? as f32);
        }
    }
    None
}

fn formula_case(ctx: &mut Ctx, n_docs: u64, tokens: u64, n: u64, fid: u8, tf: u32, boost: f32) {
    let case = json!({"kind": "formula", "N": n_docs, "tokens": tokens, "n": n, "fid": fid, "tf": tf, "boost_bits": boost.to_bits()});
    ctx.report.case(&format!("formula|{n_docs}|{tokens}|{n}|{fid}|{tf}|{}", boost.to_bits()), fid > 0 && tf > 0 && n < n_docs);
    ctx.report.count("formula-cases");
    let avg = tokens as Score / n_docs as Score;
    let real = catch_unwind(AssertUnwindSafe(|| {
        let w0 = Bm25Weight::for_one_term(n, n_docs, avg);
        let w = w0.boost_by(boost);
        (w.score(fid, tf), w0.explain(fid, tf).value() * boost, w.max_score(), real_idf(&w0))
    }));
    let Ok((score, explain, max_score, idf)) = real else {
        ctx.report.violation("oracle", "C12:formula-panic", format!("Bm25Weight panicked on N={n_docs} n={n}"), case);
        return;
    };
    let Some(m) = model_term(ctx, n_docs, tokens, n, fid, tf, boost) else {
        ctx.report.violation("model", "C12:model-bad-op", "model refused a formula request".into(), case);
        return;
    };
    if score.to_bits() != m[0].to_bits() || max_score.to_bits() != m[5].to_bits() {
        let step = match idf {
            Some(i) if i.to_bits() != m[2].to_bits() => format!("idf differs: real {i:?}/{:08x} model {:?}/{:08x} ({} ulp; ln of the platform)", i.to_bits(), m[2], m[2].to_bits(), (i.to_bits() as i64 - m[2].to_bits() as i64).abs()),
            _ => "idf agrees; the tf factor / weight arithmetic differs".to_string(),
        };
        ctx.report.violation("model", "C12:formula-bits-differ", format!("Bm25Weight::score(fid={fid}, tf={tf}) N={n_docs} n={n} tokens={tokens} boost={boost}: real {score:?}/{:08x} model {:?}/{:08x}; max_score real {max_score:?} model {:?}; {step}", score.to_bits(), m[0], m[0].to_bits(), m[5]), case);
        return;
    }
    if explain.to_bits() != m[1].to_bits() {
        ctx.report.violation("model", "C12:explain-bits-differ", format!("explain value (unboosted score × boost) real {explain:?} model {:?}", m[1]), case);
    }
}

fn part_a(ctx: &mut Ctx) {
    // field-norm table and quantisation, all 256 codes and their neighbourhoods
    let mut mismatches = 0;
    for id in 0..=255u8 {
        let f = FieldNormReader::id_to_fieldnorm(id);
        let m = ctx.model.ask(&format!("C12 fn {id}"));
        ctx.report.case(&format!("fn|{id}"), true);
        if m != f.to_string() {
            mismatches += 1;
            ctx.report.violation("model", "C12:fieldnorm-table-differs", format!("id_to_fieldnorm({id}) = {f}, model {m}"), json!({"kind": "fn", "id": id}));
        }
        for probe in [f, f.saturating_sub(1), f.saturating_add(1)] {
            let real = FieldNormReader::fieldnorm_to_id(probe);
            let m = ctx.model.ask(&format!("C12 fnid {probe}"));
            ctx.report.case(&format!("fnid|{probe}"), true);
            if m != real.to_string() {
                mismatches += 1;
                ctx.report.violation("model", "C12:fieldnorm-to-id-differs", format!("fieldnorm_to_id({probe}) = {real}, model {m}"), json!({"kind": "fnid", "fieldnorm": probe}));
            }
            // oracle on the implementation alone: bracket property
            let lo = FieldNormReader::id_to_fieldnorm(real);
            let ok = lo <= probe && (real == 255 || probe < FieldNormReader::id_to_fieldnorm(real + 1));
            if !ok {
                ctx.report.violation("oracle", "C12:fieldnorm-bracket", format!("fieldnorm_to_id({probe}) = {real} does not bracket the length"), json!({"kind": "fnid", "fieldnorm": probe}));
            }
        }
    }
    ctx.report.count_n("fieldnorm-mismatches", mismatches);
    let mut rng = ctx.rng.fork();
    let n_stats = ctx.budget(12, 200);
    for _ in 0..n_stats {
        let n_docs = match rng.below(5) { 0 => 1 + rng.below(5), 1 => 1 + rng.below(1000), 2 => 1 + rng.below(100_000), 3 => 16_777_216 + rng.below(1000), _ => 1 + rng.below(5_000_000) };
        let n = match rng.below(4) { 0 => n_docs, 1 => 1.min(n_docs), 2 => 0, _ => rng.below(n_docs + 1) };
        let tokens = match rng.below(4) { 0 => n_docs, 1 => n_docs * (1 + rng.below(500)), 2 => rng.below(n_docs * 3 + 1) + 1, _ => 1 + rng.below(1 << 33) };
        let boost = [1.0f32, 1.0, 2.0, 0.5, 3.3, 0.1][rng.usize_below(6)];
        // all 256 codes for this set of statistics
        for fid in 0..=255u8 {
            let tf = match rng.below(6) { 0 => 1, 1 => 2, 2 => 1 + rng.below(20) as u32, 3 => FieldNormReader::id_to_fieldnorm(fid).max(1), 4 => u32::MAX, _ => 1 + rng.below(100_000) as u32 };
            formula_case(ctx, n_docs, tokens, n, fid, tf, boost);
        }
    }
}

// ---------------------------------------------------------------------------------------------
// (B) index level
// ---------------------------------------------------------------------------------------------


#[derive(Clone, Debug)]
struct GenDoc {
    /// the analysed document: token ids (indices into VOCAB) in order
    toks: Vec<u8>,
}

/// mirrors phrase_scorer.rs::intersection_count_with_slop (two-term phrases with slop): the
/// greedy left-to-right matching that defines the phrase frequency of a sloppy two-term phrase
fn count_with_slop(left: &[u32], right: &[u32], slop: u32) -> u32 {
    let (mut li, mut ri, mut count) = (0usize, 0usize, 0u32);
    while li < left.len() && ri < right.len() {
        let (l, r) = (left[li], right[ri]);
        if l.abs_diff(r) <= slop {
            while li + 1 < left.len() && left[li + 1] <= r {
                li += 1;
            }
            count += 1;
            li += 1;
            ri += 1;
        } else if l < r {
            li += 1;
        } else {
            ri += 1;
        }
    }
    count
}

impl GenDoc {
    fn len(&self) -> u32 {
        self.toks.len() as u32
    }
    fn tf(&self, t: usize) -> u32 {
        self.toks.iter().filter(|x| **x as usize == t).count() as u32
    }
    /// the document's own phrase frequency: occurrences of the (distinct) terms in sequence for
    /// slop 0; for a two-term phrase with slop the greedy matching of the phrase scorer
    fn phrase_count(&self, terms: &[usize], slop: u32) -> u32 {
        if slop == 0 || terms.len() != 2 {
            if self.toks.len() < terms.len() {
                return 0;
            }
            self.toks.windows(terms.len()).filter(|w| w.iter().zip(terms).all(|(x, t)| *x as usize == *t)).count() as u32
        } else {
            let left: Vec<u32> = self.toks.iter().enumerate().filter(|(_, x)| **x as usize == terms[0]).map(|(i, _)| i as u32 + 1).collect();
            let right: Vec<u32> = self.toks.iter().enumerate().filter(|(_, x)| **x as usize == terms[1]).map(|(i, _)| i as u32).collect();
            count_with_slop(&left, &right, slop)
        }
    }
    fn text(&self) -> String {
        self.toks.iter().map(|t| VOCAB[*t as usize]).collect::<Vec<_>>().join(" ")
    }
}

#[derive(Clone, Debug)]
struct DocsSpec {
    seed: u64,
    n: usize,
    /// 0: short docs; 1: one document per field-norm bucket (sweep); 2: mixed with a few long ones;
    /// 3: many short documents (segments larger than the 4096-document window of the union scorer)
    /// 4: like 3 with RARE terms `d` (about 1 in 40) and `e` (about 1 in 120) and long stretches
    ///    of documents without the frequent terms `a b c`, several of them ending at or just after
    ///    a multiple of 4096: a conjunction led by a rare term seeks a union of the frequent ones
    ///    over whole 64-document buckets and across window refills
    profile: u8,
    /// share of the documents deleted after indexing (the statistics keep counting them)
    delete_permille: u64,
}

fn deleted_ids(spec: &DocsSpec) -> std::collections::HashSet<u64> {
    let mut out = std::collections::HashSet::new();
    if spec.delete_permille > 0 && spec.n > 1 {
        let mut rng = Rng(spec.seed ^ 0xdead_beef);
        let k = ((spec.n as u64 * spec.delete_permille) / 1000).max(1);
        for _ in 0..k {
            out.insert(rng.below(spec.n as u64));
        }
    }
    out
}

fn gen_docs(spec: &DocsSpec) -> Vec<GenDoc> {
    let mut rng = Rng(spec.seed);
    let mut docs = vec![];
    if spec.profile == 4 {
        // stretches without a/b/c
        let mut gaps: Vec<(usize, usize)> = vec![];
        let mut w = 4096;
        while w < spec.n + 4096 {
            if rng.chance(3, 4) {
                let start = w.saturating_sub(200 + rng.usize_below(1500));
                let end = w + [0usize, 0, 3, 40, 130][rng.usize_below(5)];
                gaps.push((start, end));
            }
            if rng.chance(1, 2) {
                let start = w.saturating_sub(4096) + rng.usize_below(3000);
                gaps.push((start, start + 70 + rng.usize_below(600)));
            }
            w += 4096;
        }
        for j in 0..spec.n {
            let in_gap = gaps.iter().any(|(a, b)| *a <= j && j < *b);
            let mut toks: Vec<u8> = vec![];
            if !in_gap {
                for t in 0..3u8 {
                    if rng.below(100) < [55u64, 45, 30][t as usize] {
                        let c = if rng.chance(1, 5) { 2 } else { 1 };
                        toks.extend(std::iter::repeat(t).take(c));
                    }
                }
            }
            if rng.chance(1, 40) { toks.push(3); }
            if rng.chance(1, 120) { toks.push(4); if rng.chance(1, 3) { toks.push(4); } }
            let fill = 1 + rng.usize_below(3);
            toks.extend(std::iter::repeat(5u8).take(fill));
            docs.push(GenDoc { toks });
        }
        return docs;
    }
    for j in 0..spec.n {
        let len: u32 = match spec.profile {
            0 => 1 + rng.below(12) as u32,
            1 => {
                // sweep the buckets: lower bound of bucket j, or a length inside it
                let id = (j % 112) as u8;
                let lo = FieldNormReader::id_to_fieldnorm(id).max(1);
                let hi = FieldNormReader::id_to_fieldnorm(id + 1).max(lo + 1);
                if rng.chance(1, 2) { lo } else { lo + rng.below((hi - lo) as u64) as u32 }
            }
            3 => 1 + rng.below(9) as u32,
            _ => match rng.below(20) { 0 => 300 + rng.below(3000) as u32, 1 => 40 + rng.below(60) as u32, _ => 1 + rng.below(30) as u32 },
        };
        let mut left = len;
        let mut toks: Vec<u8> = Vec::with_capacity(len as usize);
        for t in 0..5usize {
            let p = [60u64, 40, 25, 10, 4][t];
            if left > 0 && rng.below(100) < p {
                let c = match rng.below(8) { 0..=4 => 1, 5 => 1 + rng.below(5) as u32, 6 => 1 + rng.below(left as u64) as u32, _ => 2 };
                let c = c.min(left);
                toks.extend(std::iter::repeat(t as u8).take(c as usize));
                left -= c;
            }
        }
        toks.extend(std::iter::repeat(5u8).take(left as usize));
        // a second run of a term already present (tf must add up)
        if rng.chance(1, 6) && toks.len() >= 2 {
            let t = toks[0];
            let l = toks.len();
            toks[l - 1] = t;
        }
        // repeated phrases: k occurrences of a 2-3 term sequence, sometimes with a gap (slop),
        // written over a slice of the document (the length is kept)
        if rng.chance(2, 5) {
            let mut ts = [0u8, 1, 2];
            let a = rng.usize_below(3);
            ts.swap(0, a);
            let b = 1 + rng.usize_below(2);
            ts.swap(1, b);
            let nterms = 2 + rng.usize_below(2);
            let gap = rng.chance(1, 4);
            let reps = 1 + rng.usize_below(5);
            let mut pat: Vec<u8> = vec![];
            for _ in 0..reps {
                for (k, t) in ts[..nterms].iter().enumerate() {
                    if gap && k == 1 { pat.push(5); }
                    pat.push(*t);
                }
                if rng.chance(1, 3) { pat.push(5); }
            }
            if pat.len() <= toks.len() {
                let at = rng.usize_below(toks.len() - pat.len() + 1);
                toks[at..at + pat.len()].copy_from_slice(&pat);
            } else if toks.len() >= nterms {
                toks[..nterms].copy_from_slice(&ts[..nterms]);
            }
        }
        docs.push(GenDoc { toks });
    }
    docs
}

struct Built {
    index: Index,
    body: Field,
}

fn build(docs: &[GenDoc], cuts: &[usize], deleted: &std::collections::HashSet<u64>) -> Built {
    let mut sb = Schema::builder();
    let body = sb.add_text_field("body", TEXT);
    let id = sb.add_u64_field("id", FAST | tantivy::schema::INDEXED);
    let index = Index::create_in_ram(sb.build());
    let mut w: IndexWriter = index.writer_with_num_threads(1, 60_000_000).unwrap();
    w.set_merge_policy(Box::new(NoMergePolicy));
    for (j, d) in docs.iter().enumerate() {
        if cuts.contains(&j) && j > 0 {
            w.commit().unwrap();
        }
        let mut doc = TantivyDocument::default();
        doc.add_text(body, d.text());
        doc.add_u64(id, j as u64);
        w.add_document(doc).unwrap();
    }
    w.commit().unwrap();
    if !deleted.is_empty() {
        for d in deleted {
            w.delete_term(Term::from_field_u64(id, *d));
        }
        w.commit().unwrap();
    }
    w.wait_merging_threads().unwrap();
    Built { index, body }
}

struct AllHits;
struct AllHitsSeg {
    ord: u32,
    hits: Vec<(u32, DocId, Score)>,
}
impl Collector for AllHits {
    type Fruit = Vec<(u32, DocId, Score)>;
    type Child = AllHitsSeg;
    fn for_segment(&self, ord: u32, _r: &SegmentReader) -> tantivy::Result<AllHitsSeg> {
        Ok(AllHitsSeg { ord, hits: vec![] })
    }
    fn requires_scoring(&self) -> bool {
        true
    }
    fn merge_fruits(&self, fruits: Vec<Vec<(u32, DocId, Score)>>) -> tantivy::Result<Self::Fruit> {
        Ok(fruits.into_iter().flatten().collect())
    }
}
impl SegmentCollector for AllHitsSeg {
    type Fruit = Vec<(u32, DocId, Score)>;
    fn collect(&mut self, doc: DocId, score: Score) {
        self.hits.push((self.ord, doc, score));
    }
    fn harvest(self) -> Self::Fruit {
        self.hits
    }
}

#[derive(Clone, Debug)]
enum Q {
    Term(usize),
    /// phrase of 2-3 distinct terms with a slop (the document's phrase count plays the role of
    /// tf, the idf is summed over the terms)
    Phrase(Vec<usize>, u32),
    Boost(Box<Q>, f32),
    Const(Box<Q>, f32),
    Should(Vec<Q>),
    Must(Vec<Q>),
    DisMax(Vec<Q>, f32),
    /// `+m1 +m2 … s1 s2 …`: required clauses plus optional ones that only add to the score
    /// (RequiredOptionalScorer over a union of the optional clauses)
    Mix(Vec<Q>, Vec<Q>),
}

/// Frequencies of phrases WITH SLOP, per document id, as the implementation's own stand-alone
/// phrase scorer reports them (`explain` → "freq"): the sloppy phrase frequency is defined by a
/// greedy matching whose left side is the cheaper term of the segment (DESIGN §8 S6 territory),
/// so it is taken from the implementation, per segmentation; exact phrases (slop 0) are counted
/// from the generated documents.
type Sloppy = HashMap<String, HashMap<u64, u32>>;

fn find_freq(v: &Value) -> Option<f64> {
    if v["description"].as_str().map(|d| d.starts_with("freq,")).unwrap_or(false) {
        return v["value"].as_f64();
    }
    v["details"].as_array()?.iter().find_map(find_freq)
}

impl Q {
    fn phrase_freq(&self, id: u64, d: &GenDoc, env: &Sloppy) -> u32 {
        match self {
            Q::Phrase(ts, 0) => d.phrase_count(ts, 0),
            Q::Phrase(_, _) => env.get(&self.to_json().to_string()).and_then(|m| m.get(&id)).cloned().unwrap_or(0),
            _ => 0,
        }
    }
    fn sloppy_phrases(&self, out: &mut Vec<Q>) {
        match self {
            Q::Phrase(_, s) if *s > 0 => out.push(self.clone()),
            Q::Boost(q, _) | Q::Const(q, _) => q.sloppy_phrases(out),
            Q::Should(qs) | Q::Must(qs) | Q::DisMax(qs, _) => qs.iter().for_each(|q| q.sloppy_phrases(out)),
            Q::Mix(ms, ss) => ms.iter().chain(ss.iter()).for_each(|q| q.sloppy_phrases(out)),
            _ => {}
        }
    }
    fn build(&self, body: Field) -> Box<dyn Query> {
        match self {
            Q::Term(t) => Box::new(TermQuery::new(Term::from_field_text(body, VOCAB[*t]), IndexRecordOption::WithFreqs)),
            Q::Phrase(ts, slop) => Box::new(tantivy::query::PhraseQuery::new_with_offset_and_slop(ts.iter().enumerate().map(|(i, t)| (i, Term::from_field_text(body, VOCAB[*t]))).collect(), *slop)),
            Q::Boost(q, b) => Box::new(BoostQuery::new(q.build(body), *b)),
            Q::Const(q, c) => Box::new(ConstScoreQuery::new(q.build(body), *c)),
            Q::Should(qs) => Box::new(BooleanQuery::new(qs.iter().map(|q| (Occur::Should, q.build(body))).collect())),
            Q::Must(qs) => Box::new(BooleanQuery::new(qs.iter().map(|q| (Occur::Must, q.build(body))).collect())),
            Q::DisMax(qs, tie) => Box::new(DisjunctionMaxQuery::with_tie_breaker(qs.iter().map(|q| q.build(body)).collect(), *tie)),
            Q::Mix(ms, ss) => Box::new(BooleanQuery::new(ms.iter().map(|q| (Occur::Must, q.build(body))).chain(ss.iter().map(|q| (Occur::Should, q.build(body)))).collect())),
        }
    }
    fn matches(&self, id: u64, d: &GenDoc, env: &Sloppy) -> bool {
        match self {
            Q::Term(t) => d.tf(*t) > 0,
            Q::Phrase(_, _) => self.phrase_freq(id, d, env) > 0,
            Q::Boost(q, _) | Q::Const(q, _) => q.matches(id, d, env),
            Q::Should(qs) | Q::DisMax(qs, _) => qs.iter().any(|q| q.matches(id, d, env)),
            Q::Must(qs) => qs.iter().all(|q| q.matches(id, d, env)),
            Q::Mix(ms, _) => ms.iter().all(|q| q.matches(id, d, env)),
        }
    }
    /// RPN of the model tree restricted to the clauses matching `d`; also
    /// (exactly comparable?, number of float additions/multiplications that may reorder)
    fn rpn(&self, id: u64, d: &GenDoc, env: &Sloppy, df: &[u64], fid: u8, out: &mut Vec<String>) -> (bool, usize) {
        match self {
            Q::Term(t) => {
                out.push(format!("t.{}.{fid}.{}", df[*t], d.tf(*t)));
                (true, 1)
            }
            Q::Phrase(ts, _) => {
                out.push(format!("p.{}.{fid}.{}", ts.iter().map(|t| df[*t].to_string()).collect::<Vec<_>>().join("+"), self.phrase_freq(id, d, env)));
                (true, 1)
            }
            Q::Boost(q, b) => {
                let r = q.rpn(id, d, env, df, fid, out);
                out.push(format!("b.{}", b.to_bits()));
                r
            }
            Q::Const(q, c) => {
                let r = q.rpn(id, d, env, df, fid, out);
                out.push(format!("c.{}", c.to_bits()));
                (true, r.1.min(1))
            }
            Q::Should(qs) | Q::Must(qs) | Q::DisMax(qs, _) => {
                let mut exact = true;
                let mut units = 0;
                let mut k = 0;
                for q in qs {
                    if q.matches(id, d, env) {
                        let r = q.rpn(id, d, env, df, fid, out);
                        exact &= r.0;
                        units += r.1;
                        k += 1;
                    }
                }
                match self {
                    Q::DisMax(_, tie) => out.push(format!("d.{k}.{}", tie.to_bits())),
                    _ => out.push(format!("s.{k}")),
                }
                (exact && k <= 2, units + 1)
            }
            Q::Mix(ms, ss) => {
                let mut exact = true;
                let mut units = 0;
                let mut k = 0;
                for q in ms.iter().chain(ss.iter()) {
                    if q.matches(id, d, env) {
                        let r = q.rpn(id, d, env, df, fid, out);
                        exact &= r.0;
                        units += r.1;
                        k += 1;
                    }
                }
                out.push(format!("s.{k}"));
                (exact && k <= 2, units + 1)
            }
        }
    }
    fn has_boost(&self) -> bool {
        match self {
            Q::Term(_) | Q::Phrase(_, _) => false,
            Q::Boost(_, _) => true,
            Q::Const(_, _) => false,
            Q::Should(qs) | Q::Must(qs) | Q::DisMax(qs, _) => qs.iter().any(|q| q.has_boost()),
            Q::Mix(ms, ss) => ms.iter().chain(ss.iter()).any(|q| q.has_boost()),
        }
    }
    /// a ConstScore clause (below a boolean) that does not match `d`
    fn has_nonmatching_const(&self, id: u64, d: &GenDoc, env: &Sloppy) -> bool {
        match self {
            Q::Term(_) | Q::Phrase(_, _) => false,
            Q::Const(q, _) => !q.matches(id, d, env),
            Q::Boost(q, _) => q.has_nonmatching_const(id, d, env),
            Q::Should(qs) | Q::Must(qs) | Q::DisMax(qs, _) => qs.iter().any(|q| q.has_nonmatching_const(id, d, env)),
            Q::Mix(ms, ss) => ms.iter().chain(ss.iter()).any(|q| q.has_nonmatching_const(id, d, env)),
        }
    }
    /// a phrase clause (below a boolean) that does not match `d`
    fn has_nonmatching_phrase(&self, id: u64, d: &GenDoc, env: &Sloppy) -> bool {
        match self {
            Q::Term(_) => false,
            Q::Phrase(_, _) => !self.matches(id, d, env),
            Q::Const(q, _) | Q::Boost(q, _) => q.has_nonmatching_phrase(id, d, env),
            Q::Should(qs) | Q::Must(qs) | Q::DisMax(qs, _) => qs.iter().any(|q| q.has_nonmatching_phrase(id, d, env)),
            Q::Mix(ms, ss) => ms.iter().chain(ss.iter()).any(|q| q.has_nonmatching_phrase(id, d, env)),
        }
    }
    /// a phrase clause inside a Should / dis-max that is itself (below) a clause of a Must: the
    /// union is then driven by an intersection through seek_danger
    fn phrase_in_union_in_must(&self, in_must: bool, in_union: bool) -> bool {
        match self {
            Q::Term(_) => false,
            Q::Phrase(_, _) => in_must && in_union,
            Q::Const(q, _) | Q::Boost(q, _) => q.phrase_in_union_in_must(in_must, in_union),
            Q::Must(qs) => qs.iter().any(|q| q.phrase_in_union_in_must(true, false)),
            Q::Should(qs) | Q::DisMax(qs, _) => qs.iter().any(|q| q.phrase_in_union_in_must(in_must, in_must)),
            Q::Mix(ms, ss) => ms.iter().any(|q| q.phrase_in_union_in_must(true, false)) || ss.iter().any(|q| q.phrase_in_union_in_must(true, true)),
        }
    }
    fn has_sloppy(&self) -> bool {
        let mut v = vec![];
        self.sloppy_phrases(&mut v);
        !v.is_empty()
    }
    /// the same query with exact phrases only (large corpora: no per-document explain)
    fn without_slop(&self) -> Q {
        match self {
            Q::Term(t) => Q::Term(*t),
            Q::Phrase(ts, _) => Q::Phrase(ts.clone(), 0),
            Q::Boost(q, b) => Q::Boost(Box::new(q.without_slop()), *b),
            Q::Const(q, c) => Q::Const(Box::new(q.without_slop()), *c),
            Q::Should(qs) => Q::Should(qs.iter().map(|q| q.without_slop()).collect()),
            Q::Must(qs) => Q::Must(qs.iter().map(|q| q.without_slop()).collect()),
            Q::DisMax(qs, t) => Q::DisMax(qs.iter().map(|q| q.without_slop()).collect(), *t),
            Q::Mix(ms, ss) => Q::Mix(ms.iter().map(|q| q.without_slop()).collect(), ss.iter().map(|q| q.without_slop()).collect()),
        }
    }
    fn single_clause(&self) -> bool {
        match self {
            Q::Term(_) | Q::Const(_, _) | Q::Phrase(_, _) => true,
            Q::Boost(q, _) => q.single_clause(),
            _ => false,
        }
    }
    fn kind(&self) -> &'static str {
        match self {
            Q::Term(_) => "term",
            Q::Phrase(_, 0) => "phrase",
            Q::Phrase(_, _) => "phrase-slop",
            Q::Boost(_, _) => "boost",
            Q::Const(_, _) => "const",
            Q::Should(qs) => if qs.iter().any(|q| matches!(q, Q::Phrase(_, _))) { "should+phrase" } else { "should" },
            Q::Must(qs) => if qs.iter().any(|q| matches!(q, Q::Phrase(_, _))) { "must+phrase" } else { "must" },
            Q::DisMax(_, t) => if *t == 0.0 { "dismax-tie0" } else { "dismax-tie" },
            Q::Mix(_, _) => "must+should",
        }
    }
    fn to_json(&self) -> Value {
        match self {
            Q::Term(t) => json!({"term": t}),
            Q::Phrase(ts, slop) => json!({"phrase": ts, "slop": slop}),
            Q::Boost(q, b) => json!({"boost": b.to_bits(), "q": q.to_json()}),
            Q::Const(q, c) => json!({"const": c.to_bits(), "q": q.to_json()}),
            Q::Should(qs) => json!({"should": qs.iter().map(|q| q.to_json()).collect::<Vec<_>>()}),
            Q::Must(qs) => json!({"must": qs.iter().map(|q| q.to_json()).collect::<Vec<_>>()}),
            Q::DisMax(qs, t) => json!({"dismax": qs.iter().map(|q| q.to_json()).collect::<Vec<_>>(), "tie": t.to_bits()}),
            Q::Mix(ms, ss) => json!({"mix_must": ms.iter().map(|q| q.to_json()).collect::<Vec<_>>(), "mix_should": ss.iter().map(|q| q.to_json()).collect::<Vec<_>>()}),
        }
    }
    fn from_json(v: &Value) -> Option<Q> {
        let list = |v: &Value| -> Option<Vec<Q>> { v.as_array()?.iter().map(Q::from_json).collect() };
        if let Some(t) = v.get("term") { return Some(Q::Term(t.as_u64()? as usize)); }
        if let Some(t) = v.get("phrase") { return Some(Q::Phrase(t.as_array()?.iter().filter_map(|x| x.as_u64().map(|y| y as usize)).collect(), v["slop"].as_u64().unwrap_or(0) as u32)); }
        if let Some(b) = v.get("boost") { return Some(Q::Boost(Box::new(Q::from_json(&v["q"])?), f32::from_bits(b.as_u64()? as u32))); }
        if let Some(b) = v.get("const") { return Some(Q::Const(Box::new(Q::from_json(&v["q"])?), f32::from_bits(b.as_u64()? as u32))); }
        if let Some(l) = v.get("should") { return Some(Q::Should(list(l)?)); }
        if let Some(l) = v.get("must") { return Some(Q::Must(list(l)?)); }
        if let Some(l) = v.get("mix_must") { return Some(Q::Mix(list(l)?, list(&v["mix_should"])?)); }
        if let Some(l) = v.get("dismax") { return Some(Q::DisMax(list(l)?, f32::from_bits(v["tie"].as_u64()? as u32))); }
        None
    }
}

fn gen_phrase(rng: &mut Rng) -> Q {
    let mut ts: Vec<usize> = vec![0, 1, 2];
    rng.shuffle(&mut ts);
    match rng.below(4) {
        0 => Q::Phrase(ts, 0),
        1 => Q::Phrase(ts[..2].to_vec(), 1),
        2 => Q::Phrase(vec![ts[0], 5], 0),
        _ => Q::Phrase(ts[..2].to_vec(), 0),
    }
}

fn gen_query(rng: &mut Rng) -> Q {
    let term = |rng: &mut Rng| Q::Term(match rng.below(10) { 0..=3 => 0, 4 | 5 => 1, 6 | 7 => 2, 8 => 3, _ => 4 });
    let terms = |rng: &mut Rng, n: usize| -> Vec<Q> {
        let mut ts: Vec<usize> = (0..5).collect();
        rng.shuffle(&mut ts);
        ts.truncate(n);
        ts.into_iter().map(Q::Term).collect()
    };
    let boosts = [2.0f32, 0.5, 3.3, 1.0, 0.1, 7.25];
    match rng.below(20) {
        0 | 1 => term(rng),
        2 | 3 => Q::Boost(Box::new(term(rng)), boosts[rng.usize_below(6)]),
        4 => Q::Const(Box::new(term(rng)), [1.0f32, 0.3, 2.5][rng.usize_below(3)]),
        5 | 6 => { let n = 2 + rng.usize_below(3); Q::Should(terms(rng, n)) }
        7 => { let n = 2 + rng.usize_below(2); Q::Must(terms(rng, n)) }
        8 | 9 => { let n = 2 + rng.usize_below(3); Q::DisMax(terms(rng, n), [0.0f32, 0.3, 1.0, 0.7][rng.usize_below(4)]) }
        10 => Q::Boost(Box::new(Q::Should(terms(rng, 2))), boosts[rng.usize_below(6)]),
        11 => { let ts = terms(rng, 3); Q::Should(vec![ts[0].clone(), Q::Boost(Box::new(ts[1].clone()), 2.0), Q::Const(Box::new(ts[2].clone()), 1.5)]) }
        12 => Q::Boost(Box::new(Q::Boost(Box::new(term(rng)), 3.0)), 0.7),
        13 | 14 => gen_phrase(rng),
        15 => Q::Boost(Box::new(gen_phrase(rng)), 2.0),
        // a phrase as a leg of a conjunction: with a rarer term (the phrase is the non-leading,
        // more costly leg) and with a frequent one (the phrase may lead)
        16 => Q::Must(vec![Q::Term(3 + rng.usize_below(2)), gen_phrase(rng)]),
        17 => Q::Must(vec![gen_phrase(rng), Q::Term(rng.usize_below(5))]),
        18 => Q::Should(vec![gen_phrase(rng), term(rng)]),
        _ => Q::Must(vec![term(rng), Q::Should(vec![gen_phrase(rng), term(rng)])]),
    }
}

struct Seg {
    /// searcher + map id -> (address), fieldnorm id and tf of every term, read through the public API
    searcher: Searcher,
    by_id: HashMap<u64, DocAddress>,
}

fn open_seg(built: &Built) -> Seg {
    let searcher = built.index.reader().unwrap().searcher();
    let mut by_id = HashMap::new();
    for (ord, r) in searcher.segment_readers().iter().enumerate() {
        let col = r.fast_fields().u64("id").unwrap();
        for doc in 0..r.max_doc() {
            by_id.insert(col.first(doc).unwrap(), DocAddress::new(ord as u32, doc));
        }
    }
    Seg { searcher, by_id }
}

/// scores of every matching document of `q`, from the non-pruning scoring collector
fn standalone_scores(searcher: &Searcher, body: Field, q: &Q) -> Option<HashMap<DocAddress, Score>> {
    let query = q.build(body);
    let hits = catch_unwind(AssertUnwindSafe(|| searcher.search(query.as_ref(), &AllHits))).ok()?.ok()?;
    Some(hits.into_iter().map(|(o, d, s)| (DocAddress::new(o, d), s)).collect())
}

#[allow(clippy::too_many_arguments)]
fn corpus_case(ctx: &mut Ctx, spec: &DocsSpec, segmentations: &[Vec<usize>], queries: &[Q], explain_samples: usize, rng: &mut Rng) {
    let docs = gen_docs(spec);
    let deleted = deleted_ids(spec);
    let large = docs.len() > 2500;
    let exact_only: Vec<Q>;
    let queries: &[Q] = if large { exact_only = queries.iter().map(|q| q.without_slop()).collect(); &exact_only } else { queries };
    let case_base = json!({"docs": [spec.seed.to_string(), spec.n, spec.profile, spec.delete_permille], "segmentations": segmentations});
    // independent recomputation of the formula's inputs from the generated documents
    // (with deletes: the statistics keep counting deleted documents, except that a segment whose
    // documents are ALL deleted is dropped at commit — which depends on the segmentation, so
    // corpora with deletes use their first segmentation only)
    let counted = |cuts: &Vec<usize>| -> Vec<bool> {
        let mut seg_of = vec![0usize; docs.len()];
        let mut k = 0;
        for j in 0..docs.len() {
            if cuts.contains(&j) && j > 0 { k += 1; }
            seg_of[j] = k;
        }
        let mut alive_in_seg = vec![false; k + 1];
        for j in 0..docs.len() {
            if !deleted.contains(&(j as u64)) { alive_in_seg[seg_of[j]] = true; }
        }
        (0..docs.len()).map(|j| alive_in_seg[seg_of[j]]).collect()
    };
    let segmentations: Vec<Vec<usize>> = if deleted.is_empty() { segmentations.to_vec() } else { segmentations[..1].to_vec() };
    let segmentations = &segmentations[..];
    let cnt = counted(&segmentations[0]);
    let n_docs = cnt.iter().filter(|c| **c).count() as u64;
    let tokens: u64 = docs.iter().zip(&cnt).filter(|(_, c)| **c).map(|(d, _)| d.len() as u64).sum();
    let df: Vec<u64> = (0..VOCAB.len()).map(|t| docs.iter().zip(&cnt).filter(|(d, c)| **c && d.tf(t) > 0).count() as u64).collect();
    if n_docs == 0 {
        return;
    }
    // scores per (query index, doc id) in the first segmentation
    let mut reference: HashMap<(usize, u64), u32> = HashMap::new();
    for (si, cuts) in segmentations.iter().enumerate() {
        let built = build(&docs, cuts, &deleted);
        if !deleted.is_empty() { ctx.report.count("corpus-with-deletes"); }
        let seg = open_seg(&built);
        let searcher = &seg.searcher;
        let body = built.body;
        let nseg = searcher.segment_readers().len();
        ctx.report.count(&format!("segments:{nseg}"));
        let max_seg = searcher.segment_readers().iter().map(|r| r.max_doc()).max().unwrap_or(0);
        ctx.report.count(if max_seg > 8192 { "largest-segment:>8192" } else if max_seg > 4096 { "largest-segment:4097-8192" } else { "largest-segment:<=4096" });
        let case = |extra: Value| -> Value { let mut c = case_base.clone(); c["kind"] = json!("corpus"); c["segmentation"] = json!(si); c["at"] = extra; c };
        // ---- inputs through the public API ----
        let api_n = searcher.total_num_docs().unwrap_or(u64::MAX);
        let api_tokens = searcher.total_num_tokens(body).unwrap_or(u64::MAX);
        ctx.report.case(&format!("stats|{}|{}|{:?}", spec.seed, spec.n, cuts), nseg > 1);
        if api_n != n_docs || api_tokens != tokens {
            ctx.report.violation("oracle", "C12:stats-not-partition-sums", format!("searcher statistics over {nseg} segments: total_num_docs {api_n} (documents: {n_docs}), total_num_tokens {api_tokens} (tokens: {tokens})"), case(json!("stats")));
            continue;
        }
        for t in 0..5 {
            let api_df = searcher.doc_freq(&Term::from_field_text(body, VOCAB[t])).unwrap_or(u64::MAX);
            if api_df != df[t] {
                ctx.report.violation("oracle", "C12:doc-freq-not-partition-sum", format!("doc_freq({}) over {nseg} segments = {api_df}, documents containing it: {}", VOCAB[t], df[t]), case(json!({"term": t})));
            }
        }
        // tf and fieldnorm id of every document, public API vs generated documents vs model quantisation
        let mut fid_of: HashMap<u64, u8> = HashMap::new();
        for (ord, r) in searcher.segment_readers().iter().enumerate() {
            let fnr = r.get_fieldnorms_reader(body).unwrap();
            let col = r.fast_fields().u64("id").unwrap();
            for doc in 0..r.max_doc() {
                let id = col.first(doc).unwrap();
                let fid = fnr.fieldnorm_id(doc);
                fid_of.insert(id, fid);
                let len = docs[id as usize].len();
                if fid != FieldNormReader::fieldnorm_to_id(len) {
                    ctx.report.violation("oracle", "C12:fieldnorm-id-wrong", format!("document {id} ({len} tokens) has fieldnorm id {fid}, fieldnorm_to_id gives {}", FieldNormReader::fieldnorm_to_id(len)), case(json!({"doc": id})));
                }
                ctx.report.count(&format!("fieldnorm-id:{}", match fid { 0..=39 => "0-39 (exact)", 40..=79 => "40-79", 80..=111 => "80-111", _ => "112+" }));
            }
            let inv = r.inverted_index(body).unwrap();
            for t in 0..5 {
                if let Ok(Some(mut p)) = inv.read_postings(&Term::from_field_text(body, VOCAB[t]), IndexRecordOption::WithFreqs) {
                    let mut d = p.doc();
                    while d != tantivy::TERMINATED {
                        let id = col.first(d).unwrap();
                        if p.term_freq() != docs[id as usize].tf(t) {
                            ctx.report.violation("oracle", "C12:tf-wrong", format!("postings tf of {} in document {id} (segment {ord}) = {}, generated {}", VOCAB[t], p.term_freq(), docs[id as usize].tf(t)), case(json!({"doc": id, "term": t})));
                        }
                        d = p.advance();
                    }
                }
            }
        }
        // the model recomputes everything from the documents themselves (small corpora only)
        if tokens <= 4000 && si == 0 && deleted.is_empty() {
            let segtxt: String = {
                let mut cutset: Vec<usize> = cuts.clone();
                cutset.sort();
                let mut parts: Vec<Vec<String>> = vec![vec![]];
                for (j, d) in docs.iter().enumerate() {
                    if cutset.contains(&j) && j > 0 { parts.push(vec![]); }
                    let toks: Vec<String> = d.toks.iter().map(|t| t.to_string()).collect();
                    parts.last_mut().unwrap().push(if toks.is_empty() { "-".into() } else { toks.join(".") });
                }
                parts.iter().map(|p| p.join(",")).collect::<Vec<_>>().join("|")
            };
            let resp = ctx.model.ask(&format!("C12 corpus 0 {segtxt} 0 0 {}", bits(1.0)));
            let v: Vec<u64> = resp.split(' ').filter_map(|x| x.parse().ok()).collect();
            ctx.report.count("model-recomputed-stats");
            if v.len() != 6 || v[0] != api_n || v[1] != api_tokens || v[2] != df[0] {
                ctx.report.violation("model", "C12:model-stats-differ", format!("model statistics {resp} vs API N={api_n} tokens={api_tokens} n(a)={}", df[0]), case(json!("model-stats")));
            }
        }
        // frequencies of the sloppy phrases, from the implementation's stand-alone phrase scorer
        let id_cols0: Vec<_> = searcher.segment_readers().iter().map(|r| r.fast_fields().u64("id").unwrap()).collect();
        let mut env: Sloppy = HashMap::new();
        let mut sloppy = vec![];
        queries.iter().for_each(|q| q.sloppy_phrases(&mut sloppy));
        for ph in &sloppy {
            let key = ph.to_json().to_string();
            if env.contains_key(&key) {
                continue;
            }
            let query = ph.build(body);
            let mut m = HashMap::new();
            if let Some(hits) = standalone_scores(searcher, body, ph) {
                for addr in hits.keys() {
                    if let Ok(Ok(e)) = catch_unwind(AssertUnwindSafe(|| query.explain(searcher, *addr))) {
                        if let Some(f) = serde_json::from_str::<Value>(&e.to_pretty_json()).ok().and_then(|v| find_freq(&v)) {
                            m.insert(id_cols0[addr.segment_ord as usize].first(addr.doc_id).unwrap(), f as u32);
                        }
                    }
                }
            }
            env.insert(key, m);
        }
        let env = &env;
        // ---- scores ----
        for (qi, q) in queries.iter().enumerate() {
            let query = q.build(body);
            ctx.report.count(&format!("query:{}", q.kind()));
            let hits = match catch_unwind(AssertUnwindSafe(|| searcher.search(query.as_ref(), &AllHits))) {
                Ok(Ok(h)) => h,
                Ok(Err(e)) => { ctx.report.violation("oracle", "C12:search-failed", format!("scoring collector failed on {}: {e}", q.to_json()), case(json!({"query": q.to_json()}))); continue }
                Err(p) => {
                    let msg = p.downcast_ref::<String>().cloned().or_else(|| p.downcast_ref::<&str>().map(|s| s.to_string())).unwrap_or_default();
                    // recorded (C13) defect: BufferedUnionScorer::seek_danger hands a child a target
                    // below the child's current doc; PhraseScorer::seek_danger debug-asserts on it
                    let key = if msg.starts_with("target (") && msg.contains("should be greater than or equal to doc (") && q.phrase_in_union_in_must(false, false) { "C12:phrase-seek-danger-target-below-doc-assert" } else { "C12:search-panicked" };
                    ctx.report.violation("oracle", key, format!("scoring collector panicked on {}: {msg}", q.to_json()), case(json!({"query": q.to_json()})));
                    continue
                }
            };
            let expected_matches = docs.iter().enumerate().filter(|(j, d)| !deleted.contains(&(*j as u64)) && q.matches(*j as u64, d, env)).count();
            if hits.len() != expected_matches {
                // not this property's subject (C03), but scores cannot be compared then
                ctx.report.notes.push(format!("query {} matched {} documents, expected {expected_matches}", q.to_json(), hits.len()));
                ctx.report.count("match-set-differs(not compared)");
                continue;
            }
            let top: HashMap<DocAddress, Score> = match catch_unwind(AssertUnwindSafe(|| searcher.search(query.as_ref(), &TopDocs::with_limit(hits.len().max(1)).order_by_score()))) {
                Ok(Ok(t)) => t.into_iter().map(|(s, a)| (a, s)).collect(),
                _ => { ctx.report.violation("oracle", "C12:search-failed", format!("TopDocs failed on {}", q.to_json()), case(json!({"query": q.to_json()}))); continue }
            };
            // the clauses of a boolean / dis-max query evaluated on their own (same searcher)
            let children: Option<(Vec<HashMap<DocAddress, Score>>, Option<f32>, Vec<Q>)> = match q {
                Q::Should(qs) | Q::Must(qs) => qs.iter().map(|c| standalone_scores(searcher, body, c)).collect::<Option<Vec<_>>>().map(|v| (v, None, qs.clone())),
                Q::Mix(ms, ss) => { let qs: Vec<Q> = ms.iter().chain(ss.iter()).cloned().collect(); qs.iter().map(|c| standalone_scores(searcher, body, c)).collect::<Option<Vec<_>>>().map(|v| (v, None, qs)) }
                Q::DisMax(qs, tie) => qs.iter().map(|c| standalone_scores(searcher, body, c)).collect::<Option<Vec<_>>>().map(|v| (v, Some(*tie), qs.clone())),
                _ => None,
            };
            let id_cols: Vec<_> = searcher.segment_readers().iter().map(|r| r.fast_fields().u64("id").unwrap()).collect();
            let explain_p = (explain_samples as u64).saturating_mul(2).min(hits.len() as u64).max(1);
            let stride = (hits.len() / 40).max(1);
            for (hi, (ord, doc, score)) in hits.iter().enumerate() {
                let id = id_cols[*ord as usize].first(*doc).unwrap();
                let d = &docs[id as usize];
                let addr = DocAddress::new(*ord, *doc);
                let fid = fid_of[&id];
                let mut rpn = vec![];
                let (exact, units) = q.rpn(id, d, env, &df, fid, &mut rpn);
                let at = json!({"query": q.to_json(), "doc": id});
                let same = |a: f32, b: f32, exact: bool| if exact { a.to_bits() == b.to_bits() } else { (a - b).abs() <= ulp_tol(units, a, b) };
                // documents around the 4096-document windows of the buffered union scorer
                let near_window = matches!(*doc % 4096, 0..=2 | 4093..=4095);
                // (1) a boolean query scores the sum of its matching scoring clauses, a dis-max
                //     query max + tie·(sum − max): clause scores taken from the clauses' own
                //     evaluation on the same searcher
                if let Some((maps, tie, qs)) = &children {
                    let parts: Vec<f32> = maps.iter().filter_map(|m| m.get(&addr).cloned()).collect();
                    let all_single = qs.iter().all(|c| c.single_clause());
                    let expected = match tie {
                        None => parts.iter().fold(0.0f32, |a, b| a + b),
                        Some(t) => {
                            let max = parts.iter().fold(0.0f32, |a, b| a.max(*b));
                            let sum = parts.iter().fold(0.0f32, |a, b| a + b);
                            max + (sum - max) * t
                        }
                    };
                    let ex = all_single && parts.len() <= 2;
                    let ok = if ex { expected.to_bits() == score.to_bits() } else { (expected - score).abs() <= ulp_tol(units.max(parts.len() + 1), expected, *score) };
                    ctx.report.count("clause-combination-checked");
                    if !ok {
                        let key = if tie.is_some() { "C12:dismax-score-not-max-plus-tie-rest" } else { "C12:boolean-score-not-sum-of-clauses" };
                        ctx.report.violation("oracle", key, format!("document {id} (doc id {doc} of a segment of {} docs) for {}: collected score {score:?}, the matching clauses score {parts:?} on their own: expected {expected:?}", searcher.segment_reader(*ord).max_doc(), q.to_json()), case(at.clone()));
                        continue;
                    }
                }
                // (2) TopDocs vs scoring collector (same searcher, same query, other collector)
                match top.get(&addr) {
                    Some(ts) if same(*ts, *score, exact) => {}
                    other => {
                        // recorded defect: TopDocs on a DisjunctionMaxQuery over terms goes through
                        // block_wand, which SUMS the clause scores whatever the score combiner.
                        // Attributed only if the TopDocs score is exactly the sum of the clauses.
                        let mut key = "C12:score-depends-on-collector";
                        let mut extra = String::new();
                        if let (Q::DisMax(qs, _), Some(ts), Some((maps, _, _))) = (q, other, &children) {
                            if qs.iter().all(|c| matches!(c, Q::Term(_))) {
                                let parts: Vec<f32> = maps.iter().filter_map(|m| m.get(&addr).cloned()).collect();
                                let sum = parts.iter().fold(0.0f32, |a, b| a + b);
                                let close = if parts.len() <= 2 { sum.to_bits() == ts.to_bits() } else { (sum - ts).abs() <= ulp_tol(parts.len() + 1, sum, *ts) };
                                if close {
                                    key = "C12:dismax-topdocs-sums-clauses";
                                    extra = format!(" [TopDocs score = SUM of the matching clauses ({sum:?}), the dis-max value is {score:?}]");
                                }
                            }
                        }
                        ctx.report.violation("oracle", key, format!("document {id} for {}: TopDocs {:?} vs scoring collector {score:?}{extra}", q.to_json(), other), case(at.clone()));
                        continue;
                    }
                }
                // (3) segmentation independence: bit-identical in the exact class, within the
                //     tolerance otherwise
                match reference.get(&(qi, id)) {
                    _ if q.has_sloppy() => { ctx.report.count("segmentation-invariance-skipped(sloppy phrase frequency is segment-dependent by construction)"); }
                    None => { reference.insert((qi, id), score.to_bits()); }
                    Some(b) if same(f32::from_bits(*b), *score, exact) => { ctx.report.count("segmentation-invariance-checked"); }
                    Some(b) => {
                        ctx.report.violation("oracle", "C12:score-depends-on-segmentation", format!("document {id} for {}: {:?} under segmentation 0, {score:?} under segmentation {si} ({nseg} segments)", q.to_json(), f32::from_bits(*b)), case(at.clone()));
                        continue;
                    }
                }
                // (4) the model
                let do_model = !large || near_window || hi % 7 == 0;
                let mut m_explain = None;
                if do_model {
                    let resp = ctx.model.ask(&format!("C12 tree {n_docs} {tokens} {}", rpn.join(",")));
                    let mv: Vec<u32> = resp.split(' ').filter_map(|x| x.parse().ok()).collect();
                    let canon = format!("score|{}|{}|{:?}|{}|{id}", spec.seed, spec.n, cuts, q.to_json());
                    ctx.report.case(&canon, d.len() > 1 && n_docs > 1);
                    ctx.report.count(if exact { "score-compare:bit-exact" } else { "score-compare:tolerance" });
                    if mv.len() != 2 {
                        ctx.report.violation("model", "C12:model-bad-op", format!("model refused {resp}: {}", rpn.join(",")), case(at));
                        continue;
                    }
                    let m_score = f32::from_bits(mv[0]);
                    m_explain = Some(f32::from_bits(mv[1]));
                    if !same(*score, m_score, exact) {
                        let key = if q.single_clause() { "C12:score-differs-single-clause" } else { "C12:score-differs" };
                        ctx.report.violation("model", key, format!("score of document {id} (len {}, fieldnorm id {fid}) for {} over {nseg} segments: real {score:?}/{:08x} model {m_score:?}/{:08x} (N={n_docs} tokens={tokens} df={:?}; {})", d.len(), q.to_json(), score.to_bits(), m_score.to_bits(), &df[..5], if exact { "bit-exact class" } else { "tolerance class" }), case(at.clone()));
                        continue;
                    }
                }
                // (5) explain: spread over the whole segment (every window of the union scorer)
                let do_explain = if explain_samples == usize::MAX { true } else if large { near_window || hi % stride == 0 || hi + 1 == hits.len() } else { rng.below(hits.len() as u64) < explain_p };
                if do_explain {
                    ctx.report.count("explain-compared");
                    if *doc >= 4096 { ctx.report.count("explain-compared:doc>=4096"); }
                    match catch_unwind(AssertUnwindSafe(|| query.explain(searcher, addr))) {
                        Ok(Ok(e)) => {
                            let ev = e.value();
                            // explain vs the score: the same expression unless a boost is involved
                            // (BoostWeight::explain multiplies afterwards: rounding, ≤ 4 ulp per unit)
                            let explain_exact = exact && !q.has_boost();
                            if !same(ev, *score, explain_exact) {
                                ctx.report.violation("oracle", "C12:explain-disagrees-with-score", format!("document {id} (doc id {doc}) for {}: explain {ev:?} collected score {score:?}", q.to_json()), case(at.clone()));
                            } else if q.has_boost() && ev.to_bits() != score.to_bits() {
                                ctx.report.count("explain-boost-rounding-differs-from-score");
                            }
                            // explain vs the model's explain expression
                            if let Some(me) = m_explain {
                                if !same(ev, me, exact) {
                                    ctx.report.violation("model", "C12:explain-differs-from-model", format!("explain of document {id} for {}: real {ev:?}/{:08x} model {me:?}/{:08x}", q.to_json(), ev.to_bits(), me.to_bits()), case(at.clone()));
                                }
                            }
                        }
                        Ok(Err(e)) => {
                            ctx.report.violation("oracle", "C12:explain-failed", format!("explain of a matching document {id} for {} returned an error: {e}", q.to_json()), case(at.clone()));
                        }
                        Err(p) => {
                            let msg = p.downcast_ref::<String>().cloned().or_else(|| p.downcast_ref::<&str>().map(|s| s.to_string())).unwrap_or_default();
                            let backwards = msg.contains("target >= self.doc()") || msg.contains("doc <= target");
                            let key = if backwards && q.has_nonmatching_phrase(id, d, env) { "C12:explain-phrase-clause-seeks-backwards" } else if backwards && q.has_nonmatching_const(id, d, env) { "C12:explain-const-clause-seeks-backwards" } else { "C12:explain-panicked" };
                            ctx.report.violation("oracle", key, format!("explain of a matching document {id} for {} panicked: {msg}", q.to_json()), case(at.clone()));
                        }
                    }
                }
            }
        }
    }
}

fn gen_segmentations(rng: &mut Rng, n: usize, how_many: usize) -> Vec<Vec<usize>> {
    let mut out = vec![vec![]];
    for _ in 1..how_many {
        let k = rng.usize_below(6).min(n.saturating_sub(1));
        let mut cuts: Vec<usize> = (0..k).map(|_| 1 + rng.usize_below(n.max(2) - 1)).collect();
        cuts.sort();
        cuts.dedup();
        out.push(cuts);
    }
    out
}

pub fn replay(ctx: &mut Ctx, case: &Value) {
    match case["kind"].as_str().unwrap_or("") {
        "formula" => formula_case(ctx, case["N"].as_u64().unwrap_or(1), case["tokens"].as_u64().unwrap_or(1), case["n"].as_u64().unwrap_or(0), case["fid"].as_u64().unwrap_or(0) as u8, case["tf"].as_u64().unwrap_or(1) as u32, f32::from_bits(case["boost_bits"].as_u64().unwrap_or(0x3f800000) as u32)),
        "corpus" => {
            let d = &case["docs"];
            let (Some(seed), Some(n), Some(profile)) = (d[0].as_str().and_then(|s| s.parse().ok()), d[1].as_u64(), d[2].as_u64()) else { return };
            let spec = DocsSpec { seed, n: n as usize, profile: profile as u8, delete_permille: d[3].as_u64().unwrap_or(0) };
            let segs: Vec<Vec<usize>> = case["segmentations"].as_array().map(|a| a.iter().map(|s| s.as_array().map(|x| x.iter().filter_map(|y| y.as_u64().map(|z| z as usize)).collect()).unwrap_or_default()).collect()).unwrap_or_else(|| vec![vec![]]);
            let queries: Vec<Q> = match Q::from_json(&case["at"]["query"]) { Some(q) => vec![q], None => (0..5).map(Q::Term).collect() };
            let mut rng = Rng(1);
            corpus_case(ctx, &spec, &segs, &queries, usize::MAX, &mut rng);
        }
        "fn" | "fnid" => part_a(ctx),
        other => ctx.report.notes.push(format!("replay kind {other:?} unknown")),
    }
}

pub fn run(ctx: &mut Ctx) {
    ctx.report.rule = "part A: (statistics, fieldnorm id, tf, boost) tuples, non-trivial = tf>0, id>0, term not in every document; \
        part B: (corpus, segmentation, query, matching document) tuples, non-trivial = corpus of more than one document and document of more than one token".into();
    ctx.report.correspondence_obligations = vec![
        "FieldNormReader::id_to_fieldnorm / fieldnorm_to_id = model (all 256 codes and neighbours)".into(),
        "Bm25Weight::{for_one_term, boost_by, score, max_score, explain} = model Float32 evaluation, bit for bit, all 256 codes".into(),
        "Searcher statistics (total_num_docs, total_num_tokens, doc_freq) = sums recomputed from the generated documents = model statsOf/docFreqOf".into(),
        "postings tf / FieldNormReader::fieldnorm_id = recomputed from the generated documents".into(),
        "boolean score = sum of the matching clauses' own scores; dis-max score = max + tie·(sum − max) of them (every document, every 4096-document window of segments up to > 8192 docs)".into(),
        "scores of a scoring collector = model score with the document's own tf / phrase count (bit for bit for one clause and ≤2-clause sums/dis-max; 4 ulp per clause otherwise)".into(),
        "large single segments (6000-12500 short documents) with rare required terms and stretches without the frequent terms: `+rare +(b c)`, `+rare b c` scored = sum of the clauses' own scores = the same documents cut into 1000-document segments".into(),
        "TopDocs score = scoring collector score; scores independent of the segmentation (1..6 segmentations, bit-identical in the exact class)".into(),
        "Query::explain value = collected score (bit for bit without boosts) = model explain value, for documents of every window".into(),
    ];
    if let Some(case) = ctx.replay.clone() {
        replay(ctx, &case);
        return;
    }
    part_a(ctx);
    let corpora = ctx.budget(80, 1200);
    let mut rng = ctx.rng.fork();
    for c in 0..corpora {
        // every tenth corpus: segments larger than one / two windows of the buffered union scorer
        let profile = if c % 10 == 9 { 3 } else { (c % 3) as u8 };
        let n = match profile {
            1 => [112usize, 224, 150][rng.usize_below(3)],
            0 => [1usize, 2, 40, 300, 1500][rng.usize_below(5)],
            3 => [4500usize, 6000, 9000][rng.usize_below(3)],
            _ => [60usize, 400, 900][rng.usize_below(3)],
        };
        let spec = DocsSpec { seed: rng.next_u64(), n, profile, delete_permille: if c % 5 == 4 && profile != 3 { [20u64, 200][rng.usize_below(2)] } else { 0 } };
        let how_many = if profile == 3 { 2 } else { 1 + rng.usize_below(3) + if c % 4 == 0 { 2 } else { 0 } };
        let segs = gen_segmentations(&mut rng, n, how_many);
        let mut queries: Vec<Q> = vec![
            Q::Term(0),
            Q::Boost(Box::new(Q::Term(1)), 2.0),
            Q::Const(Box::new(Q::Term(0)), 0.3),
            Q::DisMax(vec![Q::Term(0), Q::Term(1), Q::Term(2)], [0.3f32, 0.7, 1.0][rng.usize_below(3)]),
            Q::Must(vec![Q::Term(3), Q::Phrase(vec![0, 1], 0)]),
        ];
        for _ in 0..6 {
            queries.push(gen_query(&mut rng));
        }
        let mut r2 = rng.fork();
        corpus_case(ctx, &spec, &segs, &queries, 25, &mut r2);
        if c < 3 {
            ctx.report.sample(json!({"part": "B", "docs": [spec.seed.to_string(), spec.n, spec.profile, spec.delete_permille], "segmentations": segs, "queries": queries.iter().map(|q| q.to_json()).collect::<Vec<_>>()}));
        }
    }
    // large single segments, rare required term + frequent optional / nested-union terms with
    // stretches where the frequent terms are absent; compared with the same documents cut into
    // 1000-document segments (the union scorer never refills a window there)
    let gappy = ctx.budget(5, 60);
    let mut rng = ctx.rng.fork();
    for _ in 0..gappy {
        let n = [6000usize, 8300, 9500, 12500][rng.usize_below(4)];
        let spec = DocsSpec { seed: rng.next_u64(), n, profile: 4, delete_permille: 0 };
        let segs = vec![vec![], (1..n / 1000 + 1).map(|k| k * 1000).filter(|c| *c < n).collect::<Vec<usize>>()];
        let rare = |rng: &mut Rng| Q::Term(if rng.chance(2, 3) { 4 } else { 3 });
        let mut queries: Vec<Q> = vec![
            Q::Must(vec![Q::Term(4), Q::Should(vec![Q::Term(1), Q::Term(2)])]),
            Q::Mix(vec![Q::Term(4)], vec![Q::Term(1), Q::Term(2)]),
            Q::Must(vec![Q::Term(3), Q::Should(vec![Q::Term(0), Q::Term(1), Q::Term(2)])]),
            Q::Mix(vec![Q::Term(3)], vec![Q::Term(0), Q::Term(2)]),
            Q::Must(vec![Q::Term(4), Q::DisMax(vec![Q::Term(0), Q::Term(1)], 0.3)]),
        ];
        for _ in 0..3 {
            let mut ts: Vec<usize> = vec![0, 1, 2];
            rng.shuffle(&mut ts);
            let k = 2 + rng.usize_below(2);
            let opt: Vec<Q> = ts[..k].iter().map(|t| if rng.chance(1, 4) { Q::Boost(Box::new(Q::Term(*t)), 2.0) } else { Q::Term(*t) }).collect();
            queries.push(match rng.below(3) { 0 => Q::Mix(vec![rare(&mut rng)], opt), 1 => Q::Must(vec![rare(&mut rng), Q::Should(opt)]), _ => Q::Mix(vec![Q::Term(3), Q::Term(4)], opt) });
        }
        ctx.report.count("corpus:gappy-large-single-segment");
        let mut r2 = rng.fork();
        corpus_case(ctx, &spec, &segs, &queries, 25, &mut r2);
    }
}
