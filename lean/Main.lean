import TantivyModel.Driver.Proto
import TantivyModel.Driver.C20
/-!
`tvmodel`: line-protocol driver for the executable model. One request per input line
(`Cxx op args…`), one response line per request, flushed immediately.
-/
open TantivyModel

def dispatch (line : String) : String :=
  match line.trimAscii.toString.splitOn " " with
  | "C20" :: rest => Driver.C20.handle rest
  | ["ping"] => "pong"
  | _ => "bad-op"

partial def loop (hin hout : IO.FS.Stream) : IO Unit := do
  let line ← hin.getLine
  if line.isEmpty then return ()
  hout.putStrLn (dispatch line)
  hout.flush
  loop hin hout

def main : IO Unit := do
  loop (← IO.getStdin) (← IO.getStdout)
