import TantivyModel.Driver.Proto
import TantivyModel.Driver.PureFns
import TantivyModel.Driver.C01
import TantivyModel.Driver.C02
import TantivyModel.Driver.C03
import TantivyModel.Driver.C04
import TantivyModel.Driver.C05
import TantivyModel.Driver.C06
import TantivyModel.Driver.C07
import TantivyModel.Driver.C08
import TantivyModel.Driver.C09
import TantivyModel.Driver.C10
import TantivyModel.Driver.C11
import TantivyModel.Driver.C12
import TantivyModel.Driver.C13
import TantivyModel.Driver.C14
import TantivyModel.Driver.C15
import TantivyModel.Driver.C16
import TantivyModel.Driver.C17
import TantivyModel.Driver.C18
import TantivyModel.Driver.C19
import TantivyModel.Driver.C20
/-!
`tvmodel`: line-protocol driver for the executable model. One request per input line
(`Cxx op args…`), one response line per request, flushed immediately.
Each property owns `TantivyModel/Driver/Cxx.lean` (`handle : List String → String`).
-/
open TantivyModel

def dispatch (line : String) : String :=
  match line.trimAscii.toString.splitOn " " with
  | "C01" :: rest => Driver.C01.handle rest
  | "C02" :: rest => Driver.C02.handle rest
  | "C03" :: rest => Driver.C03.handle rest
  | "C04" :: rest => Driver.C04.handle rest
  | "C05" :: rest => Driver.C05.handle rest
  | "C06" :: rest => Driver.C06.handle rest
  | "C07" :: rest => Driver.C07.handle rest
  | "C08" :: rest => Driver.C08.handle rest
  | "C09" :: rest => Driver.C09.handle rest
  | "C10" :: rest => Driver.C10.handle rest
  | "C11" :: rest => Driver.C11.handle rest
  | "C12" :: rest => Driver.C12.handle rest
  | "C13" :: rest => Driver.C13.handle rest
  | "C14" :: rest => Driver.C14.handle rest
  | "C15" :: rest => Driver.C15.handle rest
  | "C16" :: rest => Driver.C16.handle rest
  | "C17" :: rest => Driver.C17.handle rest
  | "C18" :: rest => Driver.C18.handle rest
  | "C19" :: rest => Driver.C19.handle rest
  | "C20" :: rest => Driver.C20.handle rest
  | "PF" :: rest => Driver.PureFns.handle rest
  | ["ping"] => "pong"
  | _ => "bad-op"

partial def loop (hin hout : IO.FS.Stream) : IO Unit := do
  let line ← hin.getLine
  if line.isEmpty then return ()
  hout.putStrLn (dispatch line)
  hout.flush
  loop hin hout

def main : IO Unit := do
  loop (← IO.getStdin) (← IO.getStdout)
