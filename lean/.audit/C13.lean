import TantivyModel.Props.C13
#print axioms TantivyModel.C13.C13_spec_sorted_preserved
#print axioms TantivyModel.C13.C13_spec_seek_first_ge
#print axioms TantivyModel.C13.C13_spec_seek_current
#print axioms TantivyModel.C13.C13_spec_seek_seek
#print axioms TantivyModel.C13.C13_spec_end_sticky
#print axioms TantivyModel.C13.C13_spec_length_bound
#print axioms TantivyModel.C13.C13_program_equiv
#print axioms TantivyModel.C13.C13_end_sticky
#print axioms TantivyModel.C13.C13_default_lawful
#print axioms TantivyModel.C13.C13_vec_lawful
#print axioms TantivyModel.C13.C13_vec_program_equiv
#print axioms TantivyModel.C13.C13_vec_end_sticky
