import TantivyModel.Props.C13
#print axioms TantivyModel.C13.C13_spec_sorted_preserved
#print axioms TantivyModel.C13.C13_spec_seek_first_ge
#print axioms TantivyModel.C13.C13_spec_seek_current
#print axioms TantivyModel.C13.C13_spec_seek_seek
#print axioms TantivyModel.C13.C13_spec_end_sticky
#print axioms TantivyModel.C13.C13_spec_length_bound
#print axioms TantivyModel.C13.C13_program_equiv
#print axioms TantivyModel.C13.C13_end_sticky
#print axioms TantivyModel.C13.C13_default_lawful
#print axioms TantivyModel.C13.C13_vec_lawful
#print axioms TantivyModel.C13.C13_vec_program_equiv
#print axioms TantivyModel.C13.C13_vec_end_sticky
#print axioms TantivyModel.C13.C13_union_fill_buffer_stale_scores_counterexample
#print axioms TantivyModel.C13.C13_union_fill_buffer_score_not_refreshed_counterexample
#print axioms TantivyModel.C13.C13_union_count_end_counterexample
#print axioms TantivyModel.C13.C13_intersection_dense_count_end_counterexample
#print axioms TantivyModel.C13.C13_union_seek_danger_below_window_counterexample
