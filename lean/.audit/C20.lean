import TantivyModel.Props.C20
#print axioms TantivyModel.C20.C20_extract_append
#print axioms TantivyModel.C20.C20_open_read_body
#print axioms TantivyModel.C20.C20_version_refused
#print axioms TantivyModel.C20.C20_intact_reports_nothing
#print axioms TantivyModel.C20.C20_validate_iff
#print axioms TantivyModel.C20.crc32_single_byte
#print axioms TantivyModel.C20.C20_single_byte_detected
#print axioms TantivyModel.C20.C20_bit_flip_detected
#print axioms TantivyModel.C20.C20_burst32_detected
#print axioms TantivyModel.C20.C20_truncation_small
#print axioms TantivyModel.C20.proxy_fold
#print axioms TantivyModel.C20.C20_proxy_hash_all
#print axioms TantivyModel.C20.C20_decimalCodec_good
#print axioms TantivyModel.C20.C20_single_byte_detected_concrete
#print axioms TantivyModel.C20.C20_validation_walks_all
#print axioms TantivyModel.C20.C20_extension_counterexample
#print axioms TantivyModel.C20.C20_truncation_counterexample
