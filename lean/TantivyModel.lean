import TantivyModel.Proofs.Crc32
