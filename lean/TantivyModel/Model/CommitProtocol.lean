import TantivyModel.Model.Storage
/-!
# Commit protocol over the storage model (C01)

`PState` = directory + the last acknowledged commit + the last started commit (commit of the
latest `atomicWrite meta.json`). `violations` decides, for one operation in one state, which of
the discipline rules it breaks:

* D0  commit ids written to `meta.json` never decrease (well-formedness of the annotated trace);
* D1  every path referenced by the payload of an `atomicWrite meta.json` was `terminate`d and a
      `syncDir` lies between its `create` and the `atomicWrite` (entry durable, content durable,
      not unlinked). DESIGN words D1 with the `syncDir` after the `terminate` as well; that
      implies this form, and this form is all the proof needs;
* D2  no `write` (or second `terminate`) to a path after its `terminate`, a path is created at
      most once (WORM). Writing to a file that has been unlinked meanwhile is allowed (the
      detached doc-store compressor of a rolled-back segment does it; the bytes go to an
      anonymous inode);
* D3a when `commit()` with id `c` returns, every `meta.json` version a crash could leave belongs to
      a commit `≥ c` (given D0: a `syncDir` lies between the `atomicWrite meta.json` of `c` and the
      return);
* D3b `delete p` only when `p` is not referenced by a `meta.json` version *older than the visible
      one* that a crash could still leave (a `syncDir` lies between the `atomicWrite` of the
      newer meta and the unlink of a file of the previous one);
* D4  `delete p` only when `p` is not referenced by the visible `meta.json` (the living-set part
      of D4 is C10's `GC` model), and never `meta.json` itself.
-/
namespace TantivyModel.CommitProtocol
open TantivyModel.Storage

structure PState where
  dir : Dir
  acked : Nat
  started : Nat

inductive Rule | D0 | D1 | D2 | D3a | D3b | D4
deriving DecidableEq, Repr, Inhabited

def Rule.name : Rule → Nat
  | .D0 => 0 | .D1 => 1 | .D2 => 2 | .D3a => 30 | .D3b => 31 | .D4 => 4

def metaCands (s : PState) : List Payload := (s.dir.atom META).cands

def refsAllFirm (s : PState) (m : Payload) : Bool := m.refs.all (fun q => (s.dir.file q).firm)

def referencedBy (l : List Payload) (p : Path) : Bool := l.any (fun m => m.refs.contains p)

def violations (s : PState) : Op → List Rule
  | .create p => if (s.dir.file p).ever || (s.dir.file p).vis || (s.dir.file p).dur then [.D2] else []
  | .write p _ => if (s.dir.file p).term then [.D2] else []
  | .flush _ => []
  | .terminate p => if (s.dir.file p).term then [.D2] else []
  | .syncDir => []
  | .atomicWrite p m =>
    if p = META then
      (if refsAllFirm s m then [] else [.D1]) ++ (if s.started ≤ m.commit then [] else [.D0])
    else []
  | .delete p =>
    (if p = META || referencedBy ((metaCands s).getLast?.toList) p then [.D4] else []) ++
    (if referencedBy (metaCands s).dropLast p then [.D3b] else [])
  | .ack c => if (metaCands s).all (fun m => decide (c ≤ m.commit)) then [] else [.D3a]

def PState.step (s : PState) (op : Op) : PState :=
  { dir := s.dir.step op,
    acked := match op with | .ack c => max s.acked c | _ => s.acked,
    started := match op with
      | .atomicWrite p m => if p = META then m.commit else s.started
      | _ => s.started }

def PState.run (s : PState) (t : List Op) : PState := t.foldl PState.step s

/-- the trace breaks none of the rules selected by `sel` when run from `s` -/
def disciplinedBy (sel : Rule → Bool) : PState → List Op → Bool
  | _, [] => true
  | s, op :: t => (violations s op).all (fun r => !sel r) && disciplinedBy sel (s.step op) t

def Disciplined (s : PState) (t : List Op) : Bool := disciplinedBy (fun _ => true) s t

/-- first offending operation and the rules it breaks -/
def firstViolation : PState → List Op → Nat → Option (Nat × List Rule)
  | _, [], _ => none
  | s, op :: t, i =>
    match violations s op with
    | [] => firstViolation (s.step op) t (i + 1)
    | rs => some (i, rs)

/-- all offending operations (the harness attributes each one) -/
def allViolations : PState → List Op → Nat → List (Nat × List Rule)
  | _, [], _ => []
  | s, op :: t, i =>
    (match violations s op with | [] => [] | rs => [(i, rs)]) ++ allViolations (s.step op) t (i + 1)

/-- last acknowledged / started commit of a trace, as functions of the trace alone -/
def lastAcked (a0 : Nat) (t : List Op) : Nat :=
  t.foldl (fun a op => match op with | .ack c => max a c | _ => a) a0

def lastStarted (s0 : Nat) (t : List Op) : Nat :=
  t.foldl (fun a op => match op with
    | .atomicWrite p m => if p = META then m.commit else a
    | _ => a) s0

/-- `recover`: what re-opening finds. The durable `meta.json` must exist and every file it
references must be present and sealed (complete, checksum valid); the result is its commit. -/
def sealedIn (img : Image) (p : Path) : Bool :=
  match img.file p with
  | some (_, true) => true
  | _ => false

def recover (img : Image) : Option Nat :=
  match img.atom META with
  | none => none
  | some m => if m.refs.all (sealedIn img) then some m.commit else none

/-- the paths `recover` (and `open`) look at -/
def readSet (img : Image) : List Path :=
  match img.atom META with
  | none => []
  | some m => m.refs

/-- state a fresh process starts from after a crash left `img` and `recover` found commit `j` -/
def PState.ofImage (img : Image) (paths apaths : List Path) (j : Nat) : PState :=
  { dir := Dir.ofImage img paths apaths, acked := j, started := j }

/-- the state right after `Index::create` (save_metas of the empty meta + sync_directory) -/
def PState.created : PState :=
  (({ dir := Dir.empty, acked := 0, started := 0 } : PState).run
    [.syncDir, .atomicWrite META { commit := 0, ver := 0, len := 0, refs := [] }, .syncDir])

/-! ## the protocol as the code issues it (modelled op sequences) -/

/-- one segment component / delete file: registered as managed, created, written, terminated
-- mirrors: src/directory/managed_directory.rs::open_write, src/indexer/segment_serializer.rs::close,
-- src/indexer/index_writer.rs::advance_deletes -/
def writeFileOps (managed : Payload) (p : Path) (n : Nat) : List Op :=
  [.atomicWrite MANAGED managed, .create p, .write p n, .flush p, .terminate p]

/-- `save_metas`, from the extracted order of its storage calls (1 = sync_directory,
2 = atomic_write meta.json)  -- mirrors: src/indexer/segment_updater.rs::save_metas -/
def saveMetasOps (calls : List Nat) (m : Payload) : List Op :=
  calls.filterMap (fun c => if c = 1 then some Op.syncDir else if c = 2 then some (Op.atomicWrite META m) else none)

/-- `garbage_collect`: deletes, then (only if something was deleted) `sync_directory` and the
rewritten `.managed.json`  -- mirrors: src/directory/managed_directory.rs::garbage_collect -/
def gcOps (managed : Payload) (dels : List Path) : List Op :=
  dels.map Op.delete ++ (if dels.isEmpty then [] else [.syncDir, .atomicWrite MANAGED managed])

/-- `schedule_commit` as seen by storage: new files, `save_metas`, GC, return
-- mirrors: src/indexer/segment_updater.rs::schedule_commit -/
def commitOps (calls : List Nat) (managed : Payload) (newFiles : List (Path × Nat)) (m : Payload)
    (dels : List Path) : List Op :=
  (newFiles.flatMap (fun f => writeFileOps managed f.1 f.2)) ++ saveMetasOps calls m ++
    gcOps managed dels ++ [.ack m.commit]

end TantivyModel.CommitProtocol
