import TantivyModel.Model.PostingsCodec
/-!
# TermInfoStore (C07): blocks of `BLOCK_LEN` TermInfos, reference TermInfo + bit-packed deltas

A block stores its first TermInfo in full (the block meta) and, for every further TermInfo,
`postings_start − ref.postings_start`, `positions_start − ref.positions_start`, `doc_freq` on
fixed bit widths; the end of a range is the start of the next one (the final ends are appended).
The bit stream is LSB-first (`tantivy_bitpacker::BitPacker`), read with an unaligned 8-byte
little-endian window (`extract_bits`, widths ≤ 56).

-- mirrors: src/termdict/fst_termdict/term_info_store.rs::flush_block
-- mirrors: src/termdict/fst_termdict/term_info_store.rs::bitpack_serialize
-- mirrors: src/termdict/fst_termdict/term_info_store.rs::write_term_info
-- mirrors: src/termdict/fst_termdict/term_info_store.rs::serialize
-- mirrors: src/termdict/fst_termdict/term_info_store.rs::extract_bits
-- mirrors: src/termdict/fst_termdict/term_info_store.rs::deserialize_term_info
-- mirrors: src/termdict/fst_termdict/term_info_store.rs::get
-- mirrors: src/postings/term_info.rs::serialize
-- mirrors: bitpacker/src/bitpacker.rs::write
-- mirrors: bitpacker/src/bitpacker.rs::flush
-/
namespace TantivyModel.TermInfoStore
open TantivyModel.Postings (computeNumBits)

structure TermInfo where
  docFreq : Nat
  postStart : Nat
  postEnd : Nat
  posStart : Nat
  posEnd : Nat
deriving Repr, DecidableEq

/-- little-endian bytes ↔ number -/
def leNat : List Nat → Nat
  | [] => 0
  | b :: r => b + 256 * leNat r

def natToLe : Nat → Nat → List Nat
  | 0, _ => []
  | n + 1, N => N % 256 :: natToLe n (N / 256)

/-- `BitPacker::write(val, num_bits)` in sequence: the stream as a number, first value lowest -/
def packBits : List (Nat × Nat) → Nat
  | [] => 0
  | (v, w) :: rest => v + 2 ^ w * packBits rest

def totalBits (fs : List (Nat × Nat)) : Nat := (fs.map (·.2)).sum

/-- the bytes `BitPacker` emits for a field sequence followed by `flush` -/
def bitBytes (fs : List (Nat × Nat)) : List Nat := natToLe ((totalBits fs + 7) / 8) (packBits fs)

/-- `extract_bits(data, addr_bits, num_bits)`: 8 bytes from `addr/8` (zero padded), shifted and masked -/
def extractBits (data : List Nat) (addr w : Nat) : Nat :=
  leNat ((data.drop (addr / 8)).take 8) / 2 ^ (addr % 8) % 2 ^ w

structure Meta where
  offset : Nat
  ref : TermInfo
  dfBits : Nat
  postBits : Nat
  posBits : Nat
deriving Repr, DecidableEq

def Meta.numBits (m : Meta) : Nat := m.dfBits + m.postBits + m.posBits

/-- `bitpack_serialize` of one TermInfo (starts already relative to the reference) -/
def triple (m : Meta) (t : TermInfo) : List (Nat × Nat) :=
  [(t.postStart - m.ref.postStart, m.postBits), (t.posStart - m.ref.posStart, m.posBits),
   (t.docFreq, m.dfBits)]

/-- `flush_block`: the meta of a block `ref :: others` whose bit stream starts at `offset` -/
def mkMeta (offset : Nat) (ref : TermInfo) (others : List TermInfo) : Meta :=
  let last := others.getLastD ref
  { offset := offset, ref := ref,
    dfBits := computeNumBits ((others.map (·.docFreq)).foldr max 0),
    postBits := computeNumBits (last.postEnd - ref.postStart),
    posBits := computeNumBits (last.posEnd - ref.posStart) }

/-- the bit fields of a block: one triple per further TermInfo, then the two final ends -/
def blockFields (m : Meta) (others : List TermInfo) : List (Nat × Nat) :=
  let last := others.getLastD m.ref
  others.flatMap (triple m) ++
    [(last.postEnd - m.ref.postStart, m.postBits), (last.posEnd - m.ref.posStart, m.posBits)]

def blockBytes (m : Meta) (others : List TermInfo) : List Nat := bitBytes (blockFields m others)

/-- `write_term_info` × n, `serialize`: (block metas, bit-packed buffer); fuel = number of terms -/
def writeBlocks (BL : Nat) : Nat → List TermInfo → Nat → List Meta × List Nat
  | 0, _, _ => ([], [])
  | k + 1, tis, off =>
    match tis.take BL with
    | [] => ([], [])
    | ref :: others =>
      let m := mkMeta off ref others
      let r := writeBlocks BL k (tis.drop BL) (off + (blockBytes m others).length)
      (m :: r.1, blockBytes m others ++ r.2)

def write (BL : Nat) (tis : List TermInfo) : List Meta × List Nat := writeBlocks BL tis.length tis 0

/-- `deserialize_term_info(data, inner_offset)` -/
def deserializeTermInfo (m : Meta) (data : List Nat) (inner : Nat) : TermInfo :=
  let a := m.numBits * inner
  let qa := a + m.postBits
  { postStart := m.ref.postStart + extractBits data a m.postBits,
    postEnd := m.ref.postStart + extractBits data (a + m.numBits) m.postBits,
    posStart := m.ref.posStart + extractBits data qa m.posBits,
    posEnd := m.ref.posStart + extractBits data (qa + m.numBits) m.posBits,
    docFreq := extractBits data (qa + m.posBits) m.dfBits }

/-- `TermInfoStore::get(term_ord)`; `extract_bits` asserts `num_bits ≤ 56` (→ `none`) -/
def get (BL : Nat) (store : List Meta × List Nat) (ord : Nat) : Option TermInfo :=
  match store.1[ord / BL]? with
  | none => none
  | some m =>
    if ord % BL = 0 then some m.ref
    else if 56 < m.postBits ∨ 56 < m.posBits ∨ 56 < m.dfBits then none
    else some (deserializeTermInfo m (store.2.drop m.offset) (ord % BL - 1))

/-! ### file bytes (for cross-decoding) -/

def u64le (n : Nat) : List Nat := natToLe 8 n
def u32le' (n : Nat) : List Nat := natToLe 4 n

/-- `TermInfo::serialize`: doc_freq u32, postings start u64, postings len u32, positions start u64,
positions len u32 -/
def termInfoBytes (t : TermInfo) : List Nat :=
  u32le' t.docFreq ++ u64le t.postStart ++ u32le' (t.postEnd - t.postStart) ++
  u64le t.posStart ++ u32le' (t.posEnd - t.posStart)

def metaBytes (m : Meta) : List Nat :=
  u64le m.offset ++ termInfoBytes m.ref ++ [m.dfBits, m.postBits, m.posBits]

/-- `TermInfoStoreWriter::serialize`: len(metas) u64, num_terms u64, metas, bit-packed buffer -/
def storeBytes (BL : Nat) (tis : List TermInfo) : List Nat :=
  let s := write BL tis
  let mb := s.1.flatMap metaBytes
  u64le mb.length ++ u64le tis.length ++ mb ++ s.2

def readTermInfo (bs : List Nat) : TermInfo :=
  let df := leNat (bs.take 4)
  let ps := leNat ((bs.drop 4).take 8)
  let pl := leNat ((bs.drop 12).take 4)
  let qs := leNat ((bs.drop 16).take 8)
  let ql := leNat ((bs.drop 24).take 4)
  { docFreq := df, postStart := ps, postEnd := ps + pl, posStart := qs, posEnd := qs + ql }

/-- `TermInfoBlockMeta::SIZE_IN_BYTES` = 8 + 28 + 3 -/
def metaSize : Nat := 39

def readMeta (bs : List Nat) : Meta :=
  { offset := leNat (bs.take 8), ref := readTermInfo (bs.drop 8),
    dfBits := bs.getD 36 0, postBits := bs.getD 37 0, posBits := bs.getD 38 0 }

/-- `TermInfoStore::open` + `get` on raw bytes: (num_terms, term info) -/
def getFromBytes (BL : Nat) (bytes : List Nat) (ord : Nat) : Option TermInfo :=
  if bytes.length < 16 then none else
  let len := leNat (bytes.take 8)
  let numTerms := leNat ((bytes.drop 8).take 8)
  let main := bytes.drop 16
  if main.length < len ∨ numTerms ≤ ord then none else
  let metaB := main.take len
  let buf := main.drop len
  let blk := ord / BL
  if metaB.length < (blk + 1) * metaSize then none else
  let m := readMeta (metaB.drop (blk * metaSize))
  if ord % BL = 0 then some m.ref
  else if 56 < m.postBits ∨ 56 < m.posBits ∨ 56 < m.dfBits then none
  else some (deserializeTermInfo m (buf.drop m.offset) (ord % BL - 1))

abbrev BLOCK_LEN : Nat := Gen.Postings.TERMINFO_BLOCK_LEN

end TantivyModel.TermInfoStore
