/-
CRC-32/IEEE (reflected, polynomial 0xEDB88320, init and final xor 0xFFFFFFFF), the checksum
`crc32fast::Hasher` computes and `src/directory/footer.rs` stores in every file footer.

The model is the bit-serial definition: one byte is absorbed by xor-ing it into the low byte of
the state and applying eight reflected shift/xor steps. (`crc32fast` computes the same function
with tables / carry-less multiplication; that equality is validated bit-for-bit by the
correspondence run, not proved.)
-/
namespace TantivyModel.Crc32

def poly : BitVec 32 := 0xEDB88320#32

/-- one reflected LFSR step -/
def bitStep (c : BitVec 32) : BitVec 32 :=
  if c[0] then (c >>> 1) ^^^ poly else c >>> 1

def bitStep8 (c : BitVec 32) : BitVec 32 :=
  bitStep (bitStep (bitStep (bitStep (bitStep (bitStep (bitStep (bitStep c)))))))

/-- absorb one byte -/
def step (c : BitVec 32) (b : UInt8) : BitVec 32 :=
  bitStep8 (c ^^^ b.toBitVec.setWidth 32)

def init : BitVec 32 := 0xFFFFFFFF#32

/-- running state after absorbing `bs` (this is `Hasher::update` applied to `Hasher::new()`) -/
def update (s : BitVec 32) (bs : List UInt8) : BitVec 32 := bs.foldl step s

def finalize (s : BitVec 32) : BitVec 32 := s ^^^ 0xFFFFFFFF#32

def crc32 (bs : List UInt8) : BitVec 32 := finalize (update init bs)

end TantivyModel.Crc32
