import TantivyModel.Model.WriterSpec
import TantivyModel.Gen.WriterGuards
/-
Implementation-level model of tantivy's index writer (property C02; shared vocabulary for
C04/C10/C17/C18): the *mechanism* of `src/indexer/*`, as a state machine whose internal
nondeterminism (which worker receives a batch, when a worker cuts its segment, when the segment
updater registers a finished segment, when `consider_merge_options` draws a stamp, which merges
start and end when) is an explicit event chosen by an adversary.

  -- mirrors: src/indexer/stamper.rs::stamp / stamps / revert
  -- mirrors: src/indexer/delete_queue.rs::{push, cursor, skip_to, get, advance}
  -- mirrors: src/indexer/doc_opstamp_mapping.rs::is_deleted
  -- mirrors: src/indexer/index_writer.rs::{compute_deleted_bitset, advance_deletes, apply_deletes,
  --          index_documents, add_indexing_worker, add_document, delete_query, run,
  --          get_batch_opstamps, delete_all_documents, prepare_commit, rollback, new}
  -- mirrors: src/indexer/segment_manager.rs::{commit, add_segment, start_merge, end_merge,
  --          remove_all_segments, remove_empty_segments}
  -- mirrors: src/indexer/segment_updater.rs::{schedule_add_segment, purge_deletes,
  --          schedule_commit, save_metas, merge, end_merge, consider_merge_options}
  -- mirrors: src/indexer/prepared_commit.rs::{commit, abort}

A document is a value of `α`; a delete query is its meaning `α → Bool`.
The delete queue is an append-only list (`log`); a cursor is an index into it.  `flushed` is the
length of the prefix that has been moved into read-only blocks: `DeleteQueue::cursor()` returns
that position ("some or none of the past operations"), and any `get()` at or beyond it flushes.
-/
namespace TantivyModel.Writer
open TantivyModel.WriterSpec

/-- `DeleteOperation` -/
structure DelOp (α : Type) where
  op : Nat
  q : α → Bool

/-- a document inside a segment: content, the opstamp of its add operation, alive bit -/
structure SDoc (α : Type) where
  doc : α
  op : Nat
  alive : Bool

/-- `SegmentEntry` (+ the documents of the segment): `cursor` = delete cursor -/
structure Seg (α : Type) where
  id : Nat
  docs : List (SDoc α)
  cursor : Nat
  /-- `SegmentMeta::delete_opstamp()`: the target of the last `advance_deletes` that found new
  deletes (`None` for a segment that never had a delete file) -/
  delOp : Option Nat := none
  /-- `SegmentMeta::num_deleted_docs()`: the deletes recorded in the delete file -/
  metaDead : Nat := 0

/-- one indexing worker: its own delete cursor and the segment it is building, if any -/
structure Worker (α : Type) where
  cur : Nat
  seg : Option (Seg α)

/-- a merge in flight: the ids it replaces and the merged segment it will install
(`none`: every source document was deleted) -/
structure Merge (α : Type) where
  ids : List Nat
  result : Option (Seg α)

/-- `meta.json` -/
structure Meta (α : Type) where
  opstamp : Nat
  payload : Option Nat
  segs : List (Seg α)

/-- what a producer thread has stamped but not yet published: `add_document` / `run` between
`stamper.stamp()` and `operation_sender.send` (the deletes of a `run` batch are already queued),
`delete_query` between `stamper.stamp()` and `delete_queue.push` -/
inductive Pub (α : Type) where
  | adds (b : List (α × Nat))
  | del (d : DelOp α)

structure WState (α : Type) where
  stamper : Nat
  /-- `IndexWriter::committed_opstamp`: assigned in `IndexWriter::new` only -/
  committedOpstamp : Nat
  log : List (DelOp α)
  flushed : Nat
  /-- the `AddBatch` channel -/
  channel : List (List (α × Nat))
  workers : List (Worker α)
  /-- finished segments whose `schedule_add_segment` task has not run yet -/
  inflight : List (Seg α)
  uncommitted : List (Seg α)
  committed : List (Seg α)
  merges : List (Merge α)
  metas : Meta α
  nextId : Nat
  /-- operations of producer threads between their two sub-steps -/
  pendingPubs : List (Pub α) := []

/-- events: the API calls and the internal steps -/
inductive Event (α : Type) where
  | add (d : α)
  | del (q : α → Bool)
  | batch (items : List (Item α))
  | deleteAll
  | commit (payload : Option Nat)
  | rollback
  | prepare
  /-- worker `w` takes the next batch from the channel -/
  | recv (w : Nat)
  /-- worker `w` closes its segment (memory budget reached / channel closed) -/
  | cut (w : Nat)
  /-- the segment updater runs the oldest `schedule_add_segment` task -/
  | register
  /-- `consider_merge_options` draws a stamp -/
  | tick
  /-- some cursor (e.g. of a merge thread) calls `get()` at the end of the flushed part -/
  | flush
  /-- a merge of the segments `ids` starts (`policy`: proposed by the merge policy, otherwise
  `IndexWriter::merge`) -/
  | mergeStart (ids : List Nat) (policy : Bool)
  /-- the `k`-th merge in flight ends -/
  | mergeEnd (k : Nat)
  /-- first sub-step of `add_document` / `delete_query` / `run` on a producer thread: the stamps
  are drawn (and the deletes of a batch queued); the pause points of `tantivy::verif` sit here.
  (These calls take `&self`; `commit`, `prepare_commit` and `rollback` take `&mut self`, so in
  safe Rust they cannot fall between the two sub-steps of a call - the state machine allows it,
  the statements about sub-steps do not rely on it.) -/
  | stamp (op : Op α)
  /-- second sub-step: the `k`-th stamped operation is published (adds sent to the channel, the
  delete pushed to the queue) -/
  | publish (k : Nat)

/-- the API call an event stands for -/
def Event.toOp {α : Type} : Event α → Option (Op α)
  | .add d => some (.add d)
  | .del q => some (.del q)
  | .batch items => some (.batch items)
  | .deleteAll => some .deleteAll
  | .commit p => some (.commit p)
  | .rollback => some .rollback
  | .prepare => some .prepare
  | .stamp op => some op
  | _ => none

/-- the history (API projection) of an event sequence -/
def history {α : Type} (es : List (Event α)) : List (Op α) := es.filterMap Event.toOp

section
variable {α : Type}

/-- a comparison of two opstamps as the extractor found it in the source
(`Gen/WriterGuards.lean`: 0 `<`, 1 `<=`, 2 `>`, 3 `>=`) -/
def cmpCode (code a b : Nat) : Bool :=
  match code with
  | 0 => decide (a < b)
  | 1 => decide (a ≤ b)
  | 2 => decide (b < a)
  | 3 => decide (b ≤ a)
  | _ => false

/-- `doc_opstamp < delete_opstamp` of `DocToOpstampMapping::is_deleted`, as extracted -/
def isDeletedGuard (docOp delOp : Nat) : Bool := cmpCode Gen.IS_DELETED_CMP docOp delOp
/-- `delete_op.opstamp > target_opstamp` (the `break` of `compute_deleted_bitset`), as extracted -/
def breakGuard (delOp target : Nat) : Bool := cmpCode Gen.COMPUTE_DELETED_BREAK_CMP delOp target
/-- `operation.opstamp < target_opstamp` of `DeleteCursor::is_behind_opstamp`, as extracted -/
def behindGuard (delOp target : Nat) : Bool := cmpCode Gen.SKIP_TO_CMP delOp target
/-- `delete_operation.opstamp < committed_opstamp` of `SegmentUpdater::end_merge`, as extracted -/
def catchUpGuard (delOp committedOpstamp : Nat) : Bool := cmpCode Gen.END_MERGE_CATCHUP_CMP delOp committedOpstamp

/-- `DocToOpstampMapping::is_deleted` (`withMap = false` is `DocToOpstampMapping::None`) -/
def isDeleted (withMap : Bool) (docOp delOp : Nat) : Bool :=
  if withMap then isDeletedGuard docOp delOp else true

/-- the body of the loop of `compute_deleted_bitset` for one delete operation -/
def kill (withMap : Bool) (del : DelOp α) (docs : List (SDoc α)) : List (SDoc α) :=
  docs.map (fun d => if del.q d.doc && isDeleted withMap d.op del.op then { d with alive := false } else d)

/-- `compute_deleted_bitset` on the part of the queue at and after the cursor -/
def consume (withMap : Bool) (target : Nat) :
    List (DelOp α) → List (SDoc α) → Nat → List (SDoc α) × Nat
  | [], docs, c => (docs, c)
  | del :: rest, docs, c =>
    if breakGuard del.op target then (docs, c) else consume withMap target rest (kill withMap del docs) (c + 1)

/-- `DeleteCursor::skip_to` on the part of the queue at and after the cursor -/
def skipTo (target : Nat) : List (DelOp α) → Nat → Nat
  | [], c => c
  | del :: rest, c => if behindGuard del.op target then skipTo target rest (c + 1) else c

def maxOp (docs : List (SDoc α)) : Nat := docs.foldl (fun m d => max m d.op) 0

/-- a `get()` of a cursor that ended at position `c` flushes the queue if `c` is at the end of
the flushed part -/
def flushAt (s : WState α) (c : Nat) : Nat := if s.flushed ≤ c then s.log.length else s.flushed

/-- the core of `advance_deletes(segment, entry, target)`: `compute_deleted_bitset` from the
entry's cursor, without per-document opstamps -/
def advance (log : List (DelOp α)) (target : Nat) (sg : Seg α) : Seg α :=
  let r := consume false target (log.drop sg.cursor) sg.docs sg.cursor
  { sg with docs := r.1, cursor := r.2 }

def deadCount (docs : List (SDoc α)) : Nat := (docs.filter (fun d => !d.alive)).length

/-- `advance_deletes(segment, entry, target)` with its bookkeeping: "We are already up-to-date
here" when the delete file of the segment was written for this very target (then NOTHING happens:
the cursor stays); otherwise the core, and if there are more deleted documents than the delete
file records, a new delete file for `target` -/
def advanceDeletes (log : List (DelOp α)) (target : Nat) (sg : Seg α) : Seg α :=
  if sg.delOp = some target then sg else
  let a := advance log target sg
  if deadCount a.docs > sg.metaDead then { a with delOp := some target, metaDead := deadCount a.docs } else a

/-- `apply_deletes` at the end of `index_documents` -/
def finalize (log : List (DelOp α)) (sg : Seg α) : Seg α :=
  let r := consume true (maxOp sg.docs) (log.drop sg.cursor) sg.docs sg.cursor
  { sg with docs := r.1, cursor := r.2 }

def aliveDocs (sg : Seg α) : List α := (sg.docs.filter (·.alive)).map (·.doc)

/-- what a freshly loaded searcher shows -/
def published (s : WState α) : List α := s.metas.segs.flatMap aliveDocs

def hasAlive (sg : Seg α) : Bool := sg.docs.any (·.alive)

/-- a segment as `SegmentUpdater::create` finds it in `meta.json`: only the alive documents
matter (a dead document never comes back: `advance_deletes` intersects with the stored bitset),
fresh cursor on the new, empty queue -/
def reload (sg : Seg α) : Seg α :=
  { sg with docs := sg.docs.filter (·.alive), cursor := 0, metaDead := 0 }

def quiescent (s : WState α) : Bool :=
  s.channel.isEmpty && s.workers.all (fun w => w.seg.isNone) && s.inflight.isEmpty

def idsIn (ids : List Nat) (reg : List (Seg α)) : Bool :=
  ids.all (fun i => reg.any (fun sg => sg.id == i))

def lookup (reg : List (Seg α)) (i : Nat) : Option (Seg α) := reg.find? (fun sg => sg.id == i)

/-- `segment_updater.rs::merge`: advance every source to `target`, concatenate the alive
documents, take the first source's cursor -/
def mergeSegs (log : List (DelOp α)) (target : Nat) (newId : Nat) (srcs : List (Seg α)) :
    Option (Seg α) :=
  let adv := srcs.map (advance log target)
  let docs := (adv.flatMap (fun sg => sg.docs.filter (·.alive)))
  match adv with
  | [] => none
  | first :: _ => if docs.isEmpty then none else some { id := newId, docs := docs, cursor := first.cursor }

/-- `SegmentUpdater::end_merge`: "deletes and commits could have happened as we were merging":
if the next delete of the merged segment's cursor is older than the last commit, advance it to
that commit -/
def catchUp (log : List (DelOp α)) (committedOpstamp : Nat) (sg : Seg α) : Seg α :=
  match log[sg.cursor]? with
  | some del => if catchUpGuard del.op committedOpstamp then advance log committedOpstamp sg else sg
  | none => sg

/-- `SegmentManager::end_merge` on one register -/
def replaceIn (reg : List (Seg α)) (ids : List Nat) (res : Option (Seg α)) : List (Seg α) :=
  reg.filter (fun sg => !ids.contains sg.id) ++ res.toList

/-- one item of `IndexWriter::run`: `(next stamp, delete queue, adds of the batch)` -/
def batchItem (st : Nat × List (DelOp α) × List (α × Nat)) : Item α → Nat × List (DelOp α) × List (α × Nat)
  | .add d => (st.1 + 1, st.2.1, st.2.2 ++ [(d, st.1)])
  | .del q => (st.1 + 1, st.2.1 ++ [{ op := st.1, q := q }], st.2.2)

def mkDocs (b : List (α × Nat)) : List (SDoc α) := b.map (fun p => { doc := p.1, op := p.2, alive := true })

/-- `SegmentUpdater::save_metas`: `remove_empty_segments`, then write `meta.json` -/
def saveMetas (s : WState α) (opstamp : Nat) (payload : Option Nat) : WState α :=
  let committed := s.committed.filter hasAlive
  { s with committed := committed, metas := { opstamp := opstamp, payload := payload, segs := committed } }

/-- the initial state: `Index::create` + `IndexWriter::new` with `n` indexing threads -/
def WState.init (n : Nat) : WState α :=
  { stamper := 0, committedOpstamp := 0, log := [], flushed := 0, channel := [],
    workers := List.replicate n { cur := 0, seg := none }, inflight := [], uncommitted := [],
    committed := [], merges := [], metas := { opstamp := 0, payload := none, segs := [] }, nextId := 0 }

/-- one step; `none` = the event is not enabled in this state.  The second component is the
opstamp the API call returns (`0` for internal events). -/
def step (s : WState α) : Event α → Option (WState α × Nat)
  | .add d =>
    -- add_document: stamp, send a batch of one
    some ({ s with stamper := s.stamper + 1, channel := s.channel ++ [[(d, s.stamper)]] }, s.stamper)
  | .del q =>
    -- delete_query: stamp, push
    some ({ s with stamper := s.stamper + 1, log := s.log ++ [{ op := s.stamper, q := q }] }, s.stamper)
  | .batch items =>
    -- run: `count + 1` contiguous stamps, deletes pushed in order, adds travel as one batch
    let r := items.foldl batchItem (s.stamper, s.log, [])
    some ({ s with stamper := r.1 + 1, log := r.2.1,
                   channel := if r.2.2.isEmpty then s.channel else s.channel ++ [r.2.2] }, r.1)
  | .deleteAll =>
    -- delete_all_documents: remove_all_segments; stamper.revert(committed_opstamp)
    some ({ s with uncommitted := [], committed := [], stamper := s.committedOpstamp }, s.committedOpstamp)
  | .prepare =>
    -- prepare_commit (joins the workers: only enabled when they are done), result dropped
    if quiescent s then
      some ({ s with stamper := s.stamper + 1,
                     workers := s.workers.map (fun _ => { cur := s.flushed, seg := none }) }, s.stamper)
    else none
  | .commit p =>
    -- prepare_commit; PreparedCommit::commit -> schedule_commit: purge_deletes, commit, save_metas
    if quiescent s then
      let o := s.stamper
      let entries := (s.uncommitted ++ s.committed).map (advance s.log o)
      let s1 : WState α :=
        { s with stamper := o + 1,
                 workers := s.workers.map (fun _ => { cur := s.flushed, seg := none }),
                 flushed := if (s.uncommitted ++ s.committed).isEmpty then s.flushed else s.log.length,
                 uncommitted := [], committed := entries }
      some (saveMetas s1 o p, o)
    else none
  | .rollback =>
    -- rollback / abort / drop + reopen: a new writer over meta.json
    some ({ stamper := s.metas.opstamp, committedOpstamp := s.metas.opstamp, log := [], flushed := 0,
            channel := [], workers := s.workers.map (fun _ => { cur := 0, seg := none }),
            inflight := [], uncommitted := [], committed := s.metas.segs.map reload, merges := [],
            metas := s.metas, nextId := s.nextId }, s.metas.opstamp)
  | .recv w =>
    match s.channel, s.workers[w]? with
    | b :: rest, some wk =>
      match wk.seg with
      | none =>
        match b with
        | [] => none
        | first :: _ =>
          -- delete_cursor.skip_to(batch[0].opstamp); index_documents(.., delete_cursor.clone())
          let c := skipTo first.2 (s.log.drop wk.cur) wk.cur
          some ({ s with channel := rest, flushed := flushAt s c, nextId := s.nextId + 1,
                         workers := s.workers.set w
                           { cur := c, seg := some { id := s.nextId, docs := mkDocs b, cursor := c } } }, 0)
      | some sg =>
        some ({ s with channel := rest,
                       workers := s.workers.set w { wk with seg := some { sg with docs := sg.docs ++ mkDocs b } } }, 0)
    | _, _ => none
  | .cut w =>
    match s.workers[w]? with
    | some wk =>
      match wk.seg with
      | some sg =>
        let f := finalize s.log sg
        some ({ s with workers := s.workers.set w { wk with seg := none }, flushed := flushAt s f.cursor,
                       inflight := s.inflight ++ [f] }, 0)
      | none => none
    | none => none
  | .register =>
    match s.inflight with
    | sg :: rest => some ({ s with inflight := rest, uncommitted := s.uncommitted ++ [sg] }, 0)
    | [] => none
  | .tick => some ({ s with stamper := s.stamper + 1 }, 0)
  | .flush => some ({ s with flushed := s.log.length }, 0)
  | .mergeStart ids policy =>
    -- `segment_ids` is required to be non-empty; a segment is listed once (the policy never
    -- proposes duplicates; `IndexWriter::merge(&[a, a])` is outside the model)
    if ids.isEmpty || !decide ids.Nodup then none else
    if idsIn ids s.uncommitted && policy then
      -- consider_merge_options: target = a fresh stamp
      let srcs := ids.filterMap (lookup s.uncommitted)
      some ({ s with stamper := s.stamper + 1, nextId := s.nextId + 1,
                     merges := s.merges ++ [{ ids := ids, result := mergeSegs s.log s.stamper s.nextId srcs }] }, 0)
    else if idsIn ids s.committed then
      -- target = the opstamp of the last commit (both for the policy and for IndexWriter::merge)
      let srcs := ids.filterMap (lookup s.committed)
      some ({ s with nextId := s.nextId + 1,
                     merges := s.merges ++ [{ ids := ids, result := mergeSegs s.log s.metas.opstamp s.nextId srcs }] }, 0)
    else none
  | .mergeEnd k =>
    match s.merges[k]? with
    | none => none
    | some m =>
      let s0 := { s with merges := s.merges.eraseIdx k }
      -- catch up with the deletes committed while the merge was running
      let res := m.result.map (catchUp s.log s.metas.opstamp)
      if idsIn m.ids s.uncommitted then
        some ({ s0 with uncommitted := replaceIn s.uncommitted m.ids res }, 0)
      else if idsIn m.ids s.committed then
        let s1 := { s0 with committed := replaceIn s.committed m.ids res }
        some (saveMetas s1 s.metas.opstamp s.metas.payload, 0)
      else some (s0, 0)
  | .stamp (.add d) =>
    some ({ s with stamper := s.stamper + 1, pendingPubs := s.pendingPubs ++ [.adds [(d, s.stamper)]] }, s.stamper)
  | .stamp (.del q) =>
    some ({ s with stamper := s.stamper + 1, pendingPubs := s.pendingPubs ++ [.del { op := s.stamper, q := q }] },
          s.stamper)
  | .stamp (.batch items) =>
    let r := items.foldl batchItem (s.stamper, s.log, [])
    some ({ s with stamper := r.1 + 1, log := r.2.1, pendingPubs := s.pendingPubs ++ [.adds r.2.2] }, r.1)
  | .stamp _ => none
  | .publish k =>
    match s.pendingPubs[k]? with
    | none => none
    | some (.adds b) =>
      some ({ s with pendingPubs := s.pendingPubs.eraseIdx k,
                     channel := if b.isEmpty then s.channel else s.channel ++ [b] }, 0)
    | some (.del d) =>
      some ({ s with pendingPubs := s.pendingPubs.eraseIdx k, log := s.log ++ [d] }, 0)

/-- run an event sequence; `none` if some event was not enabled -/
def run (s : WState α) : List (Event α) → Option (WState α)
  | [] => some s
  | e :: es => match step s e with
    | some (s', _) => run s' es
    | none => none

/-- `IndexWriter::commit_opstamp()` -/
def commitOpstamp (s : WState α) : Nat := s.committedOpstamp

end
end TantivyModel.Writer
