import TantivyModel.Model.Store.CompactDoc
/-
A pre-tokenized text at the top level of a document.

`add_pre_tokenized_text` writes `serde_json::to_string(&pre_tokenized_string)` into `node_data`
(`write_into::<PreTokenizedString>`, a `String`); `serialize_doc` reads the value back
(`read_from::<PreTokenizedString>`, i.e. `serde_json::from_str`) and stores only its text:
`ReferenceValueLeaf::PreTokStr(p) => Str(&p.text)`.

mirrors: src/schema/document/default_document.rs::add_pre_tokenized_text,
         src/tokenizer/tokenized_string.rs::serialize, src/tokenizer/tokenized_string.rs::deserialize,
         src/schema/document/se.rs::serialize_doc (the `PreTokStr` arm)

serde_json (text of the struct `{text, tokens}`) is a parameter with the round-trip contract.
-/
namespace TantivyModel.Store
open TantivyModel

/-- `PreTokenizedString`: the text and its tokens (offsets, positions, texts — opaque here) -/
structure PreTok where
  text : Bytes
  tokens : Bytes
deriving DecidableEq, Repr

/-- `serde_json::to_string` / `serde_json::from_str` for `PreTokenizedString` -/
structure PreTokJson where
  toJson : PreTok → Bytes
  fromJson : Bytes → Option PreTok

/-- `add_pre_tokenized_text(field, p)`: the value that goes into the `CompactDoc` -/
def preTokValue (J : PreTokJson) (p : PreTok) : StoredValue := .preTok (J.toJson p)

/-- what `serialize_doc` stores for a top-level value it reads from the document (`none`: the JSON
in `node_data` does not parse, where the code unwraps) -/
def topLevelStored (J : PreTokJson) : StoredValue → Option StoredValue
  | .preTok j => (J.fromJson j).map fun p => .str p.text
  | v => some v

end TantivyModel.Store
