import TantivyModel.Gen.Store
/-
How a number of a JSON document (added through `TantivyDocument::parse_json`,
`from_json_object`, `FieldType::value_from_json` for JSON fields) becomes a typed value.

mirrors: src/schema/document/owned_value.rs::from (impl From<serde_json::Value> for OwnedValue)

`serde_json::Number::as_i64` succeeds for integers in [i64::MIN, i64::MAX], `as_u64` for
integers in [0, u64::MAX], `as_f64` for every number. The conversion tries them in the order
found in the source (`Gen.JSON_NUMBER_DISPATCH`) and keeps the first success. Integer literals
outside [i64::MIN, u64::MAX] are floats already for serde_json.
-/
namespace TantivyModel.Store
open TantivyModel

inductive JsonNumber where
  | int64 (v : Int)     -- OwnedValue::I64
  | uint64 (v : Int)    -- OwnedValue::U64
  | float               -- OwnedValue::F64 (nearest double; the value is outside this model)
deriving DecidableEq, Repr

/-- does `as_i64` (0) / `as_u64` (1) / `as_f64` (2) succeed on the integer `n` -/
def numAccepts (code : Nat) (n : Int) : Bool :=
  match code with
  | 0 => decide (-9223372036854775808 ≤ n ∧ n ≤ 9223372036854775807)
  | 1 => decide (0 ≤ n ∧ n ≤ 18446744073709551615)
  | 2 => true
  | _ => false

def numBuild (code : Nat) (n : Int) : JsonNumber :=
  match code with
  | 0 => .int64 n
  | 1 => .uint64 n
  | _ => .float

/-- first accessor of `order` that accepts the integer (`none`: the `panic!` branch) -/
def jsonNumberWith (order : List Nat) (n : Int) : Option JsonNumber :=
  (order.find? fun c => numAccepts c n).map fun c => numBuild c n

/-- the classification the code performs on an integer JSON number -/
def jsonNumber (n : Int) : Option JsonNumber := jsonNumberWith Gen.JSON_NUMBER_DISPATCH n

end TantivyModel.Store
