import TantivyModel.Model.Store.Codec
/-
Layered skip index of the doc store.

mirrors: src/store/index/mod.rs::follows,
         src/store/index/block.rs::serialize, src/store/index/block.rs::deserialize,
         src/store/index/block.rs::doc_interval,
         src/store/index/skip_index_builder.rs::flush_block, src/store/index/skip_index_builder.rs::insert,
         src/store/index/skip_index_builder.rs::serialize_into,
         src/store/index/skip_index.rs::next, src/store/index/skip_index.rs::seek_start_at_offset,
         src/store/index/skip_index.rs::open, src/store/index/skip_index.rs::seek,
         src/store/index/skip_index.rs::checkpoints

Doc ids and byte offsets are unbounded naturals here (the code uses u32 doc ids and reads block
sizes with `read_u32_vint`, which panics beyond 5 bytes: blocks ≥ 32 GiB are outside the model).
`P` is CHECKPOINT_PERIOD; the builder is only meaningful for `2 ≤ P` (with `P ≤ 1` the real
`insert` loop never terminates).
-/
namespace TantivyModel.Store
open TantivyModel

/-- doc range ↦ byte range of one block (all intervals semi-open) -/
structure Checkpoint where
  docStart : Nat
  docEnd : Nat
  byteStart : Nat
  byteEnd : Nat
deriving DecidableEq, Repr

/-- `Checkpoint::follows` -/
def Checkpoint.follows (c prev : Checkpoint) : Prop :=
  c.docStart = prev.docEnd ∧ c.byteStart = prev.byteEnd

instance (c p : Checkpoint) : Decidable (c.follows p) := by unfold Checkpoint.follows; infer_instance

/-! ### one block of checkpoints -/

def encDeltas : List Checkpoint → Bytes
  | [] => []
  | c :: cs => vintEnc (c.docEnd - c.docStart) ++ (vintEnc (c.byteEnd - c.byteStart) ++ encDeltas cs)

/-- `CheckpointBlock::serialize` -/
def encBlock (cs : List Checkpoint) : Bytes :=
  vintEnc cs.length ++
    match cs with
    | [] => []
    | c :: _ => vintEnc c.docStart ++ (vintEnc c.byteStart ++ encDeltas cs)

def decDeltas : Nat → Nat → Nat → Bytes → Option (List Checkpoint × Bytes)
  | 0, _, _, bs => some ([], bs)
  | n + 1, doc, off, bs =>
    (vintDec bs).bind fun (nd, r) => (vintDec r).bind fun (nb, r') =>
      (decDeltas n (doc + nd) (off + nb) r').map fun (cs, r'') =>
        ({ docStart := doc, docEnd := doc + nd, byteStart := off, byteEnd := off + nb } :: cs, r'')

/-- `CheckpointBlock::deserialize` (malformed VInts, where the code panics, are `none`) -/
def decBlock (bs : Bytes) : Option (List Checkpoint × Bytes) :=
  if bs.isEmpty then none else
  (vintDec bs).bind fun (len, r) =>
    if len = 0 then some ([], r) else
    (vintDec r).bind fun (doc, r1) => (vintDec r1).bind fun (off, r2) => decDeltas len doc off r2

/-! ### a layer: blocks one after the other -/

/-- `LayerCursor`: every checkpoint from the start of `bs` to the end of the layer. The cursor
stops at a block that does not decode (`.ok()?`); an empty block (never written) would make the
real cursor index out of bounds. -/
def layerCursor : Nat → Bytes → List Checkpoint
  | 0, _ => []
  | fuel + 1, bs =>
    if bs.isEmpty then [] else
    match decBlock bs with
    | none => []
    | some (cs, r) => if cs.isEmpty then [] else cs ++ layerCursor fuel r

/-- `Layer::cursor_at_offset` (an offset beyond the layer panics in the code; here: nothing) -/
def layerFrom (data : Bytes) (offset : Nat) : List Checkpoint :=
  layerCursor (data.length + 1) (data.drop offset)

/-- `Layer::seek_start_at_offset` -/
def seekLayer (data : Bytes) (target offset : Nat) : Option Checkpoint :=
  (layerFrom data offset).find? fun c => decide (c.docEnd > target)

/-! ### reader -/

/-- layers as `SkipIndex::open` holds them: top layer first -/
abbrev SkipIndex := List Bytes

/-- the checkpoint `seek` starts from -/
def seekInit (layers : SkipIndex) : Checkpoint :=
  { docStart := 0, docEnd := 1, byteStart := 0, byteEnd := (layers.head?.map List.length).getD 0 }

def seekLoop (target : Nat) : List Bytes → Checkpoint → Option Checkpoint
  | [], cur => some cur
  | layer :: rest, cur => (seekLayer layer target cur.byteStart).bind (seekLoop target rest)

/-- `SkipIndex::seek` -/
def seek (layers : SkipIndex) (target : Nat) : Option Checkpoint :=
  seekLoop target layers (seekInit layers)

/-- `SkipIndex::checkpoints`: the last (bottom) layer from its start -/
def checkpointsOf (layers : SkipIndex) : List Checkpoint :=
  match layers.getLast? with
  | none => []
  | some l => layerFrom l 0

def decVInts : Nat → Bytes → Option (List Nat × Bytes)
  | 0, bs => some ([], bs)
  | n + 1, bs => (vintDec bs).bind fun (v, r) => (decVInts n r).map fun (vs, r') => (v :: vs, r')

def sliceLayers (data : Bytes) : Nat → List Nat → List Bytes
  | _, [] => []
  | start, e :: es => (data.drop start).take (e - start) :: sliceLayers data e es

/-- `SkipIndex::open`: VInt count, cumulative end offsets, then the layers' bytes -/
def openSkipIndex (bs : Bytes) : Option SkipIndex :=
  (vintDec bs).bind fun (n, r) => (decVInts n r).map fun (offs, data) => sliceLayers data 0 offs

/-! ### builder -/

structure LayerBuilder where
  buffer : Bytes
  block : List Checkpoint
deriving Repr

def LayerBuilder.empty : LayerBuilder := { buffer := [], block := [] }

/-- `LayerBuilder::flush_block` -/
def LayerBuilder.flush (l : LayerBuilder) : LayerBuilder × Option Checkpoint :=
  match l.block with
  | [] => (l, none)
  | c :: cs =>
    let bytes := encBlock (c :: cs)
    ({ buffer := l.buffer ++ bytes, block := [] },
     some { docStart := c.docStart, docEnd := ((c :: cs).getLast?.getD c).docEnd,
            byteStart := l.buffer.length, byteEnd := l.buffer.length + bytes.length })

def LayerBuilder.push (l : LayerBuilder) (c : Checkpoint) : LayerBuilder :=
  { l with block := l.block ++ [c] }

/-- `LayerBuilder::insert` -/
def LayerBuilder.insert (P : Nat) (l : LayerBuilder) (c : Checkpoint) : LayerBuilder × Option Checkpoint :=
  let l' := l.push c
  if l'.block.length ≥ P then l'.flush else (l', none)

/-- `SkipIndexBuilder::insert` (layers bottom first). A pointer emitted by a freshly created
layer (only possible when `P ≤ 1`) is dropped; the real loop would not terminate. -/
def insertLayers (P : Nat) : List LayerBuilder → Checkpoint → List LayerBuilder
  | [], c => [(LayerBuilder.empty.insert P c).1]
  | l :: ls, c =>
    match l.insert P c with
    | (l', none) => l' :: ls
    | (l', some p) => l' :: insertLayers P ls p

def buildLayers (P : Nat) (cps : List Checkpoint) : List LayerBuilder :=
  cps.foldl (insertLayers P) []

/-- first loop of `serialize_into`: push the pointer of the layer below, flush; bottom first -/
def finishLayers : List LayerBuilder → Option Checkpoint → List Bytes
  | [], _ => []
  | l :: ls, p =>
    -- `skip_layer.push(checkpoint)` for the pointer of the layer below, if there is one
    let l1 : LayerBuilder := { buffer := l.buffer, block := l.block ++ p.toList }
    let r := l1.flush
    r.1.buffer :: finishLayers ls r.2

def cumulative : Nat → List Bytes → List Nat
  | _, [] => []
  | acc, b :: bs => (acc + b.length) :: cumulative (acc + b.length) bs

def encVInts : List Nat → Bytes
  | [] => []
  | n :: ns => vintEnc n ++ encVInts ns

/-- the layers as the reader will hold them (top first) -/
def finishedLayers (P : Nat) (cps : List Checkpoint) : SkipIndex :=
  (finishLayers (buildLayers P cps) none).reverse

def encSkipIndex (layers : SkipIndex) : Bytes :=
  vintEnc layers.length ++ (encVInts (cumulative 0 layers) ++ layers.flatten)

/-- `SkipIndexBuilder::serialize_into` after inserting `cps` -/
def serializeSkipIndex (P : Nat) (cps : List Checkpoint) : Bytes :=
  encSkipIndex (finishedLayers P cps)

end TantivyModel.Store
