import TantivyModel.Model.Store.Codec
/-
Strings of a stored document are read with `read_to_string`, which fails on bytes that are not
UTF-8. `Codec.lean` reads strings as plain bytes; this module adds the check.

mirrors: common/src/serialize.rs::deserialize (String: `reader.take(len).read_to_string(..)`),
         src/schema/document/de.rs::deserialize_string, src/schema/document/de.rs::deserialize_facet

`utf8Valid` is `core::str::from_utf8(..).is_ok()` (RFC 3629: no overlong forms, no surrogates,
nothing above U+10FFFF); the harness compares it with the standard library on every run.
-/
namespace TantivyModel.Store
open TantivyModel

def isCont (b : UInt8) : Bool := 0x80 ≤ b.toNat && b.toNat ≤ 0xBF

/-- `fuel` ≥ number of bytes -/
def utf8ValidAux : Nat → Bytes → Bool
  | _, [] => true
  | 0, _ :: _ => false
  | fuel + 1, b0 :: rest =>
    let n := b0.toNat
    if n < 0x80 then utf8ValidAux fuel rest
    else if 0xC2 ≤ n ∧ n ≤ 0xDF then
      match rest with
      | b1 :: r => isCont b1 && utf8ValidAux fuel r
      | _ => false
    else if 0xE0 ≤ n ∧ n ≤ 0xEF then
      match rest with
      | b1 :: b2 :: r =>
        let lo := if n = 0xE0 then 0xA0 else 0x80
        let hi := if n = 0xED then 0x9F else 0xBF
        (lo ≤ b1.toNat && b1.toNat ≤ hi) && isCont b2 && utf8ValidAux fuel r
      | _ => false
    else if 0xF0 ≤ n ∧ n ≤ 0xF4 then
      match rest with
      | b1 :: b2 :: b3 :: r =>
        let lo := if n = 0xF0 then 0x90 else 0x80
        let hi := if n = 0xF4 then 0x8F else 0xBF
        (lo ≤ b1.toNat && b1.toNat ≤ hi) && isCont b2 && isCont b3 && utf8ValidAux fuel r
      | _ => false
    else false

def utf8Valid (bs : Bytes) : Bool := utf8ValidAux bs.length bs

mutual
/-- every string the deserializer reads with `read_to_string` is UTF-8 (text, facet, object keys,
the JSON of a pre-tokenized string); bytes values are not checked -/
def stringsValid : StoredValue → Bool
  | .str b => utf8Valid b
  | .facet b => utf8Valid b
  | .preTok j => utf8Valid j
  | .array vs => stringsValidL vs
  | .object es => stringsValidE es
  | _ => true
def stringsValidL : List StoredValue → Bool
  | [] => true
  | v :: vs => stringsValid v && stringsValidL vs
def stringsValidE : List (Bytes × StoredValue) → Bool
  | [] => true
  | (k, v) :: es => utf8Valid k && stringsValid v && stringsValidE es
end

/-- the deserializer with the UTF-8 check -/
def decodeValueStrict (bs : Bytes) : Option (StoredValue × Bytes) :=
  (decodeValue bs).bind fun r => if stringsValid r.1 then some r else none

def deserializeDocStrict (bs : Bytes) : Option StoredDoc :=
  (deserializeDoc bs).bind fun d => if d.all (fun fv => stringsValid fv.2) then some d else none

end TantivyModel.Store
