import TantivyModel.Model.Store.Codec
/-
The u32 VInt fast path and the length-prefixed byte strings of `CompactDoc` (`TantivyDocument`).

mirrors: common/src/vint.rs::serialize_vint_u32, common/src/vint.rs::vint_len,
         common/src/vint.rs::read_u32_vint_no_advance,
         src/schema/document/default_document.rs::write_bytes_into,
         src/schema/document/default_document.rs::binary_deserialize_bytes

Every string, facet, bytes value and every child table of an array / object a `TantivyDocument`
holds is stored in its `node_data` as `serialize_vint_u32(len) ++ bytes`, both when a document
is added and when a fetched document is rebuilt. The number of bytes is chosen by the unrolled
threshold ladder `Gen.vintU32NumBytes` (extracted with its comparison operators); each branch
keeps only the 7-bit groups it has room for (`val & MASK_k`).
-/
namespace TantivyModel.Store
open TantivyModel

/-- the `k` low 7-bit groups of `v`, least significant first, stop bit on the last one:
what the `k`-byte branch of `serialize_vint_u32` writes -/
def encGroups : Nat → Nat → Bytes
  | 0, _ => []
  | 1, v => [UInt8.ofNat (v % 128 + 128)]
  | k + 2, v => UInt8.ofNat (v % 128) :: encGroups (k + 1) (v / 128)

/-- `serialize_vint_u32` -/
def serializeVintU32 (v : Nat) : Bytes := encGroups (Gen.vintU32NumBytes v) v

/-- `vint_len`: position of the first byte with the stop bit among the first `fuel` bytes
(the code panics if there is none) -/
def vintLen : Nat → Nat → Bytes → Option Nat
  | 0, _, _ => none
  | _ + 1, _, [] => none
  | fuel + 1, i, b :: r => if b.toNat ≥ 128 then some (i + 1) else vintLen fuel (i + 1) r

def groupsVal : Bytes → Nat
  | [] => 0
  | b :: r => b.toNat % 128 + 128 * groupsVal r

/-- `read_u32_vint_no_advance`: value (`u32` arithmetic) and number of bytes read -/
def readU32Vint (bs : Bytes) : Option (Nat × Nat) :=
  (vintLen Gen.VINT_U32_MAX_LEN 0 bs).map fun n => (groupsVal (bs.take n) % 4294967296, n)

/-- `write_bytes_into`: `serialize_vint_u32(data.len() as u32)` then the bytes -/
def cdWriteBytes (data : Bytes) : Bytes := serializeVintU32 (data.length % 4294967296) ++ data

/-- `binary_deserialize_bytes` (slicing beyond the end panics in the code) -/
def cdReadBytes (bs : Bytes) : Option Bytes :=
  (readU32Vint bs).bind fun (len, n) =>
    if n + len ≤ bs.length then some ((bs.drop n).take len) else none

end TantivyModel.Store
