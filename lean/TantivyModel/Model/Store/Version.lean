import TantivyModel.Model.Store.Store
/-
The doc store format version in the footer decides how a stored date is read.

mirrors: src/schema/document/de.rs::deserialize_datetime (V1: microseconds, V2: nanoseconds),
         src/store/reader.rs::get (`BinaryDocumentDeserializer::from_reader(.., self.doc_store_version)`)

`deserializeDoc` yields the raw i64 of a date; `readDate` turns it into the nanoseconds the API
returns (`DateTime::from_timestamp_micros(m)` is `m * 1000`, wrapping here where the code would
overflow).
-/
namespace TantivyModel.Store
open TantivyModel

def readDate (version : Nat) (raw : BitVec 64) : BitVec 64 :=
  if version = 1 then raw * 1000 else raw

mutual
/-- the value as `deserialize_any` returns it under the given doc store version -/
def viewValue (version : Nat) : StoredValue → StoredValue
  | .date raw => .date (readDate version raw)
  | .array vs => .array (viewValues version vs)
  | .object es => .object (viewEntries version es)
  | .null => .null
  | .str b => .str b
  | .u64 v => .u64 v
  | .i64 v => .i64 v
  | .f64 v => .f64 v
  | .bool b => .bool b
  | .facet b => .facet b
  | .bytes b => .bytes b
  | .ip v => .ip v
  | .preTok j => .preTok j
def viewValues (version : Nat) : List StoredValue → List StoredValue
  | [] => []
  | v :: vs => viewValue version v :: viewValues version vs
def viewEntries (version : Nat) : List (Bytes × StoredValue) → List (Bytes × StoredValue)
  | [] => []
  | (k, v) :: es => (k, viewValue version v) :: viewEntries version es
end

/-- a document read from a store of the given version -/
def deserializeDocV (version : Nat) (bs : Bytes) : Option StoredDoc :=
  (deserializeDoc bs).map fun d => d.map fun fv => (fv.1, viewValue version fv.2)

/-- `StoreReader::get`: the footer's version is used for decoding -/
def getDocV (C : Compression) (sf : StoreFile) (doc : Nat) : Option StoredDoc :=
  (getBytes C sf doc).bind (deserializeDocV sf.version)

end TantivyModel.Store
