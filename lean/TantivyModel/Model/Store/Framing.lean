import TantivyModel.Model.Store.Store
/-
The block codecs other than `none`: lz4 (`lz4_flex` block format) and zstd are both wrapped in
the same frame: the uncompressed length as `u32` little endian, then the raw compressed bytes.

mirrors: src/store/compression_lz4_block.rs::compress, src/store/compression_lz4_block.rs::decompress,
         src/store/compression_zstd_block.rs::compress, src/store/compression_zstd_block.rs::decompress

The raw codec (`lz4_flex::compress_into` / `decompress_into`, `zstd::bulk`) is a parameter: `dec`
receives the size of the output buffer the frame announces.
-/
namespace TantivyModel.Store
open TantivyModel

structure RawCodec where
  enc : Bytes → Bytes
  dec : Nat → Bytes → Option Bytes

/-- `compress`: `(uncompressed.len() as u32).to_le_bytes()` then the raw block;
`decompress`: read the size, decompress into a buffer of that size, require that it was filled -/
def framed (R : RawCodec) (id : Nat) : Compression :=
  { comp := fun b => u32le b.length ++ R.enc b
    decomp := fun bs =>
      if bs.length < 4 then none else
      let n := leVal (bs.take 4)
      (R.dec n (bs.drop 4)).bind fun out => if out.length = n then some out else none
    id := id }

/-- length of the uncompressed block of a group of documents with the given lengths:
documents, one u32 offset each, the u32 count -/
def blockLenOf (docLens : List Nat) : Nat := docLens.sum + 4 * (docLens.length + 1)

end TantivyModel.Store
