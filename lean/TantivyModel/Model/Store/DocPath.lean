import TantivyModel.Model.Store.CompactDoc
import TantivyModel.Gen.PureFns
/-
The two readings of a value on its way through the store.

In memory (`CompactDoc`, what the user adds and gets back) a float is its IEEE bits; on disk
(`se.rs::serialize_value` / `de.rs::deserialize_f64`) it is `f64_to_u64` of them, read back with
`u64_to_f64` (both extracted into `Gen.Fn`). Everything else is the same in both readings.

mirrors: src/schema/document/se.rs::serialize_value (F64: `f64_to_u64(val)`),
         src/schema/document/de.rs::deserialize_f64 (`.map(u64_to_f64)`)
-/
namespace TantivyModel.Store
open TantivyModel

mutual
/-- what `serialize_value` writes for an in-memory value -/
def memToDisk : StoredValue → StoredValue
  | .f64 x => .f64 (Gen.Fn.f64_to_u64 x)
  | .array vs => .array (memToDiskL vs)
  | .object es => .object (memToDiskE es)
  | .null => .null
  | .str b => .str b
  | .u64 v => .u64 v
  | .i64 v => .i64 v
  | .bool b => .bool b
  | .date v => .date v
  | .facet b => .facet b
  | .bytes b => .bytes b
  | .ip v => .ip v
  | .preTok j => .preTok j
def memToDiskL : List StoredValue → List StoredValue
  | [] => []
  | v :: vs => memToDisk v :: memToDiskL vs
def memToDiskE : List (Bytes × StoredValue) → List (Bytes × StoredValue)
  | [] => []
  | (k, v) :: es => (k, memToDisk v) :: memToDiskE es
end

mutual
/-- what the deserializer hands to `CompactDoc::add_field_value` for a stored value -/
def diskToMem : StoredValue → StoredValue
  | .f64 x => .f64 (Gen.Fn.u64_to_f64 x)
  | .array vs => .array (diskToMemL vs)
  | .object es => .object (diskToMemE es)
  | .null => .null
  | .str b => .str b
  | .u64 v => .u64 v
  | .i64 v => .i64 v
  | .bool b => .bool b
  | .date v => .date v
  | .facet b => .facet b
  | .bytes b => .bytes b
  | .ip v => .ip v
  | .preTok j => .preTok j
def diskToMemL : List StoredValue → List StoredValue
  | [] => []
  | v :: vs => diskToMem v :: diskToMemL vs
def diskToMemE : List (Bytes × StoredValue) → List (Bytes × StoredValue)
  | [] => []
  | (k, v) :: es => (k, diskToMem v) :: diskToMemE es
end

end TantivyModel.Store
