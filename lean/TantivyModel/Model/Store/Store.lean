import TantivyModel.Model.Store.SkipIndex
/-
Doc store writer, file layout, reader, block cache, iteration and merge.

mirrors: src/store/writer.rs::check_flush_block, src/store/writer.rs::send_current_block_to_compressor,
         src/store/writer.rs::store_bytes, src/store/writer.rs::store, src/store/writer.rs::stack,
         src/store/writer.rs::close,
         src/store/store_compressor.rs::compress_block_and_write, src/store/store_compressor.rs::register_checkpoint,
         src/store/store_compressor.rs::stack, src/store/store_compressor.rs::close,
         src/store/footer.rs::serialize, src/store/footer.rs::deserialize, src/store/footer.rs::extract_footer,
         src/store/reader.rs::open, src/store/reader.rs::block_checkpoint, src/store/reader.rs::read_block,
         src/store/reader.rs::get_document_bytes, src/store/reader.rs::get_document_bytes_from_block,
         src/store/reader.rs::block_read_index, src/store/reader.rs::iter_raw,
         src/store/reader.rs::get_from_cache, src/store/reader.rs::put_into_cache,
         src/indexer/merger.rs::write_storable_fields

The block compression codec (none / lz4_flex / zstd) is the parameter `Compression`; the
dedicated compressor thread is a FIFO channel (`sync_channel`) feeding the same
`BlockCompressorImpl`, so the sequence of `compress_block_and_write` / `stack` calls it executes is
the sequence sent: one model covers both settings of `docstore_compress_dedicated_thread`.
-/
namespace TantivyModel.Store
open TantivyModel

structure Compression where
  comp : Bytes → Bytes
  decomp : Bytes → Option Bytes
  /-- `Decompressor::get_id` -/
  id : Nat

/-- `Compressor::None` -/
def Compression.none : Compression := { comp := fun b => b, decomp := some, id := Gen.DECOMPRESSOR_ID_NONE }

/-- `(x as u32).serialize` -/
def u32le (n : Nat) : Bytes := leBytes 4 n

def encOffsets : List Nat → Bytes
  | [] => []
  | p :: ps => u32le p ++ encOffsets ps

/-! ### writer -/

structure Writer where
  blockSize : Nat
  cur : Bytes                     -- current_block
  docPos : List Nat               -- doc_pos
  numDocs : Nat                   -- num_docs_in_current_block
  firstDoc : Nat                  -- BlockCompressorImpl::first_doc_in_block
  written : Bytes                 -- what the CountingWriter received
  checkpoints : List Checkpoint   -- inserted into the SkipIndexBuilder, in order
deriving Repr

def Writer.new (blockSize : Nat) : Writer :=
  { blockSize, cur := [], docPos := [], numDocs := 0, firstDoc := 0, written := [], checkpoints := [] }

/-- the uncompressed block: documents, their start offsets, the number of offsets -/
def blockBytes (cur : Bytes) (docPos : List Nat) : Bytes :=
  cur ++ (encOffsets docPos ++ u32le docPos.length)

/-- `send_current_block_to_compressor` + `compress_block_and_write` + `register_checkpoint` -/
def Writer.sendBlock (C : Compression) (w : Writer) : Writer :=
  if w.cur.isEmpty then w else
  let data := C.comp (blockBytes w.cur w.docPos)
  let cp : Checkpoint :=
    { docStart := w.firstDoc, docEnd := w.firstDoc + w.numDocs,
      byteStart := w.written.length, byteEnd := w.written.length + data.length }
  { w with cur := [], docPos := [], numDocs := 0, firstDoc := cp.docEnd,
           written := w.written ++ data, checkpoints := w.checkpoints ++ [cp] }

/-- `store_bytes` (and `store` after serialisation) followed by `check_flush_block`; `K` is the
per-document estimate of the index size, `size_of::<usize>()` -/
def Writer.storeBytes (C : Compression) (K : Nat) (w : Writer) (doc : Bytes) : Writer :=
  let w1 := { w with docPos := w.docPos ++ [w.cur.length], cur := w.cur ++ doc, numDocs := w.numDocs + 1 }
  if w1.cur.length + w1.docPos.length * K > w1.blockSize then w1.sendBlock C else w1

def shiftCheckpoint (docShift byteShift : Nat) (c : Checkpoint) : Checkpoint :=
  { docStart := c.docStart + docShift, docEnd := c.docEnd + docShift,
    byteStart := c.byteStart + byteShift, byteEnd := c.byteEnd + byteShift }

/-- `StoreWriter::stack` + `BlockCompressorImpl::stack`: flush, bulk-copy the source's block data,
re-register its checkpoints shifted by the docs and bytes written so far -/
def Writer.stack (C : Compression) (w : Writer) (srcData : Bytes) (srcCheckpoints : List Checkpoint) : Writer :=
  let w1 := w.sendBlock C
  let shifted := srcCheckpoints.map (shiftCheckpoint w1.firstDoc w1.written.length)
  { w1 with written := w1.written ++ srcData,
            checkpoints := w1.checkpoints ++ shifted,
            firstDoc := (shifted.getLast?.map (·.docEnd)).getD w1.firstDoc }

/-- `DocStoreFooter::serialize` -/
def footerBytes (offset decompId : Nat) : Bytes :=
  u32le Gen.DOC_STORE_VERSION ++ (leBytes 8 offset ++ (UInt8.ofNat decompId :: List.replicate Gen.DOCSTORE_FOOTER_PADDING 0))

/-- `StoreWriter::close`: last block, skip index, footer -/
def Writer.close (C : Compression) (P : Nat) (w : Writer) : Bytes :=
  let w1 := w.sendBlock C
  w1.written ++ (serializeSkipIndex P w1.checkpoints ++ footerBytes w1.written.length C.id)

/-- a whole store written document by document -/
def writeStore (C : Compression) (K P blockSize : Nat) (docs : List Bytes) : Bytes :=
  (docs.foldl (Writer.storeBytes C K) (Writer.new blockSize)).close C P

/-! ### reader -/

structure StoreFile where
  data : Bytes
  index : SkipIndex
  decompId : Nat
  version : Nat
deriving Repr

/-- `StoreReader::open` (`DocStoreFooter::extract_footer`, split at `offset`, `SkipIndex::open`) -/
def openStore (file : Bytes) : Option StoreFile :=
  if file.length < Gen.DOCSTORE_FOOTER_LEN then none else
  let body := file.take (file.length - Gen.DOCSTORE_FOOTER_LEN)
  let footer := file.drop (file.length - Gen.DOCSTORE_FOOTER_LEN)
  (readLE 4 footer).bind fun (version, r) =>
    -- `DocStoreVersion::deserialize`: 1 or 2, anything else is an error
    if version ≠ 1 ∧ version ≠ 2 then none else
    (readLE 8 r).bind fun (offset, r1) =>
      match r1 with
      | [] => none
      | id :: _ =>
        -- `split(offset)` panics beyond the end of the body
        if offset > body.length then none else
        (openSkipIndex (body.drop offset)).map fun idx =>
          { data := body.take offset, index := idx, decompId := id.toNat, version := version }

/-- the end offset of a document: the next start offset if there is one -/
def endOffset (next : Option (Nat × Bytes)) (dflt : Nat) : Nat :=
  match next with
  | some (e, _) => e
  | none => dflt

/-- `block_read_index`: start and end of document `pos` inside a decompressed block -/
def blockReadIndex (block : Bytes) (pos : Nat) : Option (Nat × Nat) :=
  -- `block.len() - size_of_u32` underflows on a block shorter than 4 bytes
  if block.length < 4 then none else
  let indexLen := leVal (block.drop (block.length - 4))
  if pos > indexLen then none else
  -- `block.len() - (index_len + 1) * size_of_u32`
  if block.length < (indexLen + 1) * 4 then none else
  let indexStart := block.length - (indexLen + 1) * 4
  let index := (block.drop indexStart).take (indexLen * 4)
  (readLE 4 (index.drop (pos * 4))).map fun (s, _) =>
    -- `.unwrap_or(index_start as u32)`
    (s, endOffset (readLE 4 (index.drop ((pos + 1) * 4))) (indexStart % 4294967296))

/-- `get_document_bytes_from_block` (`block.slice(range)` panics on a range outside the block) -/
def docFromBlock (block : Bytes) (pos : Nat) : Option Bytes :=
  (blockReadIndex block pos).bind fun (s, e) =>
    if s ≤ e ∧ e ≤ block.length then some ((block.drop s).take (e - s)) else none

/-- `get_compressed_block` + decompress: the uncached part of `read_block` -/
def readBlockRaw (C : Compression) (sf : StoreFile) (cp : Checkpoint) : Option Bytes :=
  if cp.byteStart ≤ cp.byteEnd ∧ cp.byteEnd ≤ sf.data.length then
    C.decomp ((sf.data.drop cp.byteStart).take (cp.byteEnd - cp.byteStart))
  else none

/-- `get_document_bytes` without the block cache -/
def getBytes (C : Compression) (sf : StoreFile) (doc : Nat) : Option Bytes :=
  (seek sf.index doc).bind fun cp =>
    (readBlockRaw C sf cp).bind fun block => docFromBlock block (doc - cp.docStart)

/-- `StoreReader::get::<TantivyDocument>` -/
def getDoc (C : Compression) (sf : StoreFile) (doc : Nat) : Option StoredDoc :=
  (getBytes C sf doc).bind deserializeDoc

/-! ### LRU block cache keyed by the block's start offset -/

/-- `lru::LruCache<usize, Block>` with capacity `cap ≥ 1`, most recently used first;
`cap = 0` is `BlockCache { cache: None }` -/
structure BlockCache where
  cap : Nat
  entries : List (Nat × Bytes)
  hits : Nat
  misses : Nat
deriving Repr

def BlockCache.new (cap : Nat) : BlockCache := { cap, entries := [], hits := 0, misses := 0 }

/-- `BlockCache::get_from_cache` (`LruCache::get` promotes the entry) -/
def BlockCache.get (c : BlockCache) (key : Nat) : Option Bytes × BlockCache :=
  if c.cap = 0 then (none, { c with misses := c.misses + 1 }) else
  match c.entries.find? fun e => e.1 = key with
  | some e => (some e.2, { c with entries := e :: c.entries.filter (fun x => x.1 ≠ key), hits := c.hits + 1 })
  | none => (none, { c with misses := c.misses + 1 })

/-- `BlockCache::put_into_cache` (`LruCache::put`: replace and promote, or evict the least
recently used entry when full) -/
def BlockCache.put (c : BlockCache) (key : Nat) (block : Bytes) : BlockCache :=
  if c.cap = 0 then c else
  if c.entries.any (fun e => e.1 = key) then
    { c with entries := (key, block) :: c.entries.filter (fun x => x.1 ≠ key) }
  else if c.entries.length ≥ c.cap then
    { c with entries := (key, block) :: c.entries.dropLast }
  else { c with entries := (key, block) :: c.entries }

/-- `read_block` -/
def readBlock (C : Compression) (sf : StoreFile) (cache : BlockCache) (cp : Checkpoint) :
    Option Bytes × BlockCache :=
  match cache.get cp.byteStart with
  | (some b, cache') => (some b, cache')
  | (none, cache') =>
    match readBlockRaw C sf cp with
    | none => (none, cache')
    | some b => (some b, cache'.put cp.byteStart b)

/-- `get_document_bytes` -/
def getBytesCached (C : Compression) (sf : StoreFile) (cache : BlockCache) (doc : Nat) :
    Option Bytes × BlockCache :=
  match seek sf.index doc with
  | none => (none, cache)
  | some cp =>
    match readBlock C sf cache cp with
    | (none, cache') => (none, cache')
    | (some block, cache') => (docFromBlock block (doc - cp.docStart), cache')

/-- a sequence of `get_document_bytes` calls on one reader -/
def runGets (C : Compression) (sf : StoreFile) : BlockCache → List Nat → List (Option Bytes) × BlockCache
  | cache, [] => ([], cache)
  | cache, d :: ds =>
    let (r, cache') := getBytesCached C sf cache d
    let (rs, cache'') := runGets C sf cache' ds
    (r :: rs, cache'')

/-! ### iteration -/

/-- the loop of `iter_raw` for `n` more doc ids starting at `doc`; `cur`/`rest` are the current
checkpoint and the remaining ones, `block` the current block (`none`: no checkpoint,
`some none`: read error), `pos` the position inside it. An error item is `none`. -/
def iterLoop (C : Compression) (sf : StoreFile) (alive : Nat → Bool) :
    Nat → Nat → Option Checkpoint → List Checkpoint → Option (Option Bytes) → Nat → List (Option Bytes)
  | 0, _, _, _, _, _ => []
  | n + 1, doc, cur, rest, block, pos =>
    match cur with
    | none => []      -- `curr_checkpoint.as_ref().unwrap()` panics
    | some c =>
      let moved := decide (doc ≥ c.docEnd)
      let cur' := if moved then rest.head? else cur
      let rest' := if moved then rest.tail else rest
      let block' := if moved then rest.head?.map (readBlockRaw C sf) else block
      let pos' := if moved then 0 else pos
      let out : List (Option Bytes) :=
        if alive doc then
          [match block' with
           | none => none
           | some none => none
           | some (some b) => docFromBlock b pos']
        else []
      out ++ iterLoop C sf alive n (doc + 1) cur' rest' block' (pos' + 1)

/-- `StoreReader::iter_raw` (blocks are read through the cache in the code; the cache is
transparent, see `C09_cache_transparent`) -/
def iterRaw (C : Compression) (sf : StoreFile) (alive : Nat → Bool) : List (Option Bytes) :=
  let cps := checkpointsOf sf.index
  let last := (cps.getLast?.map (·.docEnd)).getD 0
  iterLoop C sf alive last 0 cps.head? cps.tail (cps.head?.map (readBlockRaw C sf)) 0

/-- reading the block of an optional checkpoint through the cache -/
def readBlockOpt (C : Compression) (sf : StoreFile) (cache : BlockCache) :
    Option Checkpoint → Option (Option Bytes) × BlockCache
  | none => (none, cache)
  | some cp => let r := readBlock C sf cache cp; (some r.1, r.2)

/-- the loop of `iter_raw` as the code runs it: every block is obtained with `read_block`, i.e.
through the reader's LRU cache, whose state is threaded along -/
def iterLoopCached (C : Compression) (sf : StoreFile) (alive : Nat → Bool) :
    Nat → Nat → Option Checkpoint → List Checkpoint → Option (Option Bytes) → Nat → BlockCache →
      List (Option Bytes) × BlockCache
  | 0, _, _, _, _, _, cache => ([], cache)
  | n + 1, doc, cur, rest, block, pos, cache =>
    match cur with
    | none => ([], cache)
    | some c =>
      let moved := decide (doc ≥ c.docEnd)
      let cur' := if moved then rest.head? else cur
      let rest' := if moved then rest.tail else rest
      let rb := if moved then readBlockOpt C sf cache rest.head? else (block, cache)
      let pos' := if moved then 0 else pos
      let out : List (Option Bytes) :=
        if alive doc then
          [match rb.1 with
           | none => none
           | some none => none
           | some (some b) => docFromBlock b pos']
        else []
      let r := iterLoopCached C sf alive n (doc + 1) cur' rest' rb.1 (pos' + 1) rb.2
      (out ++ r.1, r.2)

/-- `StoreReader::iter_raw` with the cache -/
def iterRawCached (C : Compression) (sf : StoreFile) (alive : Nat → Bool) (cache : BlockCache) :
    List (Option Bytes) × BlockCache :=
  let cps := checkpointsOf sf.index
  let last := (cps.getLast?.map (·.docEnd)).getD 0
  let rb := readBlockOpt C sf cache cps.head?
  iterLoopCached C sf alive last 0 cps.head? cps.tail rb.1 0 rb.2

/-- what a user does with one `StoreReader`: fetch a document, or iterate with an alive bitset -/
inductive ReaderOp where
  | get (doc : Nat)
  | iter (alive : List Bool)

def aliveOfList (l : List Bool) : Nat → Bool := fun i => l.getD i true

/-- the answers without any cache -/
def ReaderOp.plain (C : Compression) (sf : StoreFile) : ReaderOp → List (Option Bytes)
  | .get d => [getBytes C sf d]
  | .iter al => iterRaw C sf (aliveOfList al)

/-- a sequence of operations on one reader, all going through its block cache -/
def runOps (C : Compression) (sf : StoreFile) : BlockCache → List ReaderOp → List (List (Option Bytes)) × BlockCache
  | cache, [] => ([], cache)
  | cache, .get d :: ops =>
    let r := getBytesCached C sf cache d
    let rs := runOps C sf r.2 ops
    ([r.1] :: rs.1, rs.2)
  | cache, .iter al :: ops =>
    let r := iterRawCached C sf (aliveOfList al) cache
    let rs := runOps C sf r.2 ops
    (r.1 :: rs.1, rs.2)

/-! ### merge -/

/-- one source segment of a merge; `codec` is the block codec its store was written with (the
reader picks it from the footer's decompressor id) -/
structure SourceSegment where
  store : StoreFile
  codec : Compression
  alive : Nat → Bool
  hasDeletes : Bool

/-- third clause of the copy condition, with the comparison operator found in the source -/
def codecClause (C : Compression) (s : SourceSegment) : Bool :=
  if Gen.STACK_CODEC_CLAUSE_IS_NE = 1 then decide (s.store.decompId ≠ C.id)
  else decide (s.store.decompId = C.id)

/-- `AliveBitSet::num_alive_docs` over `max_doc` documents -/
def numAlive (alive : Nat → Bool) (maxDoc : Nat) : Nat := ((List.range maxDoc).filter alive).length

/-- `intersect_alive_bitset`: the segment's own deletes and the caller's filter (either may be absent) -/
def intersectAlive (own custom : Option (Nat → Bool)) : Nat → Bool :=
  fun i => (own.map (· i)).getD true && (custom.map (· i)).getD true

/-- a source segment as `SegmentReader::open_with_custom_alive_set` presents it to the merger
(`merge_filtered_segments`; an ordinary merge has `custom = none`): `has_deletes()` is
`max_doc - num_docs > 0` with `num_docs` counted on the intersected bitset -/
def SourceSegment.ofReader (store : StoreFile) (codec : Compression) (own custom : Option (Nat → Bool))
    (maxDoc : Nat) : SourceSegment :=
  { store := store, codec := codec, alive := intersectAlive own custom,
    hasDeletes := decide (maxDoc - numAlive (intersectAlive own custom) maxDoc > 0) }

/-- the guard of the stacking shortcut in `write_storable_fields` (true = copy per document):
`reader.has_deletes() || block_checkpoints().take(7).count() < 6 || decompressor != compressor` -/
def mustCopy (C : Compression) (minBlocks : Nat) (s : SourceSegment) : Bool :=
  s.hasDeletes || decide (((checkpointsOf s.store.index).take (minBlocks + 1)).length < minBlocks)
    || codecClause C s

/-- per-document copy: `for doc_bytes in iter_raw(alive) { store_bytes(doc_bytes?) }`;
`none` = the merge fails -/
def copyDocs (C : Compression) (K : Nat) : Writer → List (Option Bytes) → Option Writer
  | w, [] => some w
  | _, none :: _ => none
  | w, some d :: ds => copyDocs C K (w.storeBytes C K d) ds

/-- `write_storable_fields`, trivial doc-id mapping (segments concatenated in order) -/
def mergeStep (C : Compression) (K minBlocks : Nat) (w : Option Writer) (s : SourceSegment) : Option Writer :=
  w.bind fun w =>
    if mustCopy C minBlocks s then copyDocs C K w (iterRaw s.codec s.store s.alive)
    else some (w.stack C s.store.data (checkpointsOf s.store.index))

def mergeStores (C : Compression) (K P minBlocks blockSize : Nat) (segs : List SourceSegment) : Option Bytes :=
  (segs.foldl (mergeStep C K minBlocks) (some (Writer.new blockSize))).map (Writer.close C P)

/-- `write_storable_fields`, non-trivial mapping (sorted index): the next document of the
segment named by each entry of the mapping -/
def mergeMapped (C : Compression) (K : Nat) :
    Writer → List (List (Option Bytes)) → List Nat → Option Writer
  | w, _, [] => some w
  | w, its, seg :: more =>
    match its[seg]? with
    | some (some d :: tl) => mergeMapped C K (w.storeBytes C K d) (its.set seg tl) more
    | _ => none      -- read error, missing document, or unknown segment ordinal

end TantivyModel.Store
