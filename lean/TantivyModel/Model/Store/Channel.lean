/-
The dedicated compressor thread of the doc store: a bounded FIFO channel between the
`StoreWriter` (producer of `CompressBlockAndWrite` / `Stack` messages) and the thread that owns the
`BlockCompressorImpl` (consumer).

mirrors: src/store/store_compressor.rs::new (DedicatedThreadBlockCompressorImpl: `sync_channel(3)`,
         `while let Ok(packet) = rx.recv()`), src/store/store_compressor.rs::send

`step` is what the consumer does with one message (`compress_block_and_write` or `stack`), `σ` its
state (`BlockCompressorImpl`), `μ` the message type. A schedule is any interleaving of sends and
receives; the channel (std `mpsc::sync_channel`) is modelled as a FIFO queue with capacity `cap`.
-/
namespace TantivyModel.Store

inductive ChanEvent where
  | send   -- the producer enqueues its next message (blocks, i.e. is not enabled, when full)
  | recv   -- the consumer dequeues the oldest message and processes it
deriving DecidableEq, Repr

/-- run a schedule: `pending` are the producer's messages still to send (in program order),
`queue` the channel content (oldest first). `none`: the schedule fires a disabled event. -/
def runChan {σ μ : Type} (step : σ → μ → σ) (cap : Nat) :
    List ChanEvent → List μ → List μ → σ → Option (List μ × List μ × σ)
  | [], pending, queue, s => some (pending, queue, s)
  | .send :: evs, m :: pending, queue, s =>
    if queue.length < cap then runChan step cap evs pending (queue ++ [m]) s else none
  | .send :: _, [], _, _ => none
  | .recv :: evs, pending, m :: queue, s => runChan step cap evs pending queue (step s m)
  | .recv :: _, _, [], _ => none

end TantivyModel.Store
