import TantivyModel.Model.Store.Framing
/-
The LZ4 *block* format as far as a decoder is concerned (`lz4_flex::block::decompress_into`, used by
`src/store/compression_lz4_block.rs`), and a reference encoder that emits one literal-only sequence.

A block is a series of sequences: a token (high nibble: literal length, low nibble: match length − 4;
a nibble of 15 is continued by bytes that are added up, each 255 continuing), the literals, and —
except for the last sequence, which ends with its literals at the end of the input — a 2-byte little
endian offset (0 is invalid) and the match, copied byte by byte from `offset` bytes back in the
output (so it may overlap what it is producing).

mirrors: lz4_flex block format (external crate: the decoder is the specification here; every run the
         harness feeds the real compressor's blocks to `lz4Decode` and compares with the block)
-/
namespace TantivyModel.Store
open TantivyModel

/-- continuation of a length nibble of 15: add bytes until one is not 255 -/
def lz4ReadExt : Nat → Nat → Bytes → Option (Nat × Bytes)
  | 0, _, _ => none
  | _ + 1, _, [] => none
  | fuel + 1, acc, b :: r =>
    if b.toNat = 255 then lz4ReadExt fuel (acc + 255) r else some (acc + b.toNat, r)

def lz4ReadLen (nibble : Nat) (bs : Bytes) : Option (Nat × Bytes) :=
  if nibble = 15 then lz4ReadExt (bs.length + 1) 15 bs else some (nibble, bs)

/-- copy `n` bytes from `offset` back, one at a time (overlapping copies repeat a pattern); the
output is kept reversed, so "`offset` back" is position `offset − 1` -/
def lz4CopyMatch : Nat → Nat → Bytes → Option Bytes
  | 0, _, outRev => some outRev
  | n + 1, offset, outRev =>
    if offset = 0 then none
    else
      match outRev[offset - 1]? with
      | none => none          -- offset beyond the start of the output
      | some b => lz4CopyMatch n offset (b :: outRev)

/-- the sequences of a block, pushed onto the reversed output; `fuel` ≥ number of sequences -/
def lz4DecodeAux : Nat → Bytes → Bytes → Option Bytes
  | 0, _, _ => none
  | _ + 1, [], _ => none
  | fuel + 1, token :: rest, outRev =>
    (lz4ReadLen (token.toNat / 16) rest).bind fun (litLen, r1) =>
      if r1.length < litLen then none else
      let out1 := (r1.take litLen).reverse ++ outRev
      let r2 := r1.drop litLen
      if r2.isEmpty then some out1      -- last sequence: literals only
      else
        match r2 with
        | lo :: hi :: r3 =>
          let offset := lo.toNat + 256 * hi.toNat
          (lz4ReadLen (token.toNat % 16) r3).bind fun (ml, r4) =>
            (lz4CopyMatch (ml + 4) offset out1).bind fun out2 =>
              -- a block must end with a literal-only sequence
              if r4.isEmpty then none else lz4DecodeAux fuel r4 out2
        | _ => none

def lz4Decode (bs : Bytes) : Option Bytes := (lz4DecodeAux (bs.length + 1) bs []).map List.reverse

/-- extension bytes of a length ≥ 15: as many 255 as fit, then the rest (possibly 0) -/
def lz4EncExt : Nat → Nat → Bytes
  | 0, _ => [0]
  | fuel + 1, n => if n ≥ 255 then 255 :: lz4EncExt fuel (n - 255) else [UInt8.ofNat n]

/-- reference encoder: the whole input as the literals of one last sequence -/
def lz4EncodeLiteral (b : Bytes) : Bytes :=
  if b.length < 15 then UInt8.ofNat (b.length * 16) :: b
  else (240 : UInt8) :: (lz4EncExt b.length (b.length - 15) ++ b)

/-- the raw codec: reference encoder, real decoder (the announced size is checked by the frame) -/
def lz4Raw : RawCodec := { enc := lz4EncodeLiteral, dec := fun _ bs => lz4Decode bs }

/-- `Compressor::Lz4` as a whole: frame + raw codec -/
def lz4Compression : Compression := framed lz4Raw Gen.DECOMPRESSOR_ID_LZ4

end TantivyModel.Store
