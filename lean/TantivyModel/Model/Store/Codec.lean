import TantivyModel.Gen.Store
/-
Binary document codec of the doc store.

mirrors: common/src/vint.rs::serialize_into, common/src/vint.rs::deserialize,
         common/src/serialize.rs (u8/u32/u64/i64/u128/bool/String/Cow<[u8]> little endian),
         src/schema/document/se.rs::serialize_doc, src/schema/document/se.rs::serialize_value,
         src/schema/document/de.rs::from_reader, src/schema/document/de.rs::deserialize_any,
         src/schema/document/de.rs::next_field, src/schema/document/de.rs::next_element,
         src/schema/document/de.rs::next_entry,
         src/schema/document/owned_value.rs::deserialize (visitor building OwnedValue)

Strings are byte strings here (the UTF-8 check of `read_to_string` is not modelled; the harness
only feeds valid UTF-8 where the real code expects a `String`).  f64 values are carried as the
`u64` that is on disk (`common::f64_to_u64` of the float), dates as i64 nanoseconds (two's
complement bit pattern), IP addresses as the u128 of the `Ipv6Addr`.
-/
namespace TantivyModel.Store
open TantivyModel

abbrev Bytes := List UInt8

/-! ### VInt -/

/-- `VInt::serialize_into`: 7 bits per byte, least significant group first, the last byte has
the stop bit set. -/
def vintEnc (n : Nat) : Bytes :=
  if n < Gen.VINT_STOP_BIT then [UInt8.ofNat (n + Gen.VINT_STOP_BIT)]
  else UInt8.ofNat (n % Gen.VINT_STOP_BIT) :: vintEnc (n / Gen.VINT_STOP_BIT)
termination_by n
decreasing_by
  simp only [show Gen.VINT_STOP_BIT = 128 from rfl] at *
  omega

/-- the loop of `VInt::deserialize`: `result |= (b % 128) << shift; if b >= STOP_BIT return` -/
def vintDecAux (shift acc : Nat) : Bytes → Option (Nat × Bytes)
  | [] => none
  | b :: rest =>
    let acc' := acc + (b.toNat % Gen.VINT_STOP_BIT) * 2 ^ shift
    if b.toNat ≥ Gen.VINT_STOP_BIT then some (acc', rest) else vintDecAux (shift + 7) acc' rest

def vintDec (bs : Bytes) : Option (Nat × Bytes) := vintDecAux 0 0 bs

/-! ### fixed width little endian integers -/

def leBytes : Nat → Nat → Bytes
  | 0, _ => []
  | k + 1, n => UInt8.ofNat (n % 256) :: leBytes k (n / 256)

def leVal : Bytes → Nat
  | [] => 0
  | b :: r => b.toNat + 256 * leVal r

/-- `read_uN::<LittleEndian>`: fails at end of input -/
def readLE (k : Nat) (bs : Bytes) : Option (Nat × Bytes) :=
  if bs.length < k then none else some (leVal (bs.take k), bs.drop k)

/-! ### values -/

/-- what the store holds for one value (`OwnedValue` as rebuilt by the deserializer) -/
inductive StoredValue where
  | null
  | str (b : Bytes)
  | u64 (v : BitVec 64)
  | i64 (v : BitVec 64)
  | f64 (bits : BitVec 64)          -- on-disk u64 = f64_to_u64(value)
  | bool (b : Bool)
  | date (nanos : BitVec 64)
  | facet (encoded : Bytes)
  | bytes (b : Bytes)
  | ip (v : BitVec 128)
  | preTok (json : Bytes)           -- serde_json text of the whole PreTokenizedString
  | array (vs : List StoredValue)
  | object (es : List (Bytes × StoredValue))
deriving Repr

abbrev cTEXT : UInt8 := UInt8.ofNat Gen.TEXT_CODE
abbrev cU64 : UInt8 := UInt8.ofNat Gen.U64_CODE
abbrev cI64 : UInt8 := UInt8.ofNat Gen.I64_CODE
abbrev cFACET : UInt8 := UInt8.ofNat Gen.HIERARCHICAL_FACET_CODE
abbrev cBYTES : UInt8 := UInt8.ofNat Gen.BYTES_CODE
abbrev cDATE : UInt8 := UInt8.ofNat Gen.DATE_CODE
abbrev cF64 : UInt8 := UInt8.ofNat Gen.F64_CODE
abbrev cEXT : UInt8 := UInt8.ofNat Gen.EXT_CODE
abbrev cBOOL : UInt8 := UInt8.ofNat Gen.BOOL_CODE
abbrev cIP : UInt8 := UInt8.ofNat Gen.IP_CODE
abbrev cNULL : UInt8 := UInt8.ofNat Gen.NULL_CODE
abbrev cARRAY : UInt8 := UInt8.ofNat Gen.ARRAY_CODE
abbrev cOBJECT : UInt8 := UInt8.ofNat Gen.OBJECT_CODE
abbrev cTOKSTR : UInt8 := UInt8.ofNat Gen.TOK_STR_EXT_CODE

/-- `String` / `Cow<str>` / `Cow<[u8]>`: VInt length, then the bytes -/
def encStr (b : Bytes) : Bytes := vintEnc b.length ++ b

mutual
/-- `BinaryValueSerializer::serialize_value` -/
def encValue : StoredValue → Bytes
  | .null => [cNULL]
  | .str b => cTEXT :: encStr b
  | .u64 v => cU64 :: leBytes 8 v.toNat
  | .i64 v => cI64 :: leBytes 8 v.toNat
  | .f64 v => cF64 :: leBytes 8 v.toNat
  | .bool b => [cBOOL, if b then 1 else 0]
  | .date v => cDATE :: leBytes 8 v.toNat
  | .facet b => cFACET :: encStr b
  | .bytes b => cBYTES :: encStr b
  | .ip v => cIP :: leBytes 16 v.toNat
  | .preTok j => cEXT :: cTOKSTR :: encStr j
  | .array vs => cARRAY :: (vintEnc vs.length ++ encValues vs)
  | .object es => cOBJECT :: (vintEnc (es.length * 2) ++ encEntries es)
/-- the elements of an array, one after the other -/
def encValues : List StoredValue → Bytes
  | [] => []
  | v :: vs => encValue v ++ encValues vs
/-- the entries of an object: key as a text value, then the value -/
def encEntries : List (Bytes × StoredValue) → Bytes
  | [] => []
  | (k, v) :: es => (cTEXT :: encStr k) ++ (encValue v ++ encEntries es)
end

/-- `<String as BinarySerializable>::deserialize`: `reader.take(len).read_to_string` does not
fail on a short read (UTF-8 validation not modelled) -/
def decStr (bs : Bytes) : Option (Bytes × Bytes) :=
  (vintDec bs).map fun (n, r) => (r.take n, r.drop n)

/-- `<Vec<u8>/Cow<[u8]>>::deserialize`: reads `len` single bytes, fails at end of input -/
def decBytes (bs : Bytes) : Option (Bytes × Bytes) :=
  (vintDec bs).bind fun (n, r) => if r.length < n then none else some (r.take n, r.drop n)

def decFixed (k w : Nat) (mk : BitVec w → StoredValue) (bs : Bytes) : Option (StoredValue × Bytes) :=
  (readLE k bs).map fun (n, r) => (mk (BitVec.ofNat w n), r)

/-- `BinaryArrayDeserializer::next_element` repeated `n` times (`f` reads one value) -/
def decSeqWith (f : Bytes → Option (StoredValue × Bytes)) : Nat → Bytes → Option (List StoredValue × Bytes)
  | 0, bs => some ([], bs)
  | n + 1, bs => (f bs).bind fun (v, r) => (decSeqWith f n r).map fun (vs, r') => (v :: vs, r')

/-- `BinaryObjectDeserializer::next_entry` repeated `m` times: the key must be a text value -/
def decEntriesWith (f : Bytes → Option (StoredValue × Bytes)) :
    Nat → Bytes → Option (List (Bytes × StoredValue) × Bytes)
  | 0, bs => some ([], bs)
  | _ + 1, [] => none
  | m + 1, c :: bs =>
    if c = cTEXT then
      (decStr bs).bind fun (k, r) => (f r).bind fun (v, r') =>
        (decEntriesWith f m r').map fun (es, r'') => ((k, v) :: es, r'')
    else none

/-- `BinaryValueDeserializer::from_reader` + `deserialize_any` with the `OwnedValue` visitor.
`fuel` bounds the nesting depth (the real code recurses on the call stack). -/
def decValue : Nat → Bytes → Option (StoredValue × Bytes)
  | 0, _ => none
  | _ + 1, [] => none
  | fuel + 1, c :: rest =>
    if c = cTEXT then (decStr rest).map fun (s, r) => (.str s, r)
    else if c = cU64 then decFixed 8 64 .u64 rest
    else if c = cI64 then decFixed 8 64 .i64 rest
    else if c = cF64 then decFixed 8 64 .f64 rest
    else if c = cBOOL then
      match rest with
      | [] => none
      | b :: r => if b = 0 then some (.bool false, r) else if b = 1 then some (.bool true, r) else none
    else if c = cDATE then decFixed 8 64 .date rest
    else if c = cFACET then (decStr rest).map fun (s, r) => (.facet s, r)
    else if c = cBYTES then (decBytes rest).map fun (s, r) => (.bytes s, r)
    else if c = cEXT then
      match rest with
      | [] => none
      | e :: r => if e = cTOKSTR then (decStr r).map fun (s, r') => (.preTok s, r') else none
    else if c = cIP then decFixed 16 128 .ip rest
    else if c = cNULL then some (.null, rest)
    else if c = cARRAY then
      (vintDec rest).bind fun (n, r) =>
        (decSeqWith (decValue fuel) n r).map fun (vs, r') => (.array vs, r')
    else if c = cOBJECT then
      -- [key, value, key, value …]; an odd element count makes `next_entry` panic (`expect`)
      (vintDec rest).bind fun (n, r) =>
        if n % 2 = 1 then none
        else (decEntriesWith (decValue fuel) (n / 2) r).map fun (es, r') => (.object es, r')
    else none  -- JSON_OBJ_CODE (legacy format, never written) and unknown codes

/-- a value from a reader positioned at its type code; the fuel is what the input can need -/
def decodeValue (bs : Bytes) : Option (StoredValue × Bytes) := decValue (bs.length + 1) bs

/-! ### documents -/

/-- what `add_document` was given for one field: a value, or a pre-tokenized text at top level
(`serialize_doc` stores only its text, as a `Str`) -/
inductive FieldInput where
  | val (v : StoredValue)
  | preTokText (text : Bytes)

def FieldInput.stored : FieldInput → StoredValue
  | .val v => v
  | .preTokText t => .str t

abbrev StoredDoc := List (BitVec 32 × StoredValue)

/-- field id (`u32` little endian) and value, for each stored field value in document order -/
def encFields : StoredDoc → Bytes
  | [] => []
  | (f, v) :: fvs => leBytes 4 f.toNat ++ (encValue v ++ encFields fvs)

/-- the stored view of a document: stored-flagged fields only, in order -/
def storedView (isStored : BitVec 32 → Bool) (doc : List (BitVec 32 × FieldInput)) : StoredDoc :=
  (doc.filter fun fv => isStored fv.1).map fun fv => (fv.1, fv.2.stored)

def encStoredDoc (d : StoredDoc) : Bytes := vintEnc d.length ++ encFields d

/-- `BinaryDocumentSerializer::serialize_doc` -/
def serializeDoc (isStored : BitVec 32 → Bool) (doc : List (BitVec 32 × FieldInput)) : Bytes :=
  encStoredDoc (storedView isStored doc)

/-- `BinaryDocumentDeserializer::next_field` repeated `n` times -/
def decFields : Nat → Bytes → Option (StoredDoc × Bytes)
  | 0, bs => some ([], bs)
  | n + 1, bs =>
    (readLE 4 bs).bind fun (f, r) => (decodeValue r).bind fun (v, r') =>
      (decFields n r').map fun (fvs, r'') => ((BitVec.ofNat 32 f, v) :: fvs, r'')

/-- `BinaryDocumentDeserializer::from_reader` + `CompactDoc::deserialize`: trailing bytes are
ignored by the real reader as well -/
def deserializeDoc (bs : Bytes) : Option StoredDoc :=
  (vintDec bs).bind fun (n, r) => (decFields n r).map fun (d, _) => d

end TantivyModel.Store
