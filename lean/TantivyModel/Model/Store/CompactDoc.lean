import TantivyModel.Model.Store.VInt32
/-
`CompactDoc` (`TantivyDocument`): the in-memory form every document has when it is added and
again when it was fetched. All values live in one byte vector `node_data`; a value is referred to
by a `ValueAddr` (type id, address). Arrays and objects are tables of serialized `ValueAddr`s.

mirrors: src/schema/document/default_document.rs::add_value_leaf,
         src/schema/document/default_document.rs::add_value,
         src/schema/document/default_document.rs::write_into,
         src/schema/document/default_document.rs::get_ref_value,
         src/schema/document/default_document.rs::next (CompactDocArrayIter / CompactDocObjectIter),
         src/schema/document/default_document.rs::serialize (ValueAddr),
         src/schema/document/default_document.rs::deserialize (ValueAddr, ValueType)

Values are `StoredValue`s in their *in-memory* reading: `.f64 x` carries the IEEE bits `x` (written
raw by `write_into`), `.date n` the nanoseconds. Addresses are `vec.len() as u32`.
-/
namespace TantivyModel.Store
open TantivyModel

structure VAddr where
  ty : Nat
  addr : Nat
deriving DecidableEq, Repr

/-- `ValueAddr::serialize`: type id, then the address as a VInt -/
def encVAddr (a : VAddr) : Bytes := UInt8.ofNat a.ty :: vintEnc a.addr

/-- `ValueAddr::deserialize` (`ValueType::deserialize` accepts the ids 0..=12; `as u32`) -/
def decVAddr : Bytes → Option (VAddr × Bytes)
  | [] => none
  | t :: r =>
    if t.toNat > Gen.CD_TYPE_ARRAY then none else
    (vintDec r).map fun (a, r') => ({ ty := t.toNat, addr := a % 4294967296 }, r')

mutual
/-- `add_value` / `add_value_leaf`: the grown `node_data` and the address of the value -/
def cdAdd : Bytes → StoredValue → Bytes × VAddr
  | node, .null => (node, ⟨Gen.CD_TYPE_NULL, 0⟩)
  | node, .bool b => (node, ⟨Gen.CD_TYPE_BOOL, if b then 1 else 0⟩)
  | node, .str s => (node ++ cdWriteBytes s, ⟨Gen.CD_TYPE_STR, node.length⟩)
  | node, .facet s => (node ++ cdWriteBytes s, ⟨Gen.CD_TYPE_FACET, node.length⟩)
  | node, .bytes s => (node ++ cdWriteBytes s, ⟨Gen.CD_TYPE_BYTES, node.length⟩)
  | node, .u64 v => (node ++ leBytes 8 v.toNat, ⟨Gen.CD_TYPE_U64, node.length⟩)
  | node, .i64 v => (node ++ leBytes 8 v.toNat, ⟨Gen.CD_TYPE_I64, node.length⟩)
  | node, .f64 v => (node ++ leBytes 8 v.toNat, ⟨Gen.CD_TYPE_F64, node.length⟩)
  | node, .date v => (node ++ leBytes 8 v.toNat, ⟨Gen.CD_TYPE_DATE, node.length⟩)
  | node, .ip v => (node ++ leBytes 16 v.toNat, ⟨Gen.CD_TYPE_IPADDR, node.length⟩)
  | node, .preTok j => (node ++ encStr j, ⟨Gen.CD_TYPE_PRETOKSTR, node.length⟩)
  | node, .array vs =>
    let r := cdAddList node vs
    (r.1 ++ cdWriteBytes r.2, ⟨Gen.CD_TYPE_ARRAY, r.1.length⟩)
  | node, .object es =>
    let r := cdAddEntries node es
    (r.1 ++ cdWriteBytes r.2, ⟨Gen.CD_TYPE_OBJECT, r.1.length⟩)
/-- the elements of an array: each is added, its address appended to the table -/
def cdAddList : Bytes → List StoredValue → Bytes × Bytes
  | node, [] => (node, [])
  | node, v :: vs =>
    let a := cdAdd node v
    let r := cdAddList a.1 vs
    (r.1, encVAddr a.2 ++ r.2)
/-- the entries of an object: the key as a string leaf, then the value -/
def cdAddEntries : Bytes → List (Bytes × StoredValue) → Bytes × Bytes
  | node, [] => (node, [])
  | node, (k, v) :: es =>
    let a := cdAdd (node ++ cdWriteBytes k) v
    let r := cdAddEntries a.1 es
    (r.1, encVAddr ⟨Gen.CD_TYPE_STR, node.length⟩ ++ (encVAddr a.2 ++ r.2))
end

/-- the `ValueAddr`s of a table, as the iterators decode them (they stop at the first error) -/
def decTable : Nat → Bytes → List VAddr
  | 0, _ => []
  | fuel + 1, bs =>
    if bs.isEmpty then [] else
    match decVAddr bs with
    | none => []
    | some (a, r) => a :: decTable fuel r

def readFixed (node : Bytes) (addr k w : Nat) (mk : BitVec w → StoredValue) : Option StoredValue :=
  (readLE k (node.drop addr)).map fun (n, _) => mk (BitVec.ofNat w n)

/-- elements of an array table -/
def cdReadList (f : VAddr → Option StoredValue) : List VAddr → Option (List StoredValue)
  | [] => some []
  | a :: as => (f a).bind fun v => (cdReadList f as).map fun vs => v :: vs

/-- entries of an object table: key address, value address, … (an odd tail is dropped by the
iterator's `.ok()?`) -/
def cdReadEntries (node : Bytes) (f : VAddr → Option StoredValue) :
    List VAddr → Option (List (Bytes × StoredValue))
  | ka :: va :: rest =>
    (cdReadBytes (node.drop ka.addr)).bind fun k => (f va).bind fun v =>
      (cdReadEntries node f rest).map fun es => (k, v) :: es
  | _ => some []

/-- `CompactDocValue::get_ref_value` followed by the conversion into an owned value; `fuel` bounds
the nesting depth -/
def cdRead : Nat → Bytes → VAddr → Option StoredValue
  | 0, _, _ => none
  | fuel + 1, node, a =>
    if a.ty = Gen.CD_TYPE_NULL then some .null
    else if a.ty = Gen.CD_TYPE_BOOL then some (.bool (a.addr ≠ 0))
    else if a.ty = Gen.CD_TYPE_STR then (cdReadBytes (node.drop a.addr)).map .str
    else if a.ty = Gen.CD_TYPE_FACET then (cdReadBytes (node.drop a.addr)).map .facet
    else if a.ty = Gen.CD_TYPE_BYTES then (cdReadBytes (node.drop a.addr)).map .bytes
    else if a.ty = Gen.CD_TYPE_U64 then readFixed node a.addr 8 64 .u64
    else if a.ty = Gen.CD_TYPE_I64 then readFixed node a.addr 8 64 .i64
    else if a.ty = Gen.CD_TYPE_F64 then readFixed node a.addr 8 64 .f64
    else if a.ty = Gen.CD_TYPE_DATE then readFixed node a.addr 8 64 .date
    else if a.ty = Gen.CD_TYPE_IPADDR then readFixed node a.addr 16 128 .ip
    else if a.ty = Gen.CD_TYPE_PRETOKSTR then (decStr (node.drop a.addr)).map fun (j, _) => .preTok j
    else if a.ty = Gen.CD_TYPE_ARRAY then
      (cdReadBytes (node.drop a.addr)).bind fun table =>
        (cdReadList (cdRead fuel node) (decTable (table.length + 1) table)).map .array
    else if a.ty = Gen.CD_TYPE_OBJECT then
      (cdReadBytes (node.drop a.addr)).bind fun table =>
        (cdReadEntries node (cdRead fuel node) (decTable (table.length + 1) table)).map .object
    else none

/-- `add_field_value` for every (field, value) of a document, in order: `node_data` and the root
table `field_values` (field ids are `u16` in the code: more than 65 535 fields panic) -/
def cdAddDoc : Bytes → List (BitVec 32 × StoredValue) → Bytes × List (BitVec 32 × VAddr)
  | node, [] => (node, [])
  | node, (f, v) :: rest =>
    let a := cdAdd node v
    let r := cdAddDoc a.1 rest
    (r.1, (f, a.2) :: r.2)

/-- `field_values()` / `iter_fields_and_values` turned into owned values -/
def cdReadDoc (fuel : Nat) (node : Bytes) : List (BitVec 32 × VAddr) → Option (List (BitVec 32 × StoredValue))
  | [] => some []
  | (f, a) :: rest =>
    (cdRead fuel node a).bind fun v => (cdReadDoc fuel node rest).map fun d => (f, v) :: d

/-- `add_field_value` converts the field id with `try_into().expect(..)`: a field id that does not
fit `FieldValueAddr::field` panics (`none`) -/
def cdAddDocChecked (node : Bytes) (fvs : List (BitVec 32 × StoredValue)) :
    Option (Bytes × List (BitVec 32 × VAddr)) :=
  if fvs.all (fun fv => decide (fv.1.toNat < Gen.CD_FIELD_ID_LIMIT)) then some (cdAddDoc node fvs) else none

end TantivyModel.Store
