import TantivyModel.Model.Merge
import TantivyModel.Gen.MergeGuards
/-!
# Index sorting (C17)

* `sortOrder`   — mirrors: columnar/src/columnar/writer/mod.rs::sort_order /
                  collect_sort_order_from_ops: rows paired with `Option<u64>` keys (first value of
                  the row, `None` when the row has no value), **stable** `sort_by` with the
                  comparator reversed for descending order.
* `oldToNewOf`  — mirrors: src/indexer/doc_id_mapping.rs::DocIdMapping::from_new_id_to_old_id_inner
* `remap`       — mirrors: DocIdMapping::remap, segment_writer.rs::remap_doc_opstamps, the doc
                  store rewrite loop of `remap_and_write`
* `sortedSegment` — everything a segment holds, permuted by the same mapping
* `kmerge`, `stackOk` — mirrors: merger.rs::generate_doc_id_mapping_with_sort_by_field (k-way
                  merge on `first()` / remapped term ordinal) and
                  is_disjunct_and_sorted_on_sort_property (stacking guard)

Keys are `Option Nat`: the order-preserving u64 image of the value (u64 identity, i64 sign flip,
f64 bit trick, date = i64 nanos; for str/bytes the ordinal in the merged dictionary).
-/
namespace TantivyModel.Sorted
open TantivyModel.Merge

abbrev SKey := Option Nat

/-- `Option<u64>`'s `Ord`: `None < Some _` -/
def keyLe : SKey → SKey → Bool
  | none, _ => true
  | some _, none => false
  | some a, some b => a ≤ b

/-- the comparator handed to the sort: reversed when descending -/
def dirLe (desc : Bool) (a b : SKey) : Bool := if desc then keyLe b a else keyLe a b

/-- strict version used by the k-way merge (`val1 < val2` / `val1 > val2`) -/
def dirLt (desc : Bool) (a b : SKey) : Bool := !dirLe desc b a

/-- new→old row ids: stable sort of `(key, row)` pairs by key -/
def sortOrder (keys : List SKey) (desc : Bool) : List Nat :=
  (keys.zipIdx.mergeSort fun a b => dirLe desc a.1 b.1).map (·.2)

/-- `old_doc_id_to_new = vec![0; max+1]; for i { old_to_new[new_to_old[i]] = i }` -/
def fillInv : List Nat → Nat → List Nat → List Nat
  | acc, _, [] => acc
  | acc, i, old :: rest => fillInv (acc.set old i) (i + 1) rest

def oldToNewOf (n2o : List Nat) : List Nat :=
  fillInv (List.replicate (n2o.foldl (fun m x => max m (x + 1)) 0) 0) 0 n2o

/-- `new_doc_id_to_old.iter().map(|old| els[old])` -/
def remap {α} (n2o : List Nat) (els : List α) : List α := n2o.filterMap fun o => els[o]?

/-- a segment as the `SegmentWriter` holds it before finalisation (insertion order) -/
structure RawSeg (α : Type) where
  docs : List α
  opstamps : List Nat
  terms : List (Key × List Posting)

/-- postings re-emitted through old→new and brought back to increasing doc order -/
def remapPostingList (o2n : List Nat) (ps : List Posting) : List Posting :=
  (ps.map fun p => { p with doc := o2n.getD p.doc 0 }).mergeSort fun a b => a.doc ≤ b.doc

/-- mirrors: src/indexer/segment_writer.rs::remap_and_write + remap_doc_opstamps — one
permutation for postings, per-doc data (norms, columns, store) and opstamps -/
def sortedSegment {α} (s : RawSeg α) (keys : List SKey) (desc : Bool) : RawSeg α :=
  let n2o := sortOrder keys desc
  let o2n := oldToNewOf n2o
  { docs := remap n2o s.docs
    opstamps := remap n2o s.opstamps
    terms := s.terms.map fun t => (t.1, remapPostingList o2n t.2) }

/-- the term view of one document: every term it contains with tf and positions -/
def docTerms (terms : List (Key × List Posting)) (d : Nat) : List (Key × Nat × List Nat) :=
  terms.filterMap fun t => (t.2.find? fun p => p.doc == d).map fun p => (t.1, p.tf, p.pos)

/-- `DocToOpstampMapping::WithMap(..).is_deleted(doc, delete_opstamp)`: only older docs -/
def deleteHits (matches_ : List Bool) (opstamps : List Nat) (delOpstamp : Nat) : List Bool :=
  (matches_.zip opstamps).map fun (m, o) => m && decide (o < delOpstamp)

/-! ### merging sorted segments -/

/-- one source of a merge: live docs in doc-id order with their keys (`first()` or merged
ordinal) and addresses -/
abbrev Run := List (SKey × Nat × Nat)

/-- k-way merge by key (`kmerge_by`) as a fold of two-way merges -/
def kmerge (desc : Bool) (runs : List Run) : Run :=
  runs.foldr (fun r acc => List.merge r acc fun a b => dirLe desc a.1 b.1) []

/-- `Pairwise` sortedness of a key sequence in the configured direction -/
def sortedKeys (desc : Bool) (ks : List SKey) : Prop := ks.Pairwise fun a b => dirLe desc a b = true

/-- column statistics of a source: `(min_value, max_value)` -/
abbrev Stats := Nat × Nat

/-- `tuple_windows().all(|(c1, c2)| if asc { c1.max <= c2.min } else { c1.min >= c2.max })` -/
def disjunct (desc : Bool) : List Stats → Bool
  | [] => true
  | [_] => true
  | a :: b :: rest => (if desc then b.2 ≤ a.1 else a.2 ≤ b.1) && disjunct desc (b :: rest)

/-- mirrors: merger.rs::is_disjunct_and_sorted_on_sort_property (numeric sort fields): value
ranges pairwise disjunct in reader order and no live document without a value -/
def stackOk (desc : Bool) (stats : List Stats) (runs : List Run) : Bool :=
  disjunct desc stats && runs.all fun r => r.all fun x => x.1.isSome

/-- `columnar::Cardinality` of the sort column of one segment -/
inductive Card
  | full
  | optional
  | multivalued
deriving DecidableEq, Repr

/-- mirrors: src/indexer/merger.rs::segment_has_live_nulls — only an `Optional` column is
inspected; without deletes it certainly has a row without value; otherwise the alive docs are
scanned for `first(doc) == None` -/
def hasLiveNulls (card : Card) (keys : List SKey) (alive : List Bool) : Bool :=
  match card with
  | .optional => if !hasDeletes alive then true else (liveDocs keys alive).any (·.isNone)
  | _ => false

/-- the sort column of one merge source: cardinality, `first()` of every doc (deleted ones
included), alive bitset, column statistics `(min_value, max_value)` -/
structure SegCol where
  card : Card
  keys : List SKey
  alive : List Bool
  stats : Stats

def SegCol.liveKeys (c : SegCol) : List SKey := liveDocs c.keys c.alive

/-- mirrors: src/indexer/merger.rs::is_disjunct_and_sorted_on_sort_property (numeric sort
field): stack iff the value ranges are disjunct in reader order and no reader has a live doc
without value -/
def stackDecision (desc : Bool) (cs : List SegCol) : Bool :=
  disjunct desc (cs.map (·.stats)) && !(cs.any fun c => hasLiveNulls c.card c.keys c.alive)

/-- the REPAIRED scan (pending fix `C17-live-nulls-scan-covers-multivalued-sort-columns`): only a
`Full` column is exempt; the no-deletes shortcut is used for `Optional` columns only; a
`Multivalued` column is scanned like an `Optional` one with deletes -/
def hasLiveNullsFixed (card : Card) (keys : List SKey) (alive : List Bool) : Bool :=
  match card with
  | .full => false
  | .optional => if !hasDeletes alive then true else (liveDocs keys alive).any (·.isNone)
  | .multivalued => (liveDocs keys alive).any (·.isNone)

/-- the scan the current source performs (guard `Gen.LIVE_NULLS_SCANS_MULTIVALUED`) -/
def hasLiveNullsG (card : Card) (keys : List SKey) (alive : List Bool) : Bool :=
  if Gen.LIVE_NULLS_SCANS_MULTIVALUED = 1 then hasLiveNullsFixed card keys alive
  else hasLiveNulls card keys alive

/-- the decision with an arbitrary live-null scan -/
def stackDecisionWith (scan : Card → List SKey → List Bool → Bool) (desc : Bool) (cs : List SegCol) : Bool :=
  disjunct desc (cs.map (·.stats)) && !(cs.any fun c => scan c.card c.keys c.alive)

/-- the decision as far as the current source is known to have the mirrored shape (guards
extracted into `Gen/MergeGuards`): `none` = the scan or the decision was edited, no prediction -/
def stackDecisionG (desc : Bool) (cs : List SegCol) : Option Bool :=
  if Gen.LIVE_NULLS_SCAN_SHAPE = 1 ∧ Gen.STACK_DECISION_SHAPE = 1 then
    some (stackDecisionWith hasLiveNullsG desc cs)
  else none

/-- what the columnar format guarantees about a column of the given cardinality: `Full` = every
row has a value; `Optional` = some row has none (otherwise the writer would have chosen `Full`);
`Multivalued` guarantees nothing about rows without value -/
def CardOk (c : SegCol) : Prop :=
  match c.card with
  | .full => ∀ k ∈ c.keys, k.isSome = true
  | .optional => ∃ k ∈ c.keys, k = none
  | .multivalued => True

/-- column statistics cover every stored value (of deleted docs too) -/
def StatsOk (c : SegCol) : Prop := ∀ k ∈ c.keys, ∀ v, k = some v → c.stats.1 ≤ v ∧ v ≤ c.stats.2

/-- Key sequences (doc-id order) of every segment a sorted index can come to hold, whatever the
history: a FRESH segment is written in `sort_order`; deletes only clear alive bits and a merge
writes the live docs only (`live`); a merge is either the k-way merge of its sources' live docs
(`kway`) or — when the decision procedure says so and the columns are `Full`/`Optional` with
statistics covering their values — the plain stacking of the readers (`stack`). Merged segments
are sources of later merges. -/
inductive ReachableKeys (desc : Bool) : List SKey → Prop
  | fresh (keys : List SKey) : ReachableKeys desc ((sortOrder keys desc).filterMap (keys[·]?))
  | live (ks : List SKey) (alive : List Bool) : ReachableKeys desc ks →
      ReachableKeys desc (liveDocs ks alive)
  | kway (runs : List Run) : (∀ r ∈ runs, ReachableKeys desc (r.map (·.1))) →
      ReachableKeys desc ((kmerge desc runs).map (·.1))
  | stack (cs : List SegCol) : (∀ c ∈ cs, ReachableKeys desc c.keys) →
      (∀ c ∈ cs, c.keys.length = c.alive.length) → (∀ c ∈ cs, CardOk c) →
      (∀ c ∈ cs, c.card = .multivalued → Gen.LIVE_NULLS_SCANS_MULTIVALUED = 1) →
      (∀ c ∈ cs, StatsOk c) → (∀ c ∈ cs, c.liveKeys ≠ []) →
      stackDecisionG desc cs = some true →
      ReachableKeys desc ((cs.map SegCol.liveKeys).flatten)

/-- mirrors: columnar `compute_merged_term_ord_mapping` as used by
`merger.rs::StrBytesSortFieldAccessor::remapped_term_ord` (str / bytes sort fields): the merged
dictionary is the sorted, duplicate-free union of the segments' dictionaries; a term's merged
ordinal is its position in it. Segment-local ordinals are positions in the segment's own sorted
dictionary, so `remapped_term_ord(doc) = mergedOrd dicts (dict_i[local_ord])`. -/
def mergedDict (dicts : List (List Key)) : List Key := keyUnion dicts
def mergedOrd (dicts : List (List Key)) (k : Key) : Nat := (mergedDict dicts).idxOf k

/-- `sort_readers_by_min_sort_field`: stable sort of the readers by `min_value` -/
def sortReaders {β} (desc : Bool) (rs : List (Stats × β)) : List (Stats × β) :=
  rs.mergeSort fun a b => if desc then b.1.1 ≤ a.1.1 else a.1.1 ≤ b.1.1

end TantivyModel.Sorted
