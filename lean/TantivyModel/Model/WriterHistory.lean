import TantivyModel.Model.WriterSpec
/-
The hypotheses of `C02_commit_refines_replay_history`, decided on an API history by a scan with
three flags.  `okHistB` is what the driver answers to `C02 clean …` (the harness uses that answer
to decide whether a deviation from `replay` may be attributed to a known finding at all);
`Proofs/WriterHistory.lean` proves `okHistB f h = true ↔ okHist f h` and that `okHist` implies the
state-level hypotheses along every run.
-/
namespace TantivyModel.Writer
open TantivyModel.WriterSpec

variable {α : Type}

/-- `txDirty`: an add / delete / non-empty batch since the last commit or rollback;
`sessDel`: a delete since the writer was (re-)created; `fresh`: nothing stamped since `rollback` -/
structure HFlags where
  txDirty : Bool
  sessDel : Bool
  fresh : Bool

def HFlags.init : HFlags := ⟨false, false, false⟩

def hasDel (items : List (Item α)) : Bool := items.any (fun it => match it with | .del _ => true | .add _ => false)

def firstIsDel : List (Item α) → Bool
  | .del _ :: _ => true
  | _ => false

def hstepOp (f : HFlags) : Op α → HFlags
  | .add _ => { f with txDirty := true, fresh := false }
  | .del _ => ⟨true, true, false⟩
  | .batch items => ⟨f.txDirty || !items.isEmpty, f.sessDel || hasDel items, false⟩
  | .deleteAll => { f with fresh := false }
  | .commit _ => ⟨false, f.sessDel, false⟩
  | .rollback => ⟨false, false, true⟩
  | .prepare => { f with fresh := false }

/-- `delete_all_documents` only with nothing pending and no delete issued by this writer; the first
operation of a re-created writer is not a delete (nor a batch starting with one) -/
def okOpB (f : HFlags) : Op α → Bool
  | .deleteAll => !f.txDirty && !f.sessDel
  | .del _ => !f.fresh
  | .batch items => !f.fresh || !firstIsDel items
  | _ => true

def okHistB (f : HFlags) : List (Op α) → Bool
  | [] => true
  | op :: ops => okOpB f op && okHistB (hstepOp f op) ops

end TantivyModel.Writer
