import TantivyModel.Model.PostingsCodec
/-!
# Position stream of one term (C07)

Layout (`PositionSerializer::close_term`): VInt(number of bit-packed blocks), one bit width byte
per block, the bit-packed 128-blocks (values as they are, not minus one), then the last `< 128`
deltas as VInts.  The reader is modelled observationally (`read offset len` = slice of the decoded
stream); its anchor / block_offset caching is not mirrored.

-- mirrors: src/positions/serializer.rs::write_positions_delta
-- mirrors: src/positions/serializer.rs::flush_block
-- mirrors: src/positions/serializer.rs::close_term
-- mirrors: src/positions/reader.rs::open
-- mirrors: src/positions/reader.rs::load_block
-- mirrors: src/positions/reader.rs::read
-/
namespace TantivyModel.Positions
open TantivyModel.Postings

/-- `k` full blocks then the tail: (bit widths, bytes) -/
def encBlocks (c : Cfg) : Nat → List Nat → List Nat × List Nat
  | 0, l => ([], VInt.encList c.S l)
  | k + 1, l =>
    let r := encBlocks c k (l.drop c.B)
    (numBits (l.take c.B) :: r.1, c.P.pack (numBits (l.take c.B)) (l.take c.B) ++ r.2)

def encode (c : Cfg) (ds : List Nat) : List Nat :=
  let r := encBlocks c (ds.length / c.B) ds
  VInt.enc c.S r.1.length ++ r.1 ++ r.2

/-- decode the blocks announced by the bit widths, then VInts until the end -/
def decBlocks (c : Cfg) : List Nat → List Nat → Option (List Nat)
  | [], data => some (VInt.decAll c.S data)
  | w :: ws, data =>
    if data.length < w * c.B / 8 then none else
    match decBlocks c ws (data.drop (w * c.B / 8)) with
    | none => none
    | some r => some (c.P.unpack w data ++ r)

def decode (c : Cfg) (bytes : List Nat) : Option (List Nat) :=
  match VInt.dec c.S bytes with
  | none => none
  | some (n, r) => if r.length < n then none else decBlocks c (r.take n) (r.drop n)

/-- `PositionReader::read(offset, out[..len])` -/
def read (c : Cfg) (bytes : List Nat) (offset len : Nat) : Option (List Nat) :=
  (decode c bytes).map (fun all => (all.drop offset).take len)

/-- `append_positions_with_offset(0, ..)`: prefix sums of the deltas -/
def positionsOfDeltas (ds : List Nat) : List Nat := integrate 0 ds

/-- deltas the recorder hands to the serializer for one document (`TfAndPositionRecorder`) -/
def deltasOfPositions (ps : List Nat) : List Nat := deltas 0 ps

end TantivyModel.Positions
