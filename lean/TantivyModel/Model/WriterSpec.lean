/-
Specification of the index writer (property C02): the sequential meaning of a history of API
calls.  Meant to be read in a minute.

A document is any value of a type `α` (the harness uses the unique id it stores in every
document); a delete query is its meaning `α → Bool` (the matching of a query inside a segment is
C03's subject, here it is a parameter).

`replay h` = what a user who reads the documentation of `IndexWriter` expects after issuing the
calls of `h` one after the other:
  * `add d` appends `d` to the working state,
  * `del q` removes the documents matching `q` **that are present at that point**,
  * `batch items` applies its items in order,
  * `deleteAll` empties the working state,
  * `commit p` publishes the working state (with payload `p`),
  * `rollback` (also: `PreparedCommit::abort`, dropping the writer and opening a new one)
    discards everything since the last commit,
  * `prepare` (a `prepare_commit` whose `PreparedCommit` is dropped) changes nothing.
The opstamp clock of the specification is the documented one: every add / delete / batch item /
batch / commit draws the next stamp.
-/
namespace TantivyModel.WriterSpec

/-- one item of `IndexWriter::run` (`UserOperation`) -/
inductive Item (α : Type) where
  | add (d : α)
  | del (q : α → Bool)

/-- one call of the public API -/
inductive Op (α : Type) where
  | add (d : α)
  | del (q : α → Bool)
  | batch (items : List (Item α))
  | deleteAll
  | commit (payload : Option Nat)
  | rollback
  | prepare

structure SpecState (α : Type) where
  /-- what a freshly loaded searcher shows -/
  committed : List α
  /-- the working state: what the next commit would publish -/
  pending : List α
  /-- opstamp of the last commit -/
  lastCommit : Nat
  payload : Option Nat
  /-- next opstamp -/
  clock : Nat

def SpecState.init {α : Type} : SpecState α :=
  { committed := [], pending := [], lastCommit := 0, payload := none, clock := 0 }

def applyItem {α : Type} (docs : List α) : Item α → List α
  | .add d => docs ++ [d]
  | .del q => docs.filter (fun d => !q d)

def specStep {α : Type} (s : SpecState α) : Op α → SpecState α
  | .add d => { s with pending := s.pending ++ [d], clock := s.clock + 1 }
  | .del q => { s with pending := s.pending.filter (fun d => !q d), clock := s.clock + 1 }
  | .batch items =>
      { s with pending := items.foldl applyItem s.pending, clock := s.clock + items.length + 1 }
  | .deleteAll => { s with pending := [] }
  | .commit p =>
      { s with committed := s.pending, lastCommit := s.clock, payload := p, clock := s.clock + 1 }
  | .rollback => { s with pending := s.committed, clock := s.lastCommit }
  | .prepare => { s with clock := s.clock + 1 }

/-- the sequential effect of a history -/
def replayFrom {α : Type} (s : SpecState α) (h : List (Op α)) : SpecState α := h.foldl specStep s

def replay {α : Type} (h : List (Op α)) : SpecState α := replayFrom SpecState.init h

end TantivyModel.WriterSpec
