import TantivyModel.Gen.TopK
/-!
# Top-K collection (C06): specification and implementation-level model

Specification: `topK le K O l` = sort `l` by `(key desc, address asc)`, drop `O`, take `K`.

Model of the mechanism of `src/collector/top_score_collector.rs` (`TopNComputer`),
`src/collector/sort_key/sort_by_score.rs` (`TopNHeap`, pruning callback),
`src/collector/sort_key_top_collector.rs` (`merge_top_k`, per-segment collection) and
`src/query/weight.rs::for_each_pruning_scorer`.

A comparator `C: Comparator<T>` is represented by its strict part
`gt a b  ⇔  C.compare(a, b) == Ordering::Greater`; the laws assumed of it (strict weak order)
are hypotheses of the theorems (`Proofs/TopN.lean`), never of the definitions.
No Mathlib.
-/
namespace TantivyModel.TopN

/-- `ComparableDoc { sort_key, doc }`; `addr` is the `DocId` / `DocAddress` (ordered). -/
structure Entry (α : Type) where
  key : α
  addr : Nat
deriving Repr, DecidableEq

variable {α : Type} {β : Type}

/-- mirrors: src/collector/top_score_collector.rs::compare_for_top_k.
`le gt a b  ⇔  compare_for_top_k(a, b) != Greater` : better key first, ties by ascending address. -/
def le (gt : α → α → Bool) (a b : Entry α) : Bool :=
  gt a.key b.key || (!gt b.key a.key && decide (a.addr ≤ b.addr))

/-! ## Specification -/

/-- ordered insertion (after the elements that are `le` the new one) -/
def ins (le : β → β → Bool) (e : β) : List β → List β
  | [] => [e]
  | x :: xs => if le x e then x :: ins le e xs else e :: x :: xs

/-- insertion sort: the reference meaning of "the complete result list ordered by the sort key" -/
def isort (le : β → β → Bool) (l : List β) : List β := l.foldr (ins le) []

/-- SPEC: entries `O .. O+K` of the complete ordered result list -/
def topK (le : β → β → Bool) (K O : Nat) (l : List β) : List β := ((isort le l).drop O).take K

/-! ## `TopNComputer` -/

/-- mirrors: top_score_collector.rs::TopNComputer (`buffer`, `top_n`, `threshold`); `panicked`
records that the Rust code would have panicked (`select_nth_unstable_by` index out of bounds). -/
structure Computer (α : Type) where
  buffer : List (Entry α)
  topN : Nat
  threshold : Option α
  panicked : Bool := false

/-- mirrors: src/collector/top_score_collector.rs::new_with_comparator — `vec_cap = top_n.max(1) * 2` (both constants
regenerated from the source) -/
def Computer.cap (c : Computer α) : Nat := Nat.max c.topN Gen.TOPN_CAP_MIN * Gen.TOPN_CAP_FACTOR

def Computer.new (K : Nat) : Computer α := { buffer := [], topN := K, threshold := none }

/-- mirrors: src/collector/top_score_collector.rs::truncate_top_n. `sel` is `select_nth_unstable_by(top_n, compare_for_top_k)`:
any function rearranging the buffer (its contract is a hypothesis of the theorems).
Returns the median key and the truncated buffer; `none` = index out of bounds (Rust panics). -/
def truncateTopN (sel : List (Entry α) → List (Entry α)) (c : Computer α) :
    Option (α × List (Entry α)) :=
  let r := sel c.buffer
  match r.drop c.topN with
  | m :: _ => some (m.key, r.take c.topN)
  | [] => none

/-- mirrors: src/collector/top_score_collector.rs::append_doc -/
def appendDoc (sel : List (Entry α) → List (Entry α)) (c : Computer α) (e : Entry α) : Computer α :=
  if c.buffer.length = c.cap then
    match truncateTopN sel c with
    | some (median, buf) => { c with buffer := buf ++ [e], threshold := some median }
    | none => { c with panicked := true }
  else { c with buffer := c.buffer ++ [e] }

/-- mirrors: src/collector/top_score_collector.rs::push — strict threshold: `compare(key, threshold) != Greater` ⇒ ignored -/
def push (gt : α → α → Bool) (sel : List (Entry α) → List (Entry α)) (c : Computer α) (e : Entry α) :
    Computer α :=
  match c.threshold with
  | some t => if gt e.key t then appendDoc sel c e else c
  | none => appendDoc sel c e

def pushAll (gt : α → α → Bool) (sel : List (Entry α) → List (Entry α)) (c : Computer α)
    (es : List (Entry α)) : Computer α :=
  es.foldl (push gt sel) c

/-- mirrors: src/collector/top_score_collector.rs::into_vec (stored order) -/
def intoVec (sel : List (Entry α) → List (Entry α)) (c : Computer α) : List (Entry α) :=
  if c.topN < c.buffer.length then
    match truncateTopN sel c with
    | some (_, buf) => buf
    | none => []
  else c.buffer

/-- mirrors: src/collector/top_score_collector.rs::into_sorted_vec. `sort_unstable_by(compare_for_top_k)` is modelled by
`isort`: on entries with distinct addresses the order is strict, so every correct sort returns
the same list (`Proofs/TopN.lean::sorted_perm_unique`). -/
def intoSortedVec (gt : α → α → Bool) (sel : List (Entry α) → List (Entry α)) (c : Computer α) :
    List (Entry α) :=
  isort (le gt) (intoVec sel c)

/-! ## per-segment collection, `merge_fruits`, offset -/

/-- mirrors: SortKeyComputer::collect_segment_top_k + TopBySortKeySegmentCollector::harvest —
documents of one segment pushed in ascending doc id, fruit = `into_vec()` (unsorted). -/
def collectSegment (gt : α → α → Bool) (sel : List (Entry α) → List (Entry α)) (N : Nat)
    (docs : List (Entry α)) : List (Entry α) :=
  intoVec sel (pushAll gt sel (Computer.new N) docs)

/-- mirrors: src/collector/sort_key_top_collector.rs::merge_top_k with `doc_range = O .. O+K` (as
fixed by "merge_top_k: sort the collected fruits"): all per-segment fruits are collected, sorted
(stable `sort_by`) by `(comparator desc, address asc)`, then `skip(O).take(K)`. The sort is
modelled by `isort`: on entries with distinct addresses the order is strict, so every correct
sort returns the same list. -/
def mergeTopK (gt : α → α → Bool) (K O : Nat) (fruits : List (List (Entry α))) : List (Entry α) :=
  if K = 0 then []
  else ((isort (le gt) fruits.flatten).drop O).take K

/-- mirrors: Searcher::search_with_executor with a `TopBySortKeyCollector` (generic sort key) -/
def search (gt : α → α → Bool) (sel : List (Entry α) → List (Entry α)) (K O : Nat)
    (segments : List (List (Entry α))) : List (Entry α) :=
  mergeTopK gt K O (segments.map (collectSegment gt sel (O + K)))

/-- `merge_top_k` as it was coded BEFORE that fix (the unsorted fruits pushed into a
`TopNComputer`); kept only to state the counterexample that motivated the fix
(`C06_merge_unsorted_counterexample`, finding `C06:merge-ties-unsorted-fruits`, fixed). -/
def mergeTopKPushed (gt : α → α → Bool) (sel : List (Entry α) → List (Entry α)) (K O : Nat)
    (fruits : List (List (Entry α))) : List (Entry α) :=
  if K = 0 then []
  else (intoSortedVec gt sel (pushAll gt sel (Computer.new (O + K)) fruits.flatten)).drop O

def searchPushed (gt : α → α → Bool) (sel : List (Entry α) → List (Entry α)) (K O : Nat)
    (segments : List (List (Entry α))) : List (Entry α) :=
  mergeTopKPushed gt sel K O (segments.map (collectSegment gt sel (O + K)))

/-! ## `TopNHeap` (collection by score) and the pruning contract -/

/-- mirrors: sort_by_score.rs::TopNHeap. The `BinaryHeap<Reverse<ScoreHeapEntry>>` is modelled by
its content kept sorted by `le` (best first); `peek()` = the last element (lowest score, among
equal scores the highest doc). `into_vec()` returns the content in heap order, i.e. some
permutation of `heap`. -/
structure Heap (α : Type) where
  heap : List (Entry α)
  topN : Nat
  threshold : Option α

def Heap.new (K : Nat) : Heap α := { heap := [], topN := K, threshold := none }

/-- mirrors: src/collector/sort_key/sort_by_score.rs::push -/
def heapPush (gt : α → α → Bool) (h : Heap α) (e : Entry α) : Heap α :=
  if h.heap.length < h.topN then
    let hp := ins (le gt) e h.heap
    { h with heap := hp,
             threshold := if hp.length = h.topN then hp.getLast?.map (·.key) else h.threshold }
  else
    match h.threshold with
    | some t =>
      if gt e.key t then
        let hp := ins (le gt) e h.heap.dropLast
        { h with heap := hp, threshold := hp.getLast?.map (·.key) }
      else h
    | none => h

/-- a document offered to the collector: deleted documents are seen by the callback but not pushed -/
structure Cand (α : Type) where
  entry : Entry α
  alive : Bool := true

/-- `score > threshold` with `threshold = Score::MIN` modelled as `none` (= below every score) -/
def above (gt : α → α → Bool) (k : α) : Option α → Bool
  | none => true
  | some t => gt k t

/-- mirrors: src/collector/sort_key/sort_by_score.rs::collect_segment_top_k (the callback built there): returns the new
threshold (`top_n.threshold.unwrap_or(Score::MIN)`); a deleted doc returns the old threshold. -/
def callback (gt : α → α → Bool) (st : Heap α × Option α) (c : Cand α) : Heap α × Option α :=
  if c.alive then
    let h := heapPush gt st.1 c.entry
    (h, h.threshold)
  else st

/-- mirrors: src/query/weight.rs::for_each_pruning_scorer — the exhaustive driver -/
def forEachPruning (gt : α → α → Bool) (st : Heap α × Option α) (cs : List (Cand α)) :
    Heap α × Option α :=
  cs.foldl (fun st c => if above gt c.entry.key st.2 then callback gt st c else st) st

/-- a pruning driver (block-max WAND etc.): like `forEachPruning`, but it may also *skip*
documents; `skip i` says whether the i-th candidate is skipped (never scored). -/
def prunedRun (gt : α → α → Bool) : (Heap α × Option α) → List (Cand α × Bool) → Heap α × Option α
  | st, [] => st
  | st, (c, skipped) :: rest =>
    if skipped then prunedRun gt st rest
    else prunedRun gt (if above gt c.entry.key st.2 then callback gt st c else st) rest

/-- hypothesis `SkipsBelow`: every skipped document's key is not above the threshold in force
when it is skipped -/
def skipsBelow (gt : α → α → Bool) : (Heap α × Option α) → List (Cand α × Bool) → Bool
  | _, [] => true
  | st, (c, skipped) :: rest =>
    if skipped then !above gt c.entry.key st.2 && skipsBelow gt st rest
    else skipsBelow gt (if above gt c.entry.key st.2 then callback gt st c else st) rest

/-! ## concrete `select_nth` behaviours used by the driver -/

/-- a `select_nth` that sorts completely -/
def selSorted (gt : α → α → Bool) (l : List (Entry α)) : List (Entry α) := isort (le gt) l

/-- an adversarial `select_nth`: the K best in reverse order, then the (K+1)-th, then the rest
reversed -/
def selReversed (gt : α → α → Bool) (K : Nat) (l : List (Entry α)) : List (Entry α) :=
  let s := isort (le gt) l
  (s.take K).reverse ++ (s.drop K).take 1 ++ ((s.drop K).drop 1).reverse

end TantivyModel.TopN
