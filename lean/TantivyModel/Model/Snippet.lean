import TantivyModel.Model.Tokenizer.Basic
import TantivyModel.Gen.Tokenizer
/-!
# Snippet generation (C19): search_fragments, select_best_fragment_combination,
collapse_overlapped_ranges, Snippet::to_html

Scores are natural numbers (the harness uses term scores that are exact dyadic fractions, so
`f32` sums are exact and comparable as integers). Which tokens are query terms
(`terms.get(&token.text.to_lowercase())`) is a parameter attached to each token.
`none` results stand for the places where the Rust code panics: a `usize` subtraction that
underflows (overflow checks on) or a `str` slice that is reversed / off a character boundary.
-/
namespace TantivyModel.Snip
open TantivyModel.Tok

/-- a token as seen by the snippet generator -/
structure STok where
  from_ : Nat
  to : Nat
  /-- `terms.get(&token.text.to_lowercase())` -/
  score : Option Nat
  deriving Repr, DecidableEq

/-- what the snippet generator sees of a token, `sc` = the term lookup
`terms.get(&token.text.to_lowercase())` (any function) -/
def toSTok (sc : Token → Option Nat) (t : Token) : STok := ⟨t.from_, t.to, sc t⟩

/-- `FragmentCandidate` -/
structure Frag where
  score : Nat
  start : Nat
  stop : Nat
  hl : List (Nat × Nat)
  deriving Repr, DecidableEq

-- mirrors: src/snippet/mod.rs::new
def Frag.new (o : Nat) : Frag := ⟨0, o, o, []⟩

/-- how `try_add_token` moves the fragment's stop offset, read from the source by the extractor:
0 = `self.stop_offset = token.offset_to` (plain assignment: the *last* token decides),
otherwise `self.stop_offset = self.stop_offset.max(token.offset_to)` (running maximum) -/
def stopMode : Nat := Gen.SNIPPET_STOP_OFFSET_IS_MAX

def stopAfter (mode : Nat) (stop tokenTo : Nat) : Nat :=
  if mode = 0 then tokenTo else max stop tokenTo

/-- every token moves the stop offset (`stopAfter`); term tokens add score and a highlight
-- mirrors: src/snippet/mod.rs::try_add_token -/
def Frag.add (mode : Nat) (f : Frag) (t : STok) : Frag :=
  match t.score with
  | some sc => { f with stop := stopAfter mode f.stop t.to, score := f.score + sc,
                        hl := f.hl ++ [(t.from_, t.to)] }
  | none => { f with stop := stopAfter mode f.stop t.to }

/-- `if fragment.score > 0.0 { fragments.push(fragment) }` -/
def emit (f : Frag) : List Frag := if f.score > 0 then [f] else []

/-- the loop of `search_fragments`; `none` = `next.offset_to - fragment.start_offset` underflows.
A token that would make the fragment longer than `M` *bytes* closes it and becomes the first
token of a new fragment **unconditionally**.
-- mirrors: src/snippet/mod.rs::search_fragments -/
def searchAux (mode M : Nat) : Frag → List STok → Option (List Frag)
  | f, [] => some (emit f)
  | f, t :: ts =>
    if t.to < f.start then none
    else if t.to - f.start > M then
      (searchAux mode M ((Frag.new t.from_).add mode t) ts).map (emit f ++ ·)
    else searchAux mode M (f.add mode t) ts

def searchFragments (mode M : Nat) (ts : List STok) : Option (List Frag) :=
  searchAux mode M (Frag.new 0) ts

/-- `compare(x, y) == Greater` for the comparator given to `max_by`: higher score, ties broken
towards the smaller `(start_offset, stop_offset)` -/
def better (x y : Frag) : Bool :=
  if x.score ≠ y.score then decide (x.score > y.score)
  else decide (y.start > x.start) || (y.start == x.start && decide (y.stop > x.stop))

/-- `Iterator::max_by` = `reduce(|x, y| if compare(x, y) == Greater { x } else { y })`
-- mirrors: src/snippet/mod.rs::select_best_fragment_combination -/
def selectBest : List Frag → Option Frag
  | [] => none
  | f :: fs => some (fs.foldl (fun x y => if better x y then x else y) f)

/-- `Snippet`: the fragment as its own string, highlights relative to it -/
structure Snippet where
  fragment : Text
  hl : List (Nat × Nat)
  deriving Repr, DecidableEq

/-- `&text[start..stop]` and `item.start - start .. item.end - start`; `none` = panic -/
def mkSnippet (s : Text) (f : Frag) : Option Snippet :=
  match sliceB s f.start f.stop with
  | none => none
  | some frag =>
    if f.hl.all (fun h => decide (f.start ≤ h.1) && decide (f.start ≤ h.2)) then
      some ⟨frag, f.hl.map (fun h => (h.1 - f.start, h.2 - f.start))⟩
    else none

/-- `SnippetGenerator::snippet(text)` given the analyzed tokens -/
def snippet (mode : Nat) (s : Text) (M : Nat) (ts : List STok) : Option Snippet :=
  match searchFragments mode M ts with
  | none => none
  | some frags =>
    match selectBest frags with
    | none => some ⟨[], []⟩
    | some f => mkSnippet s f

/-! ### collapse_overlapped_ranges -/

/-- order of `sort_by_key(|r| (r.start, r.end))` -/
def rle (a b : Nat × Nat) : Bool := decide (a.1 < b.1) || (a.1 == b.1 && decide (a.2 ≤ b.2))

def insertR (x : Nat × Nat) : List (Nat × Nat) → List (Nat × Nat)
  | [] => [x]
  | y :: ys => if rle x y then x :: y :: ys else y :: insertR x ys

/-- the sorted vector (keys are the whole elements, so every stable sort gives this list) -/
def sortR (l : List (Nat × Nat)) : List (Nat × Nat) := l.foldr insertR []

/-- `Vec::dedup` -/
def dedupR : List (Nat × Nat) → List (Nat × Nat)
  | [] => []
  | [x] => [x]
  | x :: y :: r => if x = y then dedupR (y :: r) else x :: dedupR (y :: r)

/-- `cur` = `result.last_mut()`: merged only on a true overlap (`last.end > range.start`)
-- mirrors: src/snippet/mod.rs::merge_overlapping_ranges -/
def mergeAux : (Nat × Nat) → List (Nat × Nat) → List (Nat × Nat)
  | cur, [] => [cur]
  | cur, r :: rs =>
    if cur.2 > r.1 then mergeAux (cur.1, max cur.2 r.2) rs else cur :: mergeAux r rs

def mergeOverlapping : List (Nat × Nat) → List (Nat × Nat)
  | [] => []
  | r :: rs => mergeAux r rs

-- mirrors: src/snippet/mod.rs::collapse_overlapped_ranges
-- mirrors: src/snippet/mod.rs::sort_and_deduplicate_ranges
def collapse (l : List (Nat × Nat)) : List (Nat × Nat) := mergeOverlapping (dedupR (sortR l))

/-! ### to_html -/

/-- pieces of the rendered HTML -/
inductive Html where
  | raw (c : Nat)   -- a scalar value copied verbatim
  | ent (c : Nat)   -- the entity standing for scalar value c
  | open_           -- snippet prefix `<b>`
  | close           -- snippet postfix `</b>`
  deriving Repr, DecidableEq

/-- the five characters `htmlescape::encode_minimal` replaces: `"` `&` `'` `<` `>` -/
def isSpecial (c : Nat) : Bool := c == 0x22 || c == 0x26 || c == 0x27 || c == 0x3C || c == 0x3E

def escape (t : Text) : List Html :=
  t.map (fun c => if isSpecial c.code then Html.ent c.code else Html.raw c.code)

/-- the loop of `to_html` over the collapsed ranges; `none` = a slice of the fragment panics
-- mirrors: src/snippet/mod.rs::to_html -/
def toHtmlAux (frag : Text) : Nat → List (Nat × Nat) → Option (List Html)
  | startFrom, [] => (sliceB frag startFrom (byteLen frag)).map escape
  | startFrom, (a, b) :: rest =>
    match sliceB frag startFrom a, sliceB frag a b, toHtmlAux frag b rest with
    | some x, some y, some z => some (escape x ++ [Html.open_] ++ escape y ++ [Html.close] ++ z)
    | _, _, _ => none

def toHtml (sn : Snippet) : Option (List Html) := toHtmlAux sn.fragment 0 (collapse sn.hl)

/-- un-escape and strip the tags -/
def strip : List Html → List Nat
  | [] => []
  | .raw c :: r => c :: strip r
  | .ent c :: r => c :: strip r
  | .open_ :: r => strip r
  | .close :: r => strip r

end TantivyModel.Snip

namespace TantivyModel.Snip

/-! ### the rendering as characters, and its inverse -/

/-- the text `htmlescape::encode_minimal` writes for one of the five special characters -/
def entityChars (c : Nat) : List Nat :=
  if c = 0x22 then [38, 113, 117, 111, 116, 59]        -- &quot;
  else if c = 0x26 then [38, 97, 109, 112, 59]         -- &amp;
  else if c = 0x27 then [38, 35, 120, 50, 55, 59]      -- &#x27;
  else if c = 0x3C then [38, 108, 116, 59]             -- &lt;
  else [38, 103, 116, 59]                              -- &gt;

def renderOne : Html → List Nat
  | .raw c => [c]
  | .ent c => entityChars c
  | .open_ => Gen.SNIPPET_PREFIX
  | .close => Gen.SNIPPET_POSTFIX

/-- the string `to_html` returns, as scalar values (the driver UTF-8-encodes exactly this) -/
def renderChars (h : List Html) : List Nat := h.flatMap renderOne

/-- what a reader of the HTML does: the five entities become their character, `<b>` and `</b>`
disappear, everything else is kept -/
def unescapeChars : List Nat → List Nat
  | 38 :: 113 :: 117 :: 111 :: 116 :: 59 :: r => 0x22 :: unescapeChars r
  | 38 :: 97 :: 109 :: 112 :: 59 :: r => 0x26 :: unescapeChars r
  | 38 :: 35 :: 120 :: 50 :: 55 :: 59 :: r => 0x27 :: unescapeChars r
  | 38 :: 108 :: 116 :: 59 :: r => 0x3C :: unescapeChars r
  | 38 :: 103 :: 116 :: 59 :: r => 0x3E :: unescapeChars r
  | 60 :: 98 :: 62 :: r => unescapeChars r
  | 60 :: 47 :: 98 :: 62 :: r => unescapeChars r
  | c :: r => c :: unescapeChars r
  | [] => []

end TantivyModel.Snip

namespace TantivyModel.Snip

/-- the (un-escaped) texts enclosed by the highlight tags of a rendering, in order; `cur` = the
text collected since the last `<b>` (none outside a tag) -/
def taggedAux : Option (List Nat) → List Html → List (List Nat)
  | _, [] => []
  | none, .open_ :: r => taggedAux (some []) r
  | some acc, .close :: r => acc :: taggedAux none r
  | some acc, .raw c :: r => taggedAux (some (acc ++ [c])) r
  | some acc, .ent c :: r => taggedAux (some (acc ++ [c])) r
  | cur, _ :: r => taggedAux cur r

def tagged (h : List Html) : List (List Nat) := taggedAux none h

end TantivyModel.Snip
