import TantivyModel.Model.Invert
/-!
# JSON fields: per-path position bookkeeping (C07)

Walking the JSON value(s) of one field of one document yields leaf events in traversal order:
a text leaf (analysed tokens; term bytes = path, 0x00, 's', token) or a non-text leaf (number /
bool / date: one typed term, subscribed at position 0 with the doc-id-only recorder).  Text
leaves are indexed with `index_text` against an `IndexingPosition` **per path**
(`IndexingPositionsPerPath`, a map from the path id; cleared for every (document, JSON field)),
so that two leaves of the same path — e.g. the elements of an array of objects — are separated
by the position gap exactly like the values of a multi-valued text field.

The map is a parameter (any finite map path → end position; here a function).

-- mirrors: src/core/json_utils.rs::index_json_value
-- mirrors: src/core/json_utils.rs::index_json_object
-- mirrors: src/core/json_utils.rs::get_position_from_id
-- mirrors: src/indexer/segment_writer.rs::index_document
-/
namespace TantivyModel.JsonPositions
open TantivyModel.Invert

structure JEvent where
  /-- the JSON path of the leaf (the key of the position map) -/
  path : Term
  /-- text leaf (`ReferenceValueLeaf::Str`) or typed leaf -/
  text : Bool
  /-- tokens of a text leaf (term = full dictionary key); for a typed leaf its one term -/
  toks : Value
deriving Repr, DecidableEq

/-- an occurrence with the event it came from -/
structure JOcc where
  path : Term
  text : Bool
  term : Term
  pos : Nat
deriving Repr, DecidableEq

/-- `index_json_value` over the leaf events, threading the per-path end positions -/
def occsFrom (gap : Nat) : (Term → Nat) → List JEvent → List JOcc
  | _, [] => []
  | st, e :: es =>
    if e.text then
      let r := indexValue gap (st e.path) e.toks
      r.1.map (fun o => { path := e.path, text := true, term := o.1, pos := o.2 }) ++
        occsFrom gap (fun p => if p = e.path then r.2 else st p) es
    else
      e.toks.map (fun t => { path := e.path, text := false, term := t.term, pos := 0 }) ++
        occsFrom gap st es

/-- one (document, JSON field): the map starts empty (`json_positions_per_path.clear()`) -/
def occs (gap : Nat) (evs : List JEvent) : List JOcc := occsFrom gap (fun _ => 0) evs

/-- the text leaves of one path, in traversal order -/
def pathValues (p : Term) (evs : List JEvent) : List Value :=
  (evs.filter (fun e => e.text ∧ e.path = p)).map (·.toks)

/-- end position after indexing `vs` from `e` (the `IndexingPosition` of a text field / a path) -/
def endAfter (gap : Nat) : Nat → List Value → Nat
  | e, [] => e
  | e, v :: vs => endAfter gap (indexValue gap e v).2 vs

/-- the document as the text-field specification sees it: every occurrence at its absolute
position (one value, no further shifting) -/
def asDoc (gap : Nat) (evs : List JEvent) : Doc :=
  [(occs gap evs).map (fun o => { term := o.term, pos := o.pos, posLen := 1 })]

/-- terms recorded without frequencies / positions whatever the field's option -/
def nonTextTerms (evs : List JEvent) : List Term :=
  (evs.filter (fun e => !e.text)).flatMap (fun e => e.toks.map (·.term))

/-- inverted index of a JSON field: `invert` of the per-path positioned occurrences; non-text
terms read back as doc-id-only -/
def invertJson (o : RecOpt) (c : List (List JEvent)) : List (Term × List Posting) × Nat :=
  let gap := Gen.Postings.POSITION_GAP
  let inv := invert (c.map (asDoc gap))
  let basics := c.flatMap nonTextTerms
  (inv.terms.map (fun e => (e.1, e.2.map (project (if basics.contains e.1 then .basic else o)))),
   inv.totalNumTokens)

end TantivyModel.JsonPositions
