import TantivyModel.Gen.OrderEnc
/-
C03 — order-preserving encodings of field values: i64/f64 → u64 (regenerated from
common/src/lib.rs into `Gen.OrderEnc`), and the big-endian term bytes of a u64/u128
(`schema/term.rs`: numeric term values are the big-endian bytes of the encoded value).
-/
namespace TantivyModel.OrderEnc

def i64_to_u64 : BitVec 64 → BitVec 64 := Gen.i64_to_u64
def f64_to_u64 : BitVec 64 → BitVec 64 := Gen.f64_to_u64

/-- big-endian bytes of `v` on `w` bytes (`v < 256^w`) -/
def be : Nat → Nat → List Nat
  | 0, _ => []
  | w + 1, v => (v / 256 ^ w) % 256 :: be w (v % 256 ^ w)

/-- value of a big-endian byte string -/
def beVal : List Nat → Nat
  | [] => 0
  | b :: r => b * 256 ^ r.length + beVal r

end TantivyModel.OrderEnc
