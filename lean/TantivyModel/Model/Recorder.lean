import TantivyModel.Model.Invert
import TantivyModel.Model.VInt
import TantivyModel.Model.PostingsCodec
import TantivyModel.Model.Positions
/-!
# Indexing-time recorders and the hand-over to the serializer (C07)

Per term the arena holds a byte stream of `u32` VInts (`serialize_vint_u32`) plus a few scalar
fields.  The three recorders write:

* `DocIdRecorder`         : doc-id delta per document;
* `TermFrequencyRecorder` : doc-id delta, and — when the *next* document of the term starts — the
  term frequency of the one just finished (the last one stays in `current_tf`);
* `TfAndPositionRecorder` : doc-id delta, `position + 1` per occurrence, and the end-of-positions
  marker `POSITION_END = 0` when the next document of the term starts.

The `stacker` arena / hash map is a parameter: a finite map `Term → Option Rec` whose keys are
iterated in byte order at serialization time (`serialize_postings` sorts).

-- mirrors: src/postings/recorder.rs::new_doc
-- mirrors: src/postings/recorder.rs::record_position
-- mirrors: src/postings/recorder.rs::close_doc
-- mirrors: src/postings/recorder.rs::serialize
-- mirrors: src/postings/recorder.rs::next
-- mirrors: src/postings/postings_writer.rs::subscribe
-- mirrors: src/postings/postings_writer.rs::serialize_one_term
-- mirrors: src/postings/serializer.rs::write_doc
-/
namespace TantivyModel.Recorder
open TantivyModel.Invert (Term RecOpt Posting Corpus Doc docOccs)

structure Rec where
  /-- the `u32` values written to the term's stream so far -/
  vals : List Nat
  currentDoc : Nat
  currentTf : Nat
  /-- `term_doc_freq` (not maintained by `DocIdRecorder`) -/
  docFreq : Nat
deriving Repr, DecidableEq

def Rec.empty : Rec := { vals := [], currentDoc := 0, currentTf := 0, docFreq := 0 }

/-- `POSITION_END` -/
abbrev END : Nat := Gen.Postings.POSITION_END

def newDoc (o : RecOpt) (r : Rec) (doc : Nat) : Rec :=
  { r with vals := r.vals ++ [doc - r.currentDoc], currentDoc := doc,
           docFreq := if o = .basic then r.docFreq else r.docFreq + 1 }

def recordPosition (o : RecOpt) (r : Rec) (pos : Nat) : Rec :=
  match o with
  | .basic => r
  | .freqs => { r with currentTf := r.currentTf + 1 }
  | .positions => { r with vals := r.vals ++ [(pos + 1) % 2 ^ 32] }   -- `position.wrapping_add(1)`

def closeDoc (o : RecOpt) (r : Rec) : Rec :=
  match o with
  | .basic => r
  | .freqs => { r with vals := r.vals ++ [r.currentTf], currentTf := 0 }
  | .positions => { r with vals := r.vals ++ [END] }

/-- the closure `subscribe` hands to `mutate_or_create` -/
def subscribeRec (o : RecOpt) (r : Option Rec) (doc pos : Nat) : Rec :=
  match r with
  | some r =>
    recordPosition o (if r.currentDoc ≠ doc then newDoc o (closeDoc o r) doc else r) pos
  | none => recordPosition o (newDoc o Rec.empty doc) pos

/-- the term table (arena hash map), a parameter: any finite map -/
abbrev Table := Term → Option Rec

structure Indexer where
  table : Table
  totalNumTokens : Nat

def Indexer.init : Indexer := { table := fun _ => none, totalNumTokens := 0 }

/-- `SpecializedPostingsWriter::subscribe(doc, position, term)` -/
def subscribe (o : RecOpt) (ix : Indexer) (doc : Nat) (occ : Term × Nat) : Indexer :=
  { table := fun t => if t = occ.1 then some (subscribeRec o (ix.table t) doc occ.2) else ix.table t,
    totalNumTokens := ix.totalNumTokens + 1 }

/-- one document: every occurrence `index_text` produces, in order -/
def indexDoc (o : RecOpt) (gap : Nat) (ix : Indexer) (doc : Nat) (d : Doc) : Indexer :=
  (docOccs gap d).foldl (fun ix occ => subscribe o ix doc occ) ix

/-- documents `base, base+1, …` -/
def indexDocs (o : RecOpt) (gap : Nat) : Indexer → Nat → Corpus → Indexer
  | ix, _, [] => ix
  | ix, base, d :: ds => indexDocs o gap (indexDoc o gap ix base d) (base + 1) ds

def indexCorpus (o : RecOpt) (c : Corpus) : Indexer :=
  indexDocs o Gen.Postings.POSITION_GAP Indexer.init 0 c

/-- tokens counted for the field norm of one document (`indexing_position.num_tokens`) -/
def docTokenCount (o : RecOpt) (d : Doc) : Nat :=
  (indexDoc o Gen.Postings.POSITION_GAP Indexer.init 0 d).totalNumTokens

/-! ### the byte stream of a recorder -/

def ser (v : Nat) : List Nat :=
  VInt.serializeU32 Gen.Postings.VINT32_LADDER Gen.Postings.VINT32_LAST_BYTES
    Gen.Postings.VINT32_RADIX Gen.Postings.VINT32_STOP_BIT v

/-- what the arena holds for the term -/
def logBytes (r : Rec) : List Nat := r.vals.flatMap ser

/-- `VInt32Reader`: `read_u32_vint` until the buffer is empty -/
def readVals : Nat → List Nat → List Nat
  | 0, _ => []
  | fuel + 1, bs =>
    if bs.isEmpty then [] else
    match VInt.readU32 Gen.Postings.VINT_STOP_BIT Gen.Postings.VINT32_MAX_LEN bs with
    | none => []
    | some (v, n) => v :: readVals fuel (bs.drop n)

/-! ### `Recorder::serialize`: the calls `write_doc(doc, tf, position_deltas)` -/

structure Call where
  doc : Nat
  tf : Nat
  deltas : List Nat
deriving Repr, DecidableEq

/-- `position_plus_one − prev_position_plus_one`, starting from 1 -/
def plusOneDeltas : Nat → List Nat → List Nat
  | _, [] => []
  | prev, x :: xs => (x - prev) :: plusOneDeltas x xs

def callsBasic : Nat → List Nat → List Call
  | _, [] => []
  | prev, d :: rest => { doc := prev + d, tf := 0, deltas := [] } :: callsBasic (prev + d) rest

def callsFreqs (currentTf : Nat) : Nat → List Nat → List Call
  | _, [] => []
  | prev, [d] => [{ doc := prev + d, tf := currentTf, deltas := [] }]
  | prev, d :: tf :: rest => { doc := prev + d, tf := tf, deltas := [] } :: callsFreqs currentTf (prev + d) rest

def callsPositions : Nat → Nat → List Nat → List Call
  | 0, _, _ => []
  | _, _, [] => []
  | fuel + 1, prev, d :: rest =>
    let ps := rest.takeWhile (· ≠ END)
    let rest' := (rest.dropWhile (· ≠ END)).drop 1
    { doc := prev + d, tf := ps.length, deltas := plusOneDeltas 1 ps } ::
      callsPositions fuel (prev + d) rest'

def calls (o : RecOpt) (r : Rec) (vals : List Nat) : List Call :=
  match o with
  | .basic => callsBasic 0 vals
  | .freqs => callsFreqs r.currentTf 0 vals
  | .positions => callsPositions vals.length 0 vals

/-! ### the `doc_id_map` branch (index sorting): remap the doc ids, then sort by the new id -/

/-- insertion into a list sorted by doc id (`sort_unstable_by_key(|(doc, ..)| doc)`; the keys of a
term's documents are distinct, so the result does not depend on the sorting algorithm) -/
def insertCall (c : Call) : List Call → List Call
  | [] => [c]
  | a :: r => if c.doc ≤ a.doc then c :: a :: r else a :: insertCall c r

def sortCalls (l : List Call) : List Call := l.foldr insertCall []

/-- `Recorder::serialize(.., Some(doc_id_map), ..)`: the stream is decoded in the old id space
(deltas accumulated there), every doc id is mapped with `get_new_doc_id`, the entries are sorted by
the new id and handed to the serializer -/
def callsRemapped (o : RecOpt) (r : Rec) (vals : List Nat) (newId : Nat → Nat) : List Call :=
  sortCalls ((calls o r vals).map (fun c => { c with doc := newId c.doc }))

/-! ### `serialize_one_term` → bytes, and reading them back -/

structure TermBytes where
  docFreq : Nat
  postings : List Nat
  positions : List Nat
deriving Repr, DecidableEq

/-- `new_term; write_doc…; close_term`: `doc_freq` counts the `write_doc` calls -/
def serializeCalls (o : RecOpt) (cs : List Call) : TermBytes :=
  { docFreq := cs.length,
    postings := Postings.encodeTerm Postings.cfg o (cs.map (·.doc)) (cs.map (·.tf)),
    positions := if o = .positions then Positions.encode Postings.cfg (cs.flatMap (·.deltas)) else [] }

/-- the arena bytes of the term → its bytes in the segment files -/
def serializeTerm (o : RecOpt) (r : Rec) : TermBytes :=
  let bytes := logBytes r
  serializeCalls o (calls o r (readVals bytes.length bytes))

def serializeTermRemapped (o : RecOpt) (r : Rec) (newId : Nat → Nat) : TermBytes :=
  let bytes := logBytes r
  serializeCalls o (callsRemapped o r (readVals bytes.length bytes) newId)

/-- positions of the documents, read at `Σ tf` offsets -/
def readPositions (bytes : List Nat) : Nat → List Nat → Option (List (List Nat))
  | _, [] => some []
  | off, tf :: tfs =>
    match Positions.read Postings.cfg bytes off tf, readPositions bytes (off + tf) tfs with
    | some ds, some r => some (Positions.positionsOfDeltas ds :: r)
    | _, _ => none

/-- `read_postings(term, WithFreqsAndPositions)` fully advanced -/
def readBack (o : RecOpt) (tb : TermBytes) : Option (List Posting) :=
  match Postings.decodeAll Postings.cfg o tb.docFreq tb.postings with
  | none => none
  | some (docs, tfs) =>
    match o with
    | .basic => some (docs.map (fun d => { doc := d, tf := 1, positions := [] }))
    | .freqs => some ((docs.zip tfs).map (fun x => { doc := x.1, tf := x.2, positions := [] }))
    | .positions =>
      match readPositions tb.positions 0 tfs with
      | none => none
      | some ps => some ((docs.zip (tfs.zip ps)).map (fun x => { doc := x.1, tf := x.2.1, positions := x.2.2 }))

end TantivyModel.Recorder
