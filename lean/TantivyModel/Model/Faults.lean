import TantivyModel.Gen.Lock
import TantivyModel.Gen.Faults
/-!
# Fault model of the writer / commit / merge machinery (C11)

One `IndexWriter` handle at a time over one storage. Every API call runs a fixed sequence of
*storage phases*, each on the thread the code uses for it; a fault plan `f : Phase → Bool` says
which phases of this call hit a failing storage operation (the theorems quantify over arbitrary
plans `Nat → Phase → Bool`, call index ↦ failing phases — "once" and "from k on" are instances).
What happens to an error is copied from the code:

* worker / compressor thread: `?` → thread result; the `IndexWriterBomb` closes the pipeline, so
  later `add_document`s fail fast (`send_add_documents_batch`); `prepare_commit` recreates the
  channel, joins the workers and returns the first error **without restarting the workers that
  were not joined yet** (the handles were `mem::take`n);
* updater: `schedule_commit` = `purge_deletes?; segment_manager.commit; save_metas?; let _ = gc`;
  `save_metas` = `sync_directory?; atomic_write(meta.json)?` — all-or-nothing — followed, when
  the code has it (parameter `sy`, instantiated with the extracted
  `Gen.SAVE_METAS_SYNC_AFTER_WRITE`), by a second `sync_directory?` that makes the rename durable:
  if that barrier fails the call returns `Err` although `meta.json` already denotes the
  attempted commit (visible, durability unknown); `store_meta` and GC are skipped;
* merge thread: error (or panic) → merge future, registers untouched; `end_merge` on the updater:
  `advance_deletes?` (registers untouched) ; `segment_manager.end_merge` ; `save_metas?` ; gc;
* GC: delete errors ignored, undeleted files stay managed; lock / `.managed.json` errors make
  the GC call fail (ignored inside commit / end_merge);
* lock file: `open_write` (create-new) ; `flush` ; guard deletes the file on drop, a failing
  delete is only logged; `rollback` moves the guard into `IndexWriter::new`, whose failure drops it.

-- mirrors: src/indexer/index_writer.rs::prepare_commit
-- mirrors: src/indexer/index_writer.rs::send_add_documents_batch
-- mirrors: src/indexer/index_writer.rs::add_indexing_worker
-- mirrors: src/indexer/index_writer.rs::rollback
-- mirrors: src/indexer/index_writer.rs::recreate_document_channel
-- mirrors: src/indexer/index_writer_status.rs::kill
-- mirrors: src/indexer/segment_updater.rs::schedule_commit
-- mirrors: src/indexer/segment_updater.rs::save_metas
-- mirrors: src/indexer/segment_updater.rs::start_merge
-- mirrors: src/indexer/segment_updater.rs::end_merge
-- mirrors: src/indexer/segment_updater.rs::schedule_task
-- mirrors: src/indexer/prepared_commit.rs::commit_future
-- mirrors: src/directory/managed_directory.rs::garbage_collect
-- mirrors: src/directory/directory.rs::try_acquire_lock
-- mirrors: src/store/store_compressor.rs::harvest_thread_result
-- mirrors: src/future_result.rs::wait
-- mirrors: src/reader/mod.rs::reload
-/
namespace TantivyModel.Faults

inductive Phase where
  | lockOpen | lockFlush | lockDelete
  /-- `load_metas` / `searchable_segment_metas` inside `IndexWriter::new` -/
  | ctorRead
  /-- segment serialisation on an indexing worker or its doc-store compressor thread -/
  | worker
  /-- `purge_deletes` (advance_deletes) on the updater during commit -/
  | purge
  /-- `sync_directory` + `atomic_write(meta.json)` -/
  | saveMeta
  /-- the `sync_directory` that follows the `atomic_write(meta.json)` in `save_metas`, when the
      code has one (`Gen.SAVE_METAS_SYNC_AFTER_WRITE`): `meta.json` is already replaced -/
  | saveSync2
  /-- the same barrier inside `end_merge`'s `save_metas` -/
  | endMergeSync2
  | gcLock | gcDelete | gcManaged
  /-- reads and writes of `merge()` on a merge thread -/
  | mergeThread
  | endMergePurge | endMergeSave
  | reload
  deriving DecidableEq, Repr

abbrev Plan := Phase → Bool
def noFault : Plan := fun _ => false

structure Seg where
  id : Nat
  docs : List Nat
  deriving DecidableEq, Repr

def content (segs : List Seg) : List Nat := segs.flatMap (·.docs)
def ids (segs : List Seg) : List Nat := segs.map (·.id)

structure Writer where
  /-- `_directory_lock.is_some()` -/
  guard : Bool
  /-- `IndexWriterStatus::is_alive` of the current channel -/
  alive : Bool
  /-- worker threads are attached to the current channel -/
  workers : Bool
  /-- a worker's thread result is `Err`, not harvested yet -/
  workerErr : Bool
  /-- documents sent into the channel and not yet in a segment -/
  queue : List Nat
  uncommitted : List Seg
  committed : List Seg
  /-- `active_index_meta` -/
  active : List Seg
  /-- `SegmentUpdater::killed` -/
  killed : Bool
  /-- ghost: documents whose `add_document` returned `Ok` since the writer was created / rolled
      back / last committed successfully -/
  acked : List Nat
  /-- ghost: no call on this writer returned `Err` since it was created / rolled back -/
  clean : Bool
  deriving DecidableEq, Repr

structure St where
  /-- segments referenced by `meta.json` -/
  metaSegs : List Seg
  /-- segment ids that have files on storage (complete or not) -/
  files : List Nat
  /-- `.managed.json` (in memory) -/
  managed : List Nat
  lockFile : Bool
  writer : Option Writer
  /-- segments of the reader's current searcher -/
  searcher : List Seg
  nextSeg : Nat
  deriving DecidableEq, Repr

def init : St :=
  { metaSegs := [], files := [], managed := [], lockFile := false, writer := none, searcher := [], nextSeg := 0 }

/-- two small repairs of the code that the model follows when the extractor finds them:
`restartWorkers` — `prepare_commit` joins every worker and restarts a worker for each before it
returns the first error (`Gen.PREPARE_COMMIT_RESTARTS_WORKERS`); `rollbackKeeps` — `rollback`
takes the lock guard out of `self` only after the replacement writer was built
(`Gen.ROLLBACK_TAKES_GUARD_AFTER_NEW`) -/
structure Fixes where
  restartWorkers : Bool
  rollbackKeeps : Bool
  /-- configuration rather than repair: the worker closes its segment once it holds this many
      documents (memory budget exhausted; in the harness the segment-cut hook); `0` = only at commit.
      With it a transaction consists of several segments, handed to the updater one by one. -/
  cutDocs : Nat := 0
  deriving DecidableEq, Repr

/-- the code without the two repairs -/
def noFix : Fixes := { restartWorkers := false, rollbackKeeps := false }

/-- documents of the current transaction may still be on their way to storage when `commit` joins
the workers: those in the worker's open segment — and, when segments are cut during the
transaction, the worker may lag behind the producer, so any acknowledged document may be -/
def inFlight (fx : Fixes) (w : Writer) : Bool :=
  !w.queue.isEmpty || (fx.cutDocs != 0 && !w.acked.isEmpty)

/-- the worker's open segment is full -/
def segFull (fx : Fixes) (q : List Nat) : Bool := fx.cutDocs != 0 && q.length ≥ fx.cutDocs

inductive Call where
  | newWriter | add (d : Nat) | commit | rollback | dropWriter | merge | gc | reload
  /-- the operator deletes an orphaned `.tantivy-writer.lock` by hand (what the documentation of
      `INDEX_WRITER_LOCK` tells users to do) -/
  | removeLock
  /-- `wait_merging_threads(self)`: consumes the writer like a drop, but joins the workers first and
      returns their error -/
  | waitMerges
  deriving DecidableEq, Repr

inductive Res where
  | ok | err | panic
  /-- `add_document` blocks forever: the bounded channel is full and nobody receives -/
  | hang
  deriving DecidableEq, Repr

def freshWriter (s : St) : Writer :=
  { guard := true, alive := true, workers := true, workerErr := false, queue := [],
    uncommitted := [], committed := s.metaSegs, active := s.metaSegs, killed := false, acked := [],
    clean := true }

def markErr (w : Writer) : Writer := { w with clean := false }

/-- release of the writer-lock guard: the file is deleted unless the delete fails (only logged) -/
def releaseLock (f : Plan) (s : St) : St := { s with lockFile := f .lockDelete }

/-- files the writer still references: its two registers and `active_index_meta` (the
`SegmentMeta` inventory) -/
def living (w : Writer) : List Nat := ids w.committed ++ ids w.uncommitted ++ ids w.active

/-- managed files nobody references -/
def dead (s : St) (w : Writer) : List Nat := s.managed.filter (fun x => !(living w).contains x)

/-- `ManagedDirectory::garbage_collect`. Returns the GC call's result. -/
def gcRun (f : Plan) (s : St) (w : Writer) : St × Res :=
  if f .gcLock then (s, .err)
  -- nothing to delete — unless a delete / rewrite phase was observed to fail: the model's garbage
  -- under-approximates the real one (workers close segments when the writer is dropped or waited
  -- for), and a phase that failed is a phase that ran
  else if (dead s w).isEmpty && !f .gcDelete && !f .gcManaged then (s, .ok)
  -- failing deletes: the files stay, and stay managed. (One abstract delete phase: when, in the
  -- same call, the rewrite of `.managed.json` fails too, some deletes had succeeded before the
  -- faults began, the rewrite was attempted and its error is the GC's result; the model keeps
  -- the files, which only over-approximates the unreferenced garbage.)
  else if f .gcDelete then (s, if f .gcManaged then .err else .ok)
  else ({ s with files := s.files.filter (fun x => !(dead s w).contains x),
                 managed := s.managed.filter (fun x => !(dead s w).contains x) },
        if f .gcManaged then .err else .ok)

/-- a new segment's files appear on storage (and in `.managed.json`) -/
def newFiles (s : St) : St :=
  { s with files := s.nextSeg :: s.files, managed := s.nextSeg :: s.managed, nextSeg := s.nextSeg + 1 }

/-- the worker closes its segment (if it has documents) and hands it to the updater -/
def flushW (s : St) (w : Writer) : Writer :=
  if w.queue.isEmpty then w
  else { w with uncommitted := w.uncommitted ++ [⟨s.nextSeg, w.queue⟩], queue := [] }
def flushS (s : St) (w : Writer) : St := if w.queue.isEmpty then s else newFiles s

def commitRegs (w : Writer) : Writer := { w with committed := w.committed ++ w.uncommitted, uncommitted := [] }
def published (w : Writer) : Writer := { (commitRegs w) with active := (commitRegs w).committed, acked := [] }

/-- the commit task on the updater thread: `purge_deletes?; segment_manager.commit; save_metas?; let _ = gc` -/
def updaterCommit (sy : Bool) (f : Plan) (s : St) (w : Writer) : St × Res :=
  if w.killed then ({ s with writer := some (markErr w) }, .err)
  else if f .purge then ({ s with writer := some (markErr w) }, .err)
  else if f .saveMeta then ({ s with writer := some (markErr (commitRegs w)) }, .err)
  else if sy && f .saveSync2 then
    -- `meta.json` is replaced; the error returns before `store_meta` and before GC
    ({ s with metaSegs := (commitRegs w).committed, writer := some (markErr (commitRegs w)) }, .err)
  else ((gcRun f { s with metaSegs := (published w).committed, writer := some (published w) } (published w)).1, .ok)

def mergedRegs (s : St) (w : Writer) : Writer := { w with committed := [⟨s.nextSeg, content w.committed⟩] }
def mergedPublished (s : St) (w : Writer) : Writer := { (mergedRegs s w) with active := (mergedRegs s w).committed }

/-- a lock file that nobody owns -/
def stale (s : St) : Bool :=
  s.lockFile && !(match s.writer with | some w => w.guard | none => false)

/-- the worker failed while indexing `d`: thread result `Err`, pipeline closed by the bomb -/
def bombed (w : Writer) (d : Nat) : Writer :=
  { w with alive := false, workerErr := true, queue := [], acked := w.acked ++ [d] }

def call (sy : Bool) (fx : Fixes) (cap : Nat) (f : Plan) (s : St) : Call → St × Res
  | .newWriter =>
    match s.writer with
    | some _ => (s, .err)                                               -- the harness drops a writer before opening the next
    | none =>
      if s.lockFile then (s, .err)                                      -- LockBusy (a stale lock file)
      else if f .lockOpen then (s, .err)
      else if f .lockFlush then ({ s with lockFile := true }, .err)     -- file created, no guard returned
      else if f .ctorRead then (releaseLock f { s with lockFile := true }, .err)
      else ({ s with lockFile := true, writer := some (freshWriter s) }, .ok)
  | .add d =>
    match s.writer with
    | none => (s, .err)
    | some w =>
      if !w.alive then ({ s with writer := some (markErr w) }, .err)
      else if !w.workers then
        if w.queue.length ≥ cap then (s, .hang)
        else ({ s with writer := some { w with queue := w.queue ++ [d], acked := w.acked ++ [d] } }, .ok)
      else if f .worker then
        -- the worker fails while indexing: its partial files stay behind, the bomb goes off
        ({ (newFiles s) with writer := some (bombed w d) }, .ok)
      else if segFull fx (w.queue ++ [d]) then
        -- the worker closes the segment and hands it to the updater (`schedule_add_segment`)
        ({ (newFiles s) with writer := some { w with queue := [], acked := w.acked ++ [d],
                                                     uncommitted := w.uncommitted ++ [⟨s.nextSeg, w.queue ++ [d]⟩] } }, .ok)
      else ({ s with writer := some { w with queue := w.queue ++ [d], acked := w.acked ++ [d] } }, .ok)
  | .commit =>
    match s.writer with
    | none => (s, .err)
    | some w =>
      -- prepare_commit: new channel (alive again), join the workers
      if !w.workers then
        -- nobody received the queued documents; they are dropped with the old channel
        updaterCommit sy f s { w with alive := true, queue := [] }
      else if w.workerErr then
        -- first error returned; the handles were taken: no worker is restarted (unless repaired)
        ({ s with writer := some (markErr { w with alive := true, workers := fx.restartWorkers, workerErr := false, queue := [] }) }, .err)
      else if inFlight fx w && f .worker then
        ({ (newFiles s) with writer := some (markErr { w with alive := true, workers := fx.restartWorkers, queue := [] }) }, .err)
      else updaterCommit sy f (flushS s w) (flushW s { w with alive := true })
  | .rollback =>
    match s.writer with
    | none => (s, .err)
    | some w =>
      if !w.guard then ({ s with writer := some { w with killed := true } }, .panic)
      else if f .ctorRead then
        if fx.rollbackKeeps then
          -- the replacement is built first: `self` keeps its guard, only its updater was killed
          ({ s with writer := some (markErr { w with killed := true }) }, .err)
        else
          (releaseLock f { s with writer := some (markErr { w with guard := false, killed := true }) }, .err)
      else ({ s with writer := some (freshWriter s) }, .ok)
  | .dropWriter =>
    match s.writer with
    | none => (s, .ok)
    | some w => (if w.guard then releaseLock f { s with writer := none } else { s with writer := none }, .ok)
  | .merge =>
    match s.writer with
    | none => (s, .err)
    | some w =>
      if w.killed || w.committed.isEmpty then ({ s with writer := some (markErr w) }, .err)
      -- the merged segment's files are created by the merge thread
      else if f .mergeThread then ({ (newFiles s) with writer := some (markErr w) }, .err)
      else if f .endMergePurge then ({ (newFiles s) with writer := some (markErr w) }, .err)
      else if f .endMergeSave then ({ (newFiles s) with writer := some (markErr (mergedRegs s w)) }, .err)
      else if sy && f .endMergeSync2 then
        ({ (newFiles s) with metaSegs := (mergedRegs s w).committed, writer := some (markErr (mergedRegs s w)) }, .err)
      else ((gcRun f { (newFiles s) with metaSegs := (mergedPublished s w).committed,
                                         writer := some (mergedPublished s w) } (mergedPublished s w)).1, .ok)
  | .gc =>
    match s.writer with
    | none => (s, .err)
    | some w =>
      if w.killed then ({ s with writer := some (markErr w) }, .err)
      else if (gcRun f s w).2 = .ok then gcRun f s w
      else ({ (gcRun f s w).1 with writer := some (markErr w) }, .err)
  | .reload =>
    if f .reload then (s, .err) else ({ s with searcher := s.metaSegs }, .ok)
  | .removeLock => (if stale s then { s with lockFile := false } else s, .ok)
  | .waitMerges =>
    match s.writer with
    | none => (s, .ok)
    | some w => (if w.guard then releaseLock f { s with writer := none } else { s with writer := none },
                 if w.workers && (w.workerErr || (!w.queue.isEmpty && f .worker)) then .err else .ok)

def run (sy : Bool) (fx : Fixes) (cap : Nat) (F : Nat → Plan) (i : Nat) (s : St) : List Call → St × List Res
  | [] => (s, [])
  | c :: cs =>
    ((run sy fx cap F (i + 1) (call sy fx cap (F i) s c).1 cs).1,
     (call sy fx cap (F i) s c).2 :: (run sy fx cap F (i + 1) (call sy fx cap (F i) s c).1 cs).2)

def final (sy : Bool) (fx : Fixes) (cap : Nat) (F : Nat → Plan) (cs : List Call) : St := (run sy fx cap F 0 init cs).1

/-- does `save_metas` of the code sync the directory again after the rename of `meta.json`? -/
def codeSync2 : Bool := Gen.SAVE_METAS_SYNC_AFTER_WRITE == 1

/-- which of the two repairs the code has now -/
def codeFixes : Fixes :=
  { restartWorkers := Gen.PREPARE_COMMIT_RESTARTS_WORKERS == 1,
    rollbackKeeps := Gen.ROLLBACK_TAKES_GUARD_AFTER_NEW == 1 }

/-- capacity of the document channel in the code -/
def codeCap : Nat := Gen.PIPELINE_MAX_SIZE_IN_DOCS

end TantivyModel.Faults
