import TantivyModel.Model.Grammar.Logical
/-!
# C16 — the documented abstract syntax `Q` and its meaning `semQ`

`Q` is what the documentation of `QueryParser` describes: leaves (term, phrase, range, set,
exists, all — abstract here: a kind tag, an optional field and an identity), boosts, `NOT`,
a field scope `field:( … )`, and parenthesised operand lists. Two forms of operand lists have a
documented meaning:
* a **chain** `a₀ op₁ a₁ … opₙ aₙ` without markers: OR over the maximal AND-runs;
* a **marker list** `[+|-]a₀ … [+|-]aₙ`: all `+`, no `-`, and when there is no `+` (counting the
  mode's default) at least one unmarked clause; an unmarked `NOT a` clause is `-a`.
`semQ` gives `false` to an operand list that mixes both forms (the documentation is silent; the
unit tests pin tree shapes only, which the fold correspondence covers).
`build` is what the parser builds for `q` before `rewrite_ast`.
-/
namespace TantivyModel.Grammar

/-- abstract leaf: `kind` 0 literal (term / phrase / prefix phrase), 1 range, 2 set, 3 exists,
    4 all (`*`), 5 regex; `id` names the rest of the content (interned by the harness) -/
structure Leaf where
  field : Option Nat
  kind : Nat
  id : Nat
  deriving DecidableEq, Repr, Inhabited

/-- mirrors: query-grammar/src/user_input_ast.rs::UserInputLeaf::set_default_field -/
def Leaf.setDefaultField (f : Nat) (l : Leaf) : Leaf :=
  if l.kind = 4 then { field := some f, kind := 3, id := 0 }
  else if l.kind = 3 then l
  else match l.field with
    | none => { l with field := some f }
    | some _ => l

mutual
/-- mirrors: query-grammar/src/user_input_ast.rs::UserInputAst::set_default_field -/
def Ast.setDefaultField (f : Nat) : Ast Leaf → Ast Leaf
  | .leaf l => .leaf (l.setDefaultField f)
  | .boost a b => .boost (Ast.setDefaultField f a) b
  | .clause cs => .clause (Ast.setDefaultFieldL f cs)
def Ast.setDefaultFieldL (f : Nat) : List (Entry Leaf) → List (Entry Leaf)
  | [] => []
  | (o, a) :: rest => (o, Ast.setDefaultField f a) :: Ast.setDefaultFieldL f rest
end

/-- a resolved leaf: `none` is the all-documents query, `some (field, id)` a typed leaf query -/
abbrev RLeaf := Option (Nat × Nat)

/-- mirrors: query_parser.rs::compute_logical_ast_from_leaf_lenient — `defaults` are the default
    fields on which the literal converts (fields on which it does not are skipped by the code) -/
def resolve (defaults : List Nat) (l : Leaf) : LAst RLeaf :=
  match l.kind with
  | 4 => .leaf none
  | 0 =>
    match l.field with
    | some f => .leaf (some (f, l.id))
    | none =>
      match defaults with
      | [f] => .leaf (some (f, l.id))
      | fs => .clause (fs.map fun f => (Occur.should, LAst.leaf (some (f, l.id))))
  | 1 | 2 =>
    match l.field with
    | some f => .leaf (some (f, l.id))
    | none => .clause []
  | _ => .clause []   -- exists, regex: "unsupported" in the pinned version

/-- does the strict parser report an error for this leaf -/
def leafErr (defaults : List Nat) (l : Leaf) : Bool :=
  match l.kind with
  | 4 => false
  | 0 => l.field.isNone && defaults.isEmpty
  | 1 | 2 => l.field.isNone
  | _ => true

inductive Q where
  | leaf : Leaf → Q
  | boost : Q → Nat → Q
  | neg : Q → Q
  | scoped : Nat → Q → Q
  | seq : List (Option BinOp × Option Occur × Q) → Q
  deriving Repr, Inhabited

abbrev QItem := Option BinOp × Option Occur × Q

mutual
/-- the tree the parser builds for `q` (before `rewrite_ast`) -/
def build : Q → Ast Leaf
  | .leaf l => .leaf l
  | .boost q b => .boost (build q) b
  | .neg q => (build q).unary .mustNot
  | .scoped f q => Ast.setDefaultField f (build q)
  | .seq items => (lenientFold (buildItems items)).1
def buildItems : List QItem → List (RawItem Leaf)
  | [] => []
  | (op, occ, q) :: rest => (op, occ, some (build q)) :: buildItems rest
end

mutual
/-- number of "unexpected boolean operator before term" errors of the lenient parser -/
def earlyCount : Q → Nat
  | .leaf _ => 0
  | .boost q _ => earlyCount q
  | .neg q => earlyCount q
  | .scoped _ q => earlyCount q
  | .seq items => (match items with | (some _, _, _) :: _ => 1 | _ => 0) + earlyCountL items
def earlyCountL : List QItem → Nat
  | [] => 0
  | (_, _, q) :: rest => earlyCount q + earlyCountL rest
end

def isMarks (items : List QItem) : Bool := items.all (fun i => i.1.isNone)

def isChain : List QItem → Bool
  | (none, none, _) :: rest => rest.all (fun i => i.1.isSome && i.2.1.isNone)
  | _ => false

mutual
/-- the documented meaning; `lv` tells whether a leaf matches the document at hand -/
def semQ (m : Mode) : Q → (Leaf → Bool) → Bool
  | .leaf l, lv => lv l
  | .boost q _, lv => semQ m q lv
  | .neg _, _ => false
  | .scoped f q, lv => semQ m q (fun l => lv (l.setDefaultField f))
  | .seq items, lv =>
    if isMarks items then boolSem (marksSem m items lv)
    else if isChain items then chainSem m items lv false
    else false
def marksSem (m : Mode) : List QItem → (Leaf → Bool) → List (Occur × Bool)
  | [], _ => []
  | (_, none, .neg q) :: rest, lv => (.mustNot, semQ m q lv) :: marksSem m rest lv
  | (_, occ, q) :: rest, lv => (occ.getD m.occ, semQ m q lv) :: marksSem m rest lv
/-- OR over maximal AND-runs; `cur` is the conjunction of the run read so far -/
def chainSem (m : Mode) : List QItem → (Leaf → Bool) → Bool → Bool
  | [], _, cur => cur
  | (some .and, _, q) :: rest, lv, cur => chainSem m rest lv (cur && semQ m q lv)
  | (_, _, q) :: rest, lv, cur => cur || chainSem m rest lv (semQ m q lv)
end

mutual
/-- every operand list of `q` has a documented meaning -/
def documented : Q → Bool
  | .leaf _ => true
  | .boost q _ => documented q
  | .neg q => documented q
  | .scoped _ q => documented q
  | .seq items => (isMarks items || isChain items) && documentedL items
def documentedL : List QItem → Bool
  | [] => true
  | (_, _, q) :: rest => documented q && documentedL rest
end

mutual
def anyLeafErr (defaults : List Nat) : Ast Leaf → Bool
  | .leaf l => leafErr defaults l
  | .boost a _ => anyLeafErr defaults a
  | .clause cs => anyLeafErrL defaults cs
def anyLeafErrL (defaults : List Nat) : List (Entry Leaf) → Bool
  | [] => false
  | (_, a) :: rest => anyLeafErr defaults a || anyLeafErrL defaults rest
end

/-- outcome of `QueryParser::parse_query` on one document: `none` = the parser returns an error -/
def strictSem (m : Mode) (defaults : List Nat) (v : RLeaf → Bool) (a : Ast Leaf) : Option Bool :=
  if anyLeafErr defaults a then none else
  match computeLogical m (resolve defaults) (none : RLeaf) a with
  | (t, []) => some (semL v (simplify t))
  | (_, _ :: _) => none

/-- outcome of `QueryParser::parse_query_lenient` on one document (always a query) -/
def lenientSem (m : Mode) (defaults : List Nat) (v : RLeaf → Bool) (a : Ast Leaf) : Bool :=
  semL v (computeLogical m (resolve defaults) (none : RLeaf) a).1

end TantivyModel.Grammar
