/-!
# C16 — phrase literals: the compile step as a function of the analysed tokens

A quoted literal on a text field is run through the field's analyzer; the analyzer may drop
tokens (stop words, over-long tokens) while keeping the positions of the others. The phrase terms
carry the analyzer's `token.position` as their offset, so the gap left by a dropped token is kept.

* `analyse keep ws` : what a position-keeping, token-dropping analyzer makes of the words `ws`;
* `compile toks`    : mirrors `generate_literals_for_str` (`terms.push((token.position, term))`);
* `compileByIndex`  : the numbering by index in the surviving list (the seeded change C16-C),
                      kept to show that it is wrong;
* `phraseMatch terms doc` : what a `PhraseQuery` with offsets (slop 0) matches: some base position
                      at which every term sits at its offset.
-/
namespace TantivyModel.Grammar.Phrase

variable {W : Type}

/-- analysed tokens `(position, token)` of the kept words, positions counted from `p` -/
def analyseFrom (keep : W → Bool) : Nat → List W → List (Nat × W)
  | _, [] => []
  | p, w :: ws => if keep w then (p, w) :: analyseFrom keep (p + 1) ws else analyseFrom keep (p + 1) ws

def analyse (keep : W → Bool) (ws : List W) : List (Nat × W) := analyseFrom keep 0 ws

/-- mirrors: src/query/query_parser/query_parser.rs::generate_literals_for_str —
    `token_stream.process(|token| terms.push((token.position, term)))` -/
def compile (toks : List (Nat × W)) : List (Nat × W) := toks.map fun t => (t.1, t.2)

/-- offsets by index in the surviving token list (`terms.len()` at push time) — not what the code does -/
def compileByIndexFrom : Nat → List (Nat × W) → List (Nat × W)
  | _, [] => []
  | i, t :: ts => (i, t.2) :: compileByIndexFrom (i + 1) ts

def compileByIndex (toks : List (Nat × W)) : List (Nat × W) := compileByIndexFrom 0 toks

/-- a phrase query with offsets and slop 0 on an analysed document: every term sits at its offset
    from the position of the first term -/
def phraseMatch [DecidableEq W] (terms : List (Nat × W)) (doc : List (Nat × W)) : Bool :=
  match terms with
  | [] => false
  | (o0, w0) :: rest =>
    doc.any fun d => d.2 = w0 && rest.all fun t => doc.contains (d.1 + (t.1 - o0), t.2)

end TantivyModel.Grammar.Phrase
