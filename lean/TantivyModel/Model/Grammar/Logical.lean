import TantivyModel.Model.Grammar.Fold
/-!
# C16 — from the syntax tree to the logical tree and its meaning

Mirrors the schema-independent essentials of `src/query/query_parser/query_parser.rs`
(`compute_logical_ast_with_occur_lenient`, `compute_logical_ast_lenient`, `all_negative`,
`make_non_negative`, `trim_ast`, `convert_to_query`) and `logical_ast.rs` (`simplify`), plus the
matching semantics of `BooleanQuery` (C03's `sem`): all MUST, no MUST_NOT, and — if there is no
MUST — at least one SHOULD. Leaves are abstract; a valuation says whether a resolved leaf matches
the document at hand.
-/
namespace TantivyModel.Grammar

/-- `conjunction_by_default` -/
inductive Mode where
  | orDefault | andDefault
  deriving DecidableEq, Repr

/-- mirrors: query_parser.rs::default_occur -/
def Mode.occ : Mode → Occur
  | .orDefault => .should
  | .andDefault => .must

/-- mirrors: src/query/query_parser/logical_ast.rs::LogicalAst -/
inductive LAst (T : Type) where
  | leaf : T → LAst T
  | boost : LAst T → Nat → LAst T
  | clause : List (Occur × LAst T) → LAst T
  deriving Repr, Inhabited

variable {L T : Type}

mutual
/-- mirrors: query_parser.rs::compute_logical_ast_with_occur_lenient; `res` is
    `compute_logical_ast_from_leaf_lenient` (an unresolvable leaf becomes the empty clause) -/
def toLogical (m : Mode) (res : L → LAst T) : Ast L → LAst T
  | .leaf l => res l
  | .boost a b => .boost (toLogical m res a) b
  | .clause cs => .clause (toLogicalL m res cs)
def toLogicalL (m : Mode) (res : L → LAst T) : List (Entry L) → List (Occur × LAst T)
  | [] => []
  | (o, a) :: rest => (o.getD m.occ, toLogical m res a) :: toLogicalL m res rest
end

mutual
/-- `trim_ast t = None`: a clause all of whose children trim to nothing -/
def isDead : LAst T → Bool
  | .leaf _ => false
  | .boost _ _ => false
  | .clause cs => allDead cs
def allDead : List (Occur × LAst T) → Bool
  | [] => true
  | (_, a) :: rest => isDead a && allDead rest
end

/-- matching semantics of a `BooleanQuery` over already evaluated sub-queries.
    mirrors: src/query/boolean_query/boolean_weight.rs::complex_scorer / scorer -/
def boolSem (l : List (Occur × Bool)) : Bool :=
  l.all (fun e => e.1 != .must || e.2)
  && l.all (fun e => e.1 != .mustNot || !e.2)
  && (l.any (fun e => e.1 == .must) || l.any (fun e => e.1 == .should && e.2))

mutual
/-- meaning of `convert_to_query (t)` on one document.
    mirrors: query_parser.rs::convert_to_query + trim_ast -/
def semL (v : T → Bool) : LAst T → Bool
  | .leaf t => v t
  | .boost a _ => semL v a
  | .clause cs => boolSem (semLs v cs)
/-- evaluated children, dead ones trimmed -/
def semLs (v : T → Bool) : List (Occur × LAst T) → List (Occur × Bool)
  | [] => []
  | (o, a) :: rest => if isDead a then semLs v rest else (o, semL v a) :: semLs v rest
end

mutual
/-- mirrors: query_parser.rs::all_negative -/
def allNegative : LAst T → Bool
  | .leaf _ => false
  | .boost a _ => allNegative a
  | .clause cs => allNegativeL cs
def allNegativeL : List (Occur × LAst T) → Bool
  | [] => true
  | (o, a) :: rest => (o == .mustNot || allNegative a) && allNegativeL rest
end

/-- mirrors: query_parser.rs::make_non_negative -/
def makeNonNegative (all : T) : LAst T → LAst T
  | .leaf t => .leaf t
  | .boost a b => .boost (makeNonNegative all a) b
  | .clause cs => .clause (cs ++ [(.should, .leaf all)])

inductive LogicalErr where
  | allButQueryForbidden
  deriving DecidableEq, Repr

/-- mirrors: query_parser.rs::compute_logical_ast_lenient -/
def computeLogical (m : Mode) (res : L → LAst T) (all : T) (a : Ast L) : LAst T × List LogicalErr :=
  let t := toLogical m res a
  match t with
  | .clause [] => (t, [])
  | _ => if allNegative t then (makeNonNegative all t, [.allButQueryForbidden]) else (t, [])

mutual
/-- mirrors: logical_ast.rs::simplify (applied by the strict `parse_query` only) -/
def simplify : LAst T → LAst T
  | .leaf t => .leaf t
  | .boost a b => .boost a b
  | .clause cs => .clause (simplifyL cs)
def simplifyL : List (Occur × LAst T) → List (Occur × LAst T)
  | [] => []
  | (o, a) :: rest =>
    match simplify a with
    | .clause sub =>
      if (o = .should ∨ o = .must) ∧ sub.all (fun e => e.1 == o) then sub ++ simplifyL rest
      else (o, .clause sub) :: simplifyL rest
    | s => (o, s) :: simplifyL rest
end

/-- the meaning of a syntax tree in a mode: what the query built from it matches -/
def semAst (m : Mode) (res : L → LAst T) (v : T → Bool) (a : Ast L) : Bool :=
  semL v (toLogical m res a)

end TantivyModel.Grammar
