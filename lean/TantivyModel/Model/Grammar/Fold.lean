import TantivyModel.Model.Grammar.Ast
/-!
# C16 — fold layer: operand lists to trees, and `rewrite_ast`

`lenientFold` mirrors `aggregate_infallible_expressions`, `strictFold` mirrors
`aggregate_binary_expressions` (same function, error channel turned into `Except`), `rewrite`
mirrors `rewrite_ast` / `rewrite_ast_clause`.
-/
namespace TantivyModel.Grammar

variable {L : Type}

/-- `(operand before the leaf, occur marker, tree)` — one element of `many1(operand_leaf)` -/
abbrev Item (L : Type) := Option BinOp × Option Occur × Ast L
/-- the lenient parser may fail to produce a tree for an element -/
abbrev RawItem (L : Type) := Option BinOp × Option Occur × Option (Ast L)

inductive FoldErr where
  | earlyOperand   -- "Found unexpected boolean operator before term"
  deriving DecidableEq, Repr

/-- Rust `occur.or(default)` -/
def occOr : Option Occur → Option Occur → Option Occur
  | some o, _ => some o
  | none, d => d

/-- the clause entry produced for one leaf, given the operator before it and the operator
    before the next leaf.
    mirrors: query-grammar/src/query_grammar.rs::aggregate_infallible_expressions (loop body
    and the treatment of the last leaf, which is the loop body with `next = none`) -/
def entryOf (prev : Option BinOp) (occ : Option Occur) (a : Ast L) (next : Option BinOp) : Entry L :=
  match prev with
  | some .and => (occOr occ (some .must), a)
  | some .or =>
    let d : Occur := match next with
      | some .and => .must
      | _ => .should
    if occ = some .mustNot ∧ d = .should then (some .should, a.unary .mustNot)
    else (occOr occ (some d), a)
  | none =>
    let d : Option Occur := match next with
      | some .and => some .must
      | some .or => some .should
      | none => none
    if occ = some .mustNot ∧ d = some .should then (some .should, a.unary .mustNot)
    else (occOr occ d, a)

def nextOp : List (Item L) → Option BinOp
  | [] => none
  | (op, _, _) :: _ => op

/-- the `clauses: Vec<Vec<…>>` of the Rust function: a leaf preceded by `AND` joins the group of
    the leaf before it, every other leaf opens a group.
    mirrors: query-grammar/src/query_grammar.rs::aggregate_infallible_expressions -/
def groups : List (Item L) → List (List (Entry L))
  | [] => []
  | (op, occ, a) :: rest =>
    let e := entryOf op occ a (nextOp rest)
    if nextOp rest = some .and then
      match groups rest with
      | g :: gs => (e :: g) :: gs
      | [] => [[e]]
    else [e] :: groups rest

/-- mirrors: the tail of aggregate_infallible_expressions (`if clauses.len() == 1 …`) -/
def assemble (gs : List (List (Entry L))) : Ast L :=
  match gs with
  | [g] =>
    match g with
    | [(o, a)] => if o = some .mustNot then .clause g else a
    | _ => .clause g
  | _ => .clause (gs.map fun g =>
      match g with
      | [e] => e
      | _ => (some .should, .clause g))

def keepParsed : List (RawItem L) → List (Item L)
  | [] => []
  | (op, occ, some a) :: rest => (op, occ, a) :: keepParsed rest
  | (_, _, none) :: rest => keepParsed rest

def earlyOperand : List (Item L) → Bool
  | (some _, _, _) :: _ => true
  | _ => false

/-- mirrors: query-grammar/src/query_grammar.rs::aggregate_infallible_expressions -/
def lenientFold (input : List (RawItem L)) : Ast L × List FoldErr :=
  let leafs := keepParsed input
  match leafs with
  | [] => (Ast.emptyQuery, [])
  | _ => (assemble (groups leafs), if earlyOperand leafs then [.earlyOperand] else [])

def rawOf : Item L → RawItem L
  | (op, occ, a) => (op, occ, some a)

/-- mirrors: query-grammar/src/query_grammar.rs::aggregate_binary_expressions -/
def strictFold (left : Option Occur × Ast L) (others : List (Item L)) : Except FoldErr (Ast L) :=
  match lenientFold ((none, left.1, some left.2) :: others.map rawOf) with
  | (res, []) => .ok res
  | (_, e :: _) => .error e

/-- mirrors: query-grammar/src/query_grammar.rs::ast (the part after `occur_leaf`) -/
def strictAst (first : Option Occur × Ast L) (others : List (Item L)) : Except FoldErr (Ast L) :=
  match others with
  | [] => .ok (if first.1 = some .mustNot then first.2.unary .mustNot else first.2)
  | _ => strictFold first others

/-! ## `rewrite_ast` -/

/-- `sub_clauses.retain(|term| seen.insert(term.clone()))`: keep the first occurrence -/
def dedupAux [DecidableEq L] (seen : List (Entry L)) : List (Entry L) → List (Entry L)
  | [] => []
  | e :: rest =>
    if seen.any (Ast.entryBeq e) then dedupAux seen rest
    else e :: dedupAux (e :: seen) rest

def dedup [DecidableEq L] (cs : List (Entry L)) : List (Entry L) := dedupAux [] cs

/-- mirrors: query-grammar/src/query_grammar.rs::rewrite_ast_clause -/
def unwrapEntry : Entry L → Entry L
  | (none, .clause [x]) => x
  | e => e

mutual
/-- mirrors: query-grammar/src/query_grammar.rs::rewrite_ast (does not descend into `Boost`) -/
def rewrite [DecidableEq L] : Ast L → Ast L
  | .clause cs => .clause ((dedup (rewriteL cs)).map unwrapEntry)
  | .leaf l => .leaf l
  | .boost a b => .boost a b
def rewriteL [DecidableEq L] : List (Entry L) → List (Entry L)
  | [] => []
  | (o, a) :: rest => (o, rewrite a) :: rewriteL rest
end

end TantivyModel.Grammar
