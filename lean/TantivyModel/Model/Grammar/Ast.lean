/-!
# C16 — query grammar, fold layer: syntax trees

`Ast` mirrors `query-grammar/src/user_input_ast.rs::UserInputAst` with abstract leaves,
`Occur` mirrors `query-grammar/src/occur.rs::Occur`.
Boost factors are opaque naturals (the bit pattern of the `f64`); leaves are a parameter `L`.
-/
namespace TantivyModel.Grammar

/-- mirrors: query-grammar/src/occur.rs::Occur -/
inductive Occur where
  | should | must | mustNot
  deriving DecidableEq, Repr, Inhabited

/-- mirrors: query-grammar/src/occur.rs::compose -/
def Occur.compose : Occur → Occur → Occur
  | .should, r => r
  | .must, .mustNot => .mustNot
  | .must, _ => .must
  | .mustNot, .mustNot => .must
  | .mustNot, _ => .mustNot

/-- mirrors: query-grammar/src/query_grammar.rs::BinaryOperand -/
inductive BinOp where
  | or | and
  deriving DecidableEq, Repr, Inhabited

/-- mirrors: query-grammar/src/user_input_ast.rs::UserInputAst -/
inductive Ast (L : Type) where
  | leaf : L → Ast L
  | boost : Ast L → Nat → Ast L
  | clause : List (Option Occur × Ast L) → Ast L
  deriving Repr, Inhabited

abbrev Entry (L : Type) := Option Occur × Ast L

namespace Ast
variable {L : Type}

/-- mirrors: user_input_ast.rs::unary -/
def unary (a : Ast L) (o : Occur) : Ast L := .clause [(some o, a)]

/-- mirrors: user_input_ast.rs::empty_query -/
def emptyQuery : Ast L := .clause []

mutual
/-- structural equality test (the Rust type derives `Eq`/`Hash`; `rewrite_ast` dedups with it) -/
def beq [DecidableEq L] : Ast L → Ast L → Bool
  | .leaf a, .leaf b => decide (a = b)
  | .boost a x, .boost b y => beq a b && decide (x = y)
  | .clause as, .clause bs => beqL as bs
  | _, _ => false
def beqL [DecidableEq L] : List (Entry L) → List (Entry L) → Bool
  | [], [] => true
  | (o, a) :: as, (p, b) :: bs => decide (o = p) && beq a b && beqL as bs
  | _, _ => false
end

def entryBeq [DecidableEq L] (x y : Entry L) : Bool := decide (x.1 = y.1) && beq x.2 y.2

mutual
def size : Ast L → Nat
  | .leaf _ => 1
  | .boost a _ => a.size + 1
  | .clause cs => sizeL cs + 1
def sizeL : List (Entry L) → Nat
  | [] => 0
  | (_, a) :: rest => a.size + sizeL rest + 1
end

end Ast
end TantivyModel.Grammar
