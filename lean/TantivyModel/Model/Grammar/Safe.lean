import TantivyModel.Model.Grammar.Logical
/-!
# C16 — when is `rewrite_ast` meaning-preserving

`rewrite_ast_clause` replaces an unmarked clause entry `(None, Clause [(o, x)])` by `(o, x)`.
That keeps the meaning when `o` is `None` or the mode's default occur. It changes the meaning when
`o` is another explicit occur: for `MustNot` this is the intended reading of `a NOT b` as `a -b`
(pinned by `test_not_queries_are_consistent`); for `Must` in the default mode / `Should` in
conjunction mode it is a defect (reachable because duplicates are removed first:
`(+a +a) b` becomes `+a b`).
-/
namespace TantivyModel.Grammar
variable {L : Type}

/-- is unwrapping this (already rewritten) entry harmless; `allowNot` also accepts the intended
    `NOT` normalisation -/
def unwrapSafe (m : Mode) (allowNot : Bool) : Entry L → Bool
  | (none, .clause [(some o, _)]) => o == m.occ || (allowNot && o == .mustNot)
  | _ => true

mutual
def safeWith [DecidableEq L] (m : Mode) (allowNot : Bool) : Ast L → Bool
  | .clause cs => safeWithL m allowNot cs && (rewriteL cs).all (unwrapSafe m allowNot)
  | .leaf _ => true
  | .boost _ _ => true
def safeWithL [DecidableEq L] (m : Mode) (allowNot : Bool) : List (Entry L) → Bool
  | [] => true
  | (_, a) :: rest => safeWith m allowNot a && safeWithL m allowNot rest
end

/-- no occur-changing unwrap other than the intended `NOT` normalisation -/
def safe [DecidableEq L] (m : Mode) (a : Ast L) : Bool := safeWith m true a

end TantivyModel.Grammar
