import TantivyModel.Model.Grammar.Fold
import TantivyModel.Gen.Grammar
/-!
# C16 — character layer: the strict grammar as an executable, total Lean parser

Mirrors `query-grammar/src/query_grammar.rs` (the strict `parse_to_ast`): the nom combinators
become functions `List Char → R α` with nom's exact `alt` / `opt` / `many` backtracking rules
(an `alt` tries the next branch only when the previous one fails as a whole; `opt` keeps the
input when its parser fails; `tuple` never re-enters an earlier `opt`). Recursion
(`ast → leaf → ast`) is structural on a fuel argument; `parseStrict` starts with a fuel that
exceeds what any input of that length can use, so the function is total by construction.

The only panic of the strict grammar (`UserInputLeaf::set_field(None)` on an `Exists` leaf) is a
result of its own (`R.panic`), so that the model predicts it.
-/
namespace TantivyModel.Grammar.Chars
open TantivyModel.Grammar

abbrev Str := List Char

/-- nom `multispace`: space, tab, CR, LF -/
def isNomSpace (c : Char) : Bool := c == ' ' || c == '\t' || c == '\r' || c == '\n'

/-- Rust `char::is_whitespace` (Unicode White_Space) -/
def isUniSpace (c : Char) : Bool :=
  let n := c.toNat
  (9 ≤ n && n ≤ 13) || n == 32 || n == 0x85 || n == 0xA0 || n == 0x1680
  || (0x2000 ≤ n && n ≤ 0x200A) || n == 0x2028 || n == 0x2029 || n == 0x202F || n == 0x205F
  || n == 0x3000

/-- mirrors: query_grammar.rs::SPECIAL_CHARS -/
def specialChars : List Char :=
  ['+', '^', '`', ':', '{', '}', '"', '\'', '[', ']', '(', ')', '!', '\\', '*', ' ']
/-- mirrors: query_grammar.rs::ESCAPE_IN_WORD -/
def escapeInWord : List Char := ['^', '`', ':', '{', '}', '"', '\'', '[', ']', '(', ')', '\\']

inductive Delim where
  | none | single | double
  deriving DecidableEq, Repr, Inhabited

inductive Bound where
  | incl (s : Str) | excl (s : Str) | unbounded
  deriving DecidableEq, Repr, Inhabited

/-- mirrors: user_input_ast.rs::UserInputLeaf -/
inductive CLeaf where
  | literal (field : Option Str) (phrase : Str) (delim : Delim) (slop : Nat) (pfx : Bool)
  | all
  | range (field : Option Str) (lower upper : Bound)
  | set (field : Option Str) (elems : List Str)
  | exists (field : Str)
  | regex (field : Option Str) (pattern : Str)
  deriving DecidableEq, Repr, Inhabited

/-- result of a parser: value and remaining input, a recoverable failure, or a panic -/
inductive R (α : Type) where
  | ok (a : α) (rest : Str)
  | fail
  | panic
  deriving Repr, Inhabited

def R.bind {α β : Type} (r : R α) (f : α → Str → R β) : R β :=
  match r with
  | .ok a rest => f a rest
  | .fail => .fail
  | .panic => .panic

/-- nom `alt` of two parsers -/
def R.orElse {α : Type} (r : R α) (other : Unit → R α) : R α :=
  match r with
  | .fail => other ()
  | x => x

/-- nom `opt` -/
def R.opt {α : Type} (r : R α) (s : Str) : R (Option α) :=
  match r with
  | .ok a rest => .ok (some a) rest
  | .fail => .ok none s
  | .panic => .panic

def R.map {α β : Type} (r : R α) (f : α → β) : R β :=
  match r with
  | .ok a rest => .ok (f a) rest
  | .fail => .fail
  | .panic => .panic

def skip0 (s : Str) : Str := s.dropWhile isNomSpace

def skip1 (s : Str) : Option Str :=
  match s with
  | c :: _ => if isNomSpace c then some (s.dropWhile isNomSpace) else none
  | [] => none

def tag (t : Str) (s : Str) : Option Str :=
  if t.isPrefixOf s then some (s.drop t.length) else none

/-! ## field names -/

/-- `many0(alt((simple_char, escape_sequence, char('\\'))))` of `field_name` -/
def fieldRest : Str → Str × Str
  | [] => ([], [])
  | ['\\'] => (['\\'], [])
  | '\\' :: d :: rest =>
    -- escape of a special character, else a lone backslash followed by the simple character `d`
    let (n, r) := fieldRest rest
    if specialChars.contains d then (d :: n, r) else ('\\' :: d :: n, r)
  | c :: rest =>
    if !specialChars.contains c then
      let (n, r) := fieldRest rest
      (c :: n, r)
    else ([], c :: rest)

/-- mirrors: query_grammar.rs::field_name (name with escapes interpreted, input after `:` and spaces) -/
def fieldName (s : Str) : Option (Str × Str) :=
  let first : Option (Char × Str) :=
    match s with
    | c :: rest =>
      if !specialChars.contains c && c != '-' then some (c, rest)
      else if c == '\\' then
        match rest with
        | d :: rest' => if specialChars.contains d then some (d, rest') else none
        | [] => none
      else none
    | [] => none
  match first with
  | none => none
  | some (c, rest) =>
    let (n, r) := fieldRest rest
    match skip0 r with
    | ':' :: r' => some (c :: n, skip0 r')
    | _ => none

/-! ## words, numbers, quoted strings -/

/-- mirrors: query_grammar.rs::interpret_escape -/
def interpretEscape : Str → Str
  | [] => []
  | '\\' :: c :: rest =>
    if isUniSpace c || escapeInWord.contains c || c == '-' then c :: interpretEscape rest
    else '\\' :: c :: interpretEscape rest
  | ['\\'] => []
  | c :: rest => c :: interpretEscape rest

/-- the `many0` part of `word`: raw characters taken, remaining input -/
def wordRest : Str → Str × Str
  | [] => ([], [])
  | '\\' :: c :: rest =>
    let (w, r) := wordRest rest
    ('\\' :: c :: w, r)
  | c :: rest =>
    if !isUniSpace c && !escapeInWord.contains c then
      let (w, r) := wordRest rest
      (c :: w, r)
    else ([], c :: rest)

def keywords : List Str := [['O', 'R'], ['A', 'N', 'D'], ['N', 'O', 'T'], ['I', 'N']]

/-- mirrors: query_grammar.rs::word -/
def word (s : Str) : Option (Str × Str) :=
  let first : Option (Str × Str) :=
    match s with
    | '\\' :: c :: rest => some (['\\', c], rest)
    | c :: rest =>
      if !isUniSpace c && !escapeInWord.contains c && c != '-' then some ([c], rest) else none
    | [] => none
  match first with
  | none => none
  | some (f, rest) =>
    let (w, r) := wordRest rest
    let raw := f ++ w
    if keywords.contains raw then none
    else if raw.contains '\\' then some (interpretEscape raw, r)
    else some (raw, r)

def takeDigits (s : Str) : Str × Str := (s.takeWhile Char.isDigit, s.dropWhile Char.isDigit)

/-- `digit1 ('.' digit1)?` : recognised text and rest -/
def decimal (s : Str) : Option (Str × Str) :=
  let (d, r) := takeDigits s
  if d.isEmpty then none
  else
    match r with
    | '.' :: r' =>
      let (f, r'') := takeDigits r'
      if f.isEmpty then some (d, r) else some (d ++ '.' :: f, r'')
    | _ => some (d, r)

/-- mirrors: query_grammar.rs::negative_number -/
def negativeNumber (s : Str) : Option (Str × Str) :=
  match s with
  | '-' :: rest => (decimal rest).map fun (t, r) => ('-' :: t, r)
  | _ => none

/-- body of `escaped_string`: characters up to the unescaped closing delimiter -/
def quotedBody (q : Char) : Str → Option (Str × Str)
  | [] => none
  | '\\' :: c :: rest =>
    (quotedBody q rest).map fun (b, r) => (c :: b, r)
  | c :: rest =>
    if c == q then some ([], rest)
    else (quotedBody q rest).map fun (b, r) => (c :: b, r)

/-- mirrors: query_grammar.rs::simple_term -/
def simpleTerm (s : Str) : Option ((Delim × Str) × Str) :=
  match negativeNumber s with
  | some (t, r) => some ((.none, t), r)
  | none =>
    match s with
    | '\'' :: rest =>
      match quotedBody '\'' rest with
      | some (b, r) => some ((.single, b), r)
      | none =>
        -- alt continues: double quotes cannot match, `word` cannot start with a quote
        none
    | '"' :: rest =>
      match quotedBody '"' rest with
      | some (b, r) => some ((.double, b), r)
      | none => none
    | _ => (word s).map fun (w, r) => ((.none, w), r)

def natOfDigits (d : Str) : Nat := d.foldl (fun n c => n * 10 + (c.toNat - 48)) 0

/-- mirrors: query_grammar.rs::slop_or_prefix_val -/
def slopOrPrefix (s : Str) : (Nat × Bool) × Str :=
  match s with
  | '*' :: rest => ((0, true), rest)
  | '~' :: rest =>
    let (d, r) := takeDigits rest
    if d.isEmpty then ((0, false), s)
    else
      let n := natOfDigits d
      if n < 2 ^ Gen.GRAMMAR_SLOP_BITS then ((n, false), r) else ((0, false), s)
  | _ => ((0, false), s)

/-- mirrors: query_grammar.rs::term_or_phrase -/
def termOrPhrase (s : Str) : Option (CLeaf × Str) :=
  match simpleTerm s with
  | some ((d, p), r) =>
    let ((slop, pfx), r') := slopOrPrefix r
    some (.literal none p d slop pfx, r')
  | none => none

/-! ## ranges, sets, exists, regex -/

def relaxedFirstBad : List Char := ['`', '{', '}', '"', '[', ']', '(', ')']
def relaxedBad : List Char := ['{', '}', '"', '[', ']', '(', ')']

/-- mirrors: query_grammar.rs::relaxed_word -/
def relaxedWord (s : Str) : Option (Str × Str) :=
  match s with
  | c :: rest =>
    if !isUniSpace c && !relaxedFirstBad.contains c then
      let ok := fun (d : Char) => !isUniSpace d && !relaxedBad.contains d
      some (c :: rest.takeWhile ok, rest.dropWhile ok)
    else none
  | [] => none

/-- `alt((negative_number, relaxed_word, tag("*")))` -/
def rangeTermVal (s : Str) : Option (Str × Str) :=
  match negativeNumber s with
  | some x => some x
  | none =>
    match relaxedWord s with
    | some x => some x
    | none => (tag ['*'] s).map fun r => (['*'], r)

def star : Str := ['*']

/-- mirrors: query_grammar.rs::range -/
def range (s : Str) : Option (CLeaf × Str) :=
  let elastic : Option (CLeaf × Str) :=
    let s0 := skip0 s
    let sign : Option (Nat × Str) :=
      match tag ['>', '='] s0 with
      | some r => some (0, r)
      | none =>
        match tag ['<', '='] s0 with
        | some r => some (1, r)
        | none =>
          match tag ['<'] s0 with
          | some r => some (2, r)
          | none => (tag ['>'] s0).map fun r => (3, r)
    match sign with
    | none => none
    | some (k, r) =>
      match rangeTermVal (skip0 r) with
      | none => none
      | some (b, r') =>
        let (lo, hi) : Bound × Bound :=
          match k with
          | 0 => (.incl b, .unbounded)
          | 1 => (.unbounded, .incl b)
          | 2 => (.unbounded, .excl b)
          | _ => (.excl b, .unbounded)
        some (.range none lo hi, r')
  match elastic with
  | some x => some x
  | none =>
    match s with
    | open_ :: r =>
      if open_ == '{' || open_ == '[' then
        match rangeTermVal (skip0 r) with
        | none => none
        | some (lb, r1) =>
          let lower : Bound := if lb == star then .unbounded else if open_ == '{' then .excl lb else .incl lb
          match skip1 r1 with
          | none => none
          | some r2 =>
            match tag ['T', 'O'] r2 with
            | none => none
            | some r3 =>
              match skip1 r3 with
              | none => none
              | some r4 =>
                match rangeTermVal r4 with
                | none => none
                | some (ub, r5) =>
                  match skip0 r5 with
                  | close :: r6 =>
                    if close == '}' || close == ']' then
                      let upper : Bound :=
                        if ub == star then .unbounded else if close == '}' then .excl ub else .incl ub
                      some (.range none lower upper, r6)
                    else none
                  | [] => none
      else none
    | [] => none

/-- `separated_list0(multispace1, simple_term)` after the first element -/
def setMore : Nat → Str → List Str × Str
  | 0, s => ([], s)
  | fuel + 1, s =>
    match skip1 s with
    | none => ([], s)
    | some s1 =>
      match simpleTerm s1 with
      | none => ([], s)
      | some ((_, t), r) =>
        let (ts, r') := setMore fuel r
        (t :: ts, r')

/-- mirrors: query_grammar.rs::set -/
def set (s : Str) : Option (CLeaf × Str) :=
  match tag ['I', 'N'] (skip0 s) with
  | none => none
  | some r =>
    match skip1 r with
    | none => none
    | some r1 =>
      match r1 with
      | '[' :: r2 =>
        let r3 := skip0 r2
        let (elems, r4) : List Str × Str :=
          match simpleTerm r3 with
          | none => ([], r3)
          | some ((_, t), r) =>
            let (ts, r') := setMore r.length r
            (t :: ts, r')
        match r4 with
        | ']' :: r5 => some (.set none elems, r5)
        | _ => none
      | _ => none

/-- lookahead of `exists`: whitespace, a word-ending character other than `\`, or the end -/
def existsAhead (s : Str) : Bool :=
  match s with
  | [] => true
  | c :: _ => isUniSpace c || (escapeInWord.contains c && c != '\\')

/-- mirrors: query_grammar.rs::exists (the field is filled in by the caller) -/
def exists_ (s : Str) : Option Str :=
  match skip0 s with
  | '*' :: r => if existsAhead r then some r else none
  | _ => none

def regexBody : Str → Str × Str
  | '\\' :: '/' :: rest =>
    let (b, r) := regexBody rest
    ('/' :: b, r)
  | c :: rest =>
    if c == '/' then ([], c :: rest)
    else
      let (b, r) := regexBody rest
      (c :: b, r)
  | [] => ([], [])

/-- mirrors: query_grammar.rs::regex -/
def regex (s : Str) : Option (CLeaf × Str) :=
  match s with
  | '/' :: r =>
    let (b, r1) := regexBody r
    if b.isEmpty then none
    else
      match r1 with
      | '/' :: r2 =>
        let ahead := match r2 with
          | [] => true
          | c :: _ => isNomSpace c || c == ')' || c == '^'
        if ahead then some (.regex none b, r2) else none
      | _ => none
  | _ => none

/-- mirrors: user_input_ast.rs::UserInputLeaf::set_field; `none` = the `expect` panics -/
def setField (l : CLeaf) (f : Option Str) : Option CLeaf :=
  match l with
  | .literal _ p d s x => some (.literal f p d s x)
  | .all => some .all
  | .range _ lo hi => some (.range f lo hi)
  | .set _ es => some (.set f es)
  | .exists _ => f.map .exists
  | .regex _ p => some (.regex f p)

/-- mirrors: user_input_ast.rs::UserInputLeaf::set_default_field -/
def setDefaultFieldLeaf (f : Str) (l : CLeaf) : CLeaf :=
  match l with
  | .literal none p d s x => .literal (some f) p d s x
  | .all => .exists f
  | .range none lo hi => .range (some f) lo hi
  | .set none es => .set (some f) es
  | .regex none p => .regex (some f) p
  | l => l

mutual
def setDefaultField (f : Str) : Ast CLeaf → Ast CLeaf
  | .leaf l => .leaf (setDefaultFieldLeaf f l)
  | .boost a b => .boost (setDefaultField f a) b
  | .clause cs => .clause (setDefaultFieldL f cs)
def setDefaultFieldL (f : Str) : List (Entry CLeaf) → List (Entry CLeaf)
  | [] => []
  | (o, a) :: rest => (o, setDefaultField f a) :: setDefaultFieldL f rest
end

/-- the first branch of `literal` without the term group: `opt(field_name)` then a leaf -/
def plainLiteral (guard : Bool) (s : Str) : R (Ast CLeaf) :=
  let (f, s1) : Option Str × Str :=
    match fieldName s with
    | some (n, r) => (some n, r)
    | none => (none, s)
  let leaf : Option (CLeaf × Str) :=
    match range s1 with
    | some x => some x
    | none =>
      match set s1 with
      | some x => some x
      | none =>
        match exists_ s1 with
        | some r => some (.exists [], r)
        | none =>
          match regex s1 with
          | some x => some x
          | none => termOrPhrase s1
  match leaf with
  | none => .fail
  | some (l, r) =>
    match setField l f with
    | some l' => .ok (.leaf l') r
    | none =>
      -- an `exists` leaf without a field name: `set_field(None)` hits its `expect`, unless
      -- `literal` refuses the leaf first (read from the source by the extractor)
      if guard then .fail else .panic

/-! ## boosts -/

/-- the text of a boost: digits without the dot, number of fraction digits -/
structure BoostText where
  digits : Nat
  scale : Nat
  deriving DecidableEq, Repr

/-- boosts are stored in `Ast.boost` as `digits * 65536 + scale` (scale < 65536 for any input
    shorter than 65536 characters) -/
def BoostText.code (b : BoostText) : Nat := b.digits * 65536 + b.scale

/-- `(boost - 1.0).abs() > f64::EPSILON` on the decimal text: the value is exactly one
    (values within one ulp of 1.0 that are not written as 1 are not generated by the harness) -/
def BoostText.isOne (b : BoostText) : Bool := b.digits == 10 ^ b.scale

/-- canonical form of a decimal: no trailing zero in the fraction (`2.0` and `2` are the same
    `f64`, and `rewrite_ast` deduplicates clauses by value) -/
def BoostText.norm : Nat → BoostText → BoostText
  | 0, b => b
  | fuel + 1, b =>
    if b.scale > 0 && b.digits % 10 == 0 then BoostText.norm fuel ⟨b.digits / 10, b.scale - 1⟩ else b

/-- mirrors: query_grammar.rs::boost (`opt(preceded(char('^'), positive_float_number))`) -/
def boost (s : Str) : Option BoostText × Str :=
  match s with
  | '^' :: r =>
    match decimal r with
    | some (t, r') =>
      let ds := t.filter Char.isDigit
      let scale := match t.dropWhile (· != '.') with
        | _ :: frac => frac.length
        | [] => 0
      (some (BoostText.norm scale ⟨natOfDigits ds, scale⟩), r')
    | none => (none, s)
  | _ => (none, s)

def applyBoost (a : Ast CLeaf) (b : Option BoostText) : Ast CLeaf :=
  match b with
  | some bt => if bt.isOne then a else .boost a bt.code
  | none => a

/-! ## the recursive part: `ast`, `leaf`, operand lists -/

def occurSymbol (s : Str) : Option Occur × Str :=
  match s with
  | '-' :: r => (some .mustNot, r)
  | '+' :: r => (some .must, r)
  | _ => (none, s)

def binaryOperand (s : Str) : Option BinOp × Str :=
  match tag ['A', 'N', 'D', ' '] s with
  | some r => (some .and, r)
  | none =>
    match tag ['O', 'R', ' '] s with
    | some r => (some .or, r)
    | none => (none, s)

/-- lookahead of the `*` (all documents) leaf -/
def allAhead (s : Str) : Bool :=
  match s with
  | [] => true
  | c :: _ => isNomSpace c || c == ')' || (escapeInWord.contains c && c != '\\')

mutual
/-- mirrors: query_grammar.rs::ast -/
def pAst (g : Bool) : Nat → Str → R (Ast CLeaf)
  | 0, _ => .fail
  | fuel + 1, s =>
    (pOccurLeaf g fuel (skip0 s)).bind fun first rest =>
      let single : R (Ast CLeaf) :=
        .ok (if first.1 = some .mustNot then first.2.unary .mustNot else first.2) (skip0 rest)
      match skip1 rest with
      | none => single
      | some r1 =>
        match pOperands g fuel r1 with
        | .panic => .panic
        | .fail => single
        | .ok [] _ => single
        | .ok others r2 =>
          match strictFold first others with
          | .ok t => .ok t (skip0 r2)
          | .error _ => .fail
/-- `many1(operand_leaf)`: the elements parsed (empty = the first one failed) -/
def pOperands (g : Bool) : Nat → Str → R (List (Item CLeaf))
  | 0, s => .ok [] s
  | fuel + 1, s =>
    let (op, s1) := binaryOperand s
    match pOccurLeaf g fuel (skip0 s1) with
    | .panic => .panic
    | .fail => .ok [] s
    | .ok (occ, a) r =>
      let r' := skip0 r
      match pOperands g fuel r' with
      | .panic => .panic
      | .fail => .ok [(op, occ, a)] r'
      | .ok more r'' => .ok ((op, occ, a) :: more) r''
/-- mirrors: query_grammar.rs::occur_leaf (with `boosted_leaf` inlined) -/
def pOccurLeaf (g : Bool) : Nat → Str → R (Option Occur × Ast CLeaf)
  | 0, _ => .fail
  | fuel + 1, s =>
    let (occ, s1) := occurSymbol s
    (pLeaf g fuel s1).bind fun a r =>
      let (b, r') := boost r
      .ok (occ, applyBoost a b) r'
/-- mirrors: query_grammar.rs::leaf and ::literal / ::term_group -/
def pLeaf (g : Bool) : Nat → Str → R (Ast CLeaf)
  | 0, _ => .fail
  | fuel + 1, s =>
    let group : R (Ast CLeaf) :=
      match s with
      | '(' :: r =>
        (pAst g fuel r).bind fun a r1 =>
          match r1 with
          | ')' :: r2 => .ok a r2
          | _ => .fail
      | _ => .fail
    group.orElse fun _ =>
      let all : R (Ast CLeaf) :=
        match s with
        | '*' :: r => if allAhead r then .ok (.leaf .all) r else .fail
        | _ => .fail
      all.orElse fun _ =>
        let neg : R (Ast CLeaf) :=
          match tag ['N', 'O', 'T'] s with
          | some r =>
            match skip1 r with
            | some r1 => (pLeaf g fuel r1).map fun a => a.unary .mustNot
            | none => .fail
          | none => .fail
        neg.orElse fun _ =>
          (plainLiteral g s).orElse fun _ =>
            -- term_group: field_name ws0 '(' ws0 ast ')'
            match fieldName s with
            | some (f, r) =>
              match skip0 r with
              | '(' :: r1 =>
                (pAst g fuel (skip0 r1)).bind fun a r2 =>
                  match r2 with
                  | ')' :: r3 => .ok (setDefaultField f a) r3
                  | _ => .fail
              | _ => .fail
            | none => .fail
end

/-- outcome of `tantivy_query_grammar::parse_query` -/
inductive Outcome where
  | tree (t : Ast CLeaf)
  | error
  | panic
  deriving Repr, Inhabited

/-- mirrors: query_grammar.rs::parse_to_ast + lib.rs::parse_query. `guard` says whether `literal`
    refuses an exists leaf without a field name. The fuel exceeds what an input of this length can
    use (each nesting level costs three fuel steps and consumes a character, each operand one). -/
def parseStrictWith (guard : Bool) (s : Str) : Outcome :=
  let s0 := skip0 s
  match pAst guard (8 * s.length + 16) s0 with
  | .panic => .panic
  | .ok t [] => .tree (rewrite t)
  | .ok _ (_ :: _) => .error
  | .fail => if s0.isEmpty then .tree (rewrite Ast.emptyQuery) else .error

/-- the strict parser of the source at hand (the guard is read from the source by the extractor) -/
def parseStrict (s : Str) : Outcome :=
  parseStrictWith (Gen.GRAMMAR_LITERAL_GUARDS_FIELDLESS_EXISTS == 1) s

end TantivyModel.Grammar.Chars
