import TantivyModel.Model.Grammar.Chars
/-!
# C16 — a printer for the well-formed fragment (the printer of `C16_print_parse_*`)

An operand (`Opd`) is a text together with the tree it stands for: a word, or a parenthesised
operand list. `printList lead occ o more k tail` is the text
`[+|-]o ( [AND |OR ] [+|-]oᵢ )*` with the layout choices made explicit: `lead` leading blanks,
`1 + sp1` blanks before each further operand, `sp2` blanks after an operator keyword, `k`
trailing blanks, followed by `tail` (nothing, or the `)` of the enclosing group).
-/
namespace TantivyModel.Grammar.Chars
open TantivyModel.Grammar

/-- a printed operand: its text, the tree it denotes, the fuel `pLeaf` needs to read it -/
structure Opd where
  text : Str
  leaf : Ast CLeaf
  cost : Nat

/-- one further operand of a list: operator before it, occur marker, the operand and the layout
    choices (extra blanks before the item, blanks after the operator keyword) -/
structure PItem where
  op : Option BinOp
  occ : Option Occur
  opd : Opd
  sp1 : Nat
  sp2 : Nat

def spaces (n : Nat) : Str := List.replicate n ' '

def opText : Option BinOp → Str
  | some .and => ['A', 'N', 'D', ' ']
  | some .or => ['O', 'R', ' ']
  | none => []

def markText : Option Occur → Str
  | some .must => ['+']
  | some .mustNot => ['-']
  | _ => []

def normOcc : Option Occur → Option Occur
  | some .must => some .must
  | some .mustNot => some .mustNot
  | _ => none

def leafOf (w : Str) : Ast CLeaf := .leaf (.literal none w .none 0 false)

def itemOf (it : PItem) : Item CLeaf := (it.op, normOcc it.occ, it.opd.leaf)

/-- the text of one operand after its separating blank -/
def itemText (it : PItem) : Str :=
  opText it.op ++ (if it.op.isSome then spaces it.sp2 else []) ++ markText it.occ ++ it.opd.text

/-- the text after the first operand: each further operand with at least one blank before it,
    then `k` trailing blanks and `tail` -/
def printRest : List PItem → Nat → Str → Str
  | [], k, tail => spaces k ++ tail
  | it :: more, k, tail => ' ' :: (spaces it.sp1 ++ (itemText it ++ printRest more k tail))

/-- the printed operand list -/
def printList (lead : Nat) (occ : Option Occur) (o : Opd) (more : List PItem) (k : Nat) (tail : Str) : Str :=
  spaces lead ++ (markText occ ++ (o.text ++ printRest more k tail))

/-- fuel an operand list needs after its first operand -/
def needRest : List PItem → Nat
  | [] => 3
  | it :: more => it.opd.cost + 1 + needRest more

/-- the tree of an operand list: the strict fold of its items (which never fails) -/
def listTree (occ : Option Occur) (o : Opd) (more : List PItem) : Ast CLeaf :=
  match strictAst (normOcc occ, o.leaf) (more.map itemOf) with
  | .ok t => t
  | .error _ => Ast.emptyQuery

/-- the items `AND x` / `OR x` without markers, with their layout -/
def opItems (ops : List (BinOp × Opd × Nat × Nat)) : List PItem :=
  ops.map fun x => ⟨some x.1, none, x.2.1, x.2.2.1, x.2.2.2⟩

/-- juxtaposed items `[+|-]x` (no operator keyword), each after `n + 1` blanks -/
def markItems (ms : List (Option Occur × Opd × Nat)) : List PItem :=
  ms.map fun x => ⟨none, x.1, x.2.1, x.2.2, 0⟩

/-- the clause entries such a list denotes -/
def markEntries (occ : Option Occur) (o : Opd) (ms : List (Option Occur × Opd × Nat)) : List (Entry CLeaf) :=
  (normOcc occ, o.leaf) :: ms.map fun x => (normOcc x.1, x.2.1.leaf)

/-- the `-` marker of a chain operand -/
def negMark (n : Bool) : Option Occur := if n then some .mustNot else none

/-- the items `AND [-]x` / `OR [-]x`, with their layout -/
def nopItems (nops : List (BinOp × Bool × Opd × Nat × Nat)) : List PItem :=
  nops.map fun x => ⟨some x.1, negMark x.2.1, x.2.2.1, x.2.2.2.1, x.2.2.2.2⟩

/-- a word as an operand -/
def wordOpd (w : Str) : Opd := ⟨w, leafOf w, 1⟩

/-- the body of a double-quoted phrase written without escapes: any characters except `"` and `\` -/
def PhraseBody (body : Str) : Prop := ∀ c ∈ body, c ≠ '"' ∧ c ≠ '\\'

/-- a double-quoted phrase as an operand -/
def phraseOpd (body : Str) : Opd :=
  ⟨'"' :: (body ++ ['"']), .leaf (.literal none body .double 0 false), 1⟩

/-- `name:word` as an operand -/
def fieldWordOpd (f w : Str) : Opd :=
  ⟨f ++ ':' :: w, .leaf (.literal (some f) w .none 0 false), 1⟩

/-- `name:"phrase"` as an operand -/
def fieldPhraseOpd (f body : Str) : Opd :=
  ⟨f ++ ':' :: '"' :: (body ++ ['"']), .leaf (.literal (some f) body .double 0 false), 1⟩

/-- what may follow the closing quote of a phrase: nothing, a slop `~digits`, or the prefix star -/
inductive Sfx where
  | none | slop (ds : Str) | pfx

def Sfx.text : Sfx → Str
  | .none => []
  | .slop ds => '~' :: ds
  | .pfx => ['*']

def Sfx.slopVal : Sfx → Nat
  | .slop ds => natOfDigits ds
  | _ => 0

def Sfx.isPfx : Sfx → Bool
  | .pfx => true
  | _ => false

/-- a slop is a non-empty digit string whose value fits the slop type -/
def WFSfx : Sfx → Prop
  | .slop ds => ds ≠ [] ∧ (∀ d ∈ ds, d.isDigit = true) ∧ natOfDigits ds < 2 ^ Gen.GRAMMAR_SLOP_BITS
  | _ => True

/-- `"phrase"~2` / `"phrase"*` as an operand -/
def phraseSfxOpd (body : Str) (x : Sfx) : Opd :=
  ⟨'"' :: (body ++ '"' :: x.text), .leaf (.literal none body .double x.slopVal x.isPfx), 1⟩

/-- `name:"phrase"~2` / `name:"phrase"*` as an operand -/
def fieldPhraseSfxOpd (f body : Str) (x : Sfx) : Opd :=
  ⟨f ++ ':' :: '"' :: (body ++ '"' :: x.text), .leaf (.literal (some f) body .double x.slopVal x.isPfx), 1⟩

/-- the text of a bracketed range: `[a TO b]` (inclusive bounds), `{a TO b}` (exclusive), or mixed -/
def rangeText (lo hi : Bool) (w1 w2 : Str) : Str :=
  (if lo then '[' else '{') :: (w1 ++ ' ' :: 'T' :: 'O' :: ' ' :: (w2 ++ [if hi then ']' else '}']))

/-- a bracketed range as an operand -/
def rangeOpd (lo hi : Bool) (w1 w2 : Str) : Opd :=
  ⟨rangeText lo hi w1 w2,
    .leaf (.range none (if lo then .incl w1 else .excl w1) (if hi then .incl w2 else .excl w2)), 1⟩

/-- `name:[a TO b]` as an operand -/
def fieldRangeOpd (f : Str) (lo hi : Bool) (w1 w2 : Str) : Opd :=
  ⟨f ++ ':' :: rangeText lo hi w1 w2,
    .leaf (.range (some f) (if lo then .incl w1 else .excl w1) (if hi then .incl w2 else .excl w2)), 1⟩

/-- the further elements of a set, each after `k + 1` blanks -/
def elemsText : List (Nat × Str) → Str
  | [] => []
  | (k, w) :: more => ' ' :: (spaces k ++ (w ++ elemsText more))

/-- the text of a set: `IN`, `k0 + 1` blanks, `[`, `k1` blanks, the elements, `]` -/
def setText (k0 k1 : Nat) (w : Str) (more : List (Nat × Str)) : Str :=
  'I' :: 'N' :: ' ' :: (spaces k0 ++ '[' :: (spaces k1 ++ (w ++ (elemsText more ++ [']']))))

/-- `IN [a b c]` as an operand -/
def setOpd (k0 k1 : Nat) (w : Str) (more : List (Nat × Str)) : Opd :=
  ⟨setText k0 k1 w more, .leaf (.set none (w :: more.map (·.2))), 1⟩

/-- `name:IN [a b c]` as an operand -/
def fieldSetOpd (f : Str) (k0 k1 : Nat) (w : Str) (more : List (Nat × Str)) : Opd :=
  ⟨f ++ ':' :: setText k0 k1 w more, .leaf (.set (some f) (w :: more.map (·.2))), 1⟩

/-- the body of a double-quoted phrase with `"` and `\` escaped by a backslash -/
def escQuoted : Str → Str
  | [] => []
  | c :: r => if c == '"' || c == '\\' then '\\' :: c :: escQuoted r else c :: escQuoted r

/-- a double-quoted phrase of any characters (printed with escapes), optionally with a suffix -/
def phraseEscOpd (body : Str) (x : Sfx) : Opd :=
  ⟨'"' :: (escQuoted body ++ '"' :: x.text), .leaf (.literal none body .double x.slopVal x.isPfx), 1⟩

/-- `name:"phrase"` of any characters (printed with escapes), optionally with a suffix -/
def fieldPhraseEscOpd (f body : Str) (x : Sfx) : Opd :=
  ⟨f ++ ':' :: '"' :: (escQuoted body ++ '"' :: x.text),
    .leaf (.literal (some f) body .double x.slopVal x.isPfx), 1⟩

/-- `*` (all documents) as an operand -/
def allOpd : Opd := ⟨['*'], .leaf .all, 1⟩

/-- `name:*` (the field exists) as an operand -/
def existsOpd (f : Str) : Opd := ⟨f ++ [':', '*'], .leaf (.exists f), 1⟩

/-- the sign of an elastic range: 0 `>=`, 1 `<=`, 2 `<`, 3 `>` -/
def signText : Nat → Str
  | 0 => ['>', '=']
  | 1 => ['<', '=']
  | 2 => ['<']
  | _ => ['>']

def signBounds (k : Nat) (w : Str) : Bound × Bound :=
  match k with
  | 0 => (.incl w, .unbounded)
  | 1 => (.unbounded, .incl w)
  | 2 => (.unbounded, .excl w)
  | _ => (.excl w, .unbounded)

/-- `>=a` / `<=a` / `<a` / `>a` as an operand -/
def elasticOpd (k : Nat) (w : Str) : Opd :=
  ⟨signText k ++ w, .leaf (.range none (signBounds k w).1 (signBounds k w).2), 1⟩

/-- `name:>=a` etc. as an operand -/
def fieldElasticOpd (f : Str) (k : Nat) (w : Str) : Opd :=
  ⟨f ++ ':' :: (signText k ++ w), .leaf (.range (some f) (signBounds k w).1 (signBounds k w).2), 1⟩

/-- the decimal text of a boost: integer digits and fraction digits (empty: no `.`) -/
structure BoostLit where
  int : Str
  frac : Str

def BoostLit.text (b : BoostLit) : Str :=
  match b.frac with
  | [] => b.int
  | f => b.int ++ '.' :: f

/-- the value the grammar computes from the text -/
def BoostLit.val (b : BoostLit) : BoostText :=
  BoostText.norm b.frac.length ⟨natOfDigits (b.int ++ b.frac), b.frac.length⟩

def WFBoost (b : BoostLit) : Prop :=
  b.int ≠ [] ∧ (∀ d ∈ b.int, d.isDigit = true) ∧ (∀ d ∈ b.frac, d.isDigit = true)

/-- `x^2.5` as an item of a list -/
def boostOpd (o : Opd) (b : BoostLit) : Opd :=
  ⟨o.text ++ '^' :: b.text, applyBoost o.leaf (some b.val), o.cost⟩

/-- `name:( … )`: a parenthesised operand list with a default field -/
def fieldGroupOpd (f : Str) (lead : Nat) (occ : Option Occur) (o : Opd) (more : List PItem) (k : Nat) : Opd :=
  ⟨f ++ ':' :: '(' :: printList lead occ o more k [')'], setDefaultField f (listTree occ o more),
    o.cost + needRest more + 3⟩

/-- the body of a single-quoted phrase with `'` and `\` escaped by a backslash -/
def escSingle : Str → Str
  | [] => []
  | c :: r => if c == '\'' || c == '\\' then '\\' :: c :: escSingle r else c :: escSingle r

/-- a single-quoted phrase of any characters (printed with escapes), optionally with a suffix -/
def phraseSOpd (body : Str) (x : Sfx) : Opd :=
  ⟨'\'' :: (escSingle body ++ '\'' :: x.text), .leaf (.literal none body .single x.slopVal x.isPfx), 1⟩

/-- `name:'phrase'` of any characters (printed with escapes), optionally with a suffix -/
def fieldPhraseSOpd (f body : Str) (x : Sfx) : Opd :=
  ⟨f ++ ':' :: '\'' :: (escSingle body ++ '\'' :: x.text),
    .leaf (.literal (some f) body .single x.slopVal x.isPfx), 1⟩

/-- `NOT x` (`k + 1` blanks after the keyword) as an operand -/
def notOpd (k : Nat) (o : Opd) : Opd :=
  ⟨'N' :: 'O' :: 'T' :: ' ' :: (spaces k ++ o.text), o.leaf.unary .mustNot, o.cost + 1⟩

/-- a parenthesised operand list as an operand -/
def groupOpd (lead : Nat) (occ : Option Occur) (o : Opd) (more : List PItem) (k : Nat) : Opd :=
  ⟨'(' :: printList lead occ o more k [')'], listTree occ o more, o.cost + needRest more + 3⟩

end TantivyModel.Grammar.Chars
