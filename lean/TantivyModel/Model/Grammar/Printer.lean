import TantivyModel.Model.Grammar.Chars
/-!
# C16 — a printer for operand lists of words (the printer of `C16_print_parse_operands`)

`printList lead occ w more k` is the text `[+|-]w ( [AND |OR ] [+|-]wᵢ )*` with the layout choices
made explicit: `lead` leading blanks, `1 + sp1` blanks before each further operand, `sp2` blanks
after an operator keyword, `k` trailing blanks.
-/
namespace TantivyModel.Grammar.Chars
open TantivyModel.Grammar

/-- one printed operand: operator before it, occur marker, the word, and the layout choices
    (extra blanks before the item, blanks after the operator keyword) -/
structure PItem where
  op : Option BinOp
  occ : Option Occur
  word : Str
  sp1 : Nat
  sp2 : Nat

def spaces (n : Nat) : Str := List.replicate n ' '

def opText : Option BinOp → Str
  | some .and => ['A', 'N', 'D', ' ']
  | some .or => ['O', 'R', ' ']
  | none => []

def markText : Option Occur → Str
  | some .must => ['+']
  | some .mustNot => ['-']
  | _ => []

def normOcc : Option Occur → Option Occur
  | some .must => some .must
  | some .mustNot => some .mustNot
  | _ => none

def leafOf (w : Str) : Ast CLeaf := .leaf (.literal none w .none 0 false)

def itemOf (it : PItem) : Item CLeaf := (it.op, normOcc it.occ, leafOf it.word)

/-- the text of one operand after its separating blank -/
def itemText (it : PItem) : Str :=
  opText it.op ++ (if it.op.isSome then spaces it.sp2 else []) ++ markText it.occ ++ it.word

/-- the text after the first operand: each further operand with at least one blank before it,
    then `k` trailing blanks -/
def printRest : List PItem → Nat → Str
  | [], k => spaces k
  | it :: more, k => ' ' :: (spaces it.sp1 ++ (itemText it ++ printRest more k))

/-- the printed operand list: leading blanks, `[+|-]word`, the other operands, trailing blanks -/
def printList (lead : Nat) (occ : Option Occur) (w : Str) (more : List PItem) (k : Nat) : Str :=
  spaces lead ++ (markText occ ++ (w ++ printRest more k))

end TantivyModel.Grammar.Chars
