import TantivyModel.Model.Grammar.Chars
/-!
# C16 — character layer: the lenient (infallible) grammar as a total Lean parser

Mirrors `parse_to_ast_lenient` and the `*_infallible` functions of
`query-grammar/src/query_grammar.rs` together with the combinators of `infallible.rs`
(`opt_i`, `opt_i_err`, `alt_infallible` with its committing precondition parsers,
`separated_list_infallible` with its no-progress check). Every parser always returns: a value, the
number of errors it recorded (messages and positions are not modelled) and the remaining input.
The endless loop of `set_infallible` on a round without progress (absent once the source has the
guard, which the extractor reads) is a result of its own, `diverges`.
-/
namespace TantivyModel.Grammar.Chars
open TantivyModel.Grammar

/-! ## words and quoted strings -/

/-- `many1(alt((preceded('\\', anychar), satisfy(!whitespace && !delimiter))))` : characters, rest -/
def wordInfChars (delim : List Char) : Str → Str × Str
  | [] => ([], [])
  | '\\' :: c :: rest =>
    let (w, r) := wordInfChars delim rest
    ('\\' :: c :: w, r)
  | c :: rest =>
    if !isUniSpace c && !delim.contains c then
      let (w, r) := wordInfChars delim rest
      (c :: w, r)
    else ([], c :: rest)

/-- an unescaped `:` inside the word or a leading `:` ("parsed possible invalid field as term") -/
def colonSuspect : Str → Bool
  | [] => false
  | c :: rest => c == ':' || (rest.zip (c :: rest)).any (fun (x, p) => x == ':' && p != '\\')

/-- mirrors: query_grammar.rs::word_infallible -/
def wordInf (delim : List Char) (emit : Bool) (s : Str) : (Option Str × Nat) × Str :=
  let (raw, r) := wordInfChars delim (skip0 s)
  if raw.isEmpty then ((none, 1), s)
  else
    let e := if emit && colonSuspect raw then 1 else 0
    ((some (if raw.contains '\\' then interpretEscape raw else raw), e), r)

/-- body of the lenient `escaped_string`: characters, rest after the closing delimiter (`none`: the
    input ended first) -/
def quotedInfBody (q : Char) : Str → Str × Option Str
  | [] => ([], none)
  | '\\' :: c :: rest =>
    let (b, r) := quotedInfBody q rest
    (c :: b, r)
  | c :: rest =>
    if c == q then ([], some rest)
    else
      let (b, r) := quotedInfBody q rest
      (c :: b, r)

/-- mirrors: query_grammar.rs::simple_term_infallible -/
def simpleTermInf (delim : List Char) (s : Str) : (Option (Delim × Str) × Nat) × Str :=
  let quoted := fun (q : Char) (d : Delim) (r : Str) =>
    match quotedInfBody q r with
    | (b, some r') => ((some (d, b), 0), r')
    | (b, none) => ((some (d, b), 1), ([] : Str))
  match s with
  | '"' :: r => quoted '"' .double r
  | '\'' :: r => quoted '\'' .single r
  | _ =>
    let ((w, e), r) := wordInf delim true s
    ((w.map fun t => (Delim.none, t), e), r)

/-- mirrors: query_grammar.rs::term_or_phrase_infallible -/
def termOrPhraseInf (s : Str) : (Option CLeaf × Nat) × Str :=
  let ((dp, e), r1) := simpleTermInf [')', '^'] s
  let ((slop, pfx), r2) := slopOrPrefix r1
  let leaf : Option CLeaf :=
    match dp with
    | some (d, p) => some (.literal none p d slop pfx)
    | none => if slop != 0 then some (.literal none [] .none slop pfx) else none
  ((leaf, e), r2)

/-! ## ranges, sets, regexes -/

def space1Inf (s : Str) : Nat × Str :=
  match skip1 s with
  | some r => (0, r)
  | none => (1, s)

/-- mirrors: query_grammar.rs::range_infallible (entered when the next character is one of `{[><`) -/
def rangeInf (s : Str) : (CLeaf × Nat) × Str :=
  let elastic := fun (r : Str) (mk : Option Str → Bound × Bound) =>
    let ((b, e), r') := wordInf [')'] false r
    let (lo, hi) := mk b
    ((CLeaf.range none lo hi, e), r')
  let bd := fun (f : Str → Bound) (b : Option Str) => (b.map f).getD Bound.unbounded
  match tag ['>', '='] s with
  | some r => elastic r fun b => (bd .incl b, .unbounded)
  | none =>
    match tag ['<', '='] s with
    | some r => elastic r fun b => (.unbounded, bd .incl b)
    | none =>
      match tag ['>'] s with
      | some r => elastic r fun b => (bd .excl b, .unbounded)
      | none =>
        match tag ['<'] s with
        | some r => elastic r fun b => (.unbounded, bd .excl b)
        | none =>
          let (kind, r0) : Option Char × Str :=
            match s with
            | k :: r => (some k, r)
            | [] => (none, [])
          let ((lw, e1), r2) := wordInf [']', '}'] false (skip0 r0)
          let (e2, r3) := space1Inf r2
          let (to_, e3, r4) : Bool × Nat × Str :=
            match tag ['T', 'O'] r3 with
            | some r =>
              match skip1 r with
              | some r' => (true, 0, r')
              | none => if r.isEmpty then (true, 0, r) else (false, 1, r3)
            | none => (false, 1, r3)
          let ((uw, e4), r5) := wordInf [']', '}'] false r4
          let (close, e5, r6) : Option Char × Nat × Str :=
            match r5 with
            | c :: r => if c == ']' || c == '}' then (some c, 0, r) else (none, 1, r5)
            | [] => (none, 1, r5)
          let lower : Bound :=
            match lw with
            | none => .unbounded
            | some b =>
              if b == star then .unbounded
              else if b == ['T', 'O'] && !to_ then .unbounded
              else if kind == some '[' then .incl b
              else if kind == some '{' then .excl b
              else .unbounded
          let upper : Bound :=
            match uw with
            | none => .unbounded
            | some b =>
              if b == star then .unbounded
              else if close == some '}' then .excl b
              else .incl b
          ((.range none lower upper, e1 + e2 + e3 + e4 + e5), r6)

/-- result of the set loop: elements, errors, rest — or the endless loop -/
inductive SetRes where
  | done (elems : List Str) (errs : Nat) (rest : Str)
  | diverges
  deriving Repr, Inhabited

/-- mirrors: query_grammar.rs::set_infallible (after `IN [`); `guard` = a round without progress
    skips one character instead of repeating forever -/
def setLoop (guard : Bool) : Nat → Bool → Str → SetRes
  | 0, _, s => .done [] 0 s
  | fuel + 1, first, inp0 =>
    let (spaceErr, inp) : Nat × Str := if first then (0, inp0) else space1Inf inp0
    match inp with
    | [] => .done [] 1 []
    | ']' :: r => .done [] 0 r
    | _ =>
      let ((dt, e), rest) := simpleTermInf [']'] inp
      let stuck := rest.length == inp.length
      if stuck && !guard then .diverges
      else
        let next := if stuck then inp.tail else rest
        match setLoop guard fuel false next with
        | .diverges => .diverges
        | .done els e2 r2 =>
          .done (match dt with | some (_, t) => t :: els | none => els)
            (spaceErr + e + (if stuck then 1 else 0) + e2) r2

/-- mirrors: query_grammar.rs::regex_infallible -/
def regexInf (s : Str) : (CLeaf × Nat) × Str :=
  let (e1, r1) : Nat × Str :=
    match s with
    | '/' :: r => (0, r)
    | _ => (1, s)
  let (b, r2) := regexBody r1
  let (pat, r3) : Str × Str := if b.isEmpty then ([], r1) else (b, r2)
  let (e2, r4) : Nat × Str :=
    match r3 with
    | '/' :: r => (0, r)
    | _ => (1, r3)
  let ahead := match r4 with
    | [] => true
    | c :: _ => isNomSpace c || c == ')' || c == '^'
  ((.regex none pat, e1 + e2 + (if ahead then 0 else 1)), r4)

/-- outcome of a lenient parser that may contain a set: value, errors, rest — or the endless loop -/
inductive J (α : Type) where
  | ok (a : α) (errs : Nat) (rest : Str)
  | diverges
  deriving Repr, Inhabited

def J.bind {α β : Type} (j : J α) (f : α → Nat → Str → J β) : J β :=
  match j with
  | .ok a e r => f a e r
  | .diverges => .diverges

/-- mirrors: query_grammar.rs::literal_no_group_infallible -/
def literalNoGroupInf (guard : Bool) (s : Str) : J (Option (Ast CLeaf)) :=
  let (f, s1) : Option Str × Str :=
    match fieldName s with
    | some (n, r) => (some n, r)
    | none => (none, s)
  let s2 := skip0 s1
  let finish := fun (leaf : Option CLeaf) (e : Nat) (r : Str) =>
    match leaf with
    | none => J.ok none e r
    | some l =>
      let notErr := match l with
        | .literal _ p .none _ _ => if p == ['N', 'O', 'T'] && f.isNone then 1 else 0
        | _ => 0
      J.ok ((setField l f).map Ast.leaf) (e + notErr) r
  let setStart : Option Str :=
    match tag ['I', 'N'] s2 with
    | some r =>
      match skip0 r with
      | '[' :: r' => some r'
      | _ => none
    | none => none
  match setStart with
  | some r =>
    match setLoop guard (r.length + 1) true r with
    | .diverges => .diverges
    | .done els e r' => finish (some (.set none els)) e r'
  | none =>
    match s2 with
    | c :: _ =>
      if c == '{' || c == '[' || c == '>' || c == '<' then
        let ((l, e), r) := rangeInf s2
        finish (some l) e r
      else if c == '/' then
        let ((l, e), r) := regexInf s2
        finish (some l) e r
      else
        let ((l, e), r) := termOrPhraseInf (skip0 s2)
        finish l e r
    | [] =>
      let ((l, e), r) := termOrPhraseInf s2
      finish l e r

/-- `term_group_precond`: field name, spaces, `(` — returns the field and the input after `(` and spaces -/
def termGroupStart (s : Str) : Option (Str × Str) :=
  match fieldName s with
  | some (f, r) =>
    match skip0 r with
    | '(' :: r' => some (f, skip0 r')
    | _ => none
  | none => none

/-- `exists_precond` / `exists_infallible` -/
def existsStart (s : Str) : Option (Str × Str) :=
  match fieldName s with
  | some (f, r) =>
    match skip0 r with
    | '*' :: r' => if existsAhead r' then some (f, r') else none
    | _ => none
  | none => none

def sumErrs (a b : Nat) : Nat := a + b

mutual
/-- mirrors: query_grammar.rs::ast_infallible -/
def astInf (g : Bool) : Nat → Str → J (Ast CLeaf)
  | 0, s => .ok Ast.emptyQuery 0 s
  | fuel + 1, s =>
    (operandInf g fuel (skip0 s)).bind fun first e1 r1 =>
      (sepLoop g fuel r1).bind fun more e2 r2 =>
        let (t, errs) := lenientFold (first :: more)
        .ok t (e1 + e2 + errs.length) (skip0 r2)
/-- the loop of `separated_list_infallible(space1_infallible, operand_occur_leaf_infallible)` -/
def sepLoop (g : Bool) : Nat → Str → J (List (RawItem CLeaf))
  | 0, s => .ok [] 0 s
  | fuel + 1, i =>
    let (eSep, iSep) := space1Inf i
    (operandInf g fuel iSep).bind fun item eItem rest =>
      if rest.length == iSep.length then .ok [] 0 i
      else
        (sepLoop g fuel rest).bind fun more eMore r =>
          .ok (item :: more) (eSep + eItem + eMore) r
/-- mirrors: query_grammar.rs::operand_occur_leaf_infallible (with `boosted_leaf_infallible`) -/
def operandInf (g : Bool) : Nat → Str → J (RawItem CLeaf)
  | 0, s => .ok (none, none, none) 0 s
  | fuel + 1, s =>
    let (op, s1) := binaryOperand s
    let (occ, s2) := occurSymbol (skip0 s1)
    (leafInf g fuel s2).bind fun leaf e r =>
      let (b, r') := boost r
      .ok (op, occ, leaf.map fun a => applyBoost a b) e r'
/-- mirrors: query_grammar.rs::leaf_infallible and ::literal_infallible / ::term_group_infallible -/
def leafInf (g : Bool) : Nat → Str → J (Option (Ast CLeaf))
  | 0, s => .ok none 0 s
  | fuel + 1, s =>
    match s with
    | '(' :: r =>
      (astInf g fuel r).bind fun a e r1 =>
        match r1 with
        | ')' :: r2 => .ok (some a) e r2
        | _ => .ok (some a) (e + 1) r1
    | _ =>
      let allBranch : Option Str :=
        match s with
        | '*' :: r => if allAhead r then some r else none
        | _ => none
      match allBranch with
      | some r => .ok (some (.leaf .all)) 0 r
      | none =>
        match tag ['N', 'O', 'T', ' '] s with
        | some r =>
          (leafInf g fuel (skip0 r)).bind fun a e r' => .ok (a.map fun x => x.unary .mustNot) e r'
        | none =>
          match termGroupStart s with
          | some (f, r) =>
            (astInf g fuel r).bind fun a e r1 =>
              match r1 with
              | ')' :: r2 => .ok (some (setDefaultField f a)) e r2
              | _ => .ok (some (setDefaultField f a)) (e + 1) r1
          | none =>
            match existsStart s with
            | some (f, r) => .ok (some (.leaf (.exists f))) 0 r
            | none => literalNoGroupInf g s
end

/-- outcome of `tantivy_query_grammar::parse_query_lenient` -/
inductive LOutcome where
  | tree (t : Ast CLeaf) (errs : Nat)
  | diverges
  deriving Repr, Inhabited

/-- mirrors: query_grammar.rs::parse_to_ast_lenient; `guard` = `set_infallible` has its progress guard -/
def parseLenientWith (guard : Bool) (s : Str) : LOutcome :=
  if s.all isUniSpace then .tree (rewrite Ast.emptyQuery) 0
  else
    match astInf guard (8 * s.length + 16) s with
    | .diverges => .diverges
    | .ok t e left => .tree (rewrite t) (e + (if left.all isUniSpace then 0 else 1))

def parseLenient (s : Str) : LOutcome :=
  parseLenientWith (Gen.GRAMMAR_SET_LOOP_GUARD == 1) s

end TantivyModel.Grammar.Chars
