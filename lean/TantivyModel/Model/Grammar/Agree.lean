import TantivyModel.Model.Grammar.CharsLenient
/-!
# C16 — where the strict and the lenient grammar are bound to agree

`featureFree text` is a decidable, purely textual predicate that excludes every catalogued lexical
difference of the two grammars (each `known:` family `C16:lenient-*`): whitespace before a closing
range/set bracket or after `[`, `NOT` followed by tab/newline, a keyword used as a field name,
the commit characters `/`, `<`, `>`, escapes, a negative number with a suffix, and clauses that
touch without whitespace. The intended theorem (`C16_lenient_agrees_chars`, stated in
Props/C16.lean) is: on a feature-free text that `parseStrict` accepts, `parseLenient` returns the
same tree and no error. The harness evaluates exactly this implication on every generated string
(real parsers and Lean models).
-/
namespace TantivyModel.Grammar.Chars

def isWordCh (c : Char) : Bool :=
  c.isAlphanum || c == '_' || c == '.' || (c.toNat ≥ 128 && !isUniSpace c)

def atEndOrOneOf (cs : List Char) (s : Str) : Bool :=
  match s with
  | [] => true
  | c :: _ => isNomSpace c || cs.contains c

/-- after `^`: `digits ('.' digits)?` then the end, whitespace or `)` -/
def boostTail (s : Str) : Bool :=
  match decimal s with
  | some (_, r) => atEndOrOneOf [')'] r
  | none => false

/-- after a closing quote: nothing, whitespace, `)`, `^`, `]`, or `~digits` / `*` followed by those -/
def afterQuote (s : Str) : Bool :=
  match s with
  | '~' :: r =>
    let (d, r') := takeDigits r
    !d.isEmpty && natOfDigits d < 4294967296 && atEndOrOneOf [')', '^'] r'
  | '*' :: r => atEndOrOneOf [')', '^'] r
  | _ => atEndOrOneOf [')', '^', ']'] s

/-- a keyword (`NOT`, `AND`, `OR`) followed by spaces and a colon, or `NOT` followed by tab/CR/LF -/
def keywordFeature : Str → Bool
  | [] => false
  | c :: rest =>
    let s := c :: rest
    let colonAfter := fun (r : Str) => match skip0 r with | ':' :: _ => true | _ => false
    (match tag ['N', 'O', 'T'] s with
      | some r => colonAfter r || (match r with | d :: _ => d == '\t' || d == '\r' || d == '\n' | [] => false)
          -- `NOT +x`: after NOT the sign is an ordinary word character for the strict grammar
          || (match skip0 r with | d :: _ => d == '+' || d == '-' | [] => false)
      | none => false)
    || (match tag ['A', 'N', 'D'] s with | some r => colonAfter r | none => false)
    || (match tag ['O', 'R'] s with | some r => colonAfter r | none => false)
    || keywordFeature rest

def tokenStart (prev : Option Char) : Bool :=
  match prev with
  | none => true
  | some p => isNomSpace p || p == '('

mutual
/-- scan outside quotes; `prev` = previous character, `ps` = it is an occur marker at a clause start,
    `ac` = the last non-blank character is a field's colon (value position) -/
def scanOut (prev : Option Char) (ps : Bool) (ac : Bool) : Str → Bool
  | [] => true
  | c :: rest =>
    if c == '"' || c == '\'' then
      (tokenStart prev || prev == some ':' || ps || prev == some '[')
        && scanQuote c rest
    else
      let ok : Bool :=
        if isNomSpace c then prev != some '['
        else if c == ']' || c == '}' then (match prev with | some p => !isNomSpace p | none => false)
        else if c == '(' || c == '[' || c == '{' then
          tokenStart prev || prev == some ':' || ps
        else if c == '^' then (match prev with | some p => !isNomSpace p | none => false) && boostTail rest
        else if prev == some ')' || prev == some ']' || prev == some '}' then c == ')'
        else if c == ')' then true
        else if c == '+' || c == '-' then
          if tokenStart prev then
            (match rest with
              | d :: _ =>
                !isNomSpace d
                && (if c == '-' && d.isDigit then
                      match negativeNumber (c :: rest) with
                      | some (_, r) => atEndOrOneOf [')', '^', ']', '}'] r
                      | none => true
                    else true)
              | [] => false)
          else
            -- after a field's colon or an occur marker (`+-1.`): a negative number must end
            -- cleanly as well
            (if c == '-' && (prev == some ':' || ps) then
              match negativeNumber (c :: rest) with
              | some (_, r) => atEndOrOneOf [')', '^', ']', '}'] r
              | none => true
            else true)
        else if c == ':' then
          (match prev with | some p => isWordCh p || isNomSpace p || p == '-' | none => false)
            && (match rest with | ':' :: _ => false | _ => true)
        else isWordCh c || c == '*' || c == '~'
      ok && scanOut (some c) ((c == '+' || c == '-') && tokenStart prev && !ac)
        (if isNomSpace c then ac else c == ':') rest
/-- scan inside a quoted string opened by `q` -/
def scanQuote (q : Char) : Str → Bool
  | [] => false
  | c :: rest =>
    if c == '\\' then false
    else if c == q then afterQuote rest && scanOut (some q) false false rest
    else scanQuote q rest
end

/-- none of the catalogued strict/lenient divergence features occurs in the text -/
def featureFree (s : Str) : Bool := scanOut none false false s && !keywordFeature s

/-- the executable form of `C16_lenient_agrees_chars` on one text -/
def agreesOn (s : Str) : Bool :=
  match parseStrict s with
  | .tree t =>
    if featureFree s then
      match parseLenient s with
      | .tree t' 0 => Ast.beq t t'
      | _ => false
    else true
  | _ => true

/-- with explicit (small) fuel, for kernel-checked witnesses: strict accepts the whole text and the
    lenient grammar returns another tree, an error, or leaves input -/
def divergesAt (fuel : Nat) (s : Str) : Bool :=
  match pAst true fuel (skip0 s), astInf true fuel s with
  | .ok t [], .ok t' e left => !(Ast.beq t t' && e == 0 && left.isEmpty)
  | _, _ => false

/-- with explicit fuel: strict accepts the whole text, lenient returns the same tree, no error -/
def agreesAt (fuel : Nat) (s : Str) : Bool :=
  match pAst true fuel (skip0 s), astInf true fuel s with
  | .ok t [], .ok t' e left => Ast.beq t t' && e == 0 && left.isEmpty
  | _, _ => false

end TantivyModel.Grammar.Chars
