import TantivyModel.Gen.Postings
/-!
# Variable-length integers (C07)

Bytes are modelled as `Nat` (the driver converts to/from `UInt8`); every byte produced is `< 2·S`.
`S` is the stop bit = radix (128 in the code: 7 payload bits per byte, least significant group
first, the last byte carries the stop bit).

-- mirrors: common/src/vint.rs::VInt::serialize_into
-- mirrors: common/src/vint.rs::VInt::deserialize
-- mirrors: src/postings/compression/vint.rs::compress_unsorted
-- mirrors: src/postings/compression/vint.rs::uncompress_unsorted
-/
namespace TantivyModel.VInt

/-- `loop { next = n % S; n /= S; if n == 0 { push(next | S); break } else { push(next) } }` -/
def enc (S n : Nat) : List Nat :=
  if _h : 2 ≤ S ∧ S ≤ n then (n % S) :: enc S (n / S) else [n % S + S]
termination_by n
decreasing_by exact Nat.div_lt_self (by omega) (by omega)

/-- `loop { b = next()?; result |= (b % S) << shift; if b >= S { return } shift += 7 }`;
returns the value and the unread rest, `none` when the input ends before a stop byte -/
def dec (S : Nat) : List Nat → Option (Nat × List Nat)
  | [] => none
  | b :: rest =>
    if S ≤ b then some (b % S, rest)
    else match dec S rest with
      | some (v, r) => some (b % S + S * v, r)
      | none => none

/-- a list of values, each as a VInt (`compress_vint_unsorted`) -/
def encList (S : Nat) : List Nat → List Nat
  | [] => []
  | v :: vs => enc S v ++ encList S vs

/-- read `k` VInts (`uncompress_vint_unsorted(.., num_els = k)`) -/
def decList (S : Nat) : Nat → List Nat → Option (List Nat × List Nat)
  | 0, bs => some ([], bs)
  | k + 1, bs =>
    match dec S bs with
    | none => none
    | some (v, r) =>
      match decList S k r with
      | none => none
      | some (vs, r') => some (v :: vs, r')

/-- read VInts until the input is exhausted (`uncompress_vint_unsorted_until_end`);
a trailing incomplete VInt is dropped (the fuel `bs.length` always suffices: every VInt
consumes at least one byte) -/
def decAllFuel (S : Nat) : Nat → List Nat → List Nat
  | 0, _ => []
  | f + 1, bs =>
    match dec S bs with
    | none => []
    | some (v, r) => v :: decAllFuel S f r

def decAll (S : Nat) (bs : List Nat) : List Nat := decAllFuel S bs.length bs

/-! ### the hand-unrolled `u32` encoder of the indexing-time recorders

-- mirrors: common/src/vint.rs::serialize_vint_u32
-- mirrors: common/src/vint.rs::vint_len
-- mirrors: common/src/vint.rs::read_u32_vint_no_advance
-/

/-- the size ladder: `if val < START_2 {1} else if val < START_3 {2} …  else {last}` -/
def ladderBytes (last : Nat) : List (Nat × Nat) → Nat → Nat
  | [], _ => last
  | (bound, n) :: rest, val => if val < bound then n else ladderBytes last rest val

/-- `serialize_vint_u32`: with `n` the number of bytes chosen by the ladder, the result is
`Σ_{k ≤ n} ((val & MASK_k) << (k−1)) | (STOP << 8(n−1))` written little-endian, i.e. byte `i` is
the `i`-th 7-bit group of `val` (`MASK_k = (R−1)·R^(k−1)`), the last byte carries the stop bit.
Groups beyond the `n`-th are dropped — which is why the thresholds matter. -/
def serializeU32 (ladder : List (Nat × Nat)) (last R S : Nat) (val : Nat) : List Nat :=
  let n := ladderBytes last ladder val
  (List.range n).map (fun i => val / R ^ i % R + (if i + 1 = n then S else 0))

/-- `read_u32_vint_no_advance`: the stop byte is searched among the first `maxLen` bytes
(panic "Corrupted data" otherwise → `none`), the value is the sum of the 7-bit groups;
returns (value, number of bytes read) -/
def readU32 (S maxLen : Nat) (bs : List Nat) : Option (Nat × Nat) :=
  match dec S (bs.take maxLen) with
  | some (v, r) => some (v, (bs.take maxLen).length - r.length)
  | none => none

/-- the stop bit / radix the code uses (both VInt flavours) -/
abbrev STOP : Nat := Gen.Postings.VINT_STOP_BIT

end TantivyModel.VInt
