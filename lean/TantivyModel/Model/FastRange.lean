import TantivyModel.Model.QuerySem
/-
C03 — which scorer a range over a u64-mapped fast-field column becomes: the value range is
computed from the bounds and clamped to the column's minimum; an empty range gives `EmptyScorer`,
a range covering [min, max] of a full column gives `AllScorer`, anything else a `RangeDocSet`.

-- mirrors: src/query/range_query/range_query_fastfield.rs::search_on_u64_ff   (`classify`)
-- mirrors: src/query/range_query/range_query_fastfield.rs::bound_to_value_range (`valueRange`)
-/
namespace TantivyModel.FastRange
open TantivyModel.QuerySem

inductive Kind
  | empty                       -- EmptyScorer
  | all                         -- AllScorer (every document of the segment)
  | range (start stop : Nat)    -- RangeDocSet over start..=stop
deriving Repr, DecidableEq, Inhabited

def U64MAX : Nat := 2 ^ 64 - 1

/-- start of the value range (`checked_add` may overflow), clamped to the column minimum -/
def startOf (lo : BndN) (colMin : Nat) : Option Nat :=
  let raw : Option Nat :=
    match lo with
    | .incl v => some v
    | .excl v => if v < U64MAX then some (v + 1) else none
    | .unb => some colMin
  raw.map (fun st => if st < colMin then colMin else st)

/-- end of the value range (`checked_sub` may underflow) -/
def stopOf (hi : BndN) (colMax : Nat) : Option Nat :=
  match hi with
  | .incl v => some v
  | .excl v => if 0 < v then some (v - 1) else none
  | .unb => some colMax

/-- `bound_to_value_range`: `None` when `checked_add` / `checked_sub` overflow -/
def valueRange (lo hi : BndN) (colMin colMax : Nat) : Option (Nat × Nat) :=
  match startOf lo colMin, stopOf hi colMax with
  | some st, some en => some (st, en)
  | _, _ => none

/-- `search_on_u64_ff`; `full` = the column has exactly one value per document -/
def classify (lo hi : BndN) (colMin colMax : Nat) (full : Bool) : Kind :=
  match valueRange lo hi colMin colMax with
  | none => .empty
  | some (st, en) =>
    if en < st then .empty
    else if decide (st ≤ colMin) && decide (colMax ≤ en) && full then .all
    else .range st en

/-- does a document holding the value `v` come out of the scorer? -/
def Kind.selects : Kind → Nat → Bool
  | .empty, _ => false
  | .all, _ => true
  | .range st en, v => decide (st ≤ v) && decide (v ≤ en)

end TantivyModel.FastRange
