import TantivyModel.Model.QuerySem
import TantivyModel.Gen.FastRange
/-
C03 — which scorer a range over a u64-mapped fast-field column becomes: the value range is
computed from the bounds and clamped to the column's minimum; an empty range gives `EmptyScorer`,
a range covering [min, max] of a full column gives `AllScorer`, anything else a `RangeDocSet`.

-- mirrors: src/query/range_query/range_query_fastfield.rs::search_on_u64_ff   (`classify`)
-- mirrors: src/query/range_query/range_query_fastfield.rs::bound_to_value_range (`valueRange`)
-/
namespace TantivyModel.FastRange
open TantivyModel.QuerySem

inductive Kind
  | empty                       -- EmptyScorer
  | all                         -- AllScorer (every document of the segment)
  | range (start stop : Nat)    -- RangeDocSet over start..=stop
deriving Repr, DecidableEq, Inhabited

def U64MAX : Nat := 2 ^ 64 - 1

/-- start of the value range (`checked_add` may overflow), clamped to the column minimum -/
def startOf (lo : BndN) (colMin : Nat) : Option Nat :=
  let raw : Option Nat :=
    match lo with
    | .incl v => some v
    | .excl v => if v < U64MAX then some (v + 1) else none
    | .unb => some colMin
  raw.map (fun st => if st < colMin then colMin else st)

/-- end of the value range (`checked_sub` may underflow) -/
def stopOf (hi : BndN) (colMax : Nat) : Option Nat :=
  match hi with
  | .incl v => some v
  | .excl v => if 0 < v then some (v - 1) else none
  | .unb => some colMax

/-- `bound_to_value_range`: `None` when `checked_add` / `checked_sub` overflow -/
def valueRange (lo hi : BndN) (colMin colMax : Nat) : Option (Nat × Nat) :=
  match startOf lo colMin, stopOf hi colMax with
  | some st, some en => some (st, en)
  | _, _ => none

/-- `search_on_u64_ff`; `full` = the cardinality condition of the AllScorer shortcut holds (in the
pinned code: the column has exactly one value per document; `classifyC` below follows the source) -/
def classify (lo hi : BndN) (colMin colMax : Nat) (full : Bool) : Kind :=
  match valueRange lo hi colMin colMax with
  | none => .empty
  | some (st, en) =>
    if en < st then .empty
    else if decide (st ≤ colMin) && decide (colMax ≤ en) && full then .all
    else .range st en

/-- does a document holding the value `v` come out of the scorer? -/
def Kind.selects : Kind → Nat → Bool
  | .empty, _ => false
  | .all, _ => true
  | .range st en, v => decide (st ≤ v) && decide (v ≤ en)

/-! ### documents, not values: the cardinality condition of the AllScorer shortcut

A column is Full (exactly one value per document), Optional (at most one) or Multivalued (any
number, *zero included*). `AllScorer` selects every document of the segment, also those that hold
no value, so the shortcut is right only for cardinalities that exclude valueless documents. The
extractor reads from `search_on_u64_ff` for which cardinalities the shortcut is taken
(`extract/items/boolweight.py` → `Gen.FastRange`). -/

inductive Card | full | optional | multivalued
deriving Repr, DecidableEq, Inhabited

/-- which value lists a document may hold under a cardinality -/
def Card.admits : Card → List Nat → Prop
  | .full, vs => vs.length = 1
  | .optional, vs => vs.length ≤ 1
  | .multivalued, _ => True

/-- for which cardinalities "the range covers [column min, column max]" returns `AllScorer` -/
structure Shortcut where
  onFull : Bool
  onOptional : Bool
  onMultivalued : Bool
deriving Repr, DecidableEq

def Shortcut.on (s : Shortcut) : Card → Bool
  | .full => s.onFull
  | .optional => s.onOptional
  | .multivalued => s.onMultivalued

/-- `column.index.get_cardinality() == Cardinality::Full` -/
def Shortcut.onlyFull : Shortcut := ⟨true, false, false⟩

def Shortcut.extracted : Shortcut :=
  ⟨Gen.RANGE_ALL_SHORTCUT_ON_FULL == 1, Gen.RANGE_ALL_SHORTCUT_ON_OPTIONAL == 1,
   Gen.RANGE_ALL_SHORTCUT_ON_MULTIVALUED == 1⟩

/-- `search_on_u64_ff` with the cardinality condition the source has -/
def classifyC (sc : Shortcut) (lo hi : BndN) (colMin colMax : Nat) (card : Card) : Kind :=
  classify lo hi colMin colMax (sc.on card)

/-- does a document holding the values `vs` come out of the scorer? (`RangeDocSet`: one of its
values lies in the range; `AllScorer`: always) -/
def Kind.selectsDoc : Kind → List Nat → Bool
  | .empty, _ => false
  | .all, _ => true
  | .range st en, vs => vs.any (fun v => decide (st ≤ v) && decide (v ≤ en))

end TantivyModel.FastRange
