import TantivyModel.Gen.MergeGuards
/-!
# Merge model (C04)

Part 1 — translation: what a merge writes, given the source segments.
  * `dump`      : physical segment → logical content (live docs in order, per term the postings
                  of live docs, renumbered densely)
  * `concat`    : the source segments seen as one virtual segment (doc ids offset by the
                  cumulative `max_doc`, deleted docs kept, alive bitsets concatenated) —
                  what a searcher over the unmerged index sees
  * `mergeSpec` : `dump (concat segs)`
  * `mergeModel`: the mechanism of `merger.rs`: new→old address table, per-segment old→new
                  tables filled from it, postings remapped through them, per-doc data copied
                  through the new→old table, store stacked or copied.

Part 2 — updater: `advance_deletes` before merging, `end_merge` reconciliation and swap.

No Mathlib. Everything is `List`/`Nat`/`Bool`/`Option`.
-/
namespace TantivyModel.Merge

/-- one posting: document, term frequency, positions -/
structure Posting where
  doc : Nat
  tf : Nat
  pos : List Nat
deriving DecidableEq, Repr, Inhabited

/-- term bytes (the harness prefixes the field id) -/
abbrev Key := List Nat

/-- physical segment. `α` is everything stored per document (stored fields, field norms, fast
field values); deleted documents are still physically present. -/
structure Segment (α : Type) where
  docs : List α
  alive : List Bool
  terms : List (Key × List Posting)

/-- logical content of a segment -/
structure LogicalSegment (α : Type) where
  docs : List α
  terms : List (Key × List Posting)

/-- `alive_bitset.is_alive(doc)`; out of range = not alive -/
def isAlive (al : List Bool) (d : Nat) : Bool := al.getD d false

/-- number of live documents with id `< d` -/
def rank (al : List Bool) (d : Nat) : Nat := (al.take d).count true

/-- live docs of a doc list -/
def liveDocs {α} : List α → List Bool → List α
  | d :: ds, a :: as => if a then d :: liveDocs ds as else liveDocs ds as
  | _, _ => []

/-- postings of live documents, renumbered by rank -/
def livePostings (al : List Bool) (ps : List Posting) : List Posting :=
  ps.filterMap fun p => if isAlive al p.doc then some { p with doc := rank al p.doc } else none

/-- drop terms whose posting list became empty -/
def dropEmpty (ts : List (Key × List Posting)) : List (Key × List Posting) :=
  ts.filter fun t => !t.2.isEmpty

/-- logical content: live docs in order; per term the postings of live docs -/
def dump {α} (s : Segment α) : LogicalSegment α :=
  { docs := liveDocs s.docs s.alive
    terms := dropEmpty (s.terms.map fun t => (t.1, livePostings s.alive t.2)) }

/-! ### term dictionaries: sorted association lists -/

/-- lexicographic order on term bytes (byte-wise, shorter first) -/
def keyLt : Key → Key → Bool
  | [], [] => false
  | [], _ :: _ => true
  | _ :: _, [] => false
  | a :: as, b :: bs => if a < b then true else if b < a then false else keyLt as bs

/-- insert into a strictly sorted key list (no duplicates) -/
def insertKey (k : Key) : List Key → List Key
  | [] => [k]
  | x :: xs => if keyLt k x then k :: x :: xs else if k = x then x :: xs else x :: insertKey k xs

/-- sorted union of the key sets of all term streams (`TermMerger`: every distinct key once, in
byte order) -/
def keyUnion (kss : List (List Key)) : List Key :=
  kss.foldr (fun ks acc => ks.foldr insertKey acc) []

/-- postings of a key in one dictionary (absent = empty) -/
def postingsOf (ts : List (Key × List Posting)) (k : Key) : List Posting :=
  match ts.lookup k with
  | some ps => ps
  | none => []

def shift (off : Nat) (ps : List Posting) : List Posting :=
  ps.map fun p => { p with doc := p.doc + off }

/-- postings of `k` in the virtual concatenation: source after source, ids offset by the
cumulative max_doc -/
def concatPostings {α} (k : Key) : List (Segment α) → Nat → List Posting
  | [], _ => []
  | s :: rest, off => shift off (postingsOf s.terms k) ++ concatPostings k rest (off + s.alive.length)

def allKeys {α} (segs : List (Segment α)) : List Key :=
  keyUnion (segs.map fun s => s.terms.map Prod.fst)

/-- the unmerged sources as one virtual segment -/
def concat {α} (segs : List (Segment α)) : Segment α :=
  { docs := (segs.map (·.docs)).flatten
    alive := (segs.map (·.alive)).flatten
    terms := (allKeys segs).map fun k => (k, concatPostings k segs 0) }

/-- SPEC: the logical content of the concatenation of the sources -/
def mergeSpec {α} (segs : List (Segment α)) : LogicalSegment α := dump (concat segs)

/-! ### the mechanism (`merger.rs`) -/

/-- `SegmentReader::doc_ids_alive` -/
def liveIdsFrom : Nat → List Bool → List Nat
  | _, [] => []
  | i, a :: as => if a then i :: liveIdsFrom (i + 1) as else liveIdsFrom (i + 1) as

def liveIds (al : List Bool) : List Nat := liveIdsFrom 0 al

/-- addresses `(segment_ord, doc_id)` of the live docs of the sources from ordinal `i` on -/
def newToOldFrom {α} : Nat → List (Segment α) → List (Nat × Nat)
  | _, [] => []
  | i, s :: rest => (liveIds s.alive).map (fun d => (i, d)) ++ newToOldFrom (i + 1) rest

/-- mirrors: src/indexer/merger.rs::get_doc_id_from_concatenated_data — position = new doc id -/
def newToOld {α} (segs : List (Segment α)) : List (Nat × Nat) := newToOldFrom 0 segs

/-- `MappingType::Stacked` iff no source has deletes -/
def hasDeletes (al : List Bool) : Bool := al.any (· == false)

abbrev Tables := List (List (Option Nat))

/-- `vec![None; max_doc]` per reader -/
def emptyTables {α} (segs : List (Segment α)) : Tables :=
  segs.map fun s => List.replicate s.alive.length none

/-- `merged_doc_id_map[seg][doc] = Some(new)` -/
def setAddr (m : Tables) (a : Nat × Nat) (n : Nat) : Tables :=
  m.modify a.1 (fun row => row.set a.2 (some n))

/-- `for (new_doc_id, old_doc_addr) in mapping.iter().enumerate()` -/
def fillFrom (m : Tables) (start : Nat) : List (Nat × Nat) → Tables
  | [] => m
  | a :: rest => fillFrom (setAddr m a start) (start + 1) rest

def getAddr (m : Tables) (s d : Nat) : Option Nat :=
  match m[s]? with
  | some row => match row[d]? with
    | some v => v
    | none => none
  | none => none

/-- mirrors: src/indexer/merger.rs::write_postings_for_field (merged_doc_id_map) -/
def oldToNew {α} (segs : List (Segment α)) : Tables :=
  fillFrom (emptyTables segs) 0 (newToOld segs)

/-- postings of one source remapped through its old→new table; deleted docs have no new id -/
def remapPostings (m : Tables) (i : Nat) (ps : List Posting) : List Posting :=
  ps.filterMap fun p => match getAddr m i p.doc with
    | some n => some { p with doc := n }
    | none => none

/-- `SegmentPostings::doc_freq_given_deletes` -/
def docFreqGivenDeletes (al : List Bool) (ps : List Posting) : Nat :=
  (ps.filter fun p => isAlive al p.doc).length

/-- per merged term: sources (ordinal order) whose live doc_freq is positive contribute their
remapped postings; `total_doc_freq` is the sum of the live doc_freqs -/
def mergedTermFrom {α} (m : Tables) (k : Key) : Nat → List (Segment α) → Nat × List Posting
  | _, [] => (0, [])
  | i, s :: rest =>
    let ps := postingsOf s.terms k
    let df := docFreqGivenDeletes s.alive ps
    let r := mergedTermFrom m k (i + 1) rest
    if df > 0 then (df + r.1, remapPostings m i ps ++ r.2) else r

/-- `(key, total_doc_freq, postings)` for every key of the term merger with `total_doc_freq > 0` -/
def mergedTerms {α} (segs : List (Segment α)) : List (Key × Nat × List Posting) :=
  let m := oldToNew segs
  ((allKeys segs).map fun k => let r := mergedTermFrom m k 0 segs; (k, r.1, r.2)).filter
    fun t => t.2.1 > 0

/-- per-document data copied through the new→old table (`write_fieldnorms`, shuffled columnar
merge, per-doc store copy) -/
def copyDocs {α} (segs : List (Segment α)) (tbl : List (Nat × Nat)) : List α :=
  tbl.filterMap fun a => match segs[a.1]? with
    | some s => s.docs[a.2]?
    | none => none

/-- mirrors: src/indexer/merger.rs::write_storable_fields (trivial mapping): a source without
deletes may be stacked as a whole (`stack = true`: ≥ 6 checkpoints, same compressor), otherwise
its live docs are copied one by one. A source with deletes is never stacked. -/
def mergedStore {α} (stackable : Nat → Bool) : Nat → List (Segment α) → List α
  | _, [] => []
  | i, s :: rest =>
    (if hasDeletes s.alive || !stackable i then liveDocs s.docs s.alive else s.docs)
      ++ mergedStore stackable (i + 1) rest

/-- the merged physical segment: every doc alive -/
def mergeModel {α} (segs : List (Segment α)) : Segment α :=
  let tbl := newToOld segs
  { docs := copyDocs segs tbl
    alive := List.replicate tbl.length true
    terms := (mergedTerms segs).map fun t => (t.1, t.2.2) }

/-- `segment.meta().num_docs() > 0` -/
def hasLive {α} (s : Segment α) : Bool := decide (0 < s.alive.count true)

/-- mirrors: src/indexer/merger.rs::IndexMerger::open_with_custom_alive_set — only the sources
that still hold a live document become readers of the merge -/
def mergeReaders {α} (segs : List (Segment α)) : List (Segment α) := segs.filter hasLive

/-! ### an arbitrary doc-id mapping (`MappingType::Shuffled`: merges of a sorted index) -/

/-- postings of `k` of all sources, each remapped through the filled old→new tables -/
def remapAllFrom {α} (m : Tables) (k : Key) : Nat → List (Segment α) → List Posting
  | _, [] => []
  | i, s :: rest => remapPostings m i (postingsOf s.terms k) ++ remapAllFrom m k (i + 1) rest

/-- mirrors: src/indexer/merger.rs::write_postings_for_field, non-trivial mapping: the remapped
postings of all sources are collected and `sort_unstable_by_key(doc_id)` before they are written -/
def shuffledPostings {α} (segs : List (Segment α)) (tbl : List (Nat × Nat)) (k : Key) : List Posting :=
  (remapAllFrom (fillFrom (emptyTables segs) 0 tbl) k 0 segs).mergeSort fun a b => a.doc ≤ b.doc

/-- per-document data through an arbitrary table (`write_fieldnorms`, shuffled columnar merge) -/
def shuffledDocs {α} (segs : List (Segment α)) (tbl : List (Nat × Nat)) : List α := copyDocs segs tbl

/-- mirrors: src/indexer/merger.rs::write_storable_fields, non-trivial mapping: one raw-document
iterator per source over its ALIVE documents; for every entry of the new→old table the NEXT
document of that source's iterator is stored (`none` = "unexpected missing document in docstore
on merge") -/
def storeIter {α} : List (List α) → List (Nat × Nat) → Option (List α)
  | _, [] => some []
  | iters, a :: rest =>
    match iters[a.1]? with
    | some (x :: xs) => (storeIter (iters.set a.1 xs) rest).map (x :: ·)
    | _ => none

def storeIters {α} (segs : List (Segment α)) : List (List α) :=
  segs.map fun s => liveDocs s.docs s.alive

/-! ### well-formedness of a physical segment -/

/-- strictly increasing doc ids below `n` -/
def postingsOk (n : Nat) : List Posting → Bool
  | [] => true
  | [p] => p.doc < n
  | p :: q :: rest => p.doc < q.doc && postingsOk n (q :: rest)

def keysSorted : List Key → Bool
  | [] => true
  | [_] => true
  | a :: b :: rest => keyLt a b && keysSorted (b :: rest)

structure Segment.WF {α} (s : Segment α) : Prop where
  len : s.docs.length = s.alive.length
  sorted : keysSorted (s.terms.map Prod.fst) = true
  postings : ∀ t ∈ s.terms, postingsOk s.alive.length t.2 = true

/-! ## Part 2 — the updater side (`segment_updater.rs`, `segment_manager.rs`, `index_writer.rs`) -/

/-- one entry of the delete queue (`DeleteOperation`): opstamp and the term it targets -/
structure DelOp where
  opstamp : Nat
  key : Nat
deriving DecidableEq, Repr

/-- a document as the updater sees it: identity + the terms deletes can hit -/
structure DocRec where
  uid : Nat
  keys : List Nat
deriving DecidableEq, Repr

/-- `SegmentEntry`: meta (id, docs, alive bitset as of its delete file) + delete cursor
(index into the delete queue: operations before it are reflected in `alive`) -/
structure Entry where
  segId : Nat
  docs : List DocRec
  alive : List Bool
  cursor : Nat
deriving DecidableEq, Repr

def hits (op : DelOp) (d : DocRec) : Bool := d.keys.contains op.key

/-- one delete operation applied to an alive bitset (`DocToOpstampMapping::None`: every
matching doc of an already written segment is older than the operation) -/
def applyOp (docs : List DocRec) (al : List Bool) (op : DelOp) : List Bool :=
  (docs.zip al).map fun (d, a) => a && !hits op d

/-- operations the cursor consumes up to `target` (`compute_deleted_bitset`: stop at the first
operation with `opstamp > target`) -/
def consumed (q : List DelOp) (cursor target : Nat) : List DelOp :=
  (q.drop cursor).takeWhile fun op => op.opstamp ≤ target

/-- mirrors: src/indexer/index_writer.rs::advance_deletes -/
def advance (q : List DelOp) (e : Entry) (target : Nat) : Entry :=
  let ops := consumed q e.cursor target
  { e with alive := ops.foldl (applyOp e.docs) e.alive, cursor := e.cursor + ops.length }

def liveUids (e : Entry) : List Nat := (liveDocs e.docs e.alive).map (·.uid)

/-- mirrors: src/indexer/segment_updater.rs::merge — advance every source to the target
opstamp, write the live docs in source order, take the delete cursor of the FIRST source.
`none` when the sources hold no live doc before advancing. -/
def mergeEntries (q : List DelOp) (srcs : List Entry) (target newId : Nat) : Option Entry :=
  if (srcs.map fun e => (liveUids e).length).sum = 0 then none else
  let adv := srcs.map fun e => advance q e target
  let docs := (adv.map fun e => liveDocs e.docs e.alive).flatten
  some { segId := newId, docs := docs, alive := List.replicate docs.length true,
         cursor := match adv with | e :: _ => e.cursor | [] => 0 }

/-- mirrors: src/indexer/segment_updater.rs::consider_merge_options / make_merge_operation — the
target opstamp of a merge: candidates over COMMITTED segments (and every explicit
`IndexWriter::merge`) get the opstamp of the last commit, policy candidates over UNCOMMITTED
segments get the stamp drawn when the merge is scheduled. -/
def mergeTarget (sourcesCommitted : Bool) (commitOpstamp currentStamp : Nat) : Nat :=
  if sourcesCommitted then commitOpstamp else currentStamp

/-- mutant of `mergeEntries` used by a counterexample: the delete cursor of the first source is
taken BEFORE the sources are advanced to the target (a stale queue position) -/
def mergeEntriesStale (q : List DelOp) (srcs : List Entry) (target newId : Nat) : Option Entry :=
  (mergeEntries q srcs target newId).map fun m =>
    { m with cursor := match srcs with | e :: _ => e.cursor | [] => 0 }

/-- a merge in flight -/
structure Running where
  sources : List Nat
  merged : Option Entry
  /-- updater generation that started it (rollback replaces the updater) -/
  epoch : Nat
deriving DecidableEq, Repr

structure State where
  queue : List DelOp
  committed : List Entry
  uncommitted : List Entry
  committedOpstamp : Nat
  /-- segments of meta.json: what a (re)loaded searcher sees -/
  published : List Entry
  epoch : Nat
deriving DecidableEq, Repr

def containsAll (reg : List Entry) (ids : List Nat) : Bool :=
  ids.all fun i => reg.any fun e => e.segId == i

/-- remove the sources, add the merged entry (`SegmentManager::end_merge` on one register) -/
def swapIn (reg : List Entry) (ids : List Nat) (m : Option Entry) : List Entry :=
  (reg.filter fun e => !ids.contains e.segId) ++ m.toList

/-- reconciliation branch of `end_merge`: the merged entry's cursor points at a delete older
than the committed opstamp → advance the merged segment to the committed opstamp -/
def reconcile (st : State) (m : Entry) : Entry :=
  match st.queue[m.cursor]? with
  | some op => if op.opstamp < st.committedOpstamp then advance st.queue m st.committedOpstamp else m
  | none => m

/-- mirrors: src/indexer/segment_updater.rs::end_merge + segment_manager.rs::end_merge.
`doReconcile = false` is the mutant used by `C04_reconcile_needed`. -/
def endMergeWith (doReconcile : Bool) (st : State) (r : Running) : State :=
  if r.epoch ≠ st.epoch then st            -- updater killed by rollback: task refused
  else
    let m := if doReconcile then r.merged.map (reconcile st) else r.merged
    if containsAll st.uncommitted r.sources then
      { st with uncommitted := swapIn st.uncommitted r.sources m }
    else if containsAll st.committed r.sources then
      let c := swapIn st.committed r.sources m
      { st with committed := c, published := c }      -- save_metas with the unchanged opstamp
    else st                                            -- sources vanished: discarded

def endMerge : State → Running → State := endMergeWith true

/-- `delete_term`: push to the queue -/
def pushDelete (st : State) (op : DelOp) : State := { st with queue := st.queue ++ [op] }

/-- `commit(opstamp)`: purge_deletes on every entry, everything becomes committed, meta saved -/
def commit (st : State) (opstamp : Nat) : State :=
  let all := (st.uncommitted ++ st.committed).map fun e => advance st.queue e opstamp
  { st with committed := all, uncommitted := [], committedOpstamp := opstamp, published := all }

/-- `rollback`: new writer from meta.json, fresh delete queue position, old updater killed -/
def rollback (st : State) : State :=
  { st with committed := st.published.map (fun e => { e with cursor := st.queue.length }),
            uncommitted := [], epoch := st.epoch + 1 }

/-- `delete_all_documents`: both registers cleared (published unchanged until commit) -/
def deleteAll (st : State) : State := { st with committed := [], uncommitted := [] }

/-- what a searcher sees -/
def publishedUids (st : State) : List Nat := (st.published.map liveUids).flatten

/-- what a commit at `opstamp` would publish -/
def pendingUids (st : State) (opstamp : Nat) : List Nat :=
  ((st.uncommitted ++ st.committed).map fun e => liveUids (advance st.queue e opstamp)).flatten

/-! ## Part 3 — the writer as an event machine (all interleavings of one merge with the rest)

`Sys` adds to `State` what the real writer keeps besides the registers: the merge in flight, the
stamper and the segment-id source. Events are the calls / internal steps that can interleave with
a merge: a worker flushing a segment, `delete_term`, `commit`, `rollback`,
`delete_all_documents`, the start of a merge (`start_merge`: sources looked up in the register
that holds ALL ids, target opstamp by `mergeTarget`, result computed from the entries as they
are now) and its end (`end_merge`). One merge is in flight at a time (a second `startMerge` is
ignored). The stamper never hands out an opstamp twice (after `rollback` the real stamper restarts
at the committed opstamp: the first operation of the new writer then shares the commit's opstamp —
C02's recorded finding — which is outside this machine). Explicit merges of uncommitted segments
(target = commit opstamp, the recorded finding of this property) are not an event: uncommitted
sources always get the policy rule. -/

structure Sys where
  st : State
  running : Option Running
  /-- next opstamp -/
  stamp : Nat
  /-- next segment id -/
  nextId : Nat

inductive Ev
  | addSeg (docs : List DocRec)
  | delete (key : Nat)
  | commit
  | rollback
  | deleteAll
  /-- `SegmentManager::remove_empty_segments` (run by `committed_segment_metas` whenever meta.json
  is written): committed segments without a live document leave the register and meta.json -/
  | removeEmpty
  | startMerge (ids : List Nat)
  /-- explicit `IndexWriter::merge(ids)`: `make_merge_operation` always takes the last commit's
  opstamp as target, also for UNCOMMITTED sources (no stamp is drawn) -/
  | startMergeExplicit (ids : List Nat)
  | endMerge

def inSources (ids : List Nat) (e : Entry) : Bool := ids.contains e.segId

/-- the segment still holds a live document -/
def nonEmpty (e : Entry) : Bool := !(liveDocs e.docs e.alive).isEmpty

/-- mirrors: src/indexer/segment_manager.rs::remove_empty_segments (+ the meta.json written next) -/
def removeEmpty (st : State) : State :=
  { st with committed := st.committed.filter nonEmpty, published := st.published.filter nonEmpty }

def Sys.init : Sys :=
  { st := { queue := [], committed := [], uncommitted := [], committedOpstamp := 0, published := [],
            epoch := 0 },
    running := none, stamp := 1, nextId := 0 }

def Sys.step (s : Sys) : Ev → Sys
  | .addSeg docs =>
    let e : Entry := { segId := s.nextId, docs := docs, alive := List.replicate docs.length true,
                       cursor := s.st.queue.length }
    { s with st := { s.st with uncommitted := s.st.uncommitted ++ [e] }, nextId := s.nextId + 1 }
  | .delete key => { s with st := pushDelete s.st ⟨s.stamp, key⟩, stamp := s.stamp + 1 }
  | .commit => { s with st := commit s.st s.stamp, stamp := s.stamp + 1 }
  | .rollback => { s with st := rollback s.st }
  | .deleteAll => { s with st := deleteAll s.st }
  | .removeEmpty => { s with st := removeEmpty s.st }
  | .startMerge ids =>
    match s.running with
    | some _ => s
    | none =>
      if ids = [] then s
      else if containsAll s.st.uncommitted ids then
        { s with
          running := some ⟨ids, mergeEntries s.st.queue (s.st.uncommitted.filter (inSources ids))
            (mergeTarget false s.st.committedOpstamp s.stamp) s.nextId, s.st.epoch⟩,
          stamp := s.stamp + 1, nextId := s.nextId + 1 }
      else if containsAll s.st.committed ids then
        { s with
          running := some ⟨ids, mergeEntries s.st.queue (s.st.committed.filter (inSources ids))
            (mergeTarget true s.st.committedOpstamp s.stamp) s.nextId, s.st.epoch⟩,
          nextId := s.nextId + 1 }
      else s
  | .startMergeExplicit ids =>
    match s.running with
    | some _ => s
    | none =>
      if ids = [] then s
      else if containsAll s.st.uncommitted ids then
        { s with
          running := some ⟨ids, mergeEntries s.st.queue (s.st.uncommitted.filter (inSources ids))
            s.st.committedOpstamp s.nextId, s.st.epoch⟩,
          nextId := s.nextId + 1 }
      else if containsAll s.st.committed ids then
        { s with
          running := some ⟨ids, mergeEntries s.st.queue (s.st.committed.filter (inSources ids))
            s.st.committedOpstamp s.nextId, s.st.epoch⟩,
          nextId := s.nextId + 1 }
      else s
  | .endMerge =>
    match s.running with
    | none => s
    | some r => { s with st := endMerge s.st r, running := none }

/-- the side condition under which an explicit merge of UNCOMMITTED segments is covered: after
`advance_deletes` to the commit opstamp (which consumes nothing new) all sources sit at one
delete-cursor position — i.e. no `delete_term` was issued between the creation of two of them.
Without it: the recorded finding `C04:explicit-merge-uncommitted-first-cursor`. -/
def ExplicitOk (s : Sys) : Ev → Prop
  | .startMergeExplicit ids =>
    s.running = none → ids ≠ [] → containsAll s.st.uncommitted ids = true →
      ∃ c0, ∀ e ∈ s.st.uncommitted.filter (inSources ids),
        (advance s.st.queue e s.st.committedOpstamp).cursor = c0
  | _ => True

/-- every explicit merge of uncommitted segments in the event sequence satisfies `ExplicitOk` at
the moment it is issued -/
def OkTrace : Sys → List Ev → Prop
  | _, [] => True
  | s, ev :: rest => ExplicitOk s ev ∧ OkTrace (s.step ev) rest

def Sys.run (s : Sys) (evs : List Ev) : Sys := evs.foldl Sys.step s

/-- SPEC: the sequential replay — what the index contains if merges did not exist -/
structure Abs where
  /-- documents a searcher sees -/
  pub : List DocRec
  /-- documents the next commit will publish -/
  pend : List DocRec

def Abs.init : Abs := { pub := [], pend := [] }

def Abs.step (a : Abs) : Ev → Abs
  | .addSeg docs => { a with pend := a.pend ++ docs }
  | .delete key => { a with pend := a.pend.filter fun d => !d.keys.contains key }
  | .commit => { a with pub := a.pend }
  | .rollback => { a with pend := a.pub }
  | .deleteAll => { a with pend := [] }
  | .removeEmpty => a
  | .startMerge _ => a
  | .startMergeExplicit _ => a
  | .endMerge => a

def Abs.run (a : Abs) (evs : List Ev) : Abs := evs.foldl Abs.step a

def liveDocsOf (e : Entry) : List DocRec := liveDocs e.docs e.alive

/-- live docs of an entry once every queued delete from its cursor on is applied -/
def docsAll (q : List DelOp) (e : Entry) : List DocRec :=
  (liveDocsOf e).filter fun d => !(q.drop e.cursor).any fun op => hits op d

def pubDocs (st : State) : List DocRec := (st.published.map liveDocsOf).flatten
def pendDocs (st : State) : List DocRec :=
  ((st.uncommitted ++ st.committed).map (docsAll st.queue)).flatten

/-! ## Part 4 — behaviour selected by the guards extracted from the source (`Gen/MergeGuards`)

The driver executes these `…G` versions and the all-traces theorem is stated about them: while the
source has the mirrored shape (every guard = 1) they are the definitions above (`Proofs`:
`stepG_eq`); if a guard flips, the executable model follows the changed code (stale cursor, one
target for both registers, first-source-only staleness test, no reconciliation), the equality
lemmas stop compiling and the theorem is reported broken. -/

def mergeEntriesG (q : List DelOp) (srcs : List Entry) (target newId : Nat) : Option Entry :=
  if Gen.MERGE_CURSOR_AFTER_ADVANCE = 1 then mergeEntries q srcs target newId
  else mergeEntriesStale q srcs target newId

def mergeTargetG (sourcesCommitted : Bool) (commitOpstamp currentStamp : Nat) : Nat :=
  if Gen.MERGE_TARGET_BY_REGISTER = 1 then mergeTarget sourcesCommitted commitOpstamp currentStamp
  else currentStamp

/-- a weaker staleness test (what the guard-off branch executes): only the FIRST source is
looked up in the register -/
def containsFirst (reg : List Entry) (ids : List Nat) : Bool :=
  match ids with
  | [] => true
  | i :: _ => reg.any fun e => e.segId == i

def containsAllG (reg : List Entry) (ids : List Nat) : Bool :=
  if Gen.END_MERGE_REQUIRES_ALL_SOURCES = 1 then containsAll reg ids else containsFirst reg ids

/-- `end_merge` with the first-source-only staleness test (counterexample only) -/
def endMergeFirstOnly (st : State) (r : Running) : State :=
  if r.epoch ≠ st.epoch then st
  else
    let m := r.merged.map (reconcile st)
    if containsFirst st.uncommitted r.sources then
      { st with uncommitted := swapIn st.uncommitted r.sources m }
    else if containsFirst st.committed r.sources then
      let c := swapIn st.committed r.sources m
      { st with committed := c, published := c }
    else st

def reconcileG (st : State) (m : Entry) : Entry :=
  if Gen.END_MERGE_RECONCILES = 1 then reconcile st m else m

def endMergeG (st : State) (r : Running) : State :=
  if r.epoch ≠ st.epoch then st
  else
    let m := r.merged.map (reconcileG st)
    if containsAllG st.uncommitted r.sources then
      { st with uncommitted := swapIn st.uncommitted r.sources m }
    else if containsAllG st.committed r.sources then
      let c := swapIn st.committed r.sources m
      { st with committed := c, published := c }
    else st

def Sys.stepG (s : Sys) : Ev → Sys
  | .startMerge ids =>
    match s.running with
    | some _ => s
    | none =>
      if ids = [] then s
      else if containsAll s.st.uncommitted ids then
        { s with
          running := some ⟨ids, mergeEntriesG s.st.queue (s.st.uncommitted.filter (inSources ids))
            (mergeTargetG false s.st.committedOpstamp s.stamp) s.nextId, s.st.epoch⟩,
          stamp := s.stamp + 1, nextId := s.nextId + 1 }
      else if containsAll s.st.committed ids then
        { s with
          running := some ⟨ids, mergeEntriesG s.st.queue (s.st.committed.filter (inSources ids))
            (mergeTargetG true s.st.committedOpstamp s.stamp) s.nextId, s.st.epoch⟩,
          nextId := s.nextId + 1 }
      else s
  | .startMergeExplicit ids =>
    match s.running with
    | some _ => s
    | none =>
      if ids = [] then s
      else if containsAll s.st.uncommitted ids then
        { s with
          running := some ⟨ids, mergeEntriesG s.st.queue (s.st.uncommitted.filter (inSources ids))
            s.st.committedOpstamp s.nextId, s.st.epoch⟩,
          nextId := s.nextId + 1 }
      else if containsAll s.st.committed ids then
        { s with
          running := some ⟨ids, mergeEntriesG s.st.queue (s.st.committed.filter (inSources ids))
            s.st.committedOpstamp s.nextId, s.st.epoch⟩,
          nextId := s.nextId + 1 }
      else s
  | .endMerge =>
    match s.running with
    | none => s
    | some r => { s with st := endMergeG s.st r, running := none }
  | ev => s.step ev

def Sys.runG (s : Sys) (evs : List Ev) : Sys := evs.foldl Sys.stepG s

/-! ## Part 5 — any number of merges in flight

`SysM` keeps a LIST of running merges: `startMerge` is always allowed (an explicit
`IndexWriter::merge` does not look at the merge inventory, so two merges may even share sources),
`endMerge i` ends the i-th of them. Everything else is the single-merge machine run with no merge
in flight (`view none`), so the two machines cannot drift apart. -/

structure SysM where
  st : State
  running : List Running
  stamp : Nat
  nextId : Nat

inductive EvM
  | addSeg (docs : List DocRec)
  | delete (key : Nat)
  | commit
  | rollback
  | deleteAll
  | removeEmpty
  | startMerge (ids : List Nat)
  | startMergeExplicit (ids : List Nat)
  | endMerge (i : Nat)

def EvM.toEv : EvM → Ev
  | .addSeg d => .addSeg d
  | .delete k => .delete k
  | .commit => .commit
  | .rollback => .rollback
  | .deleteAll => .deleteAll
  | .removeEmpty => .removeEmpty
  | .startMerge ids => .startMerge ids
  | .startMergeExplicit ids => .startMergeExplicit ids
  | .endMerge _ => .endMerge

def SysM.view (s : SysM) (r : Option Running) : Sys := ⟨s.st, r, s.stamp, s.nextId⟩

def SysM.init : SysM := ⟨Sys.init.st, [], Sys.init.stamp, Sys.init.nextId⟩

def SysM.step (s : SysM) : EvM → SysM
  | .endMerge i =>
    match s.running[i]? with
    | none => s
    | some r => { s with st := endMergeG s.st r, running := s.running.eraseIdx i }
  | ev =>
    let s1 := (s.view none).stepG ev.toEv
    { st := s1.st, running := s.running ++ s1.running.toList, stamp := s1.stamp, nextId := s1.nextId }

def SysM.run (s : SysM) (evs : List EvM) : SysM := evs.foldl SysM.step s

/-- `OkTrace` for the machine with several merges in flight -/
def OkTraceM : SysM → List EvM → Prop
  | _, [] => True
  | s, ev :: rest => ExplicitOk (s.view none) ev.toEv ∧ OkTraceM (s.step ev) rest

end TantivyModel.Merge
