import TantivyModel.Model.QuerySem
import TantivyModel.Model.PhraseSlop
import TantivyModel.Gen.BoolWeight
/-
C03 — implementation-level model of how a query tree becomes a scorer tree for one segment.

-- mirrors: src/query/boolean_query/boolean_weight.rs::scorer            (`boolScorer`)
-- mirrors: src/query/boolean_query/boolean_weight.rs::complex_scorer    (`complex`)
-- mirrors: src/query/boolean_query/boolean_weight.rs::scorer_union      (`mkUnion`)
-- mirrors: src/query/boolean_query/boolean_weight.rs::scorer_disjunction(`mkDisj`)
-- mirrors: src/query/boolean_query/boolean_weight.rs::effective_must_scorer (`effMust`)
-- mirrors: src/query/boolean_query/boolean_weight.rs::effective_should_scorer_for_union
-- mirrors: src/query/boolean_query/boolean_weight.rs::remove_and_count_all_and_empty_scorers
-- mirrors: src/query/intersection.rs::intersect_scorers                 (`mkInter`)
-- mirrors: src/query/term_query/term_weight.rs::specialized_scorer      (`leafTree`, term case)
-- mirrors: src/query/boost_query.rs::weight, src/query/const_score_query.rs::weight
-- mirrors: src/query/disjunction_max_query.rs::weight
-- mirrors: src/query/weight.rs::count, src/query/term_query/term_weight.rs::count

A `STree` node stands for the *type* of scorer the code builds (the code eliminates `AllScorer`
and `EmptyScorer` by type, not by content); `mem` interprets a tree as a set of segment doc ids.
-/
namespace TantivyModel.BoolCompile
open TantivyModel.QuerySem

inductive STree
  | all                                   -- AllScorer
  | empty                                 -- EmptyScorer
  | leaf (docs : List Nat) (termFreq : Bool)   -- a leaf scorer and its postings
  | wrapped (t : STree)                   -- ConstScorer / BoostScorer around a scorer
  | union (spec : Bool) (cs : List STree) -- BufferedUnionScorer (spec: TermUnion / block-WAND)
  | inter (spec : Bool) (cs : List STree) -- Intersection (spec: TermIntersection)
  | disj (cs : List STree) (k : Nat)      -- Disjunction with minimum_match_required = k
  | reqOpt (req opt : STree)              -- RequiredOptionalScorer
  | exclude (inc : STree) (exc : List STree)   -- Exclude (one or several excluded scorers)
deriving Repr, Inhabited

mutual
/-- `mem n t d`: document `d` of a segment with `max_doc = n` is produced by scorer `t` -/
def mem (n : Nat) : STree → Nat → Bool
  | .all, d => decide (d < n)
  | .empty, _ => false
  | .leaf ds _, d => ds.contains d
  | .wrapped t, d => mem n t d
  | .union _ cs, d => memAny n cs d
  | .inter _ cs, d => memAll n cs d
  | .disj cs k, d => decide (k ≤ memCnt n cs d)
  | .reqOpt r _, d => mem n r d
  | .exclude i e, d => mem n i d && !memAny n e d
def memAny (n : Nat) : List STree → Nat → Bool
  | [], _ => false
  | t :: ts, d => mem n t d || memAny n ts d
def memAll (n : Nat) : List STree → Nat → Bool
  | [], _ => true
  | t :: ts, d => mem n t d && memAll n ts d
def memCnt (n : Nat) : List STree → Nat → Nat
  | [], _ => 0
  | t :: ts, d => (if mem n t d then 1 else 0) + memCnt n ts d
end

/-- the sorted list of doc ids a scorer tree iterates over -/
def interp (n : Nat) (t : STree) : List Nat := (List.range n).filter (mem n t)

def isAll : STree → Bool
  | .all => true
  | _ => false
def isEmpty : STree → Bool
  | .empty => true
  | _ => false
def isTermFreq : STree → Bool
  | .leaf _ tf => tf
  | _ => false
def isTerm : STree → Bool
  | .leaf _ _ => true
  | _ => false

/-- `remove_and_count_all_and_empty_scorers`: what stays in the vector -/
def strip (ts : List STree) : List STree := ts.filter (fun t => !isAll t && !isEmpty t)
def numAll (ts : List STree) : Nat := ts.countP isAll
def numEmpty (ts : List STree) : Nat := ts.countP isEmpty

/-- `intersect_scorers` (incl. the `go_to_first_doc == TERMINATED → EmptyScorer` shortcut) -/
def mkInter (n : Nat) (cs : List STree) : STree :=
  match cs with
  | [] => .empty
  | [t] => t
  | _ => if (List.range n).all (fun d => !memAll n cs d) then .empty
         else .inter (cs.all isTermFreq) cs

/-- `scorer_union` followed by `into_box_scorer` -/
def mkUnion (cs : List STree) : STree :=
  match cs with
  | [t] => t
  | _ => .union (cs.all isTermFreq) cs

/-- `scorer_disjunction` -/
def mkDisj (cs : List STree) (k : Nat) : STree :=
  match cs with
  | [t] => t
  | _ => .disj cs k

/-- `effective_must_scorer` -/
def effMust (n : Nat) (must : List STree) (removedAll : Nat) : Option STree :=
  if must.isEmpty then (if 0 < removedAll then some .all else none)
  else some (mkInter n must)

inductive ShouldMethod
  | ignored
  | optional (s : STree)
  | required (s : STree)

/-- how the SHOULD scorers are combined, and the MUST vector after a possible promotion of the
SHOULD scorers (`must_scorers.append(&mut should_scorers)`) -/
def shouldMethod (must' should' : List STree) (eff : Nat) : ShouldMethod × List STree :=
  if eff = 0 then
    (if should'.length = 0 then (.ignored, must') else (.optional (mkUnion should'), must'))
  else if eff = 1 then (.required (mkUnion should'), must')
  else if should'.length = eff then (.ignored, must' ++ should')
  else (.required (mkDisj should' eff), must')

/-- the `include_scorer` match of `complex_scorer`; `aM`, `aS` = removed AllScorer counts -/
def includeScorer (scoring : Bool) (n : Nat) (pr : ShouldMethod × List STree) (aM aS : Nat) : STree :=
  match pr.1 with
  | .ignored => (effMust n pr.2 (aM + aS)).getD .empty
  | .optional s =>
    match effMust n pr.2 aM with
    | none => if 0 < aS then (if scoring then .union false [s, .all] else .all) else s
    | some m => if scoring then .reqOpt m s else m
  | .required s =>
    match effMust n pr.2 aM with
    | none => s
    | some m => mkInter n [m, s]

/-- `complex_scorer` (+ `into_box_scorer`): the decision logic over the per-occur scorers -/
def complex (scoring : Bool) (n : Nat) (must should excl : List STree) (msm : Nat) : STree :=
  if 0 < numEmpty must then .empty else
  if 0 < numAll excl then .empty else
  if (strip should).length < msm - numAll should then .empty else
  let incl := includeScorer scoring n (shouldMethod (strip must) (strip should) (msm - numAll should))
    (numAll must) (numAll should)
  if (strip excl).isEmpty then incl else .exclude incl (strip excl)

def occList (o : Occur) (cs : List (Occur × STree)) : List STree :=
  (cs.filter (fun c => c.1 == o)).map (·.2)

/-- does the `weights.len() == 1` branch of `BooleanWeight::scorer` honour
`minimum_number_should_match`? Regenerated from the source on every run
(`extract/items/boolweight.py`): 0 for the pinned code (DESIGN F4), 1 once the branch carries the
guard `self.minimum_number_should_match > num_should`. -/
def singleClauseGuard : Bool := Gen.BOOL_SINGLE_CLAUSE_HONOURS_MSM == 1

/-- `BooleanWeight::scorer`; `guard` = the single-clause branch honours the minimum
(`singleClauseGuard` for the code as it is now) -/
def boolScorer (guard : Bool) (scoring : Bool) (n : Nat) (cs : List (Occur × STree)) (msm : Nat) : STree :=
  match cs with
  | [] => .empty
  | [(o, t)] =>
    if o == .mustNot || (guard && decide ((if o == .should then 1 else 0) < msm)) then .empty else t
  | _ => complex scoring n (occList .must cs) (occList .should cs) (occList .mustNot cs) msm

/-- doc ids of the segment whose document satisfies a predicate -/
def docsWhere (docs : List ADoc) (p : ADoc → Bool) : List Nat :=
  (docs.zipIdx.filter (fun x => p x.1)).map (·.2)

/-! ### phrase scorer as implemented (slop > 0: the mirrored algorithms, terms processed in the
order of `Intersection::new`, i.e. stably sorted by the segment's document frequency) -/

def docFreq (docs : List ADoc) (f : Nat) (t : Bytes) : Nat := (docs.filter (fun d => hasTerm d f t)).length

/-- stable insertion by key -/
def insertByKey (x : Nat × List Nat) : List (Nat × List Nat) → List (Nat × List Nat)
  | [] => [x]
  | y :: r => if x.1 < y.1 then x :: y :: r else y :: insertByKey x r

/-- adjusted position lists in processing order: `sort_by_key(cost)` is stable; inserting the
terms one after the other, each *after* the entries with an equal key, is that stable sort -/
def costOrder (docs : List ADoc) (d : ADoc) (f : Nat) (terms : List (Nat × Bytes)) : List (List Nat) :=
  let adjs := adjusted d f (maxOff terms) terms
  let keyed := (terms.map (fun (_, t) => docFreq docs f t)).zip adjs
  (keyed.foldl (fun acc x => insertByKey x acc) []).map (·.2)

/-- does the phrase scorer built for this segment match document `d`? -/
def implPhrase (scoring : Bool) (docs : List ADoc) (f : Nat) (terms : List (Nat × Bytes)) (slop : Nat)
    (d : ADoc) : Bool :=
  if slop = 0 then
    -- real phrases have ≥ 2 terms: the sorted-merge intersections in processing order
    (if decide (2 ≤ terms.length) && terms.all (fun (_, t) => hasTerm d f t) then
      (if scoring then PhraseSlop.exactOn (costOrder docs d f terms)
       else PhraseSlop.exactOff (costOrder docs d f terms))
     else semPhrase d f terms slop)
  else if terms.all (fun (_, t) => hasTerm d f t) then
    (if scoring then PhraseSlop.phraseOn (costOrder docs d f terms) slop
     else PhraseSlop.phraseOff (costOrder docs d f terms) slop)
  else false

/-! ### fuzzy prefix mode as implemented

`levenshtein_automata::build_prefix_dfa` documents "the minimum distance of the prefixes of the
test string" but freezes a match only in states from which no shorter distance can be reached
(`ParametricDFA::is_prefix_sink`); a prefix within distance that could still improve is
forgotten when the following characters make it worse. In terms of the Wagner–Fischer table
`D[i][j] = dist(c[:i], q[:j])`: the candidate is accepted iff some row `i` has
`D[i][m] ≤ d ∧ ∀ j < m, D[i][m] ≤ D[i][j]`, or `D[n][m] ≤ d`.
-- mirrors: levenshtein_automata-0.2.1/src/parametric_dfa.rs::is_prefix_sink (external crate) -/
def prefixSinkMatch (transp : Bool) (c q : List Nat) (dmax : Nat) : Bool :=
  let m := q.length
  (levTable transp c q).any (fun row =>
      let last := row.getD m 0
      decide (last ≤ dmax) && (row.take m).all (fun v => decide (last ≤ v)))
    || decide (editDistance transp c q ≤ dmax)

def implFuzzyMatch (t : Bytes) (dmax : Nat) (transp pre : Bool) (cand : Bytes) : Bool :=
  if pre then prefixSinkMatch transp (utf8Decode cand) (utf8Decode t) dmax
  else fuzzyMatch t dmax transp false cand

/-- a leaf classifier says which scorer *type* a leaf weight returns on a segment -/
abbrev LeafCls := (scoring boosted : Bool) → Leaf → List ADoc → STree

/-- the classifier of the pinned code (term: `EmptyScorer` when the term is absent,
`AllScorer` when scoring is off and every document has it; all: `AllScorer`, boosted when a
boost ≠ 1 is in force; exists: all/empty/other; automaton and range weights: `ConstScorer`) -/
def leafTree : LeafCls := fun scoring boosted l docs =>
  let ds := docsWhere docs (semLeaf l)
  match l with
  | .all => if boosted then .wrapped .all else .all
  | .empty => .empty
  | .term _ _ =>
    if ds.isEmpty then .empty
    else if !scoring && ds.length == docs.length then .all
    else .leaf ds scoring
  | .phrase f terms slop =>
    if terms.any (fun (_, t) => docFreq docs f t == 0) then .empty
    else .leaf (docsWhere docs (implPhrase scoring docs f terms slop)) false
  | .phrasePrefix _ _ _ _ => if ds.isEmpty then .empty else .leaf ds false
  | .exists_ _ =>
    if ds.isEmpty then .empty
    else if ds.length == docs.length then (if boosted then .wrapped .all else .all)
    else .wrapped (.leaf ds false)
  | .fuzzy f t dm tr pre =>
    .wrapped (.leaf (docsWhere docs (fun d =>
      d.postings.any (fun p => p.field == f && implFuzzyMatch t dm tr pre p.term))) false)
  | _ => .wrapped (.leaf ds false)

mutual
/-- `Query::weight(..).scorer(segment)` as a scorer tree -/
def compile (cls : LeafCls) (guard : Bool) (scoring : Bool) (docs : List ADoc) : (boosted : Bool) → Query → STree
  | b, .leaf l => cls scoring b l docs
  | b, .boost q => compile cls guard scoring docs (b || scoring) q
  | b, .constScore q =>
    if scoring then .wrapped (compile cls guard scoring docs b q) else compile cls guard scoring docs b q
  | b, .disMax qs => boolScorer guard scoring docs.length (compileAny cls guard scoring docs b qs) 1
  | b, .bool cs msm => boolScorer guard scoring docs.length (compileClauses cls guard scoring docs b cs) msm
def compileAny (cls : LeafCls) (guard : Bool) (scoring : Bool) (docs : List ADoc) : Bool → List Query → List (Occur × STree)
  | _, [] => []
  | b, q :: qs => (.should, compile cls guard scoring docs b q) :: compileAny cls guard scoring docs b qs
def compileClauses (cls : LeafCls) (guard : Bool) (scoring : Bool) (docs : List ADoc) :
    Bool → List (Occur × Query) → List (Occur × STree)
  | _, [] => []
  | b, (o, q) :: cs => (o, compile cls guard scoring docs b q) :: compileClauses cls guard scoring docs b cs
end

/-- `BooleanWeight::{for_each, for_each_no_score, for_each_pruning}` call `complex_scorer`
directly: the `weights.len() == 1` shortcut of `scorer` is *not* taken for the outermost
boolean weight on the collector paths (DocSetCollector, TopDocs, tuple collectors). Boost and
const-score weights fall back to `Weight::for_each*` defaults (= `scorer`) when scoring is
enabled and are transparent otherwise. -/
def compileTop (cls : LeafCls) (guard : Bool) (scoring : Bool) (docs : List ADoc) : Query → STree
  | .bool cs msm =>
    let l := compileClauses cls guard scoring docs false cs
    complex scoring docs.length (occList .must l) (occList .should l) (occList .mustNot l) msm
  | .disMax qs =>
    let l := compileAny cls guard scoring docs false qs
    complex scoring docs.length (occList .must l) (occList .should l) (occList .mustNot l) 1
  | .boost q => if scoring then compile cls guard scoring docs true q else compileTop cls guard scoring docs q
  | .constScore q =>
    if scoring then .wrapped (compile cls guard scoring docs false q) else compileTop cls guard scoring docs q
  | q => compile cls guard scoring docs false q

/-! ### the hypotheses under which the implementation is the specification

`singleOk`: DESIGN F4 — the `weights.len() == 1` shortcut of `BooleanWeight::scorer` ignores
`minimum_number_should_match`; `leafOk`: DESIGN S6 — phrases of ≥ 3 terms with slop ≥ 1 are
evaluated by two different greedy algorithms; fuzzy prefix mode is evaluated by an automaton that
forgets improvable prefix matches. The driver can evaluate the hypotheses on any query. -/

def singleOk (guard : Bool) (cs : List (Occur × Query)) (msm : Nat) : Bool :=
  guard ||
  match cs with
  | [(o, _)] =>
    match o with
    | .should => decide (msm ≤ 1)
    | .must => decide (msm = 0)
    | .mustNot => true
  | _ => true

def leafOk : Leaf → Bool
  | .phrase _ terms slop => slop == 0 || terms.length == 2
  | .fuzzy _ _ _ _ pre => !pre
  | _ => true

mutual
def okQ (guard : Bool) : Query → Bool
  | .leaf l => leafOk l
  | .boost q => okQ guard q
  | .constScore q => okQ guard q
  | .disMax qs => okQs guard qs
  | .bool cs msm => singleOk guard cs msm && okCs guard cs
def okQs (guard : Bool) : List Query → Bool
  | [] => true
  | q :: qs => okQ guard q && okQs guard qs
def okCs (guard : Bool) : List (Occur × Query) → Bool
  | [] => true
  | (_, q) :: cs => okQ guard q && okCs guard cs
end

/-! ### collectors (per segment) -/

def aliveAt (alive : List Bool) (d : Nat) : Bool := alive.getD d false

/-- segment doc ids handed to a collector: the scorer's docs filtered by the alive bitset
(`SegmentCollector` wrappers / `collect_segment`) -/
def collectDocs (cls : LeafCls) (guard : Bool) (scoring : Bool) (s : Seg) (q : Query) : List Nat :=
  (interp s.docs.length (compile cls guard scoring s.docs false q)).filter (aliveAt s.alive)

/-- the same through `Weight::for_each*` (collector paths) -/
def collectDocsTop (cls : LeafCls) (guard : Bool) (scoring : Bool) (s : Seg) (q : Query) : List Nat :=
  (interp s.docs.length (compileTop cls guard scoring s.docs q)).filter (aliveAt s.alive)

def collectIdsTop (cls : LeafCls) (guard : Bool) (scoring : Bool) (s : Seg) (q : Query) : List Nat :=
  (collectDocsTop cls guard scoring s q).filterMap (fun d => (s.docs[d]?).map (·.id))

/-- `DocSetCollector` / `TopDocs` with limit ≥ number of matches: the ids -/
def collectIds (cls : LeafCls) (guard : Bool) (scoring : Bool) (s : Seg) (q : Query) : List Nat :=
  (collectDocs cls guard scoring s q).filterMap (fun d => (s.docs[d]?).map (·.id))

/-- `Count` collector -/
def collectCount (cls : LeafCls) (guard : Bool) (scoring : Bool) (s : Seg) (q : Query) : Nat :=
  (collectDocs cls guard scoring s q).length

/-- `Weight::count` default: with deletes count alive docs of the scorer, else
`count_including_deleted` -/
def weightCount (cls : LeafCls) (guard : Bool) (s : Seg) (q : Query) : Nat :=
  if s.alive.all id then (interp s.docs.length (compile cls guard false s.docs false q)).length
  else collectCount cls guard false s q

/-- `TermWeight::count` shortcut: `doc_freq` of the term when the segment has no alive bitset -/
def termCountShortcut (s : Seg) (f : Nat) (t : Bytes) : Nat :=
  (docsWhere s.docs (fun d => hasTerm d f t)).length

/-- whole-searcher result of a query: ids over all segments -/
def searchIds (cls : LeafCls) (guard : Bool) (scoring : Bool) (c : Corpus) (q : Query) : List Nat :=
  c.flatMap (fun s => collectIds cls guard scoring s q)

/-- whole-searcher result through the collector paths (`for_each*`) -/
def searchIdsTop (cls : LeafCls) (guard : Bool) (scoring : Bool) (c : Corpus) (q : Query) : List Nat :=
  c.flatMap (fun s => collectIdsTop cls guard scoring s q)

/-! ### executable well-formedness of a corpus (hypothesis `DocsWf` of the soundness theorems) -/

/-- executable form of `DocsWf` (the driver evaluates it on every corpus it receives) -/
def sortedB : List Nat → Bool
  | [] => true
  | [_] => true
  | a :: b :: r => decide (a ≤ b) && sortedB (b :: r)


def docsWfB (docs : List ADoc) : Bool := docs.all (fun d => d.postings.all (fun p => sortedB p.positions))


end TantivyModel.BoolCompile
