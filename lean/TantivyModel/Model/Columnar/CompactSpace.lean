import TantivyModel.Model.Columnar.Codec
/-!
# Compact space codec for u128 columns (IP addresses)

mirrors: columnar/src/column_values/u128_based/{mod.rs, compact_space/mod.rs,
compact_space/build_compact_space.rs}. Values are naturals `< 2^128`.
-/
namespace TantivyModel.Columnar

def U128MAX : Nat := 2 ^ 128 - 1

/-- covered value ranges `(start, end)`, inclusive, sorted, disjoint — the `value_range`s of
`CompactSpace::ranges_mapping`; `compact_start` is the running sum of the range lengths from 1
(0 is reserved for null) -/
abbrev Ranges := List (Nat × Nat)

/-- mirrors: RangeMapping::range_length -/
def rangeLen (r : Nat × Nat) : Nat := r.2 - r.1 + 1

/-- mirrors: CompactSpace::u128_to_compact, `Ok` branch (`binary_search_by` on the sorted disjoint
ranges finds the one containing the value; its contract is assumed of `std`) -/
def toCompactFrom : Nat → Ranges → Nat → Option Nat
  | _, [], _ => none
  | acc, r :: rs, v => if r.1 ≤ v ∧ v ≤ r.2 then some (acc + (v - r.1)) else toCompactFrom (acc + rangeLen r) rs v

def toCompact (rs : Ranges) (v : Nat) : Option Nat := toCompactFrom 1 rs v

/-- mirrors: CompactSpace::compact_to_u128 — the last range whose `compact_start ≤ compact` -/
def fromCompactFrom : Nat → Ranges → Nat → Nat
  | _, [], _ => 0
  | acc, [r], c => r.1 + (c - acc)
  | acc, r :: r2 :: rs, c =>
    if c < acc + rangeLen r then r.1 + (c - acc) else fromCompactFrom (acc + rangeLen r) (r2 :: rs) c

def fromCompact (rs : Ranges) (c : Nat) : Nat := fromCompactFrom 1 rs c

/-- mirrors: CompactSpace::amplitude_compact_space (`compact_end` of the last range) -/
def amplitude (rs : Ranges) : Nat := (rs.map rangeLen).sum

/-- mirrors: CompactSpaceBuilder::finish — the covered space is the complement of the blanks
(sorted by start, not overlapping, not adjacent): before the first blank, between blanks, after the
last blank; `0..=0` if there is no blank at all (empty data) -/
def coveredFrom : Nat → List (Nat × Nat) → Ranges
  | lo, [] => if lo ≤ U128MAX then [(lo, U128MAX)] else []
  | lo, b :: bs => (if lo < b.1 then [(lo, b.1 - 1)] else []) ++ coveredFrom (b.2 + 1) bs

def coveredOf (blanks : List (Nat × Nat)) : Ranges :=
  if blanks.isEmpty then [(0, 0)] else coveredFrom 0 blanks

/-- `compact_start` of the range at position `pos` (1 + lengths of the ranges before it);
`compact_end` of range `pos − 1` is `cstartAt pos − 1` -/
def cstartAt (rs : Ranges) (pos : Nat) : Nat := 1 + ((rs.take pos).map rangeLen).sum

/-- the `Err(pos)` of `binary_search_by` for a value outside the covered space: the number of ranges
entirely below it (contract of `std`) -/
def errPos (rs : Ranges) (v : Nat) : Nat := rs.countP (fun r => decide (r.2 < v))

/-- mirrors: CompactSpaceDecompressor::get_row_ids_for_value_range, range conversion: `none` = early
return (empty query range, or both ends fall into the same gap); a start in a gap moves up to the
next range's `compact_start`, an end in a gap moves down to the previous range's `compact_end` -/
def compactRange (rs : Ranges) (lo hi : Nat) : Option (Nat × Nat) :=
  if lo > hi then none else
  match toCompact rs lo, toCompact rs hi with
  | none, none => if errPos rs lo = errPos rs hi then none else some (cstartAt rs (errPos rs lo), cstartAt rs (errPos rs hi) - 1)
  | some a, none => some (a, cstartAt rs (errPos rs hi) - 1)
  | none, some b => some (cstartAt rs (errPos rs lo), b)
  | some a, some b => some (a, b)

/-- positions `s..e` whose compact value lies in the converted range
(mirrors: get_positions_for_compact_value_range → BitUnpacker::get_ids_for_value_range) -/
def compactRangeRows (rs : Ranges) (compacts : List Nat) (lo hi s e : Nat) : List Nat :=
  match compactRange rs lo hi with
  | none => []
  | some r => (List.range' s (min e compacts.length - s)).filter (fun i => decide (r.1 ≤ compacts.getD i 0) && decide (compacts.getD i 0 ≤ r.2))

/-! ## byte layout -/

/-- mirrors: common/src/vint.rs::VIntU128::deserialize -/
def vint128DecAux : Bytes → Nat → Nat → Option (Nat × Bytes)
  | [], _, _ => none
  | b :: bs, shift, acc =>
    let acc' := (acc + (b % 128) * 2 ^ shift) % 2 ^ 128
    if b ≥ 128 then some (acc', bs) else vint128DecAux bs (shift + 7) acc'

def vint128Dec (bs : Bytes) : Option (Nat × Bytes) := vint128DecAux bs 0 0

/-- mirrors: CompactSpace::deserialize — delta-encoded range bounds -/
def rangesDec : Nat → Nat → Bytes → Option (Ranges × Bytes)
  | 0, _, bs => some ([], bs)
  | n + 1, value, bs => do
    let (d1, bs) ← vint128Dec bs
    let start := value + d1
    let (d2, bs) ← vint128Dec bs
    let end' := start + d2
    let (rest, bs) ← rangesDec n end' bs
    some ((start, end') :: rest, bs)

/-- mirrors: common/src/vint.rs::serialize_vint_u128 (same byte format as VInt; 19 bytes hold 128 bits) -/
def vint128Enc (n : Nat) : Bytes := vintEncAux 18 n

/-- mirrors: CompactSpace::serialize — range bounds delta-coded against the previous bound -/
def rangesEnc : Nat → Ranges → Bytes
  | _, [] => []
  | prev, r :: rs => vint128Enc (r.1 - prev) ++ vint128Enc (r.2 - r.1) ++ rangesEnc r.2 rs

/-- mirrors: IPCodecParams::serialize — u64 flags (0), VIntU128 min, max, num_vals, u8 num_bits, the
compact space -/
def ipFooter (mn mx nv nb : Nat) (rs : Ranges) : Bytes :=
  leBytes 8 0 ++ vint128Enc mn ++ vint128Enc mx ++ vint128Enc nv ++ [nb] ++ vintEnc rs.length ++ rangesEnc 0 rs

/-- the codec for a given compact space: values → compact values, bit-packed with
`compute_num_bits(amplitude)` (mirrors: CompactSpaceCompressor::compress_into, payload only) -/
def compactPayload (rs : Ranges) (vals : List Nat) : Bytes :=
  pack (computeNumBits (amplitude rs)) (vals.map (fun v => (toCompact rs v).getD 0))

/-- mirrors: u128_based/mod.rs::serialize_column_values_u128 for a given compact space: header
(VInt num_vals, codec 1), bit-packed compact values, footer, footer length as u32 LE -/
def ipColumnEnc (rs : Ranges) (vals : List Nat) : Bytes :=
  let footer := ipFooter (vals.foldl Nat.min (vals.headD 0)) (vals.foldl Nat.max (vals.headD 0)) vals.length
    (computeNumBits (amplitude rs)) rs
  vintEnc vals.length ++ [1] ++ (compactPayload rs vals ++ footer ++ leBytes 4 footer.length)

structure IpColumn where
  numVals : Nat
  minValue : Nat
  maxValue : Nat
  numBits : Nat
  ranges : Ranges
  data : Bytes

/-- mirrors: u128_based/mod.rs::open_u128_mapped + CompactSpaceDecompressor::open +
IPCodecParams::deserialize: `[VInt num_vals][codec = 1][bit-packed compact values][footer: u64 flags,
VIntU128 min, max, num_vals, u8 num_bits, compact space][u32 LE footer length]` -/
def openU128Column (bytes : Bytes) : Option IpColumn := do
  let (_headerNumVals, rest) ← vintDec bytes
  match rest with
  | [] => none
  | code :: data =>
    if code ≠ 1 then none
    if data.length < 4 then none
    let footerLen := leNat (data.drop (data.length - 4))
    if footerLen + 4 > data.length then none
    let footer := (data.drop (data.length - 4 - footerLen)).take footerLen
    if footer.length < 8 then none
    let f := footer.drop 8
    let (mn, f) ← vint128Dec f
    let (mx, f) ← vint128Dec f
    let (nv, f) ← vint128Dec f
    match f with
    | [] => none
    | nb :: f =>
      let (nr, f) ← vintDec f
      let (ranges, _) ← rangesDec nr 0 f
      if !unpackerWidthOk nb then none
      some { numVals := nv % 2 ^ 32, minValue := mn, maxValue := mx, numBits := nb, ranges := ranges, data := data }

/-- mirrors: CompactSpaceDecompressor::get -/
def IpColumn.get (c : IpColumn) (i : Nat) : Nat := fromCompact c.ranges (unpackGet c.numBits i c.data)

end TantivyModel.Columnar
