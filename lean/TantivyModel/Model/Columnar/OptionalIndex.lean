import TantivyModel.Model.Columnar.Codec
/-!
# Optional index (columnar/src/column_index/optional_index): rank / select over 65 536-row blocks

Dense block = `ELEMENTS_PER_BLOCK / 64` mini blocks of (64-bit bitvec LE, u16 rank offset LE);
sparse block = sorted u16 LE. Block metadata (block id, count − 1) and the number of non-empty
blocks trail the block data.
-/
namespace TantivyModel.Columnar

def EPB : Nat := Gen.ELEMENTS_PER_BLOCK
def EPMB : Nat := Gen.ELEMENTS_PER_MINI_BLOCK

/-! ## abstract layer: a set of rows as a strictly increasing list -/

/-- number of members below `r` — what `rank` must return -/
def rankSpec (rows : List Nat) (r : Nat) : Nat := rows.countP (· < r)

/-- in-block positions of block `b` -/
def blockOf (E : Nat) (rows : List Nat) (b : Nat) : List Nat :=
  (rows.filter (fun r => r / E = b)).map (· % E)

/-- members in blocks before `b` (`non_null_rows_before_block`) -/
def rowsBefore (E : Nat) (rows : List Nat) (b : Nat) : Nat := rows.countP (fun r => r / E < b)

/-- block decomposition of rank: block offset + rank inside the block
(mirrors: optional_index/mod.rs::OptionalIndex::rank, in-range branch) -/
def rankBlocks (E : Nat) (rows : List Nat) (r : Nat) : Nat :=
  rowsBefore E rows (r / E) + (blockOf E rows (r / E)).countP (· < r % E)

/-- mirrors: optional_index/mod.rs::find_block over the per-block offsets (`offsets[b]` =
`non_null_rows_before_block`): scan from `pos`; the first block whose offset is `> k` ends the scan
(answer: the block before it); if none, the last block. -/
def findBlockAux (offsets : List Nat) (k : Nat) : Nat → Nat → Nat
  | 0, _ => offsets.length - 1
  | fuel + 1, pos => if offsets.getD pos 0 > k then pos - 1 else findBlockAux offsets k fuel (pos + 1)

def findBlock (offsets : List Nat) (k : Nat) (start : Nat) : Nat :=
  findBlockAux offsets k (offsets.length - start) start

/-- block decomposition of select (mirrors: OptionalIndex::select) -/
def selectBlocks (E : Nat) (numBlocks : Nat) (rows : List Nat) (k : Nat) : Nat :=
  let offsets := (List.range numBlocks).map (rowsBefore E rows)
  let b := findBlock offsets k 0
  b * E + (blockOf E rows b).getD (k - offsets.getD b 0) 0

/-! ## sparse block -/

/-- mirrors: set_block/sparse.rs::SparseBlockCodec::serialize -/
def sparseEnc (els : List Nat) : Bytes := (els.map (leBytes 2)).flatten

def sparseNumVals (data : Bytes) : Nat := data.length / 2

def sparseValueAt (data : Bytes) (i : Nat) : Nat := leNat ((data.drop (2 * i)).take 2)

/-- mirrors: set_block/sparse.rs::SparseBlock::binary_search (`Ok pos` = `.inl`, `Err pos` = `.inr`);
`fuel` bounds the loop (the interval shrinks every round). -/
def sparseSearchAux (get : Nat → Nat) (target : Nat) : Nat → Nat → Nat → Nat → Sum Nat Nat
  | 0, left, _, _ => .inr left
  | fuel + 1, left, right, size =>
    if left < right then
      let mid := left + size / 2
      let v := get mid
      if target > v then sparseSearchAux get target fuel (mid + 1) right (right - (mid + 1))
      else if target < v then sparseSearchAux get target fuel left mid (mid - left)
      else .inl mid
    else .inr left

def sparseSearch (data : Bytes) (target : Nat) : Sum Nat Nat :=
  let n := sparseNumVals data
  sparseSearchAux (sparseValueAt data) target (n + 1) 0 n n

def sparseRank (data : Bytes) (el : Nat) : Nat :=
  match sparseSearch data el with | .inl p => p | .inr p => p

def sparseRankIfExists (data : Bytes) (el : Nat) : Option Nat :=
  match sparseSearch data el with | .inl p => some p | .inr _ => none

def sparseContains (data : Bytes) (el : Nat) : Bool := (sparseRankIfExists data el).isSome

/-- mirrors: SparseBlock::select -/
def sparseSelect (data : Bytes) (rank : Nat) : Nat := sparseValueAt data rank

/-! ## dense block -/

def popCount (n : Nat) : Nat := ((List.range 64).filter (fun i => n.testBit i)).length

/-- the 64-bit bitvec of mini block `m`: `set_bit_at` for every member of the mini block
(mirrors: dense.rs::set_bit_at, `*input |= 1 << n`) -/
def miniBitvec (els : List Nat) (m : Nat) : Nat :=
  (blockOf EPMB els m).foldl (fun acc x => acc ||| 2 ^ x) 0

/-- one mini block: bitvec (8 bytes LE) + number of members in earlier mini blocks (u16 LE; the
running counter `non_null_rows_before`, wrapping) -/
def denseMiniBytes (els : List Nat) (m : Nat) : Bytes :=
  leBytes Gen.MINI_BLOCK_BITVEC_NUM_BYTES (miniBitvec els m)
    ++ leBytes Gen.MINI_BLOCK_OFFSET_NUM_BYTES (rowsBefore EPMB els m % 65536)

/-- mirrors: set_block/dense.rs::serialize_dense_codec: all `ELEMENTS_PER_BLOCK / 64` mini blocks -/
def denseEnc (els : List Nat) : Bytes :=
  ((List.range (EPB / EPMB)).map (denseMiniBytes els)).flatten

def denseMini (data : Bytes) (m : Nat) : Nat × Nat :=
  let d := data.drop (m * Gen.MINI_BLOCK_NUM_BYTES)
  (leNat (d.take Gen.MINI_BLOCK_BITVEC_NUM_BYTES),
   leNat ((d.drop Gen.MINI_BLOCK_BITVEC_NUM_BYTES).take Gen.MINI_BLOCK_OFFSET_NUM_BYTES))

/-- mirrors: dense.rs::rank_u64 -/
def rankU64 (bitvec el : Nat) : Nat := popCount (bitvec &&& (2 ^ el - 1))

/-- mirrors: dense.rs::select_u64 (clear the lowest set bit `rank` times, then trailing zeros) -/
def selectU64 (bitvec rank : Nat) : Nat :=
  (((List.range 64).filter (fun i => bitvec.testBit i)).getD rank 64)

def denseContains (data : Bytes) (el : Nat) : Bool :=
  (denseMini data (el / EPMB)).1.testBit (el % EPMB)

/-- mirrors: DenseBlock::rank -/
def denseRank (data : Bytes) (el : Nat) : Nat :=
  let mb := denseMini data (el / EPMB)
  mb.2 + rankU64 mb.1 (el % EPMB)

def denseRankIfExists (data : Bytes) (el : Nat) : Option Nat :=
  if denseContains data el then some (denseRank data el) else none

/-- mirrors: DenseBlock::find_miniblock_containing_rank — iterate the mini blocks from `m` while
their rank offset is `≤ rank`, remember the last one (`take_while(..).last()`) -/
def denseFindMiniAux (data : Bytes) (rank : Nat) : Nat → Nat → Option Nat → Option Nat
  | 0, _, best => best
  | fuel + 1, m, best =>
    if (denseMini data m).2 ≤ rank then denseFindMiniAux data rank fuel (m + 1) (some m) else best

def denseFindMini (data : Bytes) (rank : Nat) (from' : Nat) : Option Nat :=
  denseFindMiniAux data rank (data.length / Gen.MINI_BLOCK_NUM_BYTES - from') from' none

/-- mirrors: DenseBlock::select; `none` = the `unwrap()` panic -/
def denseSelect (data : Bytes) (rank : Nat) : Option Nat := do
  let m ← denseFindMini data rank 0
  let mb := denseMini data m
  some (m * EPMB + selectU64 mb.1 (rank - mb.2))

/-! ## whole index -/

inductive Variant where
  | dense
  | sparse (numVals : Nat)
deriving Repr, DecidableEq

structure BlockMeta where
  before : Nat
  start : Nat
  variant : Variant
deriving Repr

structure OptIdx where
  numDocs : Nat
  numNonNull : Nat
  data : Bytes
  metas : List BlockMeta
deriving Repr

def Variant.numBytes : Variant → Nat
  | .dense => Gen.DENSE_BLOCK_NUM_BYTES
  | .sparse n => n * 2

def numBlocksOf (numRows : Nat) : Nat := (numRows + EPB - 1) / EPB

/-- how a block with `n` members is stored (an empty block is a sparse block with 0 values) -/
def variantOfLen (n : Nat) : Variant := if Gen.is_sparse n then .sparse n else .dense

/-- mirrors: serialize_optional_index_block — bytes of block `b` (nothing for an empty block) -/
def blockBytesOf (rows : List Nat) (b : Nat) : Bytes :=
  let els := blockOf EPB rows b
  if Gen.is_sparse els.length then sparseEnc els else denseEnc els

/-- the non-empty blocks in order: (block id, number of members) — the `block_metadata` vector of
serialize_optional_index (the streaming group-by of the sorted rows, stated per block) -/
def optEntries (rows : List Nat) (numRows : Nat) : List (Nat × Nat) :=
  ((List.range (numBlocksOf numRows)).filter (fun b => !(blockOf EPB rows b).isEmpty)).map
    (fun b => (b, (blockOf EPB rows b).length))

/-- mirrors: SerializedBlockMeta::to_bytes — block id u16 LE, members − 1 as u16 LE -/
def metaEntryBytes (e : Nat × Nat) : Bytes := leBytes 2 e.1 ++ leBytes 2 (e.2 - 1)

/-- mirrors: optional_index/mod.rs::serialize_optional_index — VInt(num_rows), the block data, the
metadata of the non-empty blocks, their number as u16 LE -/
def optEnc (rows : List Nat) (numRows : Nat) : Bytes :=
  vintEnc numRows
    ++ ((List.range (numBlocksOf numRows)).map (blockBytesOf rows)).flatten
    ++ ((optEntries rows numRows).map metaEntryBytes).flatten
    ++ leBytes 2 (optEntries rows numRows).length

/-- mirrors: SerializedBlockMeta::from_bytes over the metadata area -/
def parseMetas : Nat → Bytes → List (Nat × Nat)
  | 0, _ => []
  | n + 1, bs => (leNat (bs.take 2), leNat ((bs.drop 2).take 2) + 1) :: parseMetas n (bs.drop 4)

/-- mirrors: deserialize_optional_index_block_metadatas for strictly increasing block ids: position
`cur` receives the next entry if it is the entry's block, else padding (`resize`) carrying the
running offsets; the final `resize` pads up to the number of blocks. -/
def buildMetas : Nat → Nat → Nat → Nat → List (Nat × Nat) → List BlockMeta
  | 0, _, _, _, _ => []
  | n + 1, cur, start, before, entries =>
    match entries with
    | (b, cnt) :: rest =>
      if b = cur then
        { before := before, start := start, variant := variantOfLen cnt }
          :: buildMetas n (cur + 1) (start + (variantOfLen cnt).numBytes) (before + cnt) rest
      else { before := before, start := start, variant := .sparse 0 } :: buildMetas n (cur + 1) start before entries
    | [] => { before := before, start := start, variant := .sparse 0 } :: buildMetas n (cur + 1) start before []

/-- mirrors: optional_index/mod.rs::open_optional_index -/
def optOpen (bytes : Bytes) : Option OptIdx := do
  if bytes.length < 2 then none
  let nBlocks := leNat (bytes.drop (bytes.length - 2))
  let body := bytes.take (bytes.length - 2)
  let (numDocs, rest) ← vintDec body
  let metaLen := nBlocks * Gen.SERIALIZED_BLOCK_META_NUM_BYTES
  if metaLen > rest.length then none
  let data := rest.take (rest.length - metaLen)
  let entries := parseMetas nBlocks (rest.drop (rest.length - metaLen))
  let numDocs := numDocs % 2 ^ 32
  some { numDocs := numDocs, numNonNull := (entries.map (·.2)).sum, data := data,
         metas := buildMetas (numBlocksOf numDocs) 0 0 0 entries }

def OptIdx.blockData (o : OptIdx) (m : BlockMeta) : Bytes := (o.data.drop m.start).take m.variant.numBytes

/-- in-block operations, dispatched on the block variant (mirrors the `match block { Dense, Sparse }`) -/
def blockRank (v : Variant) (d : Bytes) (t : Nat) : Nat :=
  match v with
  | .dense => denseRank d t
  | .sparse _ => sparseRank d t

def blockRankIfExists (v : Variant) (d : Bytes) (t : Nat) : Option Nat :=
  match v with
  | .dense => denseRankIfExists d t
  | .sparse _ => sparseRankIfExists d t

def blockSelect (v : Variant) (d : Bytes) (k : Nat) : Option Nat :=
  match v with
  | .dense => denseSelect d k
  | .sparse n => if k < n then some (sparseSelect d k) else none

/-- mirrors: OptionalIndex::rank; `none` = index out of bounds panic -/
def OptIdx.rank (o : OptIdx) (doc : Nat) : Option Nat :=
  if doc ≥ o.numDocs then some o.numNonNull else do
  let m ← o.metas[doc / EPB]?
  some (m.before + blockRank m.variant (o.blockData m) (doc % EPB))

/-- mirrors: OptionalIndex::rank_if_exists -/
def OptIdx.rankIfExists (o : OptIdx) (doc : Nat) : Option Nat := do
  let m ← o.metas[doc / EPB]?
  let r ← blockRankIfExists m.variant (o.blockData m) (doc % EPB)
  some (m.before + r)

/-- mirrors: OptionalIndex::select; `start` = 0, or the cursor's current block for
OptionalIndexSelectCursor -/
def OptIdx.selectFrom (o : OptIdx) (start rank : Nat) : Option Nat := do
  let b := findBlock (o.metas.map (·.before)) rank start
  let m ← o.metas[b]?
  let inBlock ← blockSelect m.variant (o.blockData m) (rank - m.before)
  some (b * EPB + inBlock)

def OptIdx.select (o : OptIdx) (rank : Nat) : Option Nat := o.selectFrom 0 rank

end TantivyModel.Columnar
