import TantivyModel.Model.Columnar.OptionalIndex
/-!
# Columns: specification, column index (Full / Optional / Multivalued), writer encoding, merge

Specification: a column is `List (List V)` — row ↦ its values in insertion order.
Implementation level: a column index over a flat value list, as in `columnar/src/column_index`
and `columnar/src/column/mod.rs`; merge as in `column_index/merge/{stacked,shuffled}.rs` and
`column_values/merge.rs`.
-/
namespace TantivyModel.Columnar

/-! ## specification -/

abbrev Column (V : Type) := List (List V)

/-- rows holding at least one value `v` with `lo ≤ key v ≤ hi` -/
def docsInRange {V : Type} (key : V → Nat) (col : Column V) (lo hi : Nat) : List Nat :=
  (List.range col.length).filter (fun d => (col.getD d []).any (fun v => decide (lo ≤ key v) && decide (key v ≤ hi)))

/-- a row of an input column, addressed by (segment ordinal, row id); a missing segment or row
has no values (missing column = all absent) -/
def rowAt {V : Type} (cols : List (Column V)) (addr : Nat × Nat) : List V :=
  (cols.getD addr.1 []).getD addr.2 []

/-- merge by an arbitrary new-row → old-row mapping (deleted rows simply do not occur) -/
def mergeSpec {V : Type} (order : List (Nat × Nat)) (cols : List (Column V)) : Column V :=
  order.map (rowAt cols)

/-- stacking = concatenation -/
def stackSpec {V : Type} (cols : List (Column V)) : Column V := cols.flatten

/-! ## implementation level: column index -/

inductive Card where
  | full | optional | multivalued
deriving Repr, DecidableEq

def Card.toNat : Card → Nat
  | .full => 0 | .optional => 1 | .multivalued => 2

def Card.max (a b : Card) : Card := if a.toNat ≥ b.toNat then a else b

/-- mirrors: columnar/src/column_index/mod.rs::ColumnIndex (V2 multivalued index: rows with values
+ compact start offsets) -/
inductive Index where
  | empty (numDocs : Nat)
  | full
  | optional (nonNull : List Nat) (numRows : Nat)
  | multivalued (nonNull : List Nat) (numRows : Nat) (starts : List Nat)
deriving Repr, DecidableEq

/-- abstract `rank_if_exists` on the strictly increasing list of rows with values -/
def rankIfExists (nonNull : List Nat) (doc : Nat) : Option Nat :=
  if doc ∈ nonNull then some (rankSpec nonNull doc) else none

/-- mirrors: ColumnIndex::value_row_ids -/
def Index.valueRowIds (idx : Index) (doc : Nat) : Nat × Nat :=
  match idx with
  | .empty _ => (0, 0)
  | .full => (doc, doc + 1)
  | .optional nn _ =>
    match rankIfExists nn doc with
    | some k => (k, k + 1)
    | none => (0, 0)
  | .multivalued nn _ starts =>
    match rankIfExists nn doc with
    | some k => (starts.getD k 0, starts.getD (k + 1) 0)
    | none => (0, 0)

/-- mirrors: Column::num_docs -/
def Index.numDocs (idx : Index) (numVals : Nat) : Nat :=
  match idx with
  | .empty n => n
  | .full => numVals
  | .optional _ n => n
  | .multivalued _ n _ => n

/-- mirrors: Column::values_for_doc -/
def readRow {V : Type} (idx : Index) (vals : List V) (doc : Nat) : List V :=
  let r := idx.valueRowIds doc
  (vals.drop r.1).take (r.2 - r.1)

/-- what a reader observes: every row's values -/
def read {V : Type} (idx : Index) (vals : List V) : Column V :=
  (List.range (idx.numDocs vals.length)).map (readRow idx vals)

/-! ## range lookup through the index (Column::get_docids_for_value_range) -/

/-- mirrors: ColumnIndex::docid_range_to_rowids — the rows of the flat values that belong to the
documents `s..e` -/
def Index.docRangeToRows (idx : Index) (s e : Nat) : Nat × Nat :=
  match idx with
  | .empty _ => (0, 0)
  | .full => (s, e)
  | .optional nn _ => (rankSpec nn s, rankSpec nn e)
  | .multivalued nn _ starts => (starts.getD (rankSpec nn s) 0, starts.getD (rankSpec nn e) 0)

/-- mirrors: ColumnValues::get_row_ids_for_value_range — the rows of `rs..re` (clamped to the number
of values) whose value lies in the range, ascending (codec specific implementations are proved
equal to this: `C08_bitunpacker_range_lookup`, `C08_range_rows_exact`) -/
def rowsInRange {V : Type} (key : V → Nat) (vals : List V) (lo hi rs re : Nat) : List Nat :=
  (List.range' rs (min re vals.length - rs)).filter
    (fun r => (vals[r]?).any (fun v => decide (lo ≤ key v) && decide (key v ≤ hi)))

/-- mirrors the inner `loop` of MultiValueIndexV2::select_batch_in_place: advance `cur` while the
next start offset is `≤ pos` -/
def advanceTo (starts : List Nat) (pos : Nat) : Nat → Nat → Nat
  | 0, cur => cur
  | fuel + 1, cur => if starts.getD (cur + 1) 0 > pos then cur else advanceTo starts pos fuel (cur + 1)

/-- one rank of select_batch_in_place: (output so far, cursor, last written) -/
def mvStep (starts : List Nat) (st : List Nat × Nat × Option Nat) (pos : Nat) : List Nat × Nat × Option Nat :=
  let c := advanceTo starts pos starts.length st.2.1
  (if st.2.2 = some c then st.1 else st.1 ++ [c], c, some c)

/-- mirrors: ColumnIndex::select_batch_in_place — row ids (ascending) → doc ids, each document once -/
def Index.selectBatch (idx : Index) (docStart : Nat) (ranks : List Nat) : List Nat :=
  match idx with
  | .empty _ => []
  | .full => ranks
  | .optional nn _ => ranks.map (fun k => nn.getD k 0)
  | .multivalued nn _ starts =>
    (ranks.foldl (mvStep starts) ([], rankSpec nn docStart, none)).1.map (fun k => nn.getD k 0)

/-- mirrors: Column::get_docids_for_value_range -/
def docidsForValueRange {V : Type} (key : V → Nat) (idx : Index) (vals : List V) (lo hi s e : Nat) : List Nat :=
  let r := idx.docRangeToRows s e
  idx.selectBatch s (rowsInRange key vals lo hi r.1 r.2)

/-- mirrors: ColumnIndex::get_cardinality -/
def Index.card : Index → Card
  | .empty 0 => .full
  | .empty _ => .optional
  | .full => .full
  | .optional _ _ => .optional
  | .multivalued _ _ _ => .multivalued

/-! ## writer side: rows → (index, values) -/

/-- rows that hold at least one value, numbered from `i` -/
def nonNullFrom {V : Type} : Nat → Column V → List Nat
  | _, [] => []
  | i, r :: rs => if r.isEmpty then nonNullFrom (i + 1) rs else i :: nonNullFrom (i + 1) rs

/-- rows that hold at least one value (the `doc_ids_with_values` of the index builders) -/
def nonNullRows {V : Type} (rows : Column V) : List Nat := nonNullFrom 0 rows

/-- `acc :: acc + n₀ :: acc + n₀ + n₁ :: …` -/
def prefixSums : List Nat → Nat → List Nat
  | [], acc => [acc]
  | n :: ns, acc => acc :: prefixSums ns (acc + n)

/-- mirrors: shuffled.rs::integrate_num_vals / value_index.rs::MultivaluedIndexBuilder —
`0 ::` running sums of the non-zero row lengths -/
def startOffsets (lens : List Nat) : List Nat := prefixSums (lens.filter (· ≠ 0)) 0

/-- the index + flat values written for `rows` under cardinality `card`
(mirrors: writer/mod.rs::send_to_serialize_column_mappable_to_u64 and the index builders) -/
def encodeAs {V : Type} (card : Card) (rows : Column V) : Index × List V :=
  match card with
  | .full => (.full, rows.flatten)
  | .optional => (.optional (nonNullRows rows) rows.length, rows.flatten)
  | .multivalued => (.multivalued (nonNullRows rows) rows.length (startOffsets (rows.map List.length)), rows.flatten)

/-- smallest cardinality that can represent the rows
(mirrors: column_writers.rs::ColumnWriter::{record, get_cardinality}) -/
def detectCard {V : Type} (rows : Column V) : Card :=
  if rows.all (fun r => r.length == 1) then .full
  else if rows.all (fun r => decide (r.length ≤ 1)) then .optional
  else .multivalued

/-- `card` can represent `rows` -/
def Card.fits {V : Type} (card : Card) (rows : Column V) : Prop :=
  match card with
  | .full => ∀ r ∈ rows, r.length = 1
  | .optional => ∀ r ∈ rows, r.length ≤ 1
  | .multivalued => True

/-! ## merge -/

/-- an input of a merge: `none` = the column does not exist in that segment
(becomes `ColumnIndex::Empty { num_docs }`) -/
structure MergeInput (V : Type) where
  numDocs : Nat
  col : Option (Index × List V)

def MergeInput.index {V : Type} (m : MergeInput V) : Index :=
  match m.col with
  | some c => c.1
  | none => .empty m.numDocs

def MergeInput.vals {V : Type} (m : MergeInput V) : List V :=
  match m.col with
  | some c => c.2
  | none => []

def MergeInput.read {V : Type} (m : MergeInput V) : Column V :=
  match m.col with
  | some c => Columnar.read c.1 c.2
  | none => List.replicate m.numDocs []

def inputRow {V : Type} (ins : List (MergeInput V)) (addr : Nat × Nat) : List V :=
  match ins[addr.1]? with
  | some m => readRow m.index m.vals addr.2
  | none => []

/-- mirrors: column_values/merge.rs::MergedColumnValues::boxed_iter (Shuffled) -/
def shuffledValues {V : Type} (order : List (Nat × Nat)) (ins : List (MergeInput V)) : List V :=
  order.flatMap (inputRow ins)

/-- mirrors: column_index/merge/mod.rs::detect_cardinality (Shuffled). The real function scans the
alive rows of every input and never goes above the input's own cardinality; it may therefore
answer a *larger* cardinality than needed (e.g. `Optional` for an optional input whose rows all
have a value). The theorems hold for every cardinality that fits the surviving rows; this is the
smallest one. -/
def shuffledCard {V : Type} (order : List (Nat × Nat)) (ins : List (MergeInput V)) : Card :=
  detectCard (order.map (inputRow ins))

/-- mirrors: column_index/merge/shuffled.rs::merge_column_index_shuffled + shuffledValues:
rows with values = new rows whose old row `has_value`; start offsets = integrate(num values). -/
def mergeShuffledAs {V : Type} (card : Card) (order : List (Nat × Nat)) (ins : List (MergeInput V)) :
    Index × List V :=
  let rows := order.map (inputRow ins)
  match card with
  | .full => (.full, shuffledValues order ins)
  | .optional => (.optional (nonNullRows rows) order.length, shuffledValues order ins)
  | .multivalued =>
    (.multivalued (nonNullRows rows) order.length (startOffsets (rows.map List.length)), shuffledValues order ins)

def mergeShuffled {V : Type} (order : List (Nat × Nat)) (ins : List (MergeInput V)) : Index × List V :=
  mergeShuffledAs (shuffledCard order ins) order ins

/-- mirrors: detect_cardinality (Stack): the maximum of the inputs' cardinalities -/
def stackedCard {V : Type} (ins : List (MergeInput V)) : Card :=
  ins.foldl (fun c m => c.max m.index.card) .full

/-- one input of `stacked.rs::get_doc_ids_with_values`: its rows with values, shifted by the
number of rows stacked so far -/
def stackedStep {V : Type} (acc : List Nat × Nat) (m : MergeInput V) : List Nat × Nat :=
  let n := m.index.numDocs m.vals.length
  let rows := match m.index with
    | .empty _ => []
    | .full => List.range n
    | .optional nn _ => nn
    | .multivalued nn _ _ => nn
  (acc.1 ++ rows.map (· + acc.2), acc.2 + n)

/-- mirrors: stacked.rs::get_doc_ids_with_values shifted by the segment's first row -/
def stackedNonNull {V : Type} (ins : List (MergeInput V)) : List Nat :=
  (ins.foldl stackedStep ([], 0)).1

/-- mirrors: stacked.rs::get_num_values_iterator, concatenated -/
def stackedNumVals {V : Type} (ins : List (MergeInput V)) : List Nat :=
  ins.flatMap (fun m =>
    match m.index with
    | .empty _ => []
    | .full => List.replicate (m.index.numDocs m.vals.length) 1
    | .optional nn _ => List.replicate nn.length 1
    | .multivalued _ _ starts => (starts.zipWith (fun a b => b - a) (starts.drop 1)))

/-- mirrors: stacked.rs::merge_column_index_stacked + MergedColumnValues (Stack: all values of all
inputs, in order) -/
def mergeStacked {V : Type} (ins : List (MergeInput V)) : Index × List V :=
  let vals := ins.flatMap (·.vals)
  let total := (ins.map (fun m => m.index.numDocs m.vals.length)).foldl (· + ·) 0
  match stackedCard ins with
  | .full => (.full, vals)
  | .optional => (.optional (stackedNonNull ins) total, vals)
  | .multivalued =>
    (.multivalued (stackedNonNull ins) total
      (prefixSums (stackedNumVals ins) 0), vals)

end TantivyModel.Columnar
