import TantivyModel.Model.Columnar.Column
/-!
# The columnar writer: operation log → cardinality detection → index builders

mirrors: columnar/src/columnar/writer/{column_operation.rs, column_writers.rs, value_index.rs,
mod.rs::consume_operation_iterator / send_to_serialize_column_mappable_to_u64} and the numeric
coercion of `column_writers.rs::CompatibleNumericalTypes` + `value.rs::Coerce`.
-/
namespace TantivyModel.Columnar

/-- mirrors: column_operation.rs::ColumnOperation -/
inductive Op (V : Type) where
  | newDoc (d : Nat)
  | value (v : V)
deriving Repr, DecidableEq

inductive DocStep where
  | same | next | skipped
deriving Repr, DecidableEq

/-- the doc id a writer expects next -/
def expectedNext : Option Nat → Nat
  | some l => l + 1
  | none => 0

/-- mirrors: column_writers.rs::delta_with_last_doc -/
def deltaWithLastDoc (last : Option Nat) (doc : Nat) : DocStep :=
  if doc < expectedNext last then .same
  else if doc = expectedNext last then .next
  else .skipped

/-- mirrors: column_writers.rs::ColumnWriter (the symbol buffer as a list) -/
structure ColWriter (V : Type) where
  card : Card
  last : Option Nat
  ops : List (Op V)

def ColWriter.init {V : Type} : ColWriter V := { card := .full, last := none, ops := [] }

/-- mirrors: ColumnWriter::record -/
def ColWriter.record {V : Type} (w : ColWriter V) (doc : Nat) (v : V) : ColWriter V :=
  match deltaWithLastDoc w.last doc with
  | .same => { w with card := .multivalued, ops := w.ops ++ [.value v] }
  | .next => { w with last := some doc, ops := w.ops ++ [.newDoc doc, .value v] }
  | .skipped => { card := w.card.max .optional, last := some doc, ops := w.ops ++ [.newDoc doc, .value v] }

/-- mirrors: ColumnWriter::get_cardinality -/
def ColWriter.getCardinality {V : Type} (w : ColWriter V) (numDocs : Nat) : Card :=
  match deltaWithLastDoc w.last numDocs with
  | .same => w.card
  | .next => w.card
  | .skipped => w.card.max .optional

/-- all values of one document, in insertion order -/
def recordRow {V : Type} (w : ColWriter V) (doc : Nat) (r : List V) : ColWriter V :=
  r.foldl (fun w v => w.record doc v) w

/-- documents `i, i+1, …` with their values -/
def recordRows {V : Type} : ColWriter V → Nat → Column V → ColWriter V
  | w, _, [] => w
  | w, i, r :: rs => recordRows (recordRow w i r) (i + 1) rs

/-- mirrors: value_index.rs::MultivaluedIndexBuilder -/
structure MvBuilder where
  docWithValues : List Nat
  startOffsets : List Nat
  total : Nat
  currentRow : Nat
  hasValue : Bool
deriving Repr

def MvBuilder.init : MvBuilder :=
  { docWithValues := [], startOffsets := [], total := 0, currentRow := 0, hasValue := false }

/-- mirrors: MultivaluedIndexBuilder::{record_row, record_value} -/
def MvBuilder.op {V : Type} (b : MvBuilder) : Op V → MvBuilder
  | .newDoc d => { b with currentRow := d, hasValue := false }
  | .value _ =>
    if b.hasValue then { b with total := b.total + 1 }
    else { b with hasValue := true, docWithValues := b.docWithValues ++ [b.currentRow],
                  startOffsets := b.startOffsets ++ [b.total], total := b.total + 1 }

def opValue? {V : Type} : Op V → Option V
  | .value v => some v
  | .newDoc _ => none

def opDoc? {V : Type} : Op V → Option Nat
  | .newDoc d => some d
  | .value _ => none

/-- mirrors: writer/mod.rs::consume_operation_iterator with the index builder of the detected
cardinality (Full: nothing; Optional: the rows; Multivalued: rows with values + start offsets,
`finish` pushes the total) -/
def consumeOps {V : Type} (card : Card) (ops : List (Op V)) (numDocs : Nat) : Index × List V :=
  let vals := ops.filterMap opValue?
  match card with
  | .full => (.full, vals)
  | .optional => (.optional (ops.filterMap opDoc?) numDocs, vals)
  | .multivalued =>
    let b := ops.foldl MvBuilder.op MvBuilder.init
    (.multivalued b.docWithValues numDocs (b.startOffsets ++ [b.total]), vals)

/-- the writer pipeline for one column: record every value of every document, detect the
cardinality, replay the operation log into the index builder -/
def writerEncode {V : Type} (rows : Column V) : Index × List V :=
  let w := recordRows ColWriter.init 0 rows
  consumeOps (w.getCardinality rows.length) w.ops rows.length

/-! ## numeric coercion -/

/-- mirrors: value.rs::NumericalValue (i64 / u64 / f64 as 64-bit patterns) -/
inductive NumVal where
  | i64 (bits : BitVec 64)
  | u64 (bits : BitVec 64)
  | f64 (bits : BitVec 64)
deriving Repr, DecidableEq

inductive NumType where
  | i64 | u64 | f64
deriving Repr, DecidableEq

/-- mirrors: column_writers.rs::CompatibleNumericalTypes::Dynamic -/
structure Compat where
  allI64 : Bool
  allU64 : Bool
deriving Repr, DecidableEq

def Compat.init : Compat := { allI64 := true, allU64 := true }

/-- mirrors: CompatibleNumericalTypes::accept_value -/
def Compat.accept (c : Compat) : NumVal → Compat
  | .i64 x => { c with allU64 := c.allU64 && decide (0 ≤ x.toInt) }
  | .u64 x => { c with allI64 := c.allI64 && decide (x.toNat < 2 ^ 63 - 1) }
  | .f64 _ => { allI64 := false, allU64 := false }

/-- mirrors: CompatibleNumericalTypes::to_numerical_type (first of i64, u64 accepted, else f64) -/
def Compat.toType (c : Compat) : NumType :=
  if c.allI64 then .i64 else if c.allU64 then .u64 else .f64

def numTypeOf (vals : List NumVal) : NumType := (vals.foldl Compat.accept Compat.init).toType

/-- mirrors: value.rs::Coerce for i64 / u64 (`as` casts keep the bit pattern); `none` = unreachable!() -/
def coerceInt (t : NumType) : NumVal → Option (BitVec 64)
  | .i64 x => if t = .f64 then none else some x
  | .u64 x => if t = .f64 then none else some x
  | .f64 _ => none

/-- the mathematical value of an integer NumVal -/
def NumVal.intValue : NumVal → Option Int
  | .i64 x => some x.toInt
  | .u64 x => some (x.toNat : Int)
  | .f64 _ => none

/-- the mathematical value of a stored pattern in a column of type `t` -/
def storedInt (t : NumType) (x : BitVec 64) : Int :=
  match t with
  | .i64 => x.toInt
  | _ => (x.toNat : Int)

end TantivyModel.Columnar
