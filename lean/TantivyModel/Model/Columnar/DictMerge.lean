import TantivyModel.Model.Columnar.Column
/-!
# Merging the dictionaries of a Str / Bytes column and remapping term ordinals

mirrors: columnar/src/columnar/merge/term_merger.rs::TermMerger (k-way merge of the sorted term
streams: pop the smallest key, collect every stream positioned on the same key) and
merge_dict_column.rs::merge_dict_and_compute_term_ord_mapping (terms no surviving row uses are
skipped; every matching segment registers old ordinal ↦ current new ordinal).

Terms are abstract keys ordered like the dictionary's byte order (`Nat`); a dictionary is a strictly
increasing list, an ordinal is a position in it.
-/
namespace TantivyModel.Columnar

structure DictMerge where
  /-- remaining terms of every segment's stream (head = the key the stream is positioned on) -/
  rem : List (List Nat)
  /-- old ordinal of every segment's head -/
  ords : List Nat
  /-- next new ordinal (`current_term_ord`) -/
  cur : Nat
  /-- terms emitted so far (the merged dictionary) -/
  merged : List Nat
  /-- registered (segment, old ordinal, new ordinal) -/
  map : List (Nat × Nat × Nat)
deriving Repr

/-- the smallest key any stream is positioned on (`heap.pop()`) -/
def minHead (rem : List (List Nat)) : Option Nat :=
  match rem.filterMap List.head? with
  | [] => none
  | a :: l => some (l.foldl Nat.min a)

/-- is segment `s` positioned on key `m` (member of `matching_segments`) -/
def onKey (rem : List (List Nat)) (m s : Nat) : Bool := (rem.getD s []).head? == some m

/-- mirrors: one round of `while merged_terms.advance() { … }` -/
def dictStep (used : Nat → Nat → Bool) (st : DictMerge) : Option DictMerge :=
  match minHead st.rem with
  | none => none
  | some m =>
    let matching := (List.range st.rem.length).filter (onKey st.rem m)
    let keep := matching.any (fun s => used s (st.ords.getD s 0))
    let rem' := st.rem.map (fun l => if l.head? == some m then l.tail else l)
    let ords' := (List.range st.rem.length).map (fun s => if onKey st.rem m s then st.ords.getD s 0 + 1 else st.ords.getD s 0)
    some (if keep then
        { rem := rem', ords := ords', cur := st.cur + 1, merged := st.merged ++ [m],
          map := st.map ++ matching.map (fun s => (s, st.ords.getD s 0, st.cur)) }
      else { st with rem := rem', ords := ords' })

def dictRun (used : Nat → Nat → Bool) : Nat → DictMerge → DictMerge
  | 0, st => st
  | fuel + 1, st =>
    match dictStep used st with
    | none => st
    | some st' => dictRun used fuel st'

/-- mirrors: merge_dict_and_compute_term_ord_mapping over the segments' dictionaries; `used s o` =
"a surviving row of segment `s` uses old ordinal `o`" (always true for stacked merges) -/
def mergeDicts (used : Nat → Nat → Bool) (dicts : List (List Nat)) : DictMerge :=
  dictRun used ((dicts.map List.length).sum + 1)
    { rem := dicts, ords := List.replicate dicts.length 0, cur := 0, merged := [], map := [] }

/-- the new ordinal registered for (segment, old ordinal) -/
def remapOrd (m : DictMerge) (s o : Nat) : Option Nat :=
  (m.map.find? (fun e => e.1 == s && e.2.1 == o)).map (·.2.2)

/-! ## the merged Str / Bytes column -/

/-- a segment's dictionary-encoded column: its dictionary and its column of term ordinals (`none` =
the column does not exist in that segment; the dictionary is then empty) -/
structure DictInput where
  dict : List Nat
  ords : MergeInput Nat

/-- mirrors: merge_dict_column.rs::RemappedTermOrdinalsValues — every ordinal the segment's row
iterator yields goes through the segment's old → new mapping (`get_segment(seg)[ord]`) -/
def remapInput (dm : DictMerge) (s : Nat) (m : MergeInput Nat) : MergeInput Nat :=
  { m with col := m.col.map (fun c => (c.1, c.2.map (fun o => (remapOrd dm s o).getD 0))) }

/-- mirrors: merge_bytes_or_str_column — the merged dictionary, then the merged column index and the
remapped ordinals through the ordinary u64 column merge -/
def mergeDictColumnAs (card : Card) (used : Nat → Nat → Bool) (order : List (Nat × Nat)) (ins : List DictInput) :
    List Nat × Index × List Nat :=
  let dm := mergeDicts used (ins.map (·.dict))
  (dm.merged, mergeShuffledAs card order (ins.mapIdx (fun s d => remapInput dm s d.ords)))

/-- mirrors: merge_dict_column.rs::compute_term_bitset — the ordinals the alive rows of a segment hold -/
def termBitset (m : MergeInput Nat) (alive : List Nat) (o : Nat) : Bool :=
  alive.any (fun r => (readRow m.index m.vals r).contains o)

/-- mirrors: serialize_merged_dict (Shuffled) + is_term_present — a segment with an alive bitset and
the column contributes its term bitset; a segment without either keeps every term it is positioned
on (`alive`: per segment `none` = no bitset, e.g. every stacked merge) -/
def usedOf (alive : List (Option (List Nat))) (ins : List DictInput) (s o : Nat) : Bool :=
  match alive.getD s none, ins[s]? with
  | some rows, some d => if d.ords.col.isSome then termBitset d.ords rows o else true
  | _, _ => true

/-- mirrors: merge_bytes_or_str_column under `MergeRowOrder::Stack` (every term is kept; the
stacked column index; `boxed_iter_stacked` remaps every ordinal of every segment in turn) -/
def mergeDictColumnStacked (ins : List DictInput) : List Nat × Index × List Nat :=
  let dm := mergeDicts (fun _ _ => true) (ins.map (·.dict))
  (dm.merged, mergeStacked (ins.mapIdx (fun s d => remapInput dm s d.ords)))

/-- the terms a reader resolves for every row -/
def readTerms (dict : List Nat) (idx : Index) (ords : List Nat) : Column (Option Nat) :=
  (read idx ords).map (fun r => r.map (fun o => dict[o]?))

def DictInput.readTerms (d : DictInput) : Column (Option Nat) :=
  d.ords.read.map (fun r => r.map (fun o => d.dict[o]?))

end TantivyModel.Columnar
