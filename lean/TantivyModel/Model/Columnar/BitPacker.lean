import TantivyModel.Gen.Columnar
/-!
# Little-endian bit stream: `BitPacker::write/close`, `BitUnpacker::get` (tantivy-bitpacker)

Bytes are naturals `< 256` (`List Nat`); a `u64` is a natural `< 2^64`. The mechanism is mirrored
step by step (64-bit mini buffer, flush of whole words, `close` writing the used bytes only,
unaligned 8-byte read with zero padding, shift, mask).
-/
namespace TantivyModel.Columnar

abbrev Bytes := List Nat

def U64 : Nat := 2 ^ 64

/-- `n.to_le_bytes()[..k]` -/
def leBytes : Nat → Nat → Bytes
  | 0, _ => []
  | k + 1, n => n % 256 :: leBytes k (n / 256)

/-- the natural number a little-endian byte string denotes -/
def leNat : Bytes → Nat
  | [] => 0
  | b :: bs => b + 256 * leNat bs

structure Packer where
  mini : Nat
  written : Nat
  out : Bytes
deriving Repr

def Packer.new : Packer := { mini := 0, written := 0, out := [] }

/-- mirrors: bitpacker/src/bitpacker.rs::BitPacker::write -/
def Packer.write (p : Packer) (val w : Nat) : Packer :=
  if p.written + w > 64 then
    { out := p.out ++ leBytes 8 (p.mini ||| ((val <<< p.written) % U64)),
      mini := val >>> (64 - p.written),
      written := p.written + w - 64 }
  else
    let m := p.mini ||| ((val <<< p.written) % U64)
    if p.written + w = 64 then { out := p.out ++ leBytes 8 m, mini := 0, written := 0 }
    else { out := p.out, mini := m, written := p.written + w }

/-- mirrors: bitpacker/src/bitpacker.rs::BitPacker::flush / close -/
def Packer.close (p : Packer) : Bytes :=
  if p.written > 0 then p.out ++ leBytes ((p.written + 7) / 8) p.mini else p.out

def Packer.writeAll (p : Packer) (w : Nat) (vals : List Nat) : Packer :=
  vals.foldl (fun p v => p.write v w) p

/-- all values written with one width, then closed -/
def pack (w : Nat) (vals : List Nat) : Bytes := (Packer.new.writeAll w vals).close

/-- mirrors: the `assert!` of bitpacker/src/bitpacker.rs::BitUnpacker::new -/
def unpackerWidthOk (w : Nat) : Bool :=
  decide (w ≤ Gen.UNPACKER_MAX_NARROW_BITS) || decide (w = Gen.UNPACKER_WIDE_BITS)

def unpackMask (w : Nat) : Nat := if w = 64 then U64 - 1 else 2 ^ w - 1

/-- mirrors: bitpacker/src/bitpacker.rs::BitUnpacker::get (fast path and `get_slow_path`: the
8 bytes at `addr`, zero padded at the end of the data) -/
def unpackGet (w idx : Nat) (data : Bytes) : Nat :=
  let addrBits := idx * w
  let addr := addrBits / 8
  let shift := addrBits % 8
  if addr + 8 > data.length ∧ w = 0 then 0
  else (leNat ((data.drop addr).take 8) >>> shift) &&& unpackMask w

/-- mirrors: bitpacker/src/bitpacker.rs::BitUnpacker::get_ids_for_value_range over positions `s..e`:
widths above `RANGE_LOOKUP_FAST_MAX_BITS` compare the u64 values (`_slow`); otherwise the query
range is converted to u32 — guard and conversion are the source expressions translated into
`Gen.range_lookup_*` — and the values are compared as u32 (`_fast`: `get_batch_u32s` +
`filter_vec_in_place`; the SIMD kernels and BitPacker1x::decompress are taken by their contract
"same values as `get`"). -/
def unpackRangeIds (w : Nat) (data : Bytes) (lo hi s e : Nat) : List Nat :=
  if w > Gen.RANGE_LOOKUP_FAST_MAX_BITS then
    (List.range' s (e - s)).filter (fun i => decide (lo ≤ unpackGet w i data) && decide (unpackGet w i data ≤ hi))
  else if Gen.range_lookup_start_too_big (BitVec.ofNat 64 lo) (BitVec.ofNat 64 hi) then []
  else
    (List.range' s (e - s)).filter (fun i =>
      decide ((Gen.range_lookup_start_u32 (BitVec.ofNat 64 lo) (BitVec.ofNat 64 hi)).toNat ≤ unpackGet w i data % 2 ^ 32)
        && decide (unpackGet w i data % 2 ^ 32 ≤ (Gen.range_lookup_end_u32 (BitVec.ofNat 64 lo) (BitVec.ofNat 64 hi)).toNat))

/-- mirrors: bitpacker/src/lib.rs::compute_num_bits -/
def computeNumBits (n : Nat) : Nat :=
  let amplitude := if n = 0 then 0 else Nat.log2 n + 1
  if amplitude ≤ Gen.BITPACK_MAX_NARROW_BITS then amplitude else Gen.BITPACK_WIDE_BITS

/-- the number a packed sequence denotes: `Σ vals[i] * 2^(i*w)` -/
def packNat (w : Nat) : List Nat → Nat
  | [] => 0
  | v :: vs => v + 2 ^ w * packNat w vs

end TantivyModel.Columnar
