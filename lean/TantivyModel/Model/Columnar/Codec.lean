import TantivyModel.Model.Columnar.BitPacker
/-!
# u64 column codecs: stats, bitpacked, linear, blockwise-linear (columnar/src/column_values/u64_based)

Encoders and decoders over real byte layouts (VInt header, bit-packed payload, footers), so that
bytes produced by the Rust code can be decoded by the model and vice versa.
-/
namespace TantivyModel.Columnar

/-! ## VInt (common/src/vint.rs) -/

/-- mirrors: common/src/vint.rs::VInt::serialize_into — 7 bits per byte, low first, stop bit 128 on
the last byte. -/
def vintEncAux : Nat → Nat → Bytes
  | 0, n => [n % 128 + 128]
  | fuel + 1, n => if n < 128 then [n + 128] else n % 128 :: vintEncAux fuel (n / 128)

/-- a u64 needs at most 10 bytes -/
def vintEnc (n : Nat) : Bytes := vintEncAux 9 n

/-- mirrors: common/src/vint.rs::VInt::deserialize; `none` = "Reach end of buffer". -/
def vintDecAux : Bytes → Nat → Nat → Option (Nat × Bytes)
  | [], _, _ => none
  | b :: bs, shift, acc =>
    let acc' := (acc + (b % 128) * 2 ^ shift) % U64
    if b ≥ 128 then some (acc', bs) else vintDecAux bs (shift + 7) acc'

def vintDec (bs : Bytes) : Option (Nat × Bytes) := vintDecAux bs 0 0

/-! ## Column statistics -/

structure Stats where
  gcd : Nat
  min : Nat
  max : Nat
  numRows : Nat
deriving Repr, DecidableEq

/-- mirrors: u64_based/stats_collector.rs::StatsCollector (collect / update_increment_gcd / stats):
min, max, number of rows, gcd of the non-zero differences to the first value (1 if there is none);
`compute_gcd` is Euclid's algorithm = `Nat.gcd`. -/
def collectStats (vals : List Nat) : Stats :=
  match vals with
  | [] => { gcd := 1, min := 0, max := 0, numRows := 0 }
  | first :: rest =>
    let g := rest.foldl (fun g v => Nat.gcd g (if v ≥ first then v - first else first - v)) 0
    { gcd := if g = 0 then 1 else g,
      min := rest.foldl Nat.min first,
      max := rest.foldl Nat.max first,
      numRows := vals.length }

/-- mirrors: column_values/stats.rs::ColumnStats::serialize -/
def Stats.enc (s : Stats) : Bytes :=
  vintEnc s.min ++ vintEnc s.gcd ++ vintEnc ((s.max - s.min) / s.gcd) ++ vintEnc s.numRows

/-- mirrors: column_values/stats.rs::ColumnStats::deserialize ("GCD of 0 is forbidden") -/
def Stats.dec (bs : Bytes) : Option (Stats × Bytes) := do
  let (mn, bs) ← vintDec bs
  let (g, bs) ← vintDec bs
  if g = 0 then none
  let (amp, bs) ← vintDec bs
  let (n, bs) ← vintDec bs
  some ({ gcd := g, min := mn, max := mn + amp * g, numRows := n % 2 ^ 32 }, bs)

/-! ## Bitpacked codec -/

/-- mirrors: u64_based/bitpacked.rs::num_bits -/
def bitpackedNumBits (s : Stats) : Nat := computeNumBits ((s.max - s.min) / s.gcd)

/-- mirrors: u64_based/bitpacked.rs::BitpackedCodecEstimator::serialize (payload only) -/
def bitpackedPayload (s : Stats) (vals : List Nat) : Bytes :=
  pack (bitpackedNumBits s) (vals.map (fun v => (v - s.min) / s.gcd))

def bitpackedEnc (vals : List Nat) : Bytes :=
  let s := collectStats vals
  s.enc ++ bitpackedPayload s vals

/-- mirrors: u64_based/bitpacked.rs::BitpackedReader::get_val -/
def bitpackedGet (s : Stats) (data : Bytes) (i : Nat) : Nat :=
  s.min + s.gcd * unpackGet (bitpackedNumBits s) i data

/-- mirrors: u64_based/bitpacked.rs::transform_range_before_linear_transformation for a non-empty
query range `lo..=hi`: both bounds `saturating_sub(min)`, lower bound `div_ceil gcd`, upper bound
`/ gcd`; the result is compared with the stored (normalised) values. -/
def transformRange (s : Stats) (lo hi : Nat) : Nat × Nat :=
  let a := lo - s.min
  let b := hi - s.min
  ((if a % s.gcd > 0 then a / s.gcd + 1 else a / s.gcd), b / s.gcd)

/-- the whole function: `none` = no row can match (empty query range, or — when the source has
the guard `if *range.end() < stats.min_value { return None; }` — a range below the minimum) -/
def transformRangeWith (guard : Bool) (s : Stats) (lo hi : Nat) : Option (Nat × Nat) :=
  if lo > hi then none
  else if guard && decide (hi < s.min) then none
  else some (transformRange s lo hi)

/-- as the current source has it (`Gen.RANGE_BELOW_MIN_GUARD` is regenerated on every run) -/
def transformRangeCur (s : Stats) (lo hi : Nat) : Option (Nat × Nat) :=
  transformRangeWith Gen.RANGE_BELOW_MIN_GUARD s lo hi

/-- rows (positions in `s..e`) the bitpacked reader reports for a query range: those whose stored
normalised value lies in the transformed range (mirrors BitpackedReader::get_row_ids_for_value_range
+ BitUnpacker::get_ids_for_value_range on already decoded normalised values) -/
def rangeRowsWith (guard : Bool) (s : Stats) (norm : List Nat) (lo hi : Nat) : List Nat :=
  match transformRangeWith guard s lo hi with
  | none => []
  | some r => (List.range norm.length).filter (fun i => decide (r.1 ≤ norm.getD i 0) && decide (norm.getD i 0 ≤ r.2))

/-! ## Line (u64_based/line.rs), wrapping arithmetic on `BitVec 64` -/

structure Line where
  slope : BitVec 64
  intercept : BitVec 64
deriving Repr, DecidableEq

/-- mirrors: u64_based/line.rs::Line::eval —
`intercept.wrapping_add(((x as u64).wrapping_mul(slope) >> 32) as i32 as u64)` -/
def Line.eval (l : Line) (x : Nat) : BitVec 64 :=
  let p : BitVec 64 := (BitVec.ofNat 64 (x % 2 ^ 32) * l.slope) >>> 32
  l.intercept + (p.setWidth 32).signExtend 64

/-- mirrors: u64_based/line.rs::compute_slope -/
def computeSlope (y0 y1 : BitVec 64) (numVals : Nat) : BitVec 64 :=
  let dy := y1 - y0
  let sign := decide (dy.toNat ≤ 2 ^ 63)
  let absDy := if sign then y1 - y0 else y0 - y1
  if absDy.toNat ≥ 2 ^ 31 then 0#64
  else
    let absSlope := BitVec.ofNat 64 ((absDy.toNat * 2 ^ 32) / numVals)
    if sign then absSlope else BitVec.ofNat 64 (U64 - 1) - absSlope

/-- first minimum under a key (`Iterator::min_by_key` returns the first minimal element) -/
def minByKey (key : BitVec 64 → Nat) : List (BitVec 64) → Option (BitVec 64)
  | [] => none
  | x :: xs => some (xs.foldl (fun best y => if key y < key best then y else best) x)

/-- mirrors: u64_based/line.rs::Line::train / train_from -/
def Line.train (ys : List Nat) : Line :=
  match ys with
  | [] => { slope := 0, intercept := 0 }
  | y0 :: _ =>
    if ys.length - 1 = 0 then { slope := 0, intercept := 0 } else
    let y0 := BitVec.ofNat 64 y0
    let y1 := BitVec.ofNat 64 (ys.getLastD 0)
    let slope := computeSlope y0 y1 (ys.length - 1)
    let l0 : Line := { slope := slope, intercept := 0 }
    let shift := y0 - BitVec.ofNat 64 Gen.MID_POINT
    let cands := (List.range ys.length).zipWith (fun i y => BitVec.ofNat 64 y - l0.eval i) ys
    { slope := slope, intercept := (minByKey (fun v => (v - shift).toNat) cands).getD 0 }

/-- mirrors: u64_based/line.rs::Line::serialize -/
def Line.enc (l : Line) : Bytes := vintEnc l.slope.toNat ++ vintEnc l.intercept.toNat

def Line.dec (bs : Bytes) : Option (Line × Bytes) := do
  let (s, bs) ← vintDec bs
  let (i, bs) ← vintDec bs
  some ({ slope := BitVec.ofNat 64 s, intercept := BitVec.ofNat 64 i }, bs)

/-! ## Linear codec (u64_based/linear.rs) -/

/-- deviations seen by the estimator: `value + HALF_SPACE − line.eval(row)` (wrapping) -/
def linearDeviations (l : Line) (vals : List Nat) : List Nat :=
  (List.range vals.length).zipWith
    (fun i v => (BitVec.ofNat 64 v + BitVec.ofNat 64 Gen.HALF_SPACE - l.eval i).toNat) vals

/-- mirrors: LinearCodecEstimator::finalize — the intercept shift -/
def linearFinalLine (l : Line) (minDev : Nat) : Line :=
  { l with intercept := l.intercept + BitVec.ofNat 64 minDev - BitVec.ofNat 64 Gen.HALF_SPACE }

/-- offsets that are bit-packed: `value − finalLine.eval(pos)` (wrapping) -/
def linearOffsets (l : Line) (vals : List Nat) : List Nat :=
  (List.range vals.length).zipWith (fun i v => (BitVec.ofNat 64 v - l.eval i).toNat) vals

/-- the running `(min_deviation, max_deviation)` of the estimator: the update step is extracted from
the source (`Gen.linearDevStep`), started at `(u64::MAX, 0)` -/
def devBounds (devs : List Nat) : Nat × Nat := devs.foldl Gen.linearDevStep (U64 - 1, 0)

/-- mirrors: LinearCodecEstimator::{collect, finalize, serialize} for an arbitrary estimation line
`l` (the real estimator trains it on the first `LINE_ESTIMATION_BLOCK_LEN` values). Returns the
final line, the bit width and the payload. -/
def linearEncWith (l : Line) (vals : List Nat) : Line × Nat × Bytes :=
  let devs := linearDeviations l vals
  let minDev := (devBounds devs).1
  let maxDev := (devBounds devs).2
  let w := computeNumBits (maxDev - minDev)
  let fl := linearFinalLine l minDev
  (fl, w, pack w (linearOffsets fl vals))

/-- the whole column: `none` when fewer than `LINE_ESTIMATION_BLOCK_LEN` values were collected
(`estimate` returns `None`: codec not applicable). -/
def linearEnc (vals : List Nat) : Option Bytes :=
  if vals.length < Gen.LINE_ESTIMATION_BLOCK_LEN then none else
  let l := Line.train (vals.take Gen.LINE_ESTIMATION_BLOCK_LEN)
  let r := linearEncWith l vals
  some ((collectStats vals).enc ++ r.1.enc ++ [r.2.1] ++ r.2.2)

/-- mirrors: u64_based/linear.rs::LinearReader::get_val -/
def linearGet (l : Line) (w : Nat) (data : Bytes) (i : Nat) : Nat :=
  (l.eval i + BitVec.ofNat 64 (unpackGet w i data)).toNat

/-! ## Blockwise linear codec (u64_based/blockwise_linear.rs) -/

structure BwBlock where
  line : Line
  width : Nat
deriving Repr

/-- mirrors: blockwise_linear.rs::compute_num_blocks -/
def numChunks (n len : Nat) : Nat := (len + n - 1) / n

/-- block `b` of the serializer loop (`for _ in 0..num_blocks { vals.take(BLOCK_SIZE) }`):
`vals[b·n .. (b+1)·n]` (the last one may be shorter) -/
def chunk (n : Nat) (l : List α) (b : Nat) : List α := (l.drop (b * n)).take n

def chunks (n : Nat) (l : List α) : List (List α) := (List.range (numChunks n l.length)).map (chunk n l)

/-- one block of the serializer: normalise, train, offsets, width -/
def bwBlockEnc (s : Stats) (block : List Nat) : BwBlock × List Nat :=
  let norm := block.map (fun v => (v - s.min) / s.gcd)
  let line := Line.train norm
  let offs := linearOffsets line norm
  let w := (offs.map computeNumBits).foldl Nat.max 0
  ({ line := line, width := w }, offs)

/-- mirrors: BlockwiseLinearEstimator::serialize — one shared bit packer over all blocks, closed
once; then the block metadata, then its length as u32 LE. -/
def blockwiseEnc (vals : List Nat) : Bytes :=
  let s := collectStats vals
  let blocks := (chunks Gen.BLOCKWISE_LINEAR_BLOCK_SIZE vals).map (bwBlockEnc s)
  let p := blocks.foldl (fun p (b : BwBlock × List Nat) => p.writeAll b.1.width b.2) Packer.new
  let footer := (blocks.map (fun (b : BwBlock × List Nat) => b.1.line.enc ++ [b.1.width])).flatten
  s.enc ++ p.close ++ footer ++ leBytes 4 footer.length

def bwBlocksDec : Nat → Bytes → Option (List BwBlock)
  | 0, _ => some []
  | n + 1, bs => do
    let (l, bs) ← Line.dec bs
    match bs with
    | [] => none
    | w :: bs => do
      let rest ← bwBlocksDec n bs
      some ({ line := l, width := w } :: rest)

/-- byte offset of each block: running sum of `width * BLOCK_SIZE / 8`
(mirrors the `start_offset` loop of BlockwiseLinearCodec::load) -/
def bwOffsetsFrom : Nat → List BwBlock → List Nat
  | _, [] => []
  | acc, b :: bs => acc :: bwOffsetsFrom (acc + b.width * Gen.BLOCKWISE_LINEAR_BLOCK_SIZE / 8) bs

def bwOffsets (blocks : List BwBlock) : List Nat := bwOffsetsFrom 0 blocks

/-- mirrors: BlockwiseLinearReader::get_val -/
def blockwiseGet (s : Stats) (blocks : List BwBlock) (offsets : List Nat) (data : Bytes) (i : Nat) : Nat :=
  let bid := i / Gen.BLOCKWISE_LINEAR_BLOCK_SIZE
  let j := i % Gen.BLOCKWISE_LINEAR_BLOCK_SIZE
  match blocks[bid]?, offsets[bid]? with
  | some b, some off =>
    let inner := b.line.eval j + BitVec.ofNat 64 (unpackGet b.width j (data.drop off))
    s.min + (BitVec.ofNat 64 s.gcd * inner).toNat
  | _, _ => 0

/-! ## Whole column values: codec byte + codec (u64_based/mod.rs::load_u64_based_column_values) -/

structure ColumnReader where
  codec : Nat
  stats : Stats
  get : Nat → Nat

/-- mirrors: u64_based/mod.rs::load_u64_based_column_values + the three `ColumnCodec::load` -/
def openU64Column (bytes : Bytes) : Option ColumnReader :=
  match bytes with
  | [] => none
  | code :: rest => do
    let (s, body) ← Stats.dec rest
    match code with
    | 0 =>
      if !unpackerWidthOk (bitpackedNumBits s) then none else
      some { codec := 0, stats := s, get := bitpackedGet s body }
    | 1 =>
      let (l, body) ← Line.dec body
      match body with
      | [] => none
      | w :: data =>
        if !unpackerWidthOk w then none else
        some { codec := 1, stats := s, get := linearGet l w data }
    | 2 =>
      if body.length < 4 then none else
      let footerLen := leNat (body.drop (body.length - 4))
      if footerLen + 4 > body.length then none else
      let data := body.take (body.length - 4 - footerLen)
      let footer := (body.drop (body.length - 4 - footerLen)).take footerLen
      let nblocks := (s.numRows + Gen.BLOCKWISE_LINEAR_BLOCK_SIZE - 1) / Gen.BLOCKWISE_LINEAR_BLOCK_SIZE
      let blocks ← bwBlocksDec nblocks footer
      if blocks.any (fun b => !unpackerWidthOk b.width) then none else
      let offs := bwOffsets blocks
      some { codec := 2, stats := s, get := blockwiseGet s blocks offs data }
    | _ => none

/-- all values of a serialized column -/
def decodeU64Column (bytes : Bytes) : Option (List Nat) :=
  (openU64Column bytes).map (fun r => (List.range r.stats.numRows).map r.get)

/-- encode with a forced codec (0 bitpacked, 1 linear, 2 blockwise linear), codec byte included -/
def encodeU64Column (codec : Nat) (vals : List Nat) : Option Bytes :=
  match codec with
  | 0 => some (0 :: bitpackedEnc vals)
  | 1 => (linearEnc vals).map (1 :: ·)
  | 2 => some (2 :: blockwiseEnc vals)
  | _ => none

end TantivyModel.Columnar
