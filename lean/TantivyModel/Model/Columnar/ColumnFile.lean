import TantivyModel.Model.Columnar.Column
import TantivyModel.Model.Columnar.Codec
import TantivyModel.Model.Columnar.OptionalIndex
import TantivyModel.Model.Columnar.CompactSpace
/-!
# A whole u64 column file: column index bytes, column values bytes, index length

mirrors: columnar/src/column/serialize.rs::{serialize_column_mappable_to_u64, open_column_u64},
column_index/serialize.rs::{serialize_column_index, open_column_index},
column_index/multivalued_index.rs::{serialize_multivalued_index, open_multivalued_index (V2),
MultiValueIndexV2::range}, column_index/mod.rs::ColumnIndex::value_row_ids.

Layout: `[cardinality code][index body][values][index num bytes: u32 LE]`; index body = nothing
(Full) | optional index (Optional) | `[optional index][start offsets column][optional index len: u32 LE]`
(Multivalued).
-/
namespace TantivyModel.Columnar

/-- mirrors: serialize_column_index (`startsCodec`: whichever codec the start offsets column gets) -/
def indexEnc (startsCodec : Nat) : Index → Option Bytes
  | .empty _ => none
  | .full => some [0]
  | .optional nn n => some (1 :: optEnc nn n)
  | .multivalued nn n starts => do
    let sb ← encodeU64Column startsCodec starts
    some (2 :: (optEnc nn n ++ sb ++ leBytes 4 (optEnc nn n).length))

/-- mirrors: serialize_column_mappable_to_u64 -/
def columnFileEnc (startsCodec valCodec : Nat) (idx : Index) (vals : List Nat) : Option Bytes := do
  let ib ← indexEnc startsCodec idx
  let vb ← encodeU64Column valCodec vals
  some (ib ++ vb ++ leBytes 4 ib.length)

/-- the opened column index: readers over the bytes -/
inductive FileIndex where
  | full
  | optional (o : OptIdx)
  | multivalued (o : OptIdx) (starts : List Nat)

/-- `bytes.rsplit(4)` + `split(len)`: (first `len` bytes, the rest without the trailing u32) -/
def splitByFooter (b : Bytes) : Option (Bytes × Bytes) :=
  if b.length < 4 then none else
  let len := leNat (b.drop (b.length - 4))
  let body := b.take (b.length - 4)
  if len > body.length then none else some (body.take len, body.drop len)

/-- mirrors: open_column_index (format V2) -/
def openIndex (b : Bytes) : Option FileIndex :=
  match b with
  | [] => none
  | c :: rest =>
    if c = 0 then some .full
    else if c = 1 then (optOpen rest).map .optional
    else if c = 2 then do
      let (ob, sb) ← splitByFooter rest
      let o ← optOpen ob
      let starts ← decodeU64Column sb
      some (.multivalued o starts)
    else none

structure ColFile where
  idx : FileIndex
  vals : List Nat

/-- mirrors: open_column_u64 -/
def openColumnFile (b : Bytes) : Option ColFile := do
  let (ib, vb) ← splitByFooter b
  let idx ← openIndex ib
  let vals ← decodeU64Column vb
  some ⟨idx, vals⟩

/-- mirrors: ColumnIndex::value_row_ids / MultiValueIndexV2::range on the opened readers -/
def FileIndex.valueRowIds (idx : FileIndex) (doc : Nat) : Nat × Nat :=
  match idx with
  | .full => (doc, doc + 1)
  | .optional o =>
    match o.rankIfExists doc with
    | some k => (k, k + 1)
    | none => (0, 0)
  | .multivalued o starts =>
    match o.rankIfExists doc with
    | some k => (starts.getD k 0, starts.getD (k + 1) 0)
    | none => (0, 0)

def FileIndex.numDocs (idx : FileIndex) (numVals : Nat) : Nat :=
  match idx with
  | .full => numVals
  | .optional o => o.numDocs
  | .multivalued o _ => o.numDocs

/-- mirrors: Column::values_for_doc -/
def ColFile.readRow (f : ColFile) (doc : Nat) : List Nat :=
  let r := f.idx.valueRowIds doc
  (f.vals.drop r.1).take (r.2 - r.1)

def ColFile.read (f : ColFile) : Column Nat :=
  (List.range (f.idx.numDocs f.vals.length)).map f.readRow

/-! ## Str / Bytes column files: `[dictionary][u64 column file of term ordinals][dictionary len: u32 LE]` -/

/-- mirrors: merge_bytes_or_str_column / the writer's bytes column layout (the dictionary is an
sstable, opaque here) -/
def bytesColumnFileEnc (dict colFile : Bytes) : Bytes := dict ++ colFile ++ leBytes 4 dict.length

/-- mirrors: open_column_bytes — (dictionary bytes, the term ordinal column) -/
def openBytesColumnFile (b : Bytes) : Option (Bytes × ColFile) := do
  let (d, c) ← splitByFooter b
  let f ← openColumnFile c
  some (d, f)

/-! ## u128 (IP address) column files: same layout, compact-space values -/

/-- every value of an opened compact-space column (`get_val` for each row) -/
def decodeU128Column (b : Bytes) : Option (List Nat) :=
  (openU128Column b).map (fun c => (List.range c.numVals).map c.get)

/-- mirrors: serialize_column_mappable_to_u128 for a given compact space -/
def columnFileEnc128 (startsCodec : Nat) (rs : Ranges) (idx : Index) (vals : List Nat) : Option Bytes := do
  let ib ← indexEnc startsCodec idx
  some (ib ++ ipColumnEnc rs vals ++ leBytes 4 ib.length)

/-- mirrors: open_column_u128 -/
def openColumnFile128 (b : Bytes) : Option ColFile := do
  let (ib, vb) ← splitByFooter b
  let idx ← openIndex ib
  let vals ← decodeU128Column vb
  some ⟨idx, vals⟩

end TantivyModel.Columnar
