import TantivyModel.Model.QuerySem
/-
C03 — the position-intersection algorithms of `PhraseScorer` for slop > 0, mirrored one to one.
Inputs are the adjusted position lists (`pos + (max_offset - offset)`, strictly increasing) in the
order in which the scorer processes them (`Intersection::new` sorts the postings by cost).

-- mirrors: src/query/phrase_query/phrase_scorer.rs::intersection_exists_with_slop  (`existsWithSlop`)
-- mirrors: src/query/phrase_query/phrase_scorer.rs::intersection_count_with_slop   (`countWithSlop`)
-- mirrors: src/query/phrase_query/phrase_scorer.rs::intersection_count_with_carrying_slop (`carrying`)
-- mirrors: src/query/phrase_query/phrase_scorer.rs::compute_phrase_match           (`phraseFold`)
-- mirrors: src/query/phrase_query/phrase_scorer.rs::phrase_exists                  (`phraseOff`)
-- mirrors: src/query/phrase_query/phrase_scorer.rs::compute_phrase_count           (`phraseOn`)
-/
namespace TantivyModel.PhraseSlop
open TantivyModel.QuerySem

/-- scoring disabled, last step: is there a pair within `slop`? (two-pointer walk; `fuel` bounds
the number of loop iterations, `left.len() + right.len()` suffices) -/
def existsWithSlopF (s : Nat) : Nat → List Nat → List Nat → Bool
  | 0, _, _ => false
  | fuel + 1, a :: l, b :: r =>
    if dist a b ≤ s then true
    else if a < b then existsWithSlopF s fuel l (b :: r)
    else existsWithSlopF s fuel (a :: l) r
  | _ + 1, _, _ => false

def existsWithSlop (l r : List Nat) (s : Nat) : Bool := existsWithSlopF s (l.length + r.length) l r

/-- skip the left values that are still `≤ b` ("there could be a better match") -/
def dropLe (b : Nat) : List Nat → List Nat
  | [] => []
  | x :: l => if x ≤ b then dropLe b l else x :: l

theorem dropLe_length_le (b : Nat) (l : List Nat) : (dropLe b l).length ≤ l.length := by
  induction l with
  | nil => simp [dropLe]
  | cons x l ih => unfold dropLe; split <;> simp <;> omega

/-- scoring enabled, two terms: number of matches counted by the greedy walk -/
def countWithSlopF (s : Nat) : Nat → List Nat → List Nat → Nat
  | 0, _, _ => 0
  | fuel + 1, a :: l, b :: r =>
    if dist a b ≤ s then 1 + countWithSlopF s fuel (dropLe b l) r
    else if a < b then countWithSlopF s fuel l (b :: r)
    else countWithSlopF s fuel (a :: l) r
  | _ + 1, _, _ => 0

def countWithSlop (l r : List Nat) (s : Nat) : Nat := countWithSlopF s (l.length + r.length) l r

/-- `add_val`: output kept in reverse, entries `(position, slop)` -/
def addVal (out : List (Nat × Nat)) (slop pos : Nat) : List (Nat × Nat) :=
  match out with
  | (p, s) :: rest => if p = pos then (p, min s (slop % 256)) :: rest else (pos, slop % 256) :: out
  | [] => [(pos, slop % 256)]

/-- the inner `while smaller_val_idx + 1 < len` loop; returns (new_slop, out) -/
def betterLoop (positions : List Nat) (larger slopSoFar : Nat) :
    Nat → Nat → Nat → List (Nat × Nat) → Nat × List (Nat × Nat)
  | 0, _, newSlop, out => (newSlop, out)
  | fuel + 1, idx, newSlop, out =>
    if idx + 1 < positions.length then
      let next := positions.getD (idx + 1) 0
      if larger < next then (newSlop, out)
      else
        let ns := slopSoFar + dist next larger
        betterLoop positions larger slopSoFar fuel (idx + 1) ns (addVal out ns next)
    else (newSlop, out)

structure CarryState where
  li : Nat
  ri : Nat
  count : Nat
  out : List (Nat × Nat)

def finishRest (L S R : List Nat) (maxSlop : Nat) (st : CarryState) : CarryState :=
  if L.length ≤ st.li then
    let lv := L.getLastD 0
    let sl := S.getLastD 0
    let out := (R.drop st.ri).foldl (fun out rv =>
      let ns := dist lv rv + sl
      if ns ≤ maxSlop then addVal out ns rv else out) st.out
    { st with out := out }
  else
    let rv := R.getLastD 0
    let out := (List.range (L.length - st.li)).foldl (fun out k =>
      let idx := st.li + k
      let lv := L.getD idx 0
      let sl := S.getD idx 0
      let ns := dist lv rv + sl
      if ns ≤ maxSlop then addVal out ns lv else out) st.out
    { st with out := out }

/-- one iteration of the main loop (before the end-of-list test) -/
def carryStep (L S R : List Nat) (maxSlop : Nat) (st : CarryState) : CarryState :=
  let lv := L.getD st.li 0
  let sl := S.getD st.li 0
  let rv := R.getD st.ri 0
  let d := sl + dist lv rv
  if d ≤ maxSlop then
    let out1 := addVal st.out d (if lv < rv then lv else rv)
    let (ns, out2) :=
      if lv < rv then betterLoop L rv sl L.length st.li d out1
      else betterLoop R lv sl R.length st.ri d out1
    let out3 := addVal out2 ns (if lv < rv then rv else lv)
    { li := st.li + 1, ri := st.ri + 1, count := st.count + 1, out := out3 }
  else if lv < rv then { st with li := st.li + 1 }
  else { st with ri := st.ri + 1 }

def carryLoop (L S R : List Nat) (maxSlop : Nat) : Nat → CarryState → CarryState
  | 0, st => st
  | fuel + 1, st =>
    if L.length ≤ (carryStep L S R maxSlop st).li ∨ R.length ≤ (carryStep L S R maxSlop st).ri then
      finishRest L S R maxSlop (carryStep L S R maxSlop st)
    else carryLoop L S R maxSlop fuel (carryStep L S R maxSlop st)

/-- `intersection_count_with_carrying_slop`: (count, new left positions, new left slops) -/
def carrying (L S R : List Nat) (maxSlop : Nat) : Nat × List Nat × List Nat :=
  if L.isEmpty ∨ R.isEmpty then (0, [], [])
  else
    let st := carryLoop L S R maxSlop (L.length + R.length + 1) ⟨0, 0, 0, []⟩
    let out := st.out.reverse
    (st.count, out.map (·.1), out.map (·.2))

/-- `compute_phrase_match` for ≥ 3 terms: fold the middle terms into (left positions, slops) -/
def phraseFold (slop : Nat) : List (List Nat) → List Nat → List Nat → List Nat × List Nat × List Nat
  | [], L, S => (L, S, [])
  | [last], L, S => (L, S, last)
  | mid :: rest, L, S =>
    let (_, L', S') := carrying L S mid slop
    if L'.isEmpty then ([], [], []) else phraseFold slop rest L' S'

/-- scoring disabled (`phrase_exists`, slop > 0) -/
def phraseOff (adjs : List (List Nat)) (slop : Nat) : Bool :=
  match adjs with
  | [] => false
  | first :: rest =>
    let (L, _, R) := phraseFold slop rest first []
    existsWithSlop L R slop

/-- scoring enabled (`compute_phrase_count > 0`, slop > 0) -/
def phraseOn (adjs : List (List Nat)) (slop : Nat) : Bool :=
  match adjs with
  | [] => false
  | first :: rest =>
    let (L, S, R) := phraseFold slop rest first []
    if 2 < adjs.length then decide (0 < (carrying L S R slop).1)
    else decide (0 < countWithSlop L R slop)

/-! ### slop = 0: the sorted-merge intersections of `PhraseScorer`

-- mirrors: src/query/phrase_query/phrase_scorer.rs::intersection          (`interSorted`)
-- mirrors: src/query/phrase_query/phrase_scorer.rs::intersection_exists   (`existsSorted`)
-- mirrors: src/query/phrase_query/phrase_scorer.rs::intersection_count    (`countSorted`)
-- mirrors: src/query/phrase_query/phrase_scorer.rs::compute_phrase_match  (`exactFold`, slop = 0)
-/

def interSortedF : Nat → List Nat → List Nat → List Nat
  | 0, _, _ => []
  | fuel + 1, a :: l, b :: r =>
    if a < b then interSortedF fuel l (b :: r)
    else if a = b then a :: interSortedF fuel l r
    else interSortedF fuel (a :: l) r
  | _ + 1, _, _ => []

def interSorted (l r : List Nat) : List Nat := interSortedF (l.length + r.length) l r

def existsSortedF : Nat → List Nat → List Nat → Bool
  | 0, _, _ => false
  | fuel + 1, a :: l, b :: r =>
    if a < b then existsSortedF fuel l (b :: r)
    else if a = b then true
    else existsSortedF fuel (a :: l) r
  | _ + 1, _, _ => false

def existsSorted (l r : List Nat) : Bool := existsSortedF (l.length + r.length) l r

def countSortedF : Nat → List Nat → List Nat → Nat
  | 0, _, _ => 0
  | fuel + 1, a :: l, b :: r =>
    if a < b then countSortedF fuel l (b :: r)
    else if a = b then 1 + countSortedF fuel l r
    else countSortedF fuel (a :: l) r
  | _ + 1, _, _ => 0

def countSorted (l r : List Nat) : Nat := countSortedF (l.length + r.length) l r

/-- fold the middle terms into the left positions; (left, last term's positions) -/
def exactFold : List (List Nat) → List Nat → List Nat × List Nat
  | [], L => (L, [])
  | [last], L => (L, last)
  | mid :: rest, L =>
    let L' := interSorted L mid
    if L'.isEmpty then ([], []) else exactFold rest L'

/-- scoring disabled (`phrase_exists`, slop = 0) -/
def exactOff (adjs : List (List Nat)) : Bool :=
  match adjs with
  | [] => false
  | first :: rest => existsSorted (exactFold rest first).1 (exactFold rest first).2

/-- scoring enabled (`compute_phrase_count > 0`, slop = 0) -/
def exactOn (adjs : List (List Nat)) : Bool :=
  match adjs with
  | [] => false
  | first :: rest => decide (0 < countSorted (exactFold rest first).1 (exactFold rest first).2)

/-! ### the scorer's per-document state (`left_slops`) across the documents of a segment

`compute_phrase_match` clears `left_slops` before it folds the terms of a document
(`Gen.PHRASE_LEFT_SLOPS_RESET_AT_START`, re-read from the source on every run); `reset = false`
is the scorer without that reset, whose carried slops leak into the next document. -/

/-- scoring disabled: (does the document match, `left_slops` left behind) -/
def offStep (reset : Bool) (slop : Nat) (st : List Nat) (adjs : List (List Nat)) : Bool × List Nat :=
  match adjs with
  | [] => (false, st)
  | first :: rest =>
    let r := phraseFold slop rest first (if reset then [] else st)
    (existsWithSlop r.1 r.2.2 slop, r.2.1)

/-- scoring enabled (the last intersection does not update the state: `update_left = false`) -/
def onStep (reset : Bool) (slop : Nat) (st : List Nat) (adjs : List (List Nat)) : Bool × List Nat :=
  match adjs with
  | [] => (false, st)
  | first :: rest =>
    let r := phraseFold slop rest first (if reset then [] else st)
    ((if 2 < adjs.length then decide (0 < (carrying r.1 r.2.1 r.2.2 slop).1)
      else decide (0 < countWithSlop r.1 r.2.2 slop)), r.2.1)

/-- the scorer driven over the candidate documents of a segment, threading its state -/
def runSteps (step : List Nat → List (List Nat) → Bool × List Nat) :
    List Nat → List (List (List Nat)) → List Bool
  | _, [] => []
  | st, d :: ds => (step st d).1 :: runSteps step (step st d).2 ds

end TantivyModel.PhraseSlop
