import TantivyModel.Model.QuerySem
/-
C03 — range queries over a numeric JSON path: the bound carries the type of the query term
(i64 or u64) while the fast-field column of the path has the type the segment's values were
coerced to (i64 or u64); `search_on_json_numerical_field` converts the bounds into the column's
order-preserving u64 space, case by case.

-- mirrors: src/query/range_query/range_query_fastfield.rs::search_on_json_numerical_field
--          (integer bound × integer column; f64 bounds / f64 columns are not modelled)
-- mirrors: common/src/bounds.rs::transform_bound_inner_res (`applyT`)
-/
namespace TantivyModel.JsonRange
open TantivyModel.QuerySem

inductive ColT | i64 | u64
deriving Repr, DecidableEq, Inhabited

/-- a bound value as the query term carries it -/
inductive BV
  | i (v : Int)   -- i64 term
  | u (v : Nat)   -- u64 term
deriving Repr, DecidableEq, Inhabited

inductive B | incl (v : BV) | excl (v : BV) | unb
deriving Repr, DecidableEq, Inhabited

def I64MAX : Int := 2 ^ 63 - 1

def BV.toInt : BV → Int
  | .i v => v
  | .u v => (v : Int)

/-- the term really has the type it claims -/
def BV.wf : BV → Prop
  | .i v => -(2 ^ 63) ≤ v ∧ v ≤ I64MAX
  | .u v => v < 2 ^ 64

def B.wf : B → Prop
  | .incl v => v.wf
  | .excl v => v.wf
  | .unb => True

/-- `i64::to_u64` on the value -/
def encI (v : Int) : Nat := (v + 2 ^ 63).toNat

/-- the column's order-preserving u64 image of a value -/
def enc : ColT → Int → Nat
  | .i64, v => encI v
  | .u64, v => v.toNat

def inCol : ColT → Int → Prop
  | .i64, v => -(2 ^ 63) ≤ v ∧ v ≤ I64MAX
  | .u64, v => 0 ≤ v ∧ v < 2 ^ 64

/-- `TransformBound` -/
inductive TB | new (b : BndN) | existing (n : Nat)

/-- the closure applied to a lower bound -/
def lowerT (col : ColT) : BV → TB
  | .i v => (match col with
    | .i64 => .existing (encI v)
    | .u64 => if v < 0 then .new .unb else .existing v.toNat)
  | .u v => (match col with
    | .u64 => .existing v
    | .i64 => if I64MAX < (v : Int) then .new (.excl I64MAX.toNat) else .existing (encI v))

/-- the closure applied to an upper bound -/
def upperT (col : ColT) : BV → TB
  | .i v => (match col with
    | .i64 => .existing (encI v)
    | .u64 => if v < 0 then .new (.excl 0) else .existing v.toNat)
  | .u v => (match col with
    | .u64 => .existing v
    | .i64 => if I64MAX < (v : Int) then .new .unb else .existing (encI v))

/-- `transform_bound_inner`: a new bound replaces the old one, an existing value keeps its kind -/
def applyT (f : BV → TB) : B → BndN
  | .unb => .unb
  | .incl v => (match f v with | .new b => b | .existing n => .incl n)
  | .excl v => (match f v with | .new b => b | .existing n => .excl n)

/-- the bounds handed to `search_on_u64_ff` -/
def coerce (col : ColT) (lo hi : B) : BndN × BndN := (applyT (lowerT col) lo, applyT (upperT col) hi)

/-- what the implementation selects: the encoded value lies within the coerced bounds -/
def implMatch (col : ColT) (lo hi : B) (v : Int) : Bool :=
  inRangeN (coerce col lo hi).1 (coerce col lo hi).2 (enc col v)

/-- the numeric meaning of the range -/
def specMatch (lo hi : B) (v : Int) : Bool :=
  (match lo with
   | .incl b => decide (b.toInt ≤ v)
   | .excl b => decide (b.toInt < v)
   | .unb => true) &&
  (match hi with
   | .incl b => decide (v ≤ b.toInt)
   | .excl b => decide (v < b.toInt)
   | .unb => true)

/-- the one combination in which the pinned conversion is not exact: a u64 lower bound above
i64::MAX on an i64 column is replaced by `Excluded(i64::MAX as u64)` *without* `to_u64()`, i.e.
by "value ≥ 0" in the column's encoded space instead of "nothing" -/
def lowerOk (col : ColT) : B → Bool
  | .incl (.u v) => !(col == .i64 && decide (I64MAX < (v : Int)))
  | .excl (.u v) => !(col == .i64 && decide (I64MAX < (v : Int)))
  | _ => true

/-- numeric type the columnar writer gives a JSON path in a segment
(`CompatibleNumericalTypes::accept_value` / `to_numerical_type`): values supplied as i64 never leave
the i64 range; a value supplied as u64 keeps the column i64 only if it is *strictly below*
i64::MAX; i64 is preferred, then u64 (paths mixing negative values and large u64 values become
f64: not modelled).
-- mirrors: columnar/src/columnar/writer/column_writers.rs::accept_value -/
def colOf (suppliedAsU64 : Bool) (vals : List Int) : ColT :=
  if !suppliedAsU64 || vals.all (fun v => decide (v < I64MAX)) then .i64 else .u64

end TantivyModel.JsonRange
