import TantivyModel.Model.QuerySem
import TantivyModel.Gen.JsonRange
/-
C03 — range queries over a numeric JSON path: the bound carries the type of the query term
(i64 or u64) while the fast-field column of the path has the type the segment's values were
coerced to (i64 or u64); `search_on_json_numerical_field` converts the bounds into the column's
order-preserving u64 space, case by case.

-- mirrors: src/query/range_query/range_query_fastfield.rs::search_on_json_numerical_field
--          (integer bound × integer column; f64 bounds / f64 columns are not modelled)
-- mirrors: common/src/bounds.rs::transform_bound_inner_res (`applyT`)
-/
namespace TantivyModel.JsonRange
open TantivyModel.QuerySem

inductive ColT | i64 | u64
deriving Repr, DecidableEq, Inhabited

/-- a bound value as the query term carries it -/
inductive BV
  | i (v : Int)   -- i64 term
  | u (v : Nat)   -- u64 term
  | f (h : Int)   -- f64 term with the value h / 2 (halves are exact in binary64 for |h| < 2^53)
deriving Repr, DecidableEq, Inhabited

inductive B | incl (v : BV) | excl (v : BV) | unb
deriving Repr, DecidableEq, Inhabited

def I64MAX : Int := 2 ^ 63 - 1

/-- twice the numeric value of the bound (an integer for all three kinds) -/
def BV.twice : BV → Int
  | .i v => 2 * v
  | .u v => 2 * (v : Int)
  | .f h => h

/-- the term really has the type it claims -/
def BV.wf : BV → Prop
  | .i v => -(2 ^ 63) ≤ v ∧ v ≤ I64MAX
  | .u v => v < 2 ^ 64
  | .f h => -(2 ^ 53) < h ∧ h < 2 ^ 53

def B.wf : B → Prop
  | .incl v => v.wf
  | .excl v => v.wf
  | .unb => True

/-- `i64::to_u64` on the value -/
def encI (v : Int) : Nat := (v + 2 ^ 63).toNat

/-- the column's order-preserving u64 image of a value -/
def enc : ColT → Int → Nat
  | .i64, v => encI v
  | .u64, v => v.toNat

def inCol : ColT → Int → Prop
  | .i64, v => -(2 ^ 63) ≤ v ∧ v ≤ I64MAX
  | .u64, v => 0 ≤ v ∧ v < 2 ^ 64

/-- `f64::trunc` of h / 2 (toward zero) -/
def truncHalf (h : Int) : Int := if 0 ≤ h then h / 2 else -((-h) / 2)

/-- `TransformBound` -/
inductive TB | new (b : BndN) | existing (n : Nat)

/-- the closure applied to a lower bound -/
def lowerT (col : ColT) : BV → TB
  | .i v => (match col with
    | .i64 => .existing (encI v)
    | .u64 => if v < 0 then .new .unb else .existing v.toNat)
  | .u v => (match col with
    | .u64 => .existing v
    | .i64 => if I64MAX < (v : Int) then .new (.excl I64MAX.toNat) else .existing (encI v))
  -- transform_from_f64_bounds::<T>, lower: below T::min → Unbounded; integral → Existing(T::from_f64);
  -- fractional → Included(T::from_f64(trunc)); (the `> T::max` case is outside |h| < 2^53)
  | .f h =>
    if col == .u64 && decide (h < 0) then .new .unb
    else if h % 2 = 0 then .existing (enc col (h / 2))
    else .new (.incl (enc col (truncHalf h)))

/-- the closure applied to an upper bound -/
def upperT (col : ColT) : BV → TB
  | .i v => (match col with
    | .i64 => .existing (encI v)
    | .u64 => if v < 0 then .new (.excl 0) else .existing v.toNat)
  | .u v => (match col with
    | .u64 => .existing v
    | .i64 => if I64MAX < (v : Int) then .new .unb else .existing (encI v))
  -- transform_from_f64_bounds::<T>, upper: below T::min → Unbounded (!); integral → Existing;
  -- fractional → Included(T::from_f64(trunc))
  | .f h =>
    if col == .u64 && decide (h < 0) then .new .unb
    else if h % 2 = 0 then .existing (enc col (h / 2))
    else .new (.incl (enc col (truncHalf h)))

/-- `transform_bound_inner`: a new bound replaces the old one, an existing value keeps its kind -/
def applyT (f : BV → TB) : B → BndN
  | .unb => .unb
  | .incl v => (match f v with | .new b => b | .existing n => .incl n)
  | .excl v => (match f v with | .new b => b | .existing n => .excl n)

/-- the bounds handed to `search_on_u64_ff` -/
def coerce (col : ColT) (lo hi : B) : BndN × BndN := (applyT (lowerT col) lo, applyT (upperT col) hi)

/-- what the implementation selects: the encoded value lies within the coerced bounds -/
def implMatch (col : ColT) (lo hi : B) (v : Int) : Bool :=
  inRangeN (coerce col lo hi).1 (coerce col lo hi).2 (enc col v)

/-- the numeric meaning of the range -/
def specMatch (lo hi : B) (v : Int) : Bool :=
  (match lo with
   | .incl b => decide (b.twice ≤ 2 * v)
   | .excl b => decide (b.twice < 2 * v)
   | .unb => true) &&
  (match hi with
   | .incl b => decide (2 * v ≤ b.twice)
   | .excl b => decide (2 * v < b.twice)
   | .unb => true)

/-- the one combination in which the pinned conversion is not exact: a u64 lower bound above
i64::MAX on an i64 column is replaced by `Excluded(i64::MAX as u64)` *without* `to_u64()`, i.e.
by "value ≥ 0" in the column's encoded space instead of "nothing" -/
def lowerOk (col : ColT) : B → Bool
  | .incl (.u v) => !(col == .i64 && decide (I64MAX < (v : Int)))
  | .excl (.u v) => !(col == .i64 && decide (I64MAX < (v : Int)))
  -- a positive fractional f64 lower bound is replaced by Included(trunc), which admits trunc < bound
  | .incl (.f h) => !(decide (0 < h) && decide (h % 2 ≠ 0))
  | .excl (.f h) => !(decide (0 < h) && decide (h % 2 ≠ 0))
  | _ => true

/-- f64 upper bounds for which the pinned conversion is not exact: below the minimum of a u64
column the bound becomes Unbounded (everything matches instead of nothing); a negative fractional
upper bound becomes Included(trunc) with trunc > bound -/
def upperOk (col : ColT) : B → Bool
  | .incl (.f h) => !(col == .u64 && decide (h < 0)) && !(decide (h < 0) && decide (h % 2 ≠ 0))
  | .excl (.f h) => !(col == .u64 && decide (h < 0)) && !(decide (h < 0) && decide (h % 2 ≠ 0))
  | _ => true

/-- numeric type the columnar writer gives a JSON path in a segment
(`CompatibleNumericalTypes::accept_value` / `to_numerical_type`): values supplied as i64 never leave
the i64 range; a value supplied as u64 keeps the column i64 only if it is *strictly below*
i64::MAX; i64 is preferred, then u64 (paths mixing negative values and large u64 values become
f64: not modelled).
-- mirrors: columnar/src/columnar/writer/column_writers.rs::accept_value -/
def colOf (suppliedAsU64 : Bool) (vals : List Int) : ColT :=
  if !suppliedAsU64 || vals.all (fun v => decide (v < I64MAX)) then .i64 else .u64

/-! ### the table as the source has it now

Three rows of the table are wrong in the pinned code (`lowerOk` / `upperOk`). The extractor reads,
for each of them, whether the source has the pinned or the repaired form
(`extract/items/boolweight.py` → `Gen.JsonRange`); `lowerTG` / `upperTG` follow those guards, the
driver executes them. -/

structure Guards where
  /-- u64 lower bound above i64::MAX on an i64 column: `Excluded(i64::MAX.to_u64())` (no hits) -/
  u64Lower : Bool
  /-- f64 upper bound below the column minimum: `Excluded(T::min().to_u64())` (no hits) -/
  f64Below : Bool
  /-- fractional f64 bounds: lower rounded up (`ceil`), upper rounded down (`floor`) -/
  f64Round : Bool
deriving Repr, DecidableEq

def Guards.pinned : Guards := ⟨false, false, false⟩
def Guards.repaired : Guards := ⟨true, true, true⟩
def Guards.extracted : Guards :=
  ⟨Gen.JSON_U64_LOWER_ON_I64_NO_HITS == 1, Gen.JSON_F64_UPPER_BELOW_MIN_NO_HITS == 1,
   Gen.JSON_F64_FRACTIONAL_ROUNDS_INWARD == 1⟩

def lowerTG (g : Guards) (col : ColT) : BV → TB
  | .i v => lowerT col (.i v)
  | .u v => (match col with
    | .u64 => .existing v
    | .i64 =>
      if I64MAX < (v : Int) then .new (.excl (if g.u64Lower then encI I64MAX else I64MAX.toNat))
      else .existing (encI v))
  | .f h =>
    if col == .u64 && decide (h < 0) then .new .unb
    else if h % 2 = 0 then .existing (enc col (h / 2))
    else .new (.incl (enc col (if g.f64Round then (h + 1) / 2 else truncHalf h)))

def upperTG (g : Guards) (col : ColT) : BV → TB
  | .i v => upperT col (.i v)
  | .u v => upperT col (.u v)
  | .f h =>
    if col == .u64 && decide (h < 0) then (if g.f64Below then .new (.excl 0) else .new .unb)
    else if h % 2 = 0 then .existing (enc col (h / 2))
    else .new (.incl (enc col (if g.f64Round then h / 2 else truncHalf h)))

def implMatchG (g : Guards) (col : ColT) (lo hi : B) (v : Int) : Bool :=
  inRangeN (applyT (lowerTG g col) lo) (applyT (upperTG g col) hi) (enc col v)

/-! ### f64 column

A path that received a float (or both negative and > i64::MAX values) has an f64 column. Every
bound is converted with `map_bound` (kind preserved): `(term as f64).to_u64()` for integer terms,
`term.to_u64()` for f64 terms. `f64_to_u64` is strictly monotone (`C03_f64_to_u64_strictMono`), so
only the order of the encoded values matters; the model uses the order-isomorphic stand-in
`h ↦ h + 2^54` on half-units (values and bounds below 2^52 in magnitude convert exactly). -/

/-- stand-in for `f64_to_u64 (h / 2)` -/
def encF (h : Int) : Nat := (h + 2 ^ 54).toNat

def coerceF : B → BndN
  | .unb => .unb
  | .incl b => .incl (encF b.twice)
  | .excl b => .excl (encF b.twice)

/-- f64 column, value `hv / 2` -/
def implMatchF (lo hi : B) (hv : Int) : Bool := inRangeN (coerceF lo) (coerceF hi) (encF hv)

def specMatchF (lo hi : B) (hv : Int) : Bool :=
  (match lo with
   | .incl b => decide (b.twice ≤ hv)
   | .excl b => decide (b.twice < hv)
   | .unb => true) &&
  (match hi with
   | .incl b => decide (hv ≤ b.twice)
   | .excl b => decide (hv < b.twice)
   | .unb => true)

/-- every number involved converts to f64 exactly -/
def B.small : B → Prop
  | .incl b => -(2 ^ 53) < b.twice ∧ b.twice < 2 ^ 53
  | .excl b => -(2 ^ 53) < b.twice ∧ b.twice < 2 ^ 53
  | .unb => True

/-! ### column type of a merged segment

-- mirrors: columnar/src/columnar/merge/mod.rs::merged_numerical_columns_type
The merger feeds the (min, max) of every source column, typed as that column, to the same
`CompatibleNumericalTypes` accumulator the writer uses for single values. -/

inductive ColT3 | i64 | u64 | f64
deriving Repr, DecidableEq, Inhabited

def ColT.lift : ColT → ColT3
  | .i64 => .i64
  | .u64 => .u64

/-- a source column: its type and the min / max recorded in it -/
structure Src where
  col : ColT3
  mn : Int
  mx : Int
deriving Repr, DecidableEq

/-- every (min, max) fed so far is within the i64 range (`all_values_within_i64_range`) -/
def allI64 (srcs : List Src) : Bool :=
  srcs.all (fun s => match s.col with
    | .u64 => decide (s.mn < I64MAX) && decide (s.mx < I64MAX)
    | .i64 => true
    | .f64 => false)

def allU64 (srcs : List Src) : Bool :=
  srcs.all (fun s => match s.col with
    | .i64 => decide (0 ≤ s.mn) && decide (0 ≤ s.mx)
    | .u64 => true
    | .f64 => false)

def mergedCol (srcs : List Src) : ColT3 :=
  if allI64 srcs then .i64 else if allU64 srcs then .u64 else .f64

/-! ### write-time type of a path that receives both i64- and u64-supplied values

The accumulator of `colOf`, without the restriction to one supplied type: a value supplied as i64
(`false`) keeps the column u64-compatible only if it is ≥ 0; a value supplied as u64 (`true`) keeps
it i64-compatible only if it is strictly below i64::MAX; neither → f64.
-- mirrors: columnar/src/columnar/writer/column_writers.rs::accept_value -/

def pI (vals : List (Bool × Int)) : Bool := vals.all (fun p => !p.1 || decide (p.2 < I64MAX))
def pU (vals : List (Bool × Int)) : Bool := vals.all (fun p => p.1 || decide (0 ≤ p.2))

def writtenCol (vals : List (Bool × Int)) : ColT3 :=
  if pI vals then .i64 else if pU vals then .u64 else .f64

end TantivyModel.JsonRange
