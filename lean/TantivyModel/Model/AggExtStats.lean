/-
C14 — model of `src/aggregation/metric/extended_stats.rs::IntermediateExtendedStats` over exact
rationals (`Rat`): the Welford update of `collect`, the Chan et al. parallel-variance merge of
`merge_fruits`, and the `sigma` that travels inside the intermediate result.

Fields (as in the code): `count`, `sum` (of `intermediate_stats`), `q` = `sum_of_squares_elastic`
(Σv²), `m2` = `sum_of_squares` (Σ(v − mean)², maintained incrementally), `mean`, `sigma`.
Floating point (Kahan compensation, rounding) is not modelled: the statement is about the
arithmetic the code intends.  No Mathlib here; the algebra is in `Proofs/AggExtStats.lean`.
-/
namespace TantivyModel.Agg

structure ExtS where
  count : Nat
  sum : Rat
  q : Rat
  m2 : Rat
  mean : Rat
  sigma : Rat
deriving Repr

/-- mirrors: `impl Default for IntermediateExtendedStats` (what `empty_from_req` builds: the
default sigma 2, whatever the request says) -/
def ExtS.empty : ExtS := ⟨0, 0, 0, 0, 0, 2⟩

/-- mirrors: IntermediateExtendedStats::with_sigma (what a segment collector starts from) -/
def ExtS.withSigma (σ : Rat) : ExtS := ⟨0, 0, 0, 0, 0, σ⟩

/-- mirrors: IntermediateExtendedStats::collect + update_variance (Welford step; the code sets
`mean = sum / count` after adding the value) -/
def ExtS.collect (a : ExtS) (v : Rat) : ExtS :=
  let sum := a.sum + v
  let mean := sum / ((a.count + 1 : Nat) : Rat)
  ⟨a.count + 1, sum, a.q + v * v, a.m2 + (v - a.mean) * (v - mean), mean, a.sigma⟩

/-- mirrors: IntermediateExtendedStats::merge_fruits — an empty right operand is ignored, an
empty left operand is REPLACED by the right one (sigma included), otherwise Chan's formula;
the left operand's sigma is kept -/
def ExtS.merge (a b : ExtS) : ExtS :=
  if b.count = 0 then a
  else if a.count = 0 then b
  else
    let n : Rat := ((a.count + b.count : Nat) : Rat)
    let delta := b.mean - a.mean
    ⟨a.count + b.count, a.sum + b.sum, a.q + b.q,
     a.m2 + b.m2 + delta * delta * (a.count : Rat) * (b.count : Rat) / n,
     (a.sum + b.sum) / n, a.sigma⟩

/-- what one segment collects for the values `xs` under the request's `sigma` -/
def ExtS.ofList (σ : Rat) (xs : List Rat) : ExtS := xs.foldl ExtS.collect (ExtS.withSigma σ)

/-- the rational part of `finalize`: (count, sum, avg, sum_of_squares, variance_population,
variance_sampling) and the sigma that `std_deviation_bounds` are computed with (bounds are
`avg ± sigma · √variance`; the square root is outside the model) -/
def ExtS.finalize (a : ExtS) : Nat × Rat × Option Rat × Option Rat × Option Rat × Option Rat × Rat :=
  (a.count, a.sum,
   if a.count = 0 then none else some a.mean,
   if a.count = 0 then none else some a.q,
   if a.count ≤ 1 then none else some (a.m2 / (a.count : Rat)),
   if a.count ≤ 1 then none else some (a.m2 / ((a.count - 1 : Nat) : Rat)),
   a.sigma)

/-- direct computation over all values: Σv, Σv², and M2 = Σv² − (Σv)²/n -/
def extDirectM2 (xs : List Rat) : Rat :=
  if xs.length = 0 then 0 else (xs.map (fun v => v * v)).sum - xs.sum * xs.sum / (xs.length : Rat)

end TantivyModel.Agg
