import TantivyModel.Model.AggSpec
/-
C14 — model of the normalisation of a range request
(`src/aggregation/bucket/range.rs::extend_validate_ranges`): the user's `[from, to)` ranges
(either end may be open) are sorted by start, a bucket is put in front of the first and behind
the last one unless they are open, overlapping ranges are rejected, and every hole between two
consecutive ranges becomes a bucket of its own.  The result partitions the whole line; its
interior boundaries are the `cuts` that `rangeIdx` works with.

The code does this in the column's u64 space; the projection is monotone, so the model works on
integers extended by −∞ / +∞ (`u64::MIN` / `u64::MAX` stand for the open ends in the code).
-/
namespace TantivyModel.Agg

/-- an integer or one of the two open ends -/
inductive EInt
  | negInf
  | fin (i : Int)
  | posInf
deriving DecidableEq, Repr

def EInt.lt : EInt → EInt → Bool
  | .negInf, .negInf => false
  | .negInf, _ => true
  | .fin _, .negInf => false
  | .fin a, .fin b => decide (a < b)
  | .fin _, .posInf => true
  | .posInf, _ => false

abbrev ERange := EInt × EInt

/-- mirrors: range.rs::to_u64_range -/
def toERange (r : Option Int × Option Int) : ERange :=
  (match r.1 with | some a => .fin a | Option.none => .negInf,
   match r.2 with | some b => .fin b | Option.none => .posInf)

/-- mirrors: the `find_hole` / insert loop of extend_validate_ranges — overlapping neighbours are
an error (`Option.none`), a gap between neighbours becomes a bucket -/
def fillHoles : List ERange → Option (List ERange)
  | [] => some []
  | [r] => some [r]
  | r0 :: r1 :: rest =>
    if EInt.lt r1.1 r0.2 then Option.none
    else match fillHoles (r1 :: rest) with
      | Option.none => Option.none
      | some l => if r0.2 = r1.1 then some (r0 :: l) else some (r0 :: (r0.2, r1.1) :: l)

/-- mirrors: `converted_buckets.insert(0, MIN..first.start)` unless the first range is open below -/
def extendFront (l : List ERange) : List ERange :=
  match l with
  | [] => []
  | r :: rest => if r.1 = EInt.negInf then r :: rest else (EInt.negInf, r.1) :: r :: rest

/-- mirrors: `converted_buckets.push(last.end..MAX)` unless the last range is open above -/
def extendBack (l : List ERange) : List ERange :=
  match l.getLast? with
  | Option.none => l
  | some r => if r.2 = EInt.posInf then l else l ++ [(r.2, EInt.posInf)]

def extendEnds (l : List ERange) : List ERange := extendBack (extendFront l)

/-- mirrors: extend_validate_ranges (`sort_by_key(start)`, extension, hole filling) -/
def normRanges (rs : List (Option Int × Option Int)) : Option (List ERange) :=
  fillHoles (extendEnds (isort (fun a b : ERange => !EInt.lt b.1 a.1) (rs.map toERange)))

/-- the interior boundaries of a normalised partition: the starts of all buckets but the first -/
def cutsOf (bs : List ERange) : List Int :=
  (bs.drop 1).filterMap (fun b => match b.1 with | .fin i => some i | _ => Option.none)

end TantivyModel.Agg
