import TantivyModel.Gen.Lock
/-!
# The lock file underneath `acquire` (C18)

`Model/Lock.lean` takes `Directory::acquire_lock` as one atomic test-and-set event. This module
opens that event for the lock-file based implementation (`directory.rs::try_acquire_lock` over
`RamDirectory::open_write`) and makes the two code shapes the atomicity rests on explicit:

* `atomicOpen` — `open_write` tests for the file and inserts it under ONE write-lock guard
  (`let mut fs = self.fs.write()…; let exists = fs.write(path, &[])`, `InnerDirectory::write` =
  `insert(..).is_some()`); otherwise the test and the insertion are two steps that other threads
  can interleave with;
* `guardLate` — `try_acquire_lock` builds the `DirectoryLockGuard` (whose `Drop` deletes the
  file) only after `open_write` has succeeded; otherwise a refused attempt drops a guard and
  thereby deletes the lock file of the holder.

Both are extracted from the source (`Gen.RAM_OPEN_WRITE_ONE_CRITICAL_SECTION`,
`Gen.LOCK_GUARD_AFTER_OPEN_WRITE`); `codeShape` is the shape of the code as it is now.

-- mirrors: src/directory/ram_directory.rs::open_write
-- mirrors: src/directory/directory.rs::try_acquire_lock
-/
namespace TantivyModel.LockFile

structure Shape where
  atomicOpen : Bool
  guardLate : Bool
  deriving DecidableEq, Repr

structure St where
  /-- the lock file exists -/
  file : Bool
  /-- (two-step `open_write` only) threads between the existence test and the insertion -/
  sawFree : List Nat
  /-- threads whose `open_write` succeeded and that have not built their guard yet -/
  opened : List Nat
  /-- guard objects in existence that belong to a successful `open_write` -/
  guards : Nat
  deriving DecidableEq, Repr

def init : St := { file := false, sawFree := [], opened := [], guards := 0 }

inductive Ev where
  /-- `open_write(lock file)` as one step (shape `atomicOpen`) -/
  | openWrite (t : Nat)
  /-- the existence test / the insertion of a two-step `open_write` -/
  | check (t : Nat)
  | insert (t : Nat)
  /-- `DirectoryLock::from(Box::new(DirectoryLockGuard { .. }))` after a successful `open_write` -/
  | mkGuard (t : Nat)
  /-- a guard object is dropped (failed flush, failed construction, writer dropped): file deleted -/
  | dropGuard
  deriving DecidableEq, Repr

inductive Out where
  | acquired | refused | done | stuck
  deriving DecidableEq, Repr

/-- a refused attempt: with an early guard, dropping it deletes the (holder's) file -/
def refuse (sh : Shape) (s : St) : St := if sh.guardLate then s else { s with file := false }

/-- a successful `open_write`: the file exists; the guard exists already (early) or is still to be built -/
def succeed (sh : Shape) (s : St) (t : Nat) : St :=
  if sh.guardLate then { s with file := true, opened := t :: s.opened }
  else { s with file := true, guards := s.guards + 1 }

def step (sh : Shape) (s : St) : Ev → St × Out
  | .openWrite t =>
    if !sh.atomicOpen then (s, .stuck)
    else if s.file then (refuse sh s, .refused)
    else (succeed sh s t, .acquired)
  | .check t =>
    if sh.atomicOpen then (s, .stuck)
    else if s.file then (refuse sh s, .refused)
    else ({ s with sawFree := t :: s.sawFree }, .done)
  | .insert t =>
    if s.sawFree.contains t then (succeed sh { s with sawFree := s.sawFree.erase t } t, .acquired)
    else (s, .stuck)
  | .mkGuard t =>
    if s.opened.contains t then ({ s with opened := s.opened.erase t, guards := s.guards + 1 }, .done)
    else (s, .stuck)
  | .dropGuard =>
    if s.guards = 0 then (s, .stuck) else ({ s with guards := s.guards - 1, file := false }, .done)

def run (sh : Shape) (s : St) : List Ev → St × List Out
  | [] => (s, [])
  | e :: es => ((run sh (step sh s e).1 es).1, (step sh s e).2 :: (run sh (step sh s e).1 es).2)

def final (sh : Shape) (h : List Ev) : St := (run sh init h).1

/-- threads / objects that hold the lock -/
def holders (s : St) : Nat := s.opened.length + s.guards

/-- the shape of the code as it is now -/
def codeShape : Shape :=
  { atomicOpen := Gen.RAM_OPEN_WRITE_ONE_CRITICAL_SECTION == 1,
    guardLate := Gen.LOCK_GUARD_AFTER_OPEN_WRITE == 1 }

end TantivyModel.LockFile
