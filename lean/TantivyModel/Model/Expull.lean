import TantivyModel.Gen.Postings
/-!
# `ExpUnrolledLinkedList`: the recorders' byte log in the shared memory arena (C07)

Every term's recorder appends its `serialize_vint_u32` bytes to an exponential unrolled linked
list living in the `MemoryArena` all terms of the segment writer share: blocks of 8, 16, …, 32768
bytes (then 32768 for ever), each followed by the 4-byte address of the next block; `read_to_end`
walks the chain at serialization time.

The arena is modelled as a byte-addressed memory with an allocation pointer (`Addr` = page id · 2²⁰
+ offset is a flat 32-bit address; an allocation that does not fit the current 1 MiB page starts
the next page).

-- mirrors: stacker/src/expull.rs::ensure_capacity
-- mirrors: stacker/src/expull.rs::extend_from_slice
-- mirrors: stacker/src/expull.rs::get_block_size
-- mirrors: stacker/src/expull.rs::increment_num_blocks
-- mirrors: stacker/src/expull.rs::read_to_end
-- mirrors: stacker/src/memory_arena.rs::allocate_space
-/
namespace TantivyModel.Expull

def FIRST_BLOCK_NUM : Nat := Gen.Postings.EXPULL_FIRST_BLOCK_NUM
def MAX_EXP : Nat := Gen.Postings.EXPULL_MAX_EXP
def PAGE_SIZE : Nat := 2 ^ Gen.Postings.ARENA_NUM_BITS_PAGE_ADDR
def ADDR_SIZE : Nat := 4

/-- `get_block_size` -/
def blockSize (blockNum : Nat) : Nat := 2 ^ (min blockNum MAX_EXP)

structure Arena where
  mem : Nat → Nat
  /-- bytes allocated so far (`MemoryArena::len`) -/
  len : Nat

def Arena.empty : Arena := { mem := fun _ => 0, len := 0 }

/-- `allocate_space(len)`: in the current page if it fits, else at the start of a new page -/
def Arena.allocate (a : Arena) (n : Nat) : Arena × Nat :=
  let addr := if a.len % PAGE_SIZE + n ≤ PAGE_SIZE then a.len else (a.len / PAGE_SIZE + 1) * PAGE_SIZE
  ({ a with len := addr + n }, addr)

def Arena.write (a : Arena) (addr : Nat) (bs : List Nat) : Arena :=
  { a with mem := fun x => if addr ≤ x ∧ x < addr + bs.length then bs.getD (x - addr) 0 else a.mem x }

def Arena.slice (a : Arena) (addr n : Nat) : List Nat := (List.range n).map (fun i => a.mem (addr + i))

/-- an `Addr` stored little-endian -/
def addrBytes (v : Nat) : List Nat := [v % 256, v / 256 % 256, v / 65536 % 256, v / 16777216 % 256]

def Arena.readAddr (a : Arena) (addr : Nat) : Nat :=
  a.mem addr + 256 * a.mem (addr + 1) + 65536 * a.mem (addr + 2) + 16777216 * a.mem (addr + 3)

structure Eull where
  remainingCap : Nat
  blockNum : Nat
  /-- `Addr::null_pointer()` ↦ `none` -/
  head : Option Nat
  tail : Nat
deriving Repr, DecidableEq

def Eull.default : Eull := { remainingCap := 0, blockNum := FIRST_BLOCK_NUM, head := none, tail := 0 }

/-- `ensure_capacity(eull, arena, allocate)` -/
def ensureCapacity (e : Eull) (a : Arena) (alloc : Nat) : Eull × Arena :=
  let r := a.allocate (alloc + ADDR_SIZE)
  let a2 := match e.head with
    | none => r.1
    | some _ => r.1.write e.tail (addrBytes r.2)
  ({ e with head := some (e.head.getD r.2), tail := r.2, remainingCap := alloc }, a2)

/-- the `while !buf.is_empty()` loop of `extend_from_slice` (`fuel` ≥ `buf.length`) -/
def extendLoop : Nat → Eull → Arena → List Nat → Eull × Arena
  | 0, e, a, _ => (e, a)
  | _ + 1, e, a, [] => (e, a)
  | fuel + 1, e, a, b :: bs =>
    let r := if e.remainingCap = 0 then
        let e' := { e with blockNum := e.blockNum + 1 }
        ensureCapacity e' a (blockSize e'.blockNum)
      else (e, a)
    let addLen := min (b :: bs).length r.1.remainingCap
    let a2 := r.2.write r.1.tail ((b :: bs).take addLen)
    let e2 := { r.1 with remainingCap := r.1.remainingCap - addLen, tail := r.1.tail + addLen }
    extendLoop fuel e2 a2 ((b :: bs).drop addLen)

def extendFromSlice (e : Eull) (a : Arena) (buf : List Nat) : Eull × Arena := extendLoop buf.length e a buf

/-- the loop over the full blocks of `read_to_end` -/
def readBlocks (a : Arena) : Nat → Nat → Nat → List Nat × Nat
  | 0, _, addr => ([], addr)
  | n + 1, bn, addr =>
    let r := readBlocks a n (bn + 1) (a.readAddr (addr + blockSize bn))
    (a.slice addr (blockSize bn) ++ r.1, r.2)

/-- `read_to_end` -/
def readToEnd (e : Eull) (a : Arena) : List Nat :=
  match e.head with
  | none => []
  | some h =>
    let lastLen := blockSize e.blockNum - e.remainingCap
    let r := readBlocks a (e.blockNum - (FIRST_BLOCK_NUM + 1)) (FIRST_BLOCK_NUM + 1) h
    r.1 ++ a.slice r.2 lastLen

/-- several lists sharing one arena: `(list index, bytes)` writes in arrival order -/
def runWrites : List Eull → Arena → List (Nat × List Nat) → List Eull × Arena
  | es, a, [] => (es, a)
  | es, a, (i, buf) :: ws =>
    let r := extendFromSlice (es.getD i Eull.default) a buf
    runWrites (es.set i r.1) r.2 ws

end TantivyModel.Expull
