/-
Searcher generations, the inventory of live generations and the warmers' garbage collection.

-- mirrors: src/reader/mod.rs::track_segment_readers_in_inventory (generation id = fetch_add on the
--          reader's counter; `Inventory::track`), ::create_searcher (track, build, warm, return),
--          ::reload (store into the ArcSwap)
-- mirrors: src/core/searcher.rs::SearcherInner (the `TrackedObject<SearcherGeneration>` is a field
--          of the shared inner searcher: the inventory entry lives exactly as long as one clone of
--          the searcher, the ArcSwap slot included, lives)
-- mirrors: src/reader/warming.rs::warm_new_searcher_generation (records the id, runs every warmer),
--          ::gc_maybe (nothing to do if every warmed id is still live; otherwise every warmer gets
--          `inventory.list()` and the warmed ids are reset to the live ones)

A *well-behaved warmer* (the contract of `Warmer::garbage_collect`) creates an artifact for a
generation in `warm` and drops, in `garbage_collect(live)`, only artifacts of generations that
are not in `live`.
-/
namespace TantivyModel.Gens

inductive GEv where
  | track                -- a reload draws the next generation id and tracks it in the inventory
  | warm (g : Nat)       -- the reload that tracked `g` runs the warmers on its searcher
  | store (g : Nat)      -- … and publishes it: the ArcSwap slot now holds `g`
  | abandon (g : Nat)    -- … or fails after tracking and drops its searcher
  | take                 -- `IndexReader::searcher()`: a client clones the slot's searcher
  | drop (g : Nat)       -- a client drops one searcher of generation `g`
  | warmGc               -- `gc_maybe` (the background thread, once per `GC_INTERVAL`)
deriving DecidableEq, Repr

structure GSt where
  counter : Nat := 0
  /-- generations tracked by a reload that has neither stored nor abandoned them yet -/
  inflight : List Nat := []
  slot : Option Nat := none
  /-- number of searchers of each generation held by clients -/
  clients : Nat → Nat := fun _ => 0
  /-- `warmed_generation_ids` -/
  warmedIds : List Nat := []
  everWarmed : List Nat := []
  /-- generations for which a well-behaved warmer holds its artifact -/
  artifacts : List Nat := []
  /-- the lists passed to `Warmer::garbage_collect`, newest first -/
  gcCalls : List (List Nat) := []
  /-- ids drawn so far, newest first -/
  drawn : List Nat := []

def ginit : GSt := {}

/-- the inventory entry of `g` exists: some clone of its searcher is alive -/
def live (s : GSt) (g : Nat) : Bool :=
  s.inflight.contains g || s.slot == some g || decide (0 < s.clients g)

/-- `Inventory::list()` (as generation ids) -/
def liveList (s : GSt) : List Nat := (List.range s.counter).filter (live s)

def bump (f : Nat → Nat) (g : Nat) (d : Nat → Nat) : Nat → Nat :=
  fun x => if x = g then d (f x) else f x

def gstep (s : GSt) : GEv → GSt
  | .track => { s with counter := s.counter + 1, inflight := s.counter :: s.inflight,
                       drawn := s.counter :: s.drawn }
  | .warm g => { s with warmedIds := g :: s.warmedIds, everWarmed := g :: s.everWarmed,
                        artifacts := g :: s.artifacts }
  | .store g => { s with slot := some g, inflight := s.inflight.erase g }
  | .abandon g => { s with inflight := s.inflight.erase g }
  | .take =>
    match s.slot with
    | some g => { s with clients := bump s.clients g (· + 1) }
    | none => s
  | .drop g => { s with clients := bump s.clients g (· - 1) }
  | .warmGc =>
    let l := liveList s
    if s.warmedIds.all (fun g => l.contains g) then s
    else { s with gcCalls := l :: s.gcCalls, artifacts := s.artifacts.filter (fun g => l.contains g),
                  warmedIds := l }

/-- what the code's structure guarantees about the order of the steps of one reload -/
def gok (s : GSt) : GEv → Bool
  | .warm g => s.inflight.contains g
  | .store g => s.inflight.contains g
  | .abandon g => s.inflight.contains g
  | .drop g => decide (0 < s.clients g)
  | _ => true

def grun (s : GSt) (t : List GEv) : GSt := t.foldl gstep s

def gcheck : GSt → List GEv → Bool
  | _, [] => true
  | s, e :: t => gok s e && gcheck (gstep s e) t

def gvalid (t : List GEv) : Bool := gcheck ginit t

/-- index of the first event outside the discipline (for the harness) -/
def gfirstBad : GSt → List GEv → Nat → Option Nat
  | _, [], _ => none
  | s, e :: t, i => if gok s e then gfirstBad (gstep s e) t (i + 1) else some i

end TantivyModel.Gens
