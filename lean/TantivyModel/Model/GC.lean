import TantivyModel.Model.CommitProtocol
/-!
# Garbage collection over the storage model (C10)

State: the files that exist, the in-memory managed set (`MetaInformation::managed_paths`), the
inventory of live `SegmentMeta` objects (each protects `list_files()`: committed, uncommitted,
being written, in merge — every clone held by registers, workers, merge operations, futures),
and a GC in flight.

Events are the steps other threads can interleave with:
* `track fs`      a `SegmentMeta` object comes to life          -- mirrors: src/index/index_meta.rs::SegmentMetaInventory::new_segment_meta, with_max_doc, with_delete_meta, IndexMeta::deserialize
* `drop i`        the i-th live object is dropped
* `openWrite p`   `register_file_as_managed p` then create `p`  -- mirrors: src/directory/managed_directory.rs::open_write
* `gcCompute`     `files_to_delete := managed ∖ living`, computed while holding the managed read
                  lock and META_LOCK (one atomic step)          -- mirrors: managed_directory.rs::garbage_collect, segment_updater.rs::list_files
* `gcDelete p ok` one iteration of the delete loop (`ok = false`: the delete failed with an I/O error)
* `gcFinish`      managed set minus `deleted_files`, `.managed.json` rewritten
-/
namespace TantivyModel.GC
open TantivyModel.Storage

structure St where
  dir : List Path
  managed : List Path
  live : List (List Path)
  pending : Option (List Path)
  deleted : List Path
  failed : List Path
deriving Repr, Inhabited, DecidableEq

/-- `SegmentUpdater::list_files`: files of all live metas plus `meta.json` -/
def living (s : St) : List Path := META :: s.live.flatten

/-- the files some thread may still need -/
def needed (s : St) : List Path := living s

inductive Ev
  | track (fs : List Path)
  | drop (i : Nat)
  | openWrite (p : Path)
  | gcCompute
  | gcDelete (p : Path) (ok : Bool)
  | gcFinish
deriving Repr, Inhabited, DecidableEq

def insertP (l : List Path) (p : Path) : List Path := if l.contains p then l else p :: l

def St.step (s : St) : Ev → St
  | .track fs => { s with live := fs :: s.live }
  | .drop i => { s with live := s.live.eraseIdx i }
  | .openWrite p => { s with managed := insertP s.managed p, dir := insertP s.dir p }
  | .gcCompute =>
    { s with pending := some (s.managed.filter (fun p => !(living s).contains p)), deleted := [], failed := [] }
  | .gcDelete p ok =>
    match s.pending with
    | none => s
    | some l =>
      if l.contains p then
        if ok then { s with pending := some (l.filter (· != p)), dir := s.dir.filter (· != p), deleted := p :: s.deleted }
        else { s with pending := some (l.filter (· != p)), failed := p :: s.failed }
      else s
  | .gcFinish =>
    match s.pending with
    | some [] => { s with managed := s.managed.filter (fun p => !s.deleted.contains p), pending := none }
    | _ => s

def St.run (s : St) (evs : List Ev) : St := evs.foldl St.step s

/-- discipline of the other threads:
registration-before-create (a file is opened for writing only while a live meta lists it),
no resurrection (a new meta object never lists a managed file that no live meta protects),
the delete loop only deletes what `gcCompute` selected, one GC at a time -/
def okEv (s : St) : Ev → Bool
  | .track fs => fs.all (fun p => !s.managed.contains p || (living s).contains p)
  | .openWrite p => (living s).contains p
  | .gcCompute => s.pending.isNone
  | .gcDelete p _ => match s.pending with | some l => l.contains p | none => false
  | _ => true

def Disc : St → List Ev → Bool
  | _, [] => true
  | s, e :: es => okEv s e && Disc (s.step e) es

/-- along the run, no `gcDelete` (successful or not) hits a needed file -/
def SafeRun : St → List Ev → Prop
  | _, [] => True
  | s, e :: es =>
    (match e with | .gcDelete p _ => p ∉ needed s | _ => True) ∧ SafeRun (s.step e) es

/-- one complete, un-interleaved collection (the whole of `garbage_collect`); `fails` = files
whose delete fails with an I/O error  -- mirrors: src/directory/managed_directory.rs::garbage_collect -/
def fullGC (s : St) (fails : List Path) : St :=
  let toDel := s.managed.filter (fun p => !(living s).contains p)
  let deleted := toDel.filter (fun p => !fails.contains p)
  { s with dir := s.dir.filter (fun p => !deleted.contains p),
           managed := s.managed.filter (fun p => !deleted.contains p),
           pending := none, deleted := deleted, failed := toDel.filter (fun p => fails.contains p) }

/-- first occurrences only -/
def dedup : List Path → List Path
  | [] => []
  | a :: l => a :: (dedup l).filter (· != a)

/-- the same collection as small steps -/
def fullGCSteps (s : St) (fails : List Path) : List Ev :=
  let toDel := dedup (s.managed.filter (fun p => !(living s).contains p))
  [Ev.gcCompute] ++ toDel.map (fun p => Ev.gcDelete p (!fails.contains p)) ++ [Ev.gcFinish]

/-- GC state a fresh process starts from after a crash left `img`: the inventory holds exactly
the metas of `meta.json`, the managed set is what `.managed.json` says -/
def ofImage (img : LImage) : St :=
  { dir := img.files.filterMap (fun e => e.2.map (fun _ => e.1)) ++
           img.atoms.filterMap (fun e => match e.2 with | some _ => if e.1 = META then some e.1 else none | none => none),
    managed := (match lookupD img.atoms MANAGED with | some b => b.refs | none => []),
    live := [match lookupD img.atoms META with | some b => b.refs | none => []],
    pending := none, deleted := [], failed := [] }

/-! ## storage-level discipline of `ManagedDirectory` (on the C01 storage model) -/

/-- the path may be present in some crash image -/
def _root_.TantivyModel.Storage.FileSt.mayPresent (st : FileSt) : Bool := st.dur || st.vis || st.churn

/-- what the newest `.managed.json` lists -/
def visibleManaged (s : Dir) : List Path :=
  match (s.atom MANAGED).visible with
  | some b => b.refs
  | none => []

/-- storage-level discipline of `ManagedDirectory`:
* R1 `create p` only if the newest `.managed.json` already lists `p`
     -- mirrors: managed_directory.rs::open_write (register_file_as_managed, then open_write)
* R2 a new `.managed.json` lists every path that may still be present: a path is dropped from
     the list only after its unlink is durable
     -- mirrors: managed_directory.rs::garbage_collect (sync_directory before save_managed_paths)
* R3 `delete p` only for a path that may be present -/
def RegOK (s : Dir) : Op → Prop
  | .create p => p ∈ visibleManaged s
  | .atomicWrite q b => q = MANAGED → ∀ p, (s.file p).mayPresent = true → p ∈ b.refs
  | .delete p => (s.file p).mayPresent = true
  | _ => True

/-- decidable version over the touched paths (what the driver evaluates on a real trace) -/
def regOK (s : Dir) : Op → Bool
  | .create p => (visibleManaged s).contains p
  | .atomicWrite q b => q != MANAGED || s.paths.all (fun p => !(s.file p).mayPresent || b.refs.contains p)
  | .delete p => (s.file p).mayPresent
  | _ => true

def RegDisc : Dir → List Op → Prop
  | _, [] => True
  | s, op :: t => RegOK s op ∧ RegDisc (s.step op) t

/-- every file that may survive a crash is listed by the newest `.managed.json` -/
def RInv (s : Dir) : Prop := ∀ p, (s.file p).mayPresent = true → p ∈ visibleManaged s


/-! ## fine-grained collection, the two locks, and a loading reader

`garbage_collect` is not one step: it takes the managed-paths read lock and META_LOCK, calls the
living-files callback, selects, releases both locks and only then deletes. A reader
(`IndexReader::open_segment_readers`) takes META_LOCK, lists the segments of `meta.json`, opens
their files, releases. `FSt` adds the locks, the living snapshot, the files of the current
`meta.json` and the reader's list to `St`. Whether the living snapshot is taken under the locks
(`gcUnder`) and whether the reader lists under the lock (`rdUnder`) are parameters: they are
extracted from the source (`Gen.GC_STEP_ORDER`, `Gen.READER_STEP_ORDER`). -/

structure FSt where
  base : St
  gcLocked : Bool := false          -- managed read lock + META_LOCK held by the collection
  snap : Option (List Path) := none -- living files as returned by the callback
  rdLocked : Bool := false          -- META_LOCK held by the reader
  metaFiles : List Path := []       -- files of the segments listed in meta.json
  rlist : Option (List Path) := none -- what the reader read from meta.json
deriving Repr, Inhabited, DecidableEq

inductive FEv
  | track (fs : List Path)
  | drop (i : Nat)
  | openWrite (p : Path)            -- needs the managed write lock
  | publish (fs : List Path)        -- save_metas: meta.json now lists segments with files `fs`
  | gLock | gLiving | gSelect | gUnlock
  | gDelete (p : Path) (ok : Bool) | gFinish
  | rLock | rList | rOpen (p : Path) | rUnlock
deriving Repr, Inhabited, DecidableEq

def FSt.step (s : FSt) : FEv → FSt
  | .track fs => { s with base := s.base.step (.track fs) }
  | .drop i => { s with base := s.base.step (.drop i) }
  | .openWrite p => { s with base := s.base.step (.openWrite p) }
  | .publish fs => { s with metaFiles := fs }
  | .gLock => { s with gcLocked := true }
  | .gLiving => { s with snap := some (living s.base) }
  | .gSelect =>
    { s with base := { s.base with
        pending := some (s.base.managed.filter (fun p => !(s.snap.getD []).contains p)), deleted := [], failed := [] } }
  | .gUnlock => { s with gcLocked := false, snap := none }
  | .gDelete p ok => { s with base := s.base.step (.gcDelete p ok) }
  | .gFinish => { s with base := s.base.step .gcFinish }
  | .rLock => { s with rdLocked := true }
  | .rList => { s with rlist := some s.metaFiles }
  | .rOpen _ => s
  | .rUnlock => { s with rdLocked := false, rlist := none }

def FSt.run (s : FSt) (evs : List FEv) : FSt := evs.foldl FSt.step s

/-- what each thread may do when. `gcUnder`: the living callback runs only while the locks are
held; `rdUnder`: the reader reads meta.json only while it holds META_LOCK.
Lock semantics: the managed write lock (openWrite) excludes the collection's read lock;
META_LOCK is exclusive between collection and reader.
Writer discipline: registration-before-create, no resurrection (as in `okEv`), a published
meta.json lists only existing files of live metas, and a meta is dropped only if meta.json's
files stay protected (publish first, then drop). -/
def okF (gcUnder rdUnder : Bool) (s : FSt) : FEv → Bool
  | .track fs => okEv s.base (.track fs)
  | .drop i => s.metaFiles.all (fun p => (living (s.base.step (.drop i))).contains p)
  | .openWrite p => okEv s.base (.openWrite p) && !s.gcLocked
  | .publish fs => fs.all (fun p => (living s.base).contains p && s.base.dir.contains p)
  | .gLock => !s.gcLocked && !s.rdLocked && s.base.pending.isNone && (!gcUnder || s.snap.isNone)
  | .gLiving => (!gcUnder || s.gcLocked) && s.base.pending.isNone
  | .gSelect => s.gcLocked && s.snap.isSome && s.base.pending.isNone
  | .gUnlock => s.gcLocked
  | .gDelete p ok => !s.gcLocked && okEv s.base (.gcDelete p ok)
  | .gFinish => !s.gcLocked
  | .rLock => !s.gcLocked && !s.rdLocked
  | .rList => (!rdUnder || s.rdLocked)
  | .rOpen p => s.rdLocked && (s.rlist.getD []).contains p
  | .rUnlock => s.rdLocked

def FDisc (g r : Bool) : FSt → List FEv → Bool
  | _, [] => true
  | s, e :: es => okF g r s e && FDisc g r (s.step e) es

/-- along the run: no delete hits a needed file, and every file the reader opens exists -/
def FSafe : FSt → List FEv → Prop
  | _, [] => True
  | s, e :: es =>
    (match e with
      | .gDelete p _ => p ∉ needed s.base
      | .rOpen p => p ∈ s.base.dir
      | _ => True) ∧ FSafe (s.step e) es

/-! ### guards decided on the extracted step orders -/

def stepBefore (o : List Nat) (a b : Nat) : Bool :=
  match o.findIdx? (· == a), o.findIdx? (· == b) with
  | some i, some j => decide (i < j)
  | _, _ => false

/-- the living-files callback runs after both locks are taken and before the selection, and the
deletes come after the selection  -- decided on `Gen.GC_STEP_ORDER` -/
def gcLivingUnderLocks (o : List Nat) : Bool :=
  stepBefore o 1 3 && stepBefore o 2 3 && stepBefore o 3 4 && stepBefore o 4 6

/-- the managed list is rewritten only after the deletes and a directory sync (rule R2) -/
def gcSyncBeforeForget (o : List Nat) : Bool := stepBefore o 6 8 && stepBefore o 8 9

/-- the reader takes META_LOCK before it reads meta.json and opens the files after that -/
def readerListsUnderLock (o : List Nat) : Bool := stepBefore o 1 2 && stepBefore o 2 3

/-- the commit drops emptied segments from the committed register before it lists the metas -/
def dropsEmptyBeforeListing (o : List Nat) : Bool := stepBefore o 1 2

/-! ### the committed register at a commit -/

structure SegEntry where
  files : List Path
  numDocs : Nat
deriving Repr, Inhabited, DecidableEq

/-- `committed_segment_metas`: (register afterwards, metas that go into meta.json)
-- mirrors: src/indexer/segment_manager.rs::committed_segment_metas / remove_empty_segments -/
def committedMetas (dropEmpty : Bool) (reg : List SegEntry) : List SegEntry × List SegEntry :=
  let listed := reg.filter (fun e => decide (0 < e.numDocs))
  (if dropEmpty then listed else reg, listed)

/-- `ManagedDirectory::open_write` as storage operations, in the extracted order of its two steps
(1 = register_file_as_managed: `.managed.json` rewritten with `p` added, 2 = create the file)
-- mirrors: src/directory/managed_directory.rs::open_write -/
def managedOpenWriteOps (order : List Nat) (mg : Payload) (p : Path) : List Op :=
  order.filterMap (fun c => if c = 1 then some (Op.atomicWrite MANAGED mg) else if c = 2 then some (Op.create p) else none)

/-! ## file names of a segment meta -/

/-- a `SegmentMeta` as far as file names go: segment id, delete opstamp, temp-store flag -/
structure SegMetaM where
  seg : Nat
  delOp : Nat
  includeTemp : Bool
deriving Repr, DecidableEq

/-- abstract file name: (segment, component index, delete opstamp for the delete component)
-- mirrors: src/index/index_meta.rs::relative_path -/
def relPathM (m : SegMetaM) (c : Nat) : Nat × Nat × Nat :=
  (m.seg, c, if c + 1 = Gen.NUM_COMPONENTS then m.delOp else 0)

/-- `SegmentMeta::list_files`: every component, minus the temp store once untracked
-- mirrors: src/index/index_meta.rs::list_files (Gen.LIST_FILES_DROPS_ONLY_TEMPSTORE) -/
def listFilesM (m : SegMetaM) : List (Nat × Nat × Nat) :=
  ((List.range Gen.NUM_COMPONENTS).filter (fun c => m.includeTemp || c != Gen.TEMPSTORE_INDEX)).map (relPathM m)

/-- `ManagedDirectory::atomic_write(meta.json)` as storage operations in the extracted order of
its two steps (1 = register_file_as_managed, 2 = atomic_write of the wrapped directory)
-- mirrors: src/directory/managed_directory.rs::atomic_write -/
def managedAtomicWriteOps (order : List Nat) (mg : Payload) (p : Path) (b : Payload) : List Op :=
  order.filterMap (fun c => if c = 1 then some (Op.atomicWrite MANAGED mg) else if c = 2 then some (Op.atomicWrite p b) else none)

/-- R4: `meta.json` is written only when the newest `.managed.json` lists it, and a new
`.managed.json` keeps listing it -/
def MetaRegOK (s : Dir) : Op → Prop
  | .atomicWrite q b =>
    (q = META → META ∈ visibleManaged s) ∧ (q = MANAGED → META ∈ visibleManaged s → META ∈ b.refs)
  | _ => True

def metaRegOK (s : Dir) : Op → Bool
  | .atomicWrite q b =>
    (q != META || (visibleManaged s).contains META) &&
    (q != MANAGED || !(visibleManaged s).contains META || b.refs.contains META)
  | _ => true

def MetaRegDisc : Dir → List Op → Prop
  | _, [] => True
  | s, op :: t => MetaRegOK s op ∧ MetaRegDisc (s.step op) t

/-- if any version of `meta.json` exists or is pending, the newest `.managed.json` lists it -/
def MInv (s : Dir) : Prop :=
  ((s.atom META).dur ≠ none ∨ (s.atom META).pend ≠ []) → META ∈ visibleManaged s

end TantivyModel.GC
