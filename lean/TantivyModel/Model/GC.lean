import TantivyModel.Model.CommitProtocol
/-!
# Garbage collection over the storage model (C10)

State: the files that exist, the in-memory managed set (`MetaInformation::managed_paths`), the
inventory of live `SegmentMeta` objects (each protects `list_files()`: committed, uncommitted,
being written, in merge — every clone held by registers, workers, merge operations, futures),
and a GC in flight.

Events are the steps other threads can interleave with:
* `track fs`      a `SegmentMeta` object comes to life          -- mirrors: src/index/index_meta.rs::SegmentMetaInventory::new_segment_meta, with_max_doc, with_delete_meta, IndexMeta::deserialize
* `drop i`        the i-th live object is dropped
* `openWrite p`   `register_file_as_managed p` then create `p`  -- mirrors: src/directory/managed_directory.rs::open_write
* `gcCompute`     `files_to_delete := managed ∖ living`, computed while holding the managed read
                  lock and META_LOCK (one atomic step)          -- mirrors: managed_directory.rs::garbage_collect, segment_updater.rs::list_files
* `gcDelete p ok` one iteration of the delete loop (`ok = false`: the delete failed with an I/O error)
* `gcFinish`      managed set minus `deleted_files`, `.managed.json` rewritten
-/
namespace TantivyModel.GC
open TantivyModel.Storage

structure St where
  dir : List Path
  managed : List Path
  live : List (List Path)
  pending : Option (List Path)
  deleted : List Path
  failed : List Path
deriving Repr, Inhabited, DecidableEq

/-- `SegmentUpdater::list_files`: files of all live metas plus `meta.json` -/
def living (s : St) : List Path := META :: s.live.flatten

/-- the files some thread may still need -/
def needed (s : St) : List Path := living s

inductive Ev
  | track (fs : List Path)
  | drop (i : Nat)
  | openWrite (p : Path)
  | gcCompute
  | gcDelete (p : Path) (ok : Bool)
  | gcFinish
deriving Repr, Inhabited, DecidableEq

def insertP (l : List Path) (p : Path) : List Path := if l.contains p then l else p :: l

def St.step (s : St) : Ev → St
  | .track fs => { s with live := fs :: s.live }
  | .drop i => { s with live := s.live.eraseIdx i }
  | .openWrite p => { s with managed := insertP s.managed p, dir := insertP s.dir p }
  | .gcCompute =>
    { s with pending := some (s.managed.filter (fun p => !(living s).contains p)), deleted := [], failed := [] }
  | .gcDelete p ok =>
    match s.pending with
    | none => s
    | some l =>
      if l.contains p then
        if ok then { s with pending := some (l.filter (· != p)), dir := s.dir.filter (· != p), deleted := p :: s.deleted }
        else { s with pending := some (l.filter (· != p)), failed := p :: s.failed }
      else s
  | .gcFinish =>
    match s.pending with
    | some [] => { s with managed := s.managed.filter (fun p => !s.deleted.contains p), pending := none }
    | _ => s

def St.run (s : St) (evs : List Ev) : St := evs.foldl St.step s

/-- discipline of the other threads:
registration-before-create (a file is opened for writing only while a live meta lists it),
no resurrection (a new meta object never lists a managed file that no live meta protects),
the delete loop only deletes what `gcCompute` selected, one GC at a time -/
def okEv (s : St) : Ev → Bool
  | .track fs => fs.all (fun p => !s.managed.contains p || (living s).contains p)
  | .openWrite p => (living s).contains p
  | .gcCompute => s.pending.isNone
  | .gcDelete p _ => match s.pending with | some l => l.contains p | none => false
  | _ => true

def Disc : St → List Ev → Bool
  | _, [] => true
  | s, e :: es => okEv s e && Disc (s.step e) es

/-- along the run, no `gcDelete` (successful or not) hits a needed file -/
def SafeRun : St → List Ev → Prop
  | _, [] => True
  | s, e :: es =>
    (match e with | .gcDelete p _ => p ∉ needed s | _ => True) ∧ SafeRun (s.step e) es

/-- one complete, un-interleaved collection (the whole of `garbage_collect`); `fails` = files
whose delete fails with an I/O error  -- mirrors: src/directory/managed_directory.rs::garbage_collect -/
def fullGC (s : St) (fails : List Path) : St :=
  let toDel := s.managed.filter (fun p => !(living s).contains p)
  let deleted := toDel.filter (fun p => !fails.contains p)
  { s with dir := s.dir.filter (fun p => !deleted.contains p),
           managed := s.managed.filter (fun p => !deleted.contains p),
           pending := none, deleted := deleted, failed := toDel.filter (fun p => fails.contains p) }

/-- the same collection as small steps -/
def fullGCSteps (s : St) (fails : List Path) : List Ev :=
  let toDel := (s.managed.filter (fun p => !(living s).contains p)).eraseDups
  [Ev.gcCompute] ++ toDel.map (fun p => Ev.gcDelete p (!fails.contains p)) ++ [Ev.gcFinish]

/-- GC state a fresh process starts from after a crash left `img`: the inventory holds exactly
the metas of `meta.json`, the managed set is what `.managed.json` says -/
def ofImage (img : LImage) : St :=
  { dir := img.files.filterMap (fun e => e.2.map (fun _ => e.1)) ++
           img.atoms.filterMap (fun e => match e.2 with | some _ => if e.1 = META then some e.1 else none | none => none),
    managed := (match lookupD img.atoms MANAGED with | some b => b.refs | none => []),
    live := [match lookupD img.atoms META with | some b => b.refs | none => []],
    pending := none, deleted := [], failed := [] }

/-! ## storage-level discipline of `ManagedDirectory` (on the C01 storage model) -/

/-- the path may be present in some crash image -/
def _root_.TantivyModel.Storage.FileSt.mayPresent (st : FileSt) : Bool := st.dur || st.vis || st.churn

/-- what the newest `.managed.json` lists -/
def visibleManaged (s : Dir) : List Path :=
  match (s.atom MANAGED).visible with
  | some b => b.refs
  | none => []

/-- storage-level discipline of `ManagedDirectory`:
* R1 `create p` only if the newest `.managed.json` already lists `p`
     -- mirrors: managed_directory.rs::open_write (register_file_as_managed, then open_write)
* R2 a new `.managed.json` lists every path that may still be present: a path is dropped from
     the list only after its unlink is durable
     -- mirrors: managed_directory.rs::garbage_collect (sync_directory before save_managed_paths)
* R3 `delete p` only for a path that may be present -/
def RegOK (s : Dir) : Op → Prop
  | .create p => p ∈ visibleManaged s
  | .atomicWrite q b => q = MANAGED → ∀ p, (s.file p).mayPresent = true → p ∈ b.refs
  | .delete p => (s.file p).mayPresent = true
  | _ => True

/-- decidable version over the touched paths (what the driver evaluates on a real trace) -/
def regOK (s : Dir) : Op → Bool
  | .create p => (visibleManaged s).contains p
  | .atomicWrite q b => q != MANAGED || s.paths.all (fun p => !(s.file p).mayPresent || b.refs.contains p)
  | .delete p => (s.file p).mayPresent
  | _ => true

def RegDisc : Dir → List Op → Prop
  | _, [] => True
  | s, op :: t => RegOK s op ∧ RegDisc (s.step op) t

/-- every file that may survive a crash is listed by the newest `.managed.json` -/
def RInv (s : Dir) : Prop := ∀ p, (s.file p).mayPresent = true → p ∈ visibleManaged s

end TantivyModel.GC
