import TantivyModel.Model.PostingsCodec
/-!
# The lazy block cursor (C07): `SkipReader` and `BlockSegmentPostings` field by field

Unlike `decodeTerm` (which decodes every block eagerly) this model keeps the state the code keeps:
the skip reader's `last_doc_in_previous_block`, remaining skip bytes, byte offset into the postings
data, remaining docs, block info and position offset; the two 128-entry decoder buffers; and it
decodes only the block under the cursor.  It exists for `reset`: a recycled cursor must be
indistinguishable from a freshly opened one.

-- mirrors: src/postings/skip.rs::new
-- mirrors: src/postings/skip.rs::reset
-- mirrors: src/postings/skip.rs::read_block_info
-- mirrors: src/postings/skip.rs::advance
-- mirrors: src/postings/skip.rs::seek
-- mirrors: src/postings/block_segment_postings.rs::open
-- mirrors: src/postings/block_segment_postings.rs::reset
-- mirrors: src/postings/block_segment_postings.rs::load_block
-- mirrors: src/postings/block_segment_postings.rs::advance
-- mirrors: src/postings/block_segment_postings.rs::seek
-- mirrors: src/postings/block_segment_postings.rs::decode_bitpacked_block
-- mirrors: src/postings/block_segment_postings.rs::decode_vint_block
-/
namespace TantivyModel.Postings
open TantivyModel.Invert (RecOpt)

inductive BlockInfo
  | bitPacked (docBits : Nat) (strict : Bool) (tfBits tfSum : Nat)
  | vint (numDocs : Nat)
deriving Repr, DecidableEq

structure SkipReader where
  lastDocInBlock : Nat
  lastDocInPrev : Nat
  /-- `owned_read`: the skip bytes not yet consumed -/
  data : List Nat
  skipInfo : RecOpt
  /-- `usize::MAX` after the last block ↦ `none` -/
  byteOffset : Option Nat
  remainingDocs : Nat
  blockInfo : BlockInfo
  positionOffset : Nat
deriving Repr, DecidableEq

def SkipReader.readBlockInfo (s : SkipReader) : SkipReader :=
  let bw := decodeBitwidth (s.data.getD 4 0)
  let tfBits := if hasFreq s.skipInfo then s.data.getD 5 0 else 0
  let tfSum := if s.skipInfo = .positions then readU32 (s.data.drop 6) else 0
  { s with lastDocInBlock := readU32 s.data,
           blockInfo := .bitPacked bw.1 bw.2 tfBits tfSum,
           data := s.data.drop (entryLen s.skipInfo) }

/-- `SkipReader::new(data, doc_freq, skip_info)` -/
def SkipReader.new (c : Cfg) (data : List Nat) (docFreq : Nat) (o : RecOpt) : SkipReader :=
  let s : SkipReader :=
    { lastDocInBlock := if c.B ≤ docFreq then 0 else c.T,
      lastDocInPrev := 0, data := data, skipInfo := o,
      blockInfo := .vint docFreq, byteOffset := some 0, remainingDocs := docFreq, positionOffset := 0 }
  if c.B ≤ docFreq then s.readBlockInfo else s

/-- `SkipReader::reset(data, doc_freq)`: every field assigned again, `skip_info` kept -/
def SkipReader.reset (c : Cfg) (s : SkipReader) (data : List Nat) (docFreq : Nat) : SkipReader :=
  let s1 := { s with lastDocInBlock := if c.B ≤ docFreq then 0 else c.T }
  let s2 := { s1 with lastDocInPrev := 0 }
  let s3 := { s2 with data := data }
  let s4 := { s3 with blockInfo := .vint docFreq }
  let s5 := { s4 with byteOffset := some 0 }
  let s6 := { s5 with remainingDocs := docFreq }
  let s7 := { s6 with positionOffset := 0 }
  if c.B ≤ docFreq then s7.readBlockInfo else s7

def SkipReader.advance (c : Cfg) (s : SkipReader) : SkipReader :=
  let s1 : SkipReader :=
    match s.blockInfo with
    | .bitPacked db _ tb ts =>
      { s with remainingDocs := s.remainingDocs - c.B,
               byteOffset := s.byteOffset.map (· + (db + tb) * c.B / 8),
               positionOffset := s.positionOffset + ts }
    | .vint _ => { s with remainingDocs := 0, byteOffset := none }
  let s2 := { s1 with lastDocInPrev := s1.lastDocInBlock }
  if c.B ≤ s2.remainingDocs then s2.readBlockInfo
  else { s2 with lastDocInBlock := c.T, blockInfo := .vint s2.remainingDocs }

/-- `SkipReader::seek(target)`; `fuel` bounds the loop (the code loops while
`last_doc_in_block < target`, forever if `target > TERMINATED`) -/
def SkipReader.seek (c : Cfg) (target : Nat) : Nat → SkipReader → SkipReader × Bool
  | 0, s => (s, false)
  | fuel + 1, s =>
    if target ≤ s.lastDocInBlock then (s, false)
    else
      let s' := s.advance c
      if target ≤ s'.lastDocInBlock then (s', true)
      else ((SkipReader.seek c target fuel s').1, true)

inductive FreqOpt | noFreq | skipFreq | readFreq
deriving Repr, DecidableEq

def freqOptOf (recordOpt requested : RecOpt) : FreqOpt :=
  match recordOpt, requested with
  | .basic, _ => .noFreq
  | _, .basic => .skipFreq
  | _, _ => .readFreq

structure BlockPostings where
  /-- `doc_decoder.output` (128 entries) and `output_len` -/
  docBuf : List Nat
  docLen : Nat
  /-- `freq_decoder.output` and `output_len` -/
  tfBuf : List Nat
  tfLen : Nat
  loaded : Bool
  freqOpt : FreqOpt
  docFreq : Nat
  data : List Nat
  skip : SkipReader
deriving Repr, DecidableEq

def padTo (B T : Nat) (l : List Nat) : List Nat := l ++ List.replicate (B - l.length) T

/-- `load_block`: decode the block under the skip reader (a malformed VInt tail makes the code
panic; here the doc buffer is then left padded and empty) -/
def BlockPostings.loadBlock (c : Cfg) (p : BlockPostings) : BlockPostings :=
  if p.loaded then p else
  match p.skip.blockInfo with
  | .bitPacked db strict tb _ =>
    let data := p.data.drop (p.skip.byteOffset.getD 0)
    let raw := c.P.unpack db data
    let docs := if strict then strictIntegrate (offsetOpt p.skip.lastDocInPrev) raw
                else integrate p.skip.lastDocInPrev raw
    let p1 := { p with docBuf := docs, docLen := c.B, loaded := true }
    if p.freqOpt = .readFreq then
      { p1 with tfBuf := (c.P.unpack tb (data.drop (db * c.B / 8))).map (fun x => if strict then x + 1 else x),
                tfLen := c.B }
    else p1
  | .vint n =>
    let data := if n = 0 then [] else p.data.drop (p.skip.byteOffset.getD 0)
    match VInt.decList c.S n data with
    | none => { p with docBuf := List.replicate c.B c.T, docLen := 0, loaded := true }
    | some (ds, rest) =>
      let p1 := { p with docBuf := padTo c.B c.T (integrate p.skip.lastDocInPrev ds), docLen := n, loaded := true }
      if p.freqOpt = .readFreq ∧ 0 < rest.length then
        match VInt.decList c.S n rest with
        | none => p1
        | some (tfs, _) => { p1 with tfBuf := padTo c.B c.T tfs, tfLen := n }
      else p1

/-- `split_into_skips_and_postings` -/
def splitSkips (c : Cfg) (docFreq : Nat) (bytes : List Nat) : Option (List Nat) × List Nat :=
  if docFreq < c.B then (none, bytes)
  else
    match VInt.dec c.S bytes with
    | none => (none, bytes)
    | some (n, r) => (some (r.take n), r.drop n)

/-- the record option `open` settles on: a term of a field with frequencies may itself be stored
without (JSON numbers), recognised by skip entries shorter than 8 bytes -/
def effectiveOpt (c : Cfg) (o : RecOpt) (docFreq : Nat) (skip : Option (List Nat)) : RecOpt :=
  match skip with
  | some sk => if sk.length < 8 * (docFreq / c.B) then .basic else o
  | none => o

/-- `BlockSegmentPostings::open(doc_freq, data, record_option, requested_option)` -/
def BlockPostings.open (c : Cfg) (o req : RecOpt) (docFreq : Nat) (bytes : List Nat) : BlockPostings :=
  let sp := splitSkips c docFreq bytes
  let o' := effectiveOpt c o docFreq sp.1
  let p : BlockPostings :=
    { docBuf := List.replicate c.B c.T, docLen := 0, tfBuf := List.replicate c.B 1, tfLen := 0,
      loaded := false, freqOpt := freqOptOf o' req, docFreq := docFreq, data := sp.2,
      skip := SkipReader.new c (sp.1.getD []) docFreq o' }
  p.loadBlock c

/-- `BlockSegmentPostings::reset(doc_freq, postings_data)`: the decoder buffers, the frequency
reading option and the skip reader's record option are kept -/
def BlockPostings.reset (c : Cfg) (p : BlockPostings) (docFreq : Nat) (bytes : List Nat) : BlockPostings :=
  let sp := splitSkips c docFreq bytes
  let p1 := { p with data := sp.2 }
  let p2 := { p1 with loaded := false }
  let p3 := { p2 with skip := p.skip.reset c (sp.1.getD []) docFreq }
  let p4 := { p3 with docFreq := docFreq }
  p4.loadBlock c

def BlockPostings.advance (c : Cfg) (p : BlockPostings) : BlockPostings :=
  ({ p with skip := p.skip.advance c, loaded := false } : BlockPostings).loadBlock c

/-- `BlockSegmentPostings::seek(target)`: (cursor, in-block index) -/
def BlockPostings.seek (c : Cfg) (p : BlockPostings) (target : Nat) : BlockPostings × Nat :=
  let r := SkipReader.seek c target (p.docFreq / c.B + 2) p.skip
  let p1 : BlockPostings := if r.2 then { p with skip := r.1, loaded := false } else p
  let p2 := p1.loadBlock c
  (p2, searchBlock c p2.docBuf target)

/-- a program of seeks: the doc each one lands on (`doc_decoder.output[idx]`) -/
def BlockPostings.seekAll (c : Cfg) : BlockPostings → List Nat → List Nat
  | _, [] => []
  | p, t :: ts =>
    let r := p.seek c t
    r.1.docBuf.getD r.2 c.T :: BlockPostings.seekAll c r.1 ts

/-- in terms of the doc list: the block the skip reader stops on when it seeks `target` from the
block starting at doc index `n` — it steps over full blocks whose last doc is `< target` -/
def landing (B : Nat) (docs : List Nat) (target : Nat) : Nat → Nat → Nat
  | 0, n => n
  | fuel + 1, n =>
    if B ≤ (docs.drop n).length ∧ ((docs.drop n).take B).getLastD 0 < target then
      landing B docs target fuel (n + B)
    else n

inductive BOp
  | advance
  | seek (t : Nat)
deriving Repr, DecidableEq

/-- a block-level program: after `advance` the first doc of the new block, after `seek` the doc landed on -/
def BlockPostings.runOps (c : Cfg) : BlockPostings → List BOp → List Nat
  | _, [] => []
  | p, .advance :: ops => (p.advance c).docBuf.getD 0 c.T :: BlockPostings.runOps c (p.advance c) ops
  | p, .seek t :: ops =>
    (p.seek c t).1.docBuf.getD (p.seek c t).2 c.T :: BlockPostings.runOps c (p.seek c t).1 ops

/-- the same program on the doc list: `n` is the doc index the current block starts at -/
def specBlockOps (B T : Nat) (docs : List Nat) (fuel : Nat) : Nat → List BOp → List Nat
  | _, [] => []
  | n, .advance :: ops => docs.getD (n + B) T :: specBlockOps B T docs fuel (n + B) ops
  | n, .seek t :: ops =>
    (docs.drop (landing B docs t fuel n)).getD ((docs.drop (landing B docs t fuel n)).countP (· < t)) T ::
      specBlockOps B T docs fuel (landing B docs t fuel n) ops

/-- the program only advances out of full blocks (from the tail block `advance` ends the list) and
seeks targets up to TERMINATED -/
def okBlockOps (B T : Nat) (docs : List Nat) (fuel : Nat) : Nat → List BOp → Prop
  | _, [] => True
  | n, .advance :: ops => B ≤ (docs.drop n).length ∧ okBlockOps B T docs fuel (n + B) ops
  | n, .seek t :: ops => t ≤ T ∧ okBlockOps B T docs fuel (landing B docs t fuel n) ops

def BlockPostings.docs (p : BlockPostings) : List Nat := p.docBuf.take p.docLen
def BlockPostings.freqs (p : BlockPostings) : List Nat := p.tfBuf.take p.tfLen

/-- read block after block until an empty one (`fuel` ≥ number of blocks + 1) -/
def BlockPostings.drain (c : Cfg) : Nat → BlockPostings → List Nat × List Nat
  | 0, _ => ([], [])
  | fuel + 1, p =>
    if p.docs.isEmpty then ([], [])
    else
      let r := BlockPostings.drain c fuel (p.advance c)
      (p.docs ++ r.1, p.freqs ++ r.2)

/-- what a reader can observe without the frequency buffers -/
def BlockPostings.eraseTf (p : BlockPostings) : BlockPostings := { p with tfBuf := [], tfLen := 0 }

end TantivyModel.Postings
