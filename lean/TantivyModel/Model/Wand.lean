import TantivyModel.Model.TopN
/-!
# Block-max WAND drivers (C06)

`block_wand_single_scorer` (src/query/boolean_query/block_wand_union.rs) over a posting list cut
into blocks, each with a stored upper bound (`block_max_score`: the skip entry's
`(fieldnorm_id, tf)` pair evaluated under the query's weight, the true maximum for the last,
VInt-encoded block, `Bm25Weight::max_score` when no block is loaded).

The callback is abstract: any state `σ`, any function `cb : σ → doc → score → σ × threshold`.
The collector of `TopDocs` (`TopNHeap` + returned threshold) is one instance.
No Mathlib.
-/
namespace TantivyModel.Wand
open TantivyModel.TopN

variable {α σ : Type}

/-- one 128-document block of a term's postings: `(doc, score)` in ascending doc order and the
bound the driver reads for it -/
structure Block (α : Type) where
  docs : List (Nat × α)
  blockMax : α

/-- `score > threshold` -/
abbrev gtThr (gt : α → α → Bool) (s : α) (θ : α) : Bool := gt s θ

/-- mirrors: src/query/weight.rs::for_each_pruning_scorer on a list of `(doc, score)` -/
def exhaustive (gt : α → α → Bool) (cb : σ → Nat → α → σ × α) : σ × α → List (Nat × α) → σ × α
  | st, [] => st
  | (s, θ), (d, sc) :: rest =>
    if gt sc θ then exhaustive gt cb (cb s d sc) rest else exhaustive gt cb (s, θ) rest

/-- mirrors: src/query/boolean_query/block_wand_union.rs::block_wand_single_scorer.
`while scorer.block_max_score() <= threshold { skip the block }`, then every document of the
block is scored and offered if `score > threshold`; then the next block. -/
def wandSingle (gt : α → α → Bool) (cb : σ → Nat → α → σ × α) : σ × α → List (Block α) → σ × α
  | st, [] => st
  | (s, θ), b :: rest =>
    if gt b.blockMax θ then wandSingle gt cb (exhaustive gt cb (s, θ) b.docs) rest
    else wandSingle gt cb (s, θ) rest

/-- hypothesis `UB_block`: every score in a block is not above the block's bound -/
def ubBlock (gt : α → α → Bool) (blocks : List (Block α)) : Prop :=
  ∀ b, b ∈ blocks → ∀ p, p ∈ b.docs → gt p.2 b.blockMax = false

/-! ## union of several term scorers: the WAND pivot rule

An abstract model of what `block_wand` may skip: with the scorers sorted by their current doc,
the pivot is the first position at which the prefix sum of the terms' `max_score`s exceeds the
threshold; no document before the pivot document is scored. Scores are natural numbers here
(sums must be exact for the statement; the float sum is a tolerance matter). -/

/-- a term scorer seen by the pivot rule: its remaining postings and its global bound -/
structure TermList where
  postings : List (Nat × Nat)   -- (doc, score), ascending docs
  maxScore : Nat

def TermList.cur (t : TermList) : Option Nat := t.postings.head?.map (·.1)

/-- score of `doc` in a term list (0 if absent) -/
def TermList.scoreOf (t : TermList) (doc : Nat) : Nat :=
  match t.postings.find? (·.1 == doc) with
  | some p => p.2
  | none => 0

/-- mirrors: src/query/boolean_query/block_wand_union.rs::find_pivot_doc on scorers sorted by current doc:
returns the pivot document, or `none` if the sum of all bounds does not exceed the threshold -/
def findPivot (θ : Nat) : List TermList → Nat → Option Nat
  | [], _ => none
  | t :: ts, acc =>
    match t.cur with
    | none => findPivot θ ts acc
    | some d => if θ < acc + t.maxScore then some d else findPivot θ ts (acc + t.maxScore)

/-- a term scorer positioned (by `seek_block`) on the block that may contain the pivot: the
block's stored bound and its last document -/
structure BlockView where
  t : TermList
  blockMax : Nat
  lastDoc : Nat

/-- total score of a document over all term lists -/
def totalScore (ts : List TermList) (doc : Nat) : Nat := (ts.map (·.scoreOf doc)).sum

end TantivyModel.Wand

/-! ## a generic dynamic-pruning machine over a union of posting lists

Every document-at-a-time pruning driver over a union of term scorers (`block_wand`, MaxScore …)
does three kinds of things: it moves ONE scorer forward past documents, it scores the smallest
current document with all the scorers that contain it, or it stops. `Machine` makes the side
conditions explicit; `Proofs/WandMachine.lean` proves that every run whose moves only pass over
*dead* documents (total score not above the current threshold) computes exactly what the
exhaustive loop computes, for every monotone callback. -/
namespace TantivyModel.Wand

abbrev Postings := List (Nat × Nat)

/-- score of `doc` in the remaining postings of one scorer (0 if absent) -/
def scoreIn (p : Postings) (doc : Nat) : Nat :=
  match p.find? (·.1 == doc) with
  | some x => x.2
  | none => 0

/-- total score of a document over the remaining postings of all scorers -/
def unionTotal (ps : List Postings) (doc : Nat) : Nat := (ps.map (scoreIn · doc)).sum

/-- the exhaustive loop over the documents `lo, lo+1, …, lo+n-1`: offer a document iff its total
score is above the threshold (documents with total 0 do not match) -/
def exhRange {σ : Type} (cb : σ → Nat → Nat → σ × Nat) (total : Nat → Nat) :
    Nat → Nat → σ × Nat → σ × Nat
  | _, 0, st => st
  | lo, n + 1, (s, θ) =>
    exhRange cb total (lo + 1) n (if θ < total lo then cb s lo (total lo) else (s, θ))

inductive Action where
  /-- `scorers[i].seek(target)` -/
  | seek (i target : Nat)
  /-- score document `d` (the smallest current document) and advance the scorers positioned on it -/
  | eval (d : Nat)

/-- `seek`: drop the postings before `target` -/
def seekP (p : Postings) (target : Nat) : Postings := p.dropWhile (·.1 < target)

/-- apply `f` to the `i`-th element -/
def modifyAt {β : Type} (f : β → β) : List β → Nat → List β
  | [], _ => []
  | x :: xs, 0 => f x :: xs
  | x :: xs, i + 1 => x :: modifyAt f xs i

/-- does the remaining posting list contain `doc`? -/
def containsDoc (p : Postings) (doc : Nat) : Bool := p.any (·.1 == doc)

/-- total score of a document for a CONJUNCTION of the scorers: the sum if every scorer contains
the document, 0 (no match) otherwise -/
def interTotal (ps : List Postings) (doc : Nat) : Nat :=
  if ps.all (containsDoc · doc) then unionTotal ps doc else 0

/-- run a list of actions; the driver stops after the last one. `total` is how the clause scores
of a document combine (`unionTotal` for a union, `interTotal` for a conjunction). -/
def runMachine {σ : Type} (cb : σ → Nat → Nat → σ × Nat) (total : List Postings → Nat → Nat) :
    List Action → List Postings → σ × Nat → σ × Nat
  | [], _, st => st
  | .seek i t :: rest, ps, st => runMachine cb total rest (modifyAt (seekP · t) ps i) st
  | .eval d :: rest, ps, (s, θ) =>
    runMachine cb total rest (ps.map (seekP · (d + 1)))
      (if θ < total ps d then cb s d (total ps d) else (s, θ))

end TantivyModel.Wand
