import TantivyModel.Model.TopN
/-!
# Block-max WAND drivers (C06)

`block_wand_single_scorer` (src/query/boolean_query/block_wand_union.rs) over a posting list cut
into blocks, each with a stored upper bound (`block_max_score`: the skip entry's
`(fieldnorm_id, tf)` pair evaluated under the query's weight, the true maximum for the last,
VInt-encoded block, `Bm25Weight::max_score` when no block is loaded).

The callback is abstract: any state `σ`, any function `cb : σ → doc → score → σ × threshold`.
The collector of `TopDocs` (`TopNHeap` + returned threshold) is one instance.
No Mathlib.
-/
namespace TantivyModel.Wand
open TantivyModel.TopN

variable {α σ : Type}

/-- one 128-document block of a term's postings: `(doc, score)` in ascending doc order and the
bound the driver reads for it -/
structure Block (α : Type) where
  docs : List (Nat × α)
  blockMax : α

/-- `score > threshold` -/
abbrev gtThr (gt : α → α → Bool) (s : α) (θ : α) : Bool := gt s θ

/-- mirrors: weight.rs::for_each_pruning_scorer on a list of `(doc, score)` -/
def exhaustive (gt : α → α → Bool) (cb : σ → Nat → α → σ × α) : σ × α → List (Nat × α) → σ × α
  | st, [] => st
  | (s, θ), (d, sc) :: rest =>
    if gt sc θ then exhaustive gt cb (cb s d sc) rest else exhaustive gt cb (s, θ) rest

/-- mirrors: block_wand_union.rs::block_wand_single_scorer.
`while scorer.block_max_score() <= threshold { skip the block }`, then every document of the
block is scored and offered if `score > threshold`; then the next block. -/
def wandSingle (gt : α → α → Bool) (cb : σ → Nat → α → σ × α) : σ × α → List (Block α) → σ × α
  | st, [] => st
  | (s, θ), b :: rest =>
    if gt b.blockMax θ then wandSingle gt cb (exhaustive gt cb (s, θ) b.docs) rest
    else wandSingle gt cb (s, θ) rest

/-- hypothesis `UB_block`: every score in a block is not above the block's bound -/
def ubBlock (gt : α → α → Bool) (blocks : List (Block α)) : Prop :=
  ∀ b, b ∈ blocks → ∀ p, p ∈ b.docs → gt p.2 b.blockMax = false

/-! ## union of several term scorers: the WAND pivot rule

An abstract model of what `block_wand` may skip: with the scorers sorted by their current doc,
the pivot is the first position at which the prefix sum of the terms' `max_score`s exceeds the
threshold; no document before the pivot document is scored. Scores are natural numbers here
(sums must be exact for the statement; the float sum is a tolerance matter). -/

/-- a term scorer seen by the pivot rule: its remaining postings and its global bound -/
structure TermList where
  postings : List (Nat × Nat)   -- (doc, score), ascending docs
  maxScore : Nat

def TermList.cur (t : TermList) : Option Nat := t.postings.head?.map (·.1)

/-- score of `doc` in a term list (0 if absent) -/
def TermList.scoreOf (t : TermList) (doc : Nat) : Nat :=
  match t.postings.find? (·.1 == doc) with
  | some p => p.2
  | none => 0

/-- mirrors: block_wand_union.rs::find_pivot_doc on scorers sorted by current doc:
returns the pivot document, or `none` if the sum of all bounds does not exceed the threshold -/
def findPivot (θ : Nat) : List TermList → Nat → Option Nat
  | [], _ => none
  | t :: ts, acc =>
    match t.cur with
    | none => findPivot θ ts acc
    | some d => if θ < acc + t.maxScore then some d else findPivot θ ts (acc + t.maxScore)

/-- a term scorer positioned (by `seek_block`) on the block that may contain the pivot: the
block's stored bound and its last document -/
structure BlockView where
  t : TermList
  blockMax : Nat
  lastDoc : Nat

/-- total score of a document over all term lists -/
def totalScore (ts : List TermList) (doc : Nat) : Nat := (ts.map (·.scoreOf doc)).sum

end TantivyModel.Wand
