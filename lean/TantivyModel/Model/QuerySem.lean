/-
C03 — specification of query matching: `sem : Query → ADoc → Bool` by structural recursion,
`answer` = ids of the live documents of a corpus that satisfy `sem`.

An analysed document (`ADoc`) is what the indexer saw: for every (field, term bytes) the sorted
token positions (supplied by the harness from the real analyzer — tokenisation is C19's subject)
and for every fast field the order-preserving encoded values.

-- mirrors (meaning of): src/query/term_query/term_query.rs, phrase_query/phrase_query.rs,
--   phrase_prefix_query/phrase_prefix_query.rs, range_query/range_query.rs, set_query.rs,
--   exist_query.rs, all_query.rs, empty_query.rs, fuzzy_query.rs, regex_query.rs,
--   boost_query.rs, const_score_query.rs, disjunction_max_query.rs,
--   boolean_query/boolean_query.rs
-/
namespace TantivyModel.QuerySem

abbrev Bytes := List Nat

structure Posting where
  field : Nat
  term : Bytes
  /-- token positions, strictly increasing -/
  positions : List Nat
deriving Repr, DecidableEq, Inhabited

structure ADoc where
  id : Nat
  postings : List Posting
  /-- (fast field, order-preserving encoding of the value) — one entry per value -/
  fast : List (Nat × Nat)
deriving Repr, DecidableEq, Inhabited

inductive Occur | must | should | mustNot
deriving Repr, DecidableEq, Inhabited

/-- range end over term bytes -/
inductive Bnd | incl (b : Bytes) | excl (b : Bytes) | unb
deriving Repr, DecidableEq, Inhabited

/-- range end over encoded fast-field values -/
inductive BndN | incl (v : Nat) | excl (v : Nat) | unb
deriving Repr, DecidableEq, Inhabited

inductive Leaf
  | term (f : Nat) (t : Bytes)
  | phrase (f : Nat) (terms : List (Nat × Bytes)) (slop : Nat)
  | phrasePrefix (f : Nat) (terms : List (Nat × Bytes)) (poff : Nat) (pre : Bytes)
  | rangeTerm (f : Nat) (lo hi : Bnd)
  | rangeFast (f : Nat) (lo hi : BndN)
  | termSet (ts : List (Nat × Bytes))
  | exists_ (f : Nat)
  | all
  | empty
  | fuzzy (f : Nat) (t : Bytes) (d : Nat) (transp : Bool) (pre : Bool)
  /-- regex: the language (restricted to the vocabulary) is a parameter supplied by the harness -/
  | regex (f : Nat) (lang : List Bytes)
deriving Repr, DecidableEq, Inhabited

inductive Query
  | leaf (l : Leaf)
  | boost (q : Query)
  | constScore (q : Query)
  | disMax (qs : List Query)
  | bool (clauses : List (Occur × Query)) (msm : Nat)
deriving Repr, Inhabited

/-! ### byte strings: lexicographic order (term dictionary order) -/

/-- strict lexicographic order on byte strings (a proper prefix is smaller) -/
def blt : Bytes → Bytes → Bool
  | [], [] => false
  | [], _ :: _ => true
  | _ :: _, [] => false
  | a :: as, b :: bs => decide (a < b) || (a == b && blt as bs)

def inRange (lo hi : Bnd) (x : Bytes) : Bool :=
  (match lo with
   | .incl b => !blt x b
   | .excl b => blt b x
   | .unb => true) &&
  (match hi with
   | .incl b => !blt b x
   | .excl b => blt x b
   | .unb => true)

def inRangeN (lo hi : BndN) (x : Nat) : Bool :=
  (match lo with
   | .incl b => decide (b ≤ x)
   | .excl b => decide (b < x)
   | .unb => true) &&
  (match hi with
   | .incl b => decide (x ≤ b)
   | .excl b => decide (x < b)
   | .unb => true)

def isPrefix : Bytes → Bytes → Bool
  | [], _ => true
  | _ :: _, [] => false
  | a :: as, b :: bs => a == b && isPrefix as bs

/-! ### positions -/

def positionsOf (d : ADoc) (f : Nat) (t : Bytes) : List Nat :=
  match d.postings.find? (fun p => p.field == f && p.term == t) with
  | some p => p.positions
  | none => []

def hasTerm (d : ADoc) (f : Nat) (t : Bytes) : Bool :=
  d.postings.any (fun p => p.field == f && p.term == t)

def maxOff : List (Nat × Bytes) → Nat
  | [] => 0
  | (o, _) :: r => max o (maxOff r)

/-- positions of each phrase term shifted so that an exact phrase occurrence gives equal values
(`PostingsWithOffset`: `pos + (max_offset - offset)`) -/
def adjusted (d : ADoc) (f : Nat) (mx : Nat) (terms : List (Nat × Bytes)) : List (List Nat) :=
  terms.map (fun (o, t) => (positionsOf d f t).map (· + (mx - o)))

def dist (a b : Nat) : Nat := if a ≤ b then b - a else a - b

/-- slop 0: one value common to all adjusted position lists -/
def phraseExact : List (List Nat) → Bool
  | [] => false
  | a :: rest => a.any (fun p => rest.all (fun r => r.contains p))

/-- slop > 0, the documented meaning as made precise in DESIGN §7/C03: positions `pᵢ` of term i
with `Σ |adjᵢ₊₁ − adjᵢ| ≤ slop` (carried budget) -/
def slopChain (prev budget : Nat) : List (List Nat) → Bool
  | [] => true
  | a :: rest => a.any (fun p => decide (dist prev p ≤ budget) && slopChain p (budget - dist prev p) rest)

def phraseSlop (adjs : List (List Nat)) (slop : Nat) : Bool :=
  match adjs with
  | [] => false
  | a :: rest => a.any (fun p => slopChain p slop rest)

def semPhrase (d : ADoc) (f : Nat) (terms : List (Nat × Bytes)) (slop : Nat) : Bool :=
  let adjs := adjusted d f (maxOff terms) terms
  if slop = 0 then phraseExact adjs else phraseSlop adjs slop

/-- phrase-prefix: the exact phrase followed (at its offset) by any term of the document that
starts with `pre` -/
def semPhrasePrefix (d : ADoc) (f : Nat) (terms : List (Nat × Bytes)) (poff : Nat) (pre : Bytes) : Bool :=
  let mx := max (maxOff terms) poff
  let adjs := adjusted d f mx terms
  let suffix : List Nat :=
    (d.postings.filter (fun p => p.field == f && isPrefix pre p.term)).flatMap
      (fun p => p.positions.map (· + (mx - poff)))
  match adjs with
  | [] => !suffix.isEmpty
  | _ => phraseExact (suffix :: adjs)

/-! ### edit distance (Wagner–Fischer recurrence; optional adjacent transposition of cost one) -/

/-- row `i` of the table `D[i][j] = dist(c[:i], q[:j])` from rows `i-1` (`r1`) and `i-2` (`r2`) -/
def levNextRow (transp : Bool) (q : List Nat) (ci cprev : Nat) (hasPrev : Bool)
    (r1 r2 : List Nat) (i : Nat) : List Nat :=
  (List.range q.length).foldl (fun row j =>
    let qj := q.getD j 0
    let sub := r1.getD j 0 + (if qj = ci then 0 else 1)
    let del := r1.getD (j + 1) 0 + 1
    let ins := row.getD j 0 + 1
    let base := min sub (min del ins)
    let v := if transp && hasPrev && decide (1 ≤ j) && ci == q.getD (j - 1) 0 && cprev == qj
             then min base (r2.getD (j - 1) 0 + 1) else base
    row ++ [v]) [i]

/-- all rows `D[0] … D[|c|]`, most recent first -/
def levRows (transp : Bool) (q : List Nat) : List Nat → (rows : List (List Nat)) → (cprev : Nat) →
    (hasPrev : Bool) → (i : Nat) → List (List Nat)
  | [], rows, _, _, _ => rows
  | ci :: cs, rows, cprev, hasPrev, i =>
    let r1 := rows.getD 0 []
    let r2 := rows.getD 1 []
    levRows transp q cs (levNextRow transp q ci cprev hasPrev r1 r2 i :: rows) ci true (i + 1)

def levTable (transp : Bool) (c q : List Nat) : List (List Nat) :=
  levRows transp q c [List.range (q.length + 1)] 0 false 1

/-- distance between the whole candidate `c` and the query `q` -/
def editDistance (transp : Bool) (c q : List Nat) : Nat :=
  ((levTable transp c q).getD 0 []).getD q.length 0

/-- prefix mode: the smallest distance between some prefix of the candidate and the query -/
def prefixEditDistance (transp : Bool) (c q : List Nat) : Nat :=
  ((levTable transp c q).map (fun row => row.getD q.length 0)).foldl min (q.length)

/-- UTF-8 decoding to code points (malformed input: bytes are kept as they are); distances are
over characters -/
def utf8Decode : List Nat → List Nat
  | [] => []
  | b0 :: rest =>
    if b0 < 0x80 then b0 :: utf8Decode rest
    else if b0 < 0xE0 then
      match rest with
      | b1 :: r => ((b0 % 32) * 64 + b1 % 64) :: utf8Decode r
      | [] => [b0]
    else if b0 < 0xF0 then
      match rest with
      | b1 :: b2 :: r => ((b0 % 16) * 4096 + (b1 % 64) * 64 + b2 % 64) :: utf8Decode r
      | _ => b0 :: rest
    else
      match rest with
      | b1 :: b2 :: b3 :: r =>
        ((b0 % 8) * 262144 + (b1 % 64) * 4096 + (b2 % 64) * 64 + b3 % 64) :: utf8Decode r
      | _ => b0 :: rest

def fuzzyMatch (t : Bytes) (dmax : Nat) (transp pre : Bool) (cand : Bytes) : Bool :=
  let c := utf8Decode cand
  let q := utf8Decode t
  if pre then decide (prefixEditDistance transp c q ≤ dmax)
  else decide (editDistance transp c q ≤ dmax)

/-! ### leaves -/

def semLeaf (l : Leaf) (d : ADoc) : Bool :=
  match l with
  | .term f t => hasTerm d f t
  | .phrase f terms slop => semPhrase d f terms slop
  | .phrasePrefix f terms poff pre => semPhrasePrefix d f terms poff pre
  | .rangeTerm f lo hi => d.postings.any (fun p => p.field == f && inRange lo hi p.term)
  | .rangeFast f lo hi => d.fast.any (fun (g, v) => g == f && inRangeN lo hi v)
  | .termSet ts => ts.any (fun (f, t) => hasTerm d f t)
  | .exists_ f => d.fast.any (fun (g, _) => g == f)
  | .all => true
  | .empty => false
  | .fuzzy f t dm tr pre => d.postings.any (fun p => p.field == f && fuzzyMatch t dm tr pre p.term)
  | .regex f lang => d.postings.any (fun p => p.field == f && lang.contains p.term)

/-! ### boolean combination -/

def countOcc (o : Occur) (vals : List (Occur × Bool)) : Nat := vals.countP (fun v => v.1 == o)
def countHit (o : Occur) (vals : List (Occur × Bool)) : Nat := vals.countP (fun v => v.1 == o && v.2)

/-- `(∀ must) ∧ (¬∃ must_not) ∧ (#should ≥ msm′)`, `msm′ = msm` except
`msm = 0 ∧ no must ∧ ∃ should → 1`; a query with neither must nor should matches nothing -/
def boolSem (vals : List (Occur × Bool)) (msm : Nat) : Bool :=
  let nMust := countOcc .must vals
  let nShould := countOcc .should vals
  let msm' := if msm = 0 ∧ nMust = 0 ∧ 0 < nShould then 1 else msm
  !(nMust == 0 && nShould == 0)
    && (countHit .must vals == nMust)
    && (countHit .mustNot vals == 0)
    && decide (msm' ≤ countHit .should vals)

mutual
def sem : Query → ADoc → Bool
  | .leaf l, d => semLeaf l d
  | .boost q, d => sem q d
  | .constScore q, d => sem q d
  | .disMax qs, d => semAny qs d
  | .bool cs msm, d => boolSem (semClauses cs d) msm
def semAny : List Query → ADoc → Bool
  | [], _ => false
  | q :: qs, d => sem q d || semAny qs d
def semClauses : List (Occur × Query) → ADoc → List (Occur × Bool)
  | [], _ => []
  | (o, q) :: cs, d => (o, sem q d) :: semClauses cs d
end

/-! ### corpus -/

structure Seg where
  /-- doc id `d` of the segment is `docs[d]` -/
  docs : List ADoc
  /-- alive bitset (`true` = not deleted), same length -/
  alive : List Bool
deriving Repr, Inhabited

abbrev Corpus := List Seg

/-- a segment whose alive bitset covers its documents -/
def Seg.wf (s : Seg) : Prop := s.alive.length = s.docs.length

def Seg.live (s : Seg) : List ADoc :=
  (s.docs.zip s.alive).filterMap (fun (d, a) => if a then some d else none)

def Corpus.live (c : Corpus) : List ADoc := c.flatMap Seg.live

/-- the answer of a query: ids of the live documents that satisfy it -/
def answer (q : Query) (c : Corpus) : List Nat :=
  (c.live.filter (sem q)).map (·.id)

end TantivyModel.QuerySem
