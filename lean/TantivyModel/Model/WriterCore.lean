import TantivyModel.Model.Writer
/-
The sound core of the writer mechanism: ONE logical segment holding every document with the
opstamp of its add operation, the append-only delete queue, and the rule of
`compute_deleted_bitset` / `DocToOpstampMapping::is_deleted` applied at commit:

    a delete with opstamp `o` removes `d`  iff  `d` matches and `opstamp d < o`.

No scheduling is left at this level (workers, cuts, cursors and merges only decide *where* a
document sits and *when* a delete is applied to it; `Proofs/WriterSeg.lean` shows that each of
those steps computes this same rule).  The only internal event is `tick` (a stamp drawn by
`consider_merge_options`).  `delete_all_documents` reverts the stamper exactly as the code does.
-/
namespace TantivyModel.Writer
open TantivyModel.WriterSpec

/-- is the document `p = (d, opstamp)` removed by some delete of `log` under the opstamp rule -/
def dead {α : Type} (log : List (DelOp α)) (p : α × Nat) : Bool :=
  log.any (fun del => del.q p.1 && decide (p.2 < del.op))

structure CState (α : Type) where
  stamper : Nat
  committedOpstamp : Nat
  log : List (DelOp α)
  /-- every document of the index (committed and pending) with its opstamp -/
  docs : List (α × Nat)
  /-- the documents published by the last commit -/
  pub : List (α × Nat)
  pubOpstamp : Nat
  payload : Option Nat

def CState.init {α : Type} : CState α :=
  { stamper := 0, committedOpstamp := 0, log := [], docs := [], pub := [], pubOpstamp := 0, payload := none }

/-- API calls plus `none` = tick -/
def cstep {α : Type} (s : CState α) : Option (Op α) → CState α
  | none => { s with stamper := s.stamper + 1 }
  | some (.add d) => { s with stamper := s.stamper + 1, docs := s.docs ++ [(d, s.stamper)] }
  | some (.del q) => { s with stamper := s.stamper + 1, log := s.log ++ [{ op := s.stamper, q := q }] }
  | some (.batch items) =>
    let r := items.foldl batchItem (s.stamper, s.log, [])
    { s with stamper := r.1 + 1, log := r.2.1, docs := s.docs ++ r.2.2 }
  | some .deleteAll => { s with docs := [], stamper := s.committedOpstamp }
  | some (.commit p) =>
    let alive := s.docs.filter (fun d => !dead s.log d)
    { s with stamper := s.stamper + 1, docs := alive, pub := alive, pubOpstamp := s.stamper, payload := p }
  | some .rollback =>
    { s with stamper := s.pubOpstamp, committedOpstamp := s.pubOpstamp, log := [], docs := s.pub }
  | some .prepare => { s with stamper := s.stamper + 1 }

def crun {α : Type} (s : CState α) (es : List (Option (Op α))) : CState α := es.foldl cstep s

/-- the hypothesis on `delete_all_documents`: the delete queue of the writer is empty (no delete
was issued since the writer was created / re-created) -/
def cleanFrom {α : Type} (s : CState α) : List (Option (Op α)) → Prop
  | [] => True
  | e :: es => (e = some .deleteAll → s.log = []) ∧ cleanFrom (cstep s e) es

end TantivyModel.Writer
