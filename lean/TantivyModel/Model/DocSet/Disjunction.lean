import TantivyModel.Model.DocSet.Spec
/-!
mirrors: src/query/disjunction.rs — `Disjunction` (minimum-should-match): a binary heap of
scorers ordered by current doc; `advance` pops scorers positioned on the smallest doc, counts
them, and stops at the first doc reached by at least `minimum_matches_required` of them.
The heap is represented by a list; `popMin` removes a scorer with the smallest current doc (which
one among equals is not observable). Every other method is the trait default.
-/
namespace TantivyModel.DocSet.Disj

structure State (σ : Type) where
  chains : List σ
  minMatch : Nat
  currentDoc : Nat
  currentScore : Nat
  /-- the running `score_combiner` (SumCombiner) -/
  comb : Nat
  sum : Bool

variable {σ : Type}

def minDoc (C : DS σ) : List σ → Nat
  | [] => TERMINATED + 1
  | c :: cs => min (C.doc c) (minDoc C cs)

/-- `BinaryHeap::pop`: remove one scorer with the smallest current doc -/
def popAt (C : DS σ) (m : Nat) : List σ → Option (σ × List σ)
  | [] => none
  | c :: cs =>
    if C.doc c = m then some (c, cs)
    else match popAt C m cs with
      | some (x, rest) => some (x, c :: rest)
      | none => none

def popMin (C : DS σ) (cs : List σ) : Option (σ × List σ) := popAt C (minDoc C cs) cs

def finish (s : State σ) (k : Nat) : State σ :=
  let s1 := if k < s.minMatch then { s with currentDoc := TERMINATED } else s
  { s1 with currentScore := if s.sum then s.comb else 1 }

/-- mirrors: src/query/disjunction.rs::Disjunction::advance (`while let Some(candidate) = pop()`) -/
def advLoop (C : DS σ) : Nat → State σ → Nat → State σ
  | 0, s, k => finish s k
  | n + 1, s, k =>
    match popMin C s.chains with
    | none => finish s k
    | some (c, rest) =>
      let next := C.doc c
      if next = TERMINATED then advLoop C n { s with chains := rest } k
      else if s.currentDoc ≠ next ∧ k ≥ s.minMatch then
        { s with chains := c :: rest, currentScore := if s.sum then s.comb else 1 }
      else
        let (s1, k1) := if s.currentDoc ≠ next then ({ s with currentDoc := next, comb := 0 }, 0) else (s, k)
        let r := if s.sum then C.score c else (0, c)
        advLoop C n { s1 with comb := s1.comb + r.1, chains := C.advance r.2 :: rest } (k1 + 1)

/-- every iteration either drops a scorer or consumes one document of one scorer; the fuel is
supplied by the caller (`TERMINATED + 1` per scorer would do; the driver passes a bound computed
from the number of scorers) -/
def advance (C : DS σ) (s : State σ) : State σ := advLoop C (FUEL * (s.chains.length + 1)) s 0

def doc (s : State σ) : Nat := s.currentDoc

/-- mirrors: src/query/disjunction.rs::Disjunction::new -/
def new (C : DS σ) (sum : Bool) (minMatch : Nat) (cs : List σ) : State σ :=
  let s0 : State σ := { chains := cs, minMatch := minMatch, currentDoc := TERMINATED, currentScore := 0,
                         comb := 0, sum := sum }
  if minMatch > cs.length then s0 else advance C s0

def ds (C : DS σ) : DS (State σ) :=
  DS.ofCore doc (advance C) (defaultSeek doc (advance C)) (fun s => (s.currentScore, s))

end TantivyModel.DocSet.Disj
