import TantivyModel.Model.DocSet.Spec
/-!
mirrors: src/query/intersection.rs — `Intersection { left, right, others }` with the leap-frog
`advance` (left `seek`, the others `seek_danger`), `seek` via `go_to_first_doc`, `seek_danger`,
sparse / dense `count_including_deleted`. The children arrive already ordered by `cost()`
(`intersect_scorers` sorts; the refinement theorem holds for every order).
-/
namespace TantivyModel.DocSet.Inter

structure State (σ : Type) where
  left : σ
  right : σ
  others : List σ
  /-- which branch `count_including_deleted` takes:
  `left.size_hint() * DENSITY_THRESHOLD_INVERSE >= segment_num_docs` -/
  dense : Bool := false

variable {σ : Type}

def maxDoc (C : DS σ) (ds : List σ) : Nat := ds.foldr (fun c m => max (C.doc c) m) 0

/-- inner `for` of `go_to_first_doc`: seek every docset to `cand`, stop at the first overshoot -/
def seekAll (C : DS σ) (cand : Nat) : List σ → Option Nat × List σ
  | [] => (none, [])
  | d :: ds =>
    let d' := C.seek cand d
    if C.doc d' > cand then (some (C.doc d'), d' :: ds)
    else let r := seekAll C cand ds; (r.1, d' :: r.2)

/-- mirrors: src/query/intersection.rs::go_to_first_doc (`'outer` loop) -/
def goLoop (C : DS σ) : Nat → Nat → List σ → Nat × List σ
  | 0, cand, ds => (cand, ds)
  | n + 1, cand, ds =>
    match seekAll C cand ds with
    | (some c', ds') => goLoop C n c' ds'
    | (none, ds') => (cand, ds')

def goToFirstDoc (C : DS σ) (ds : List σ) : List σ := (goLoop C FUEL (maxDoc C ds) ds).2

def ofList (dense : Bool) (dflt : State σ) : List σ → State σ
  | l :: r :: os => { left := l, right := r, others := os, dense := dense }
  | _ => dflt

def toList (s : State σ) : List σ := s.left :: s.right :: s.others

/-- mirrors: src/query/intersection.rs::Intersection::new (docsets already sorted by cost) -/
def new (C : DS σ) (dense : Bool) (l r : σ) (os : List σ) : State σ :=
  let s0 : State σ := { left := l, right := r, others := os, dense := dense }
  ofList dense s0 (goToFirstDoc C (toList s0))

/-- `seek_danger(candidate)` on the `others`, stop at the first miss -/
def dangerAll (C : DS σ) (cand : Nat) : List σ → Option Nat × List σ
  | [] => (none, [])
  | d :: ds =>
    match C.seekDanger cand d with
    | (.lower b, d') => (some b, d' :: ds)
    | (.found, d') => let r := dangerAll C cand ds; (r.1, d' :: r.2)

/-- mirrors: src/query/intersection.rs::advance (`'outer: while candidate < TERMINATED`) -/
def advLoop (C : DS σ) : Nat → Nat → State σ → State σ
  | 0, _, s => s
  | n + 1, cand, s =>
    if cand < TERMINATED then
      let l' := C.seek cand s.left
      let cand := C.doc l'
      match C.seekDanger cand s.right with
      | (.lower b, r') => advLoop C n b { s with left := l', right := r' }
      | (.found, r') =>
        match dangerAll C cand s.others with
        | (some b, os') => advLoop C n b { s with left := l', right := r', others := os' }
        | (none, os') => { s with left := l', right := r', others := os' }
    else { s with left := C.seek TERMINATED s.left }

def advance (C : DS σ) (s : State σ) : State σ := advLoop C FUEL (C.doc s.left + 1) s

/-- mirrors: src/query/intersection.rs::seek -/
def seek (C : DS σ) (t : Nat) (s : State σ) : State σ :=
  let s1 := { s with left := C.seek t s.left }
  ofList s.dense s1 (goToFirstDoc C (toList s1))

/-- mirrors: src/query/intersection.rs::seek_danger -/
def seekDanger (C : DS σ) (t : Nat) (s : State σ) : SD × State σ :=
  match C.seekDanger t s.left with
  | (.lower b, l') => (.lower b, { s with left := l' })
  | (.found, l') =>
    match C.seekDanger t s.right with
    | (.lower b, r') => (.lower b, { s with left := l', right := r' })
    | (.found, r') =>
      match dangerAll C t s.others with
      | (some b, os') => (.lower b, { s with left := l', right := r', others := os' })
      | (none, os') => (.found, { s with left := l', right := r', others := os' })

def doc (C : DS σ) (s : State σ) : Nat := C.doc s.left

def inter (a b : List Nat) : List Nat := a.filter (fun x => b.contains x)

/-- the `for other in &mut self.others` of the dense count (its `continue` is a no-op) -/
def denseOthers (C : DS σ) (base : Nat) : List σ → List Nat → Nat → (List Nat × Nat) × List σ
  | [], mask, nb => ((mask, nb), [])
  | o :: os, mask, nb =>
    let r := C.fillBitset base o
    let q := denseOthers C base os (inter mask r.1.1) (max nb r.1.2)
    (q.1, r.2 :: q.2)

/-- mirrors: src/query/intersection.rs::count_including_deleted_dense -/
def denseLoop (C : DS σ) : Nat → Nat → Nat → State σ → Nat × State σ
  | 0, _, cnt, s => (cnt, s)
  | n + 1, nb, cnt, s =>
    if nb < TERMINATED then
      let base := nb
      let rl := C.fillBitset base s.left
      let nb := max nb rl.1.2
      let rr := C.fillBitset base s.right
      let nb := max nb rr.1.2
      let mask := inter rl.1.1 rr.1.1
      let s1 := { s with left := rl.2, right := rr.2 }
      if mask.isEmpty then denseLoop C n nb cnt s1
      else
        let q := denseOthers C base s.others mask nb
        denseLoop C n q.1.2 (cnt + q.1.1.length) { s1 with others := q.2 }
    else (cnt, s)

/-- mirrors: src/query/intersection.rs::count_including_deleted -/
def count (fx : Fix) (C : DS σ) (s : State σ) : Nat × State σ :=
  if s.dense then
    let r := denseLoop C FUEL (C.doc s.left) 0 s
    if fx.interCountEnd then (r.1, { r.2 with left := C.seek TERMINATED r.2.left }) else r
  else defaultCount (doc C) (advance C) s

def scoreAll (C : DS σ) : List σ → Nat × List σ
  | [] => (0, [])
  | d :: ds => let r := C.score d; let q := scoreAll C ds; (r.1 + q.1, r.2 :: q.2)

def ds (C : DS σ) (fx : Fix := {}) : DS (State σ) where
  doc := doc C
  advance := advance C
  seek := seek C
  seekDanger := seekDanger C
  fillBuffer := defaultFillBuffer (doc C) (advance C)
  fillBitset := defaultFillBitset (doc C) (advance C) (seek C)
  count := count fx C
  score := fun s =>
    let r := scoreAll C (toList s)
    (r.1, ofList s.dense s r.2)

end TantivyModel.DocSet.Inter
