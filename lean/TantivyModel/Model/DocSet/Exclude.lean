import TantivyModel.Model.DocSet.Spec
/-!
mirrors: src/query/exclude.rs — `Exclude<TDocSet, Vec<TExclusion>>` (a single exclusion set is
the one-element list). Only `advance`, `seek`, `doc` are overridden; the rest are trait defaults.
-/
namespace TantivyModel.DocSet.Exclude

structure State (σ τ : Type) where
  u : σ
  excl : List τ

variable {σ τ : Type}

/-- mirrors: src/query/exclude.rs::ExclusionSet for Vec<TDocSet>::contains (stops at the first hit) -/
def contains (E : DS τ) (d : Nat) : List τ → Bool × List τ
  | [] => (false, [])
  | e :: es =>
    match E.seekDanger d e with
    | (.found, e') => (true, e' :: es)
    | (.lower _, e') => let r := contains E d es; (r.1, e' :: r.2)

/-- mirrors: src/query/exclude.rs::Exclude::advance -/
def advLoop (U : DS σ) (E : DS τ) : Nat → State σ τ → State σ τ
  | 0, s => s
  | n + 1, s =>
    let u' := U.advance s.u
    if U.doc u' = TERMINATED then { s with u := u' }
    else
      let r := contains E (U.doc u') s.excl
      if r.1 then advLoop U E n { u := u', excl := r.2 } else { u := u', excl := r.2 }

def advance (U : DS σ) (E : DS τ) (s : State σ τ) : State σ τ := advLoop U E FUEL s

/-- mirrors: src/query/exclude.rs::Exclude::seek -/
def seek (U : DS σ) (E : DS τ) (t : Nat) (s : State σ τ) : State σ τ :=
  let u' := U.seek t s.u
  if U.doc u' = TERMINATED then { s with u := u' }
  else
    let r := contains E (U.doc u') s.excl
    if r.1 then advance U E { u := u', excl := r.2 } else { u := u', excl := r.2 }

def doc (U : DS σ) (s : State σ τ) : Nat := U.doc s.u

/-- mirrors: src/query/exclude.rs::Exclude::new -/
def newLoop (U : DS σ) (E : DS τ) : Nat → State σ τ → State σ τ
  | 0, s => s
  | n + 1, s =>
    if U.doc s.u = TERMINATED then s
    else
      let r := contains E (U.doc s.u) s.excl
      if r.1 then newLoop U E n { u := U.advance s.u, excl := r.2 } else { s with excl := r.2 }

def new (U : DS σ) (E : DS τ) (u : σ) (excl : List τ) : State σ τ :=
  newLoop U E FUEL { u := u, excl := excl }

def ds (U : DS σ) (E : DS τ) : DS (State σ τ) :=
  DS.ofCore (doc U) (advance U E) (seek U E)
    (fun s => let r := U.score s.u; (r.1, { s with u := r.2 }))

end TantivyModel.DocSet.Exclude
