import TantivyModel.Model.DocSet.Spec
/-!
Leaf document set backed by a sorted vector, every method but `doc`/`advance` is the trait
default. mirrors: src/query/vec_docset.rs::VecDocSet (the harness-side `VecScorer` is a
transcription of it with a constant score, as `ConstScorer<VecDocSet>`).
The pair (doc_ids, cursor) is represented by the suffix `doc_ids[cursor..]`.
-/
namespace TantivyModel.DocSet.Vec

structure State where
  rest : List Nat
  score : Nat := 1

/-- mirrors: src/query/vec_docset.rs::doc -/
def doc (s : State) : Nat := s.rest.headD TERMINATED

/-- mirrors: src/query/vec_docset.rs::advance -/
def advance (s : State) : State := { s with rest := s.rest.tail }

def ds : DS State := DS.ofCore doc advance (defaultSeek doc advance) (fun s => (s.score, s))

def init (docs : List Nat) (score : Nat) : State := { rest := docs, score := score }

end TantivyModel.DocSet.Vec
