import TantivyModel.Gen.DocSet
/-!
# DocSet — specification cursor, implementation interface, refinement contract (C13, C03, C06)

* `Spec`: the promise made to a user of `DocSet` (src/docset.rs): a cursor over one strictly
  increasing list of doc ids. The whole state is the list of *remaining* documents.
* `DS σ`: the operations of an implementation-level model with state `σ`.
* `Lawful D V W`: the refinement contract. `V s l`: `s` is a valid state whose remaining
  documents are `l`. `W s t₀ l`: `s` is in the "danger zone" left by a `seek_danger t₀` that did
  not find `t₀`; its remaining documents are `l` (all `> t₀`), `doc` is only a lower bound.
  Every combinator model is proved `Lawful` *assuming only* `Lawful` of its children, so the
  results compose for nestings.
-/
namespace TantivyModel.DocSet

/-- mirrors: src/docset.rs::TERMINATED -/
def TERMINATED : Nat := Gen.TERMINATED
/-- mirrors: src/docset.rs::COLLECT_BLOCK_BUFFER_LEN -/
def BUFLEN : Nat := Gen.COLLECT_BLOCK_BUFFER_LEN
/-- mirrors: src/docset.rs::BLOCK_WINDOW -/
def BLOCK_WINDOW : Nat := Gen.BLOCK_WINDOW

/-- a legal document sequence: strictly increasing, every id below the end marker -/
def Sorted (l : List Nat) : Prop := l.Pairwise (· < ·) ∧ ∀ x ∈ l, x < TERMINATED

/-- result of `seek_danger` (src/docset.rs::SeekDangerResult) -/
inductive SD where
  | found
  | lower (b : Nat)
  deriving Repr, DecidableEq

namespace Spec
def doc (l : List Nat) : Nat := l.headD TERMINATED
def advance (l : List Nat) : List Nat := l.tail
/-- `seek t`: the first document `≥ t` -/
def seek (t : Nat) (l : List Nat) : List Nat := l.dropWhile (· < t)
def fillBuffer (l : List Nat) : List Nat × List Nat := (l.take BUFLEN, l.drop BUFLEN)
/-- members of `[m, m + BLOCK_WINDOW)` and what remains -/
def fillBitset (m : Nat) (l : List Nat) : List Nat × List Nat :=
  ((seek m l).takeWhile (· < m + BLOCK_WINDOW), seek (m + BLOCK_WINDOW) (seek m l))
def count (l : List Nat) : Nat := l.length
end Spec

/-- hypotheses of the `…_partial` theorems that the real code violates (KNOWN_FINDINGS.txt), as
switches of the implementation-level model: with a switch on, the model behaves as the code would
with that defect repaired. All off = the code as it is. Used by the harness to attribute a
deviation to a known finding: the model as-is must reproduce the real observations, and the model
with exactly that hypothesis enforced must reproduce the specification's. -/
structure Fix where
  /-- finding 5: `BufferedUnionScorer::seek_danger` treats `target < window_start` as buffered -/
  dangerWindow : Bool := false
  /-- finding 1 (S4): `fill_buffer` clears the combiners of the slots it drains -/
  fillClear : Bool := false
  /-- finding 2: `fill_buffer` refreshes `self.score` for the document it leaves the cursor on -/
  fillScore : Bool := false
  /-- finding 3: the union's `count_including_deleted` leaves `doc() = TERMINATED` -/
  unionCountEnd : Bool := false
  /-- finding 8: the dense intersection count leaves `doc() = TERMINATED` -/
  interCountEnd : Bool := false
  /-- finding 4: `BitSetDocSet::seek` past `max_value` also exhausts the cursor -/
  bitsetSticky : Bool := false
  /-- finding 9: the out-of-horizon branch of `BufferedUnionScorer::seek` re-validates every child
  (`child.seek(max(child.doc(), target))`) instead of reading `doc()` of children that its own
  `seek_danger` may have left in their danger zone -/
  childRevalidate : Bool := false

/-- the operations of an implementation-level model (all total; `&mut self` = returned state) -/
structure DS (σ : Type) where
  doc : σ → Nat
  advance : σ → σ
  seek : Nat → σ → σ
  seekDanger : Nat → σ → SD × σ
  fillBuffer : σ → List Nat × σ
  /-- returns (bits set relative to the block start are reported as absolute doc ids, next doc) -/
  fillBitset : Nat → σ → (List Nat × Nat) × σ
  count : σ → Nat × σ
  /-- `score(&mut self)`; scores are natural numbers (the harness uses small integer scores,
  for which f32 addition is exact and order independent) -/
  score : σ → Nat × σ

/-! ## default method bodies of the trait (src/docset.rs), parametric in `doc`/`advance`/`seek`.
Loops carry a fuel argument; every caller passes `TERMINATED + 1`, which the laws below show to
be enough (a strictly increasing sequence below `TERMINATED` has at most `TERMINATED` elements). -/

/-- mirrors: src/docset.rs::DocSet::seek (default body) -/
def loopSeek (doc : σ → Nat) (adv : σ → σ) (t : Nat) : Nat → σ → σ
  | 0, s => s
  | n + 1, s => if doc s < t then loopSeek doc adv t n (adv s) else s

def FUEL : Nat := TERMINATED + 1

def defaultSeek (doc : σ → Nat) (adv : σ → σ) (t : Nat) (s : σ) : σ := loopSeek doc adv t FUEL s

/-- mirrors: src/docset.rs::DocSet::seek_danger (default body) -/
def defaultSeekDanger (doc : σ → Nat) (seek : Nat → σ → σ) (t : Nat) (s : σ) : SD × σ :=
  if t ≥ TERMINATED then (.lower t, s)
  else
    let s' := if doc s < t then seek t s else s
    if doc s' = t then (.found, s') else (.lower (doc s'), s')

/-- mirrors: src/docset.rs::DocSet::fill_buffer (default body): `n` = free slots -/
def loopFill (doc : σ → Nat) (adv : σ → σ) : Nat → σ → List Nat × σ
  | 0, s => ([], s)
  | n + 1, s =>
    let d := doc s
    let s' := adv s
    if doc s' = TERMINATED then ([d], s')
    else let r := loopFill doc adv n s'; (d :: r.1, r.2)

def defaultFillBuffer (doc : σ → Nat) (adv : σ → σ) (s : σ) : List Nat × σ :=
  if doc s = TERMINATED then ([], s) else loopFill doc adv BUFLEN s

/-- mirrors: src/docset.rs::DocSet::fill_bitset_block (default body, after the initial seek) -/
def loopBitset (doc : σ → Nat) (adv : σ → σ) (horizon : Nat) : Nat → σ → (List Nat × Nat) × σ
  | 0, s => (([], doc s), s)
  | n + 1, s =>
    let d := doc s
    if d ≥ horizon then (([], d), s)
    else
      let s' := adv s
      if doc s' = TERMINATED then (([d], TERMINATED), s')
      else let r := loopBitset doc adv horizon n s'; ((d :: r.1.1, r.1.2), r.2)

def defaultFillBitset (doc : σ → Nat) (adv : σ → σ) (seek : Nat → σ → σ) (m : Nat) (s : σ) :
    (List Nat × Nat) × σ :=
  loopBitset doc adv (m + BLOCK_WINDOW) FUEL (seek m s)

/-- mirrors: src/docset.rs::DocSet::count_including_deleted (default body) -/
def loopCount (doc : σ → Nat) (adv : σ → σ) : Nat → σ → Nat × σ
  | 0, s => (0, s)
  | n + 1, s =>
    if doc s = TERMINATED then (0, s)
    else let r := loopCount doc adv n (adv s); (r.1 + 1, r.2)

def defaultCount (doc : σ → Nat) (adv : σ → σ) (s : σ) : Nat × σ := loopCount doc adv FUEL s

/-- an implementation that overrides nothing but `doc`/`advance` (and a constant score) -/
def DS.ofCore (doc : σ → Nat) (adv : σ → σ) (seek : Nat → σ → σ) (score : σ → Nat × σ) : DS σ where
  doc := doc
  advance := adv
  seek := seek
  seekDanger := defaultSeekDanger doc seek
  fillBuffer := defaultFillBuffer doc adv
  fillBitset := defaultFillBitset doc adv seek
  count := defaultCount doc adv
  score := score

/-! ## the refinement contract -/

/-- what `seek_danger t` must deliver on a set whose remaining documents are `l`; `ub` is the
condition under which the returned lower bound is also promised to be `≤` the seek result -/
def SDPost (V : σ → List Nat → Prop) (W : σ → Nat → List Nat → Prop)
    (l : List Nat) (t : Nat) (ub : Prop) (r : SD × σ) : Prop :=
  match r with
  | (.found, s') => t ∈ l ∧ V s' (Spec.seek t l)
  | (.lower b, s') => t ∉ l ∧ W s' t (Spec.seek t l) ∧ (t < b ∨ b = TERMINATED)
      ∧ b ≤ TERMINATED ∧ (ub → b ≤ Spec.doc (Spec.seek t l))

/-- `D` refines the specification cursor through the relations `V` (valid) and `W` (danger). -/
structure Lawful (D : DS σ) (V : σ → List Nat → Prop) (W : σ → Nat → List Nat → Prop) : Prop where
  sorted : ∀ {s l}, V s l → Sorted l
  doc_eq : ∀ {s l}, V s l → D.doc s = Spec.doc l
  advance : ∀ {s l}, V s l → V (D.advance s) (Spec.advance l)
  seek : ∀ {s l t}, V s l → D.doc s ≤ t → t ≤ TERMINATED → V (D.seek t s) (Spec.seek t l)
  fillBuffer : ∀ {s l}, V s l →
    (D.fillBuffer s).1 = (Spec.fillBuffer l).1 ∧ V (D.fillBuffer s).2 (Spec.fillBuffer l).2
  fillBitset : ∀ {s l m}, V s l → D.doc s ≤ m → m + BLOCK_WINDOW ≤ TERMINATED →
    (D.fillBitset m s).1 = ((Spec.fillBitset m l).1, Spec.doc (Spec.fillBitset m l).2)
      ∧ V (D.fillBitset m s).2 (Spec.fillBitset m l).2
  count : ∀ {s l}, V s l → (D.count s).1 = Spec.count l
  /-- danger zone: remaining documents are all beyond the missed target, `doc` is a lower bound -/
  wsorted : ∀ {s t0 l}, W s t0 l → Sorted l ∧ ∀ x ∈ l, t0 < x
  wdoc : ∀ {s t0 l}, W s t0 l → D.doc s ≤ Spec.doc l
  /-- a `seek` from the danger zone re-validates (needed by callers such as
  `Intersection::seek` and the out-of-horizon branch of `BufferedUnionScorer::seek`) -/
  wseek : ∀ {s t0 l t}, W s t0 l → t0 ≤ t → D.doc s ≤ t → t ≤ TERMINATED →
    V (D.seek t s) (Spec.seek t l)
  /-- `seek_danger t` from a valid state, for any `t` (also below the current document, as
  `Exclude` and `BufferedUnionScorer::seek_danger` call it): the lower bound is never beyond the
  next member -/
  sdV : ∀ {s l t}, V s l → t ≤ TERMINATED → SDPost V W l t True (D.seekDanger t s)
  /-- `seek_danger t` from the danger zone of an earlier target `t0 ≤ t` -/
  sdW : ∀ {s t0 l t}, W s t0 l → t0 ≤ t → t ≤ TERMINATED → SDPost V W l t True (D.seekDanger t s)

/-! ## call programs -/

inductive Op where
  | doc | advance | seek (t : Nat) | seekDanger (t : Nat) | fillBuffer | fillBitset (m : Nat)
  | count
  deriving Repr

inductive Out where
  | doc (d : Nat) | buf (ds : List Nat) | block (ds : List Nat) (next : Nat) | count (n : Nat)
  | sd (found : Bool)
  deriving Repr, DecidableEq

/-- abstract state of the specification while a program runs: the remaining documents and,
after a `seek_danger` miss, the missed target -/
structure SpecState where
  rest : List Nat
  danger : Option Nat := none

/-- legality of the next call (the preconditions written in the trait documentation);
`count_including_deleted` consumes the set, so it is only legal as the last call -/
def legalOp (a : SpecState) : Op → Bool
  | .doc | .advance | .fillBuffer => a.danger.isNone
  | .seek t => a.danger.isNone && Spec.doc a.rest ≤ t && t ≤ TERMINATED
  | .fillBitset m => a.danger.isNone && Spec.doc a.rest ≤ m && m + BLOCK_WINDOW ≤ TERMINATED
  | .count => a.danger.isNone
  | .seekDanger t =>
    t ≤ TERMINATED && (match a.danger with | none => Spec.doc a.rest ≤ t | some t0 => t0 < t)

def specStep (a : SpecState) : Op → Out × SpecState
  | .doc => (.doc (Spec.doc a.rest), a)
  | .advance => (.doc (Spec.doc (Spec.advance a.rest)), ⟨Spec.advance a.rest, none⟩)
  | .seek t => (.doc (Spec.doc (Spec.seek t a.rest)), ⟨Spec.seek t a.rest, none⟩)
  | .seekDanger t =>
    if t ∈ a.rest then (.sd true, ⟨Spec.seek t a.rest, none⟩)
    else (.sd false, ⟨Spec.seek t a.rest, some t⟩)
  | .fillBuffer => (.buf (Spec.fillBuffer a.rest).1, ⟨(Spec.fillBuffer a.rest).2, none⟩)
  | .fillBitset m =>
    (.block (Spec.fillBitset m a.rest).1 (Spec.doc (Spec.fillBitset m a.rest).2),
      ⟨(Spec.fillBitset m a.rest).2, none⟩)
  | .count => (.count (Spec.count a.rest), ⟨[], none⟩)

def implStep (D : DS σ) (s : σ) : Op → Out × σ
  | .doc => (.doc (D.doc s), s)
  | .advance => let s' := D.advance s; (.doc (D.doc s'), s')
  | .seek t => let s' := D.seek t s; (.doc (D.doc s'), s')
  | .seekDanger t =>
    match D.seekDanger t s with
    | (.found, s') => (.sd true, s')
    | (.lower _, s') => (.sd false, s')
  | .fillBuffer => let r := D.fillBuffer s; (.buf r.1, r.2)
  | .fillBitset m => let r := D.fillBitset m s; (.block r.1.1 r.1.2, r.2)
  | .count => let r := D.count s; (.count r.1, r.2)

/-- a legal program: every call legal in the state reached, `count` only as the last call -/
def legalProg (a : SpecState) : List Op → Bool
  | [] => true
  | op :: rest =>
    legalOp a op && (match op with | .count => rest.isEmpty | _ => true)
      && legalProg (specStep a op).2 rest

def specRun (a : SpecState) : List Op → List Out
  | [] => []
  | op :: rest => (specStep a op).1 :: specRun (specStep a op).2 rest

def implRun (D : DS σ) (s : σ) : List Op → List Out
  | [] => []
  | op :: rest => (implStep D s op).1 :: implRun D (implStep D s op).2 rest

end TantivyModel.DocSet
