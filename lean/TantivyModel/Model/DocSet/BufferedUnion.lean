import TantivyModel.Model.DocSet.Spec
/-!
mirrors: src/query/union/buffered_union.rs — `BufferedUnionScorer`.

The window of `HORIZON` documents starting at `window_start_doc` is an array of
`HORIZON / 64` 64-bit buckets (`TinySet`) plus one score combiner per slot. The model is
parametric in `H` (= HORIZON, a multiple of 64; `Gen.UNION_HORIZON` in the driver and the
instantiated theorems). The bucket array is represented by the strictly increasing list
`window` of the set bits `delta = 64 * bucket + bit` (bucket `b` = the deltas with
`delta / 64 = b`; that this list view is what the translated `TinySet` words compute —
`insert_mut` = `insertDelta`, `pop_lowest` = `popBucket` — is proved in Proofs/DocSet/TinySetBridge.lean,
`C13_src_window_*`); the cursor `bucket_idx` and all bucket arithmetic are kept. Combiners: `SumCombiner`
(`sum = true`, one natural number per slot) or `DoNothingCombiner` (`score() = 1`).
-/
namespace TantivyModel.DocSet.BUnion

structure State (σ : Type) where
  docsets : List σ
  window : List Nat
  bucketIdx : Nat
  scores : Array Nat
  ws : Nat
  doc : Nat
  score : Nat
  sum : Bool

variable {σ : Type}

def NB (H : Nat) : Nat := H / 64

/-- `TinySet::insert_mut` on bucket `delta / 64`, bit `delta % 64` -/
def insertDelta (δ : Nat) : List Nat → List Nat
  | [] => [δ]
  | x :: xs => if δ < x then δ :: x :: xs else if δ = x then x :: xs else x :: insertDelta δ xs

/-- `TinySet::pop_lowest` on bucket `b` -/
def popBucket (b : Nat) : List Nat → Option (Nat × List Nat)
  | [] => none
  | x :: xs =>
    if x / 64 = b then some (x, xs)
    else match popBucket b xs with
      | some (y, ys) => some (y, x :: ys)
      | none => none

/-- the guard of `refill`'s closure, regenerated from the source (`doc >= horizon`) -/
def refillStop (d hz : Nat) : Bool :=
  if Gen.UNION_REFILL_STOP_INCLUSIVE = 1 then decide (hz ≤ d) else decide (hz < d)

/-- the guard of the buffered branch of `seek`, regenerated from the source (`gap < HORIZON`) -/
def inHorizonGap (gap H : Nat) : Bool :=
  if Gen.UNION_SEEK_IN_HORIZON_STRICT = 1 then decide (gap < H) else decide (gap ≤ H)

/-- mirrors: src/query/union/buffered_union.rs::refill (closure body: drain one scorer into the
window; `none` = the scorer is exhausted and removed) -/
def drain (C : DS σ) (H minDoc : Nat) (sum : Bool) :
    Nat → σ → List Nat → Array Nat → Option σ × List Nat × Array Nat
  | 0, c, w, sc => (some c, w, sc)
  | n + 1, c, w, sc =>
    let d := C.doc c
    if refillStop d (minDoc + H) then (some c, w, sc)
    else
      let δ := d - minDoc
      let r := if sum then C.score c else (0, c)
      let sc' := if sum then sc.modify δ (· + r.1) else sc
      let c' := C.advance r.2
      if C.doc c' = TERMINATED then (none, insertDelta δ w, sc')
      else drain C H minDoc sum n c' (insertDelta δ w) sc'

/-- `unordered_drain_filter(scorers, …)`; the model keeps the order (not observable) -/
def refillAll (C : DS σ) (H minDoc : Nat) (sum : Bool) :
    List σ → List Nat → Array Nat → List σ × List Nat × Array Nat
  | [], w, sc => ([], w, sc)
  | c :: cs, w, sc =>
    match drain C H minDoc sum (H + 1) c w sc with
    | (some c', w', sc') => let r := refillAll C H minDoc sum cs w' sc'; (c' :: r.1, r.2.1, r.2.2)
    | (none, w', sc') => refillAll C H minDoc sum cs w' sc'

def minDoc (C : DS σ) : List σ → Nat
  | [] => TERMINATED
  | [c] => C.doc c
  | c :: cs => min (C.doc c) (minDoc C cs)

/-- mirrors: src/query/union/buffered_union.rs::BufferedUnionScorer::refill -/
def refill (C : DS σ) (H : Nat) (s : State σ) : Option (State σ) :=
  if s.docsets.isEmpty then none
  else
    let m := minDoc C s.docsets
    let r := refillAll C H m s.sum s.docsets s.window s.scores
    some { s with ws := m, bucketIdx := 0, doc := m, docsets := r.1, window := r.2.1, scores := r.2.2 }

/-- mirrors: src/query/union/buffered_union.rs::advance_buffered -/
def advBuf (H : Nat) : Nat → State σ → Bool × State σ
  | 0, s => (false, s)
  | n + 1, s =>
    if s.bucketIdx < NB H then
      match popBucket s.bucketIdx s.window with
      | some (δ, w') =>
        (true, { s with window := w', doc := s.ws + δ,
                        score := if s.sum then s.scores.getD δ 0 else 1,
                        scores := if s.sum then s.scores.setIfInBounds δ 0 else s.scores })
      | none => advBuf H n { s with bucketIdx := s.bucketIdx + 1 }
    else (false, s)

/-- mirrors: src/query/union/buffered_union.rs::advance -/
def advance (C : DS σ) (H : Nat) (s : State σ) : State σ :=
  match advBuf H (NB H + 1) s with
  | (true, s') => s'
  | (false, s') =>
    match refill C H s' with
    | none => { s' with doc := TERMINATED }
    | some s'' => (advBuf H (NB H + 1) s'').2

/-- mirrors: src/query/union/buffered_union.rs::BufferedUnionScorer::build -/
def build (C : DS σ) (H : Nat) (sum : Bool) (ds : List σ) : State σ :=
  let s0 : State σ :=
    { docsets := ds.filter (fun c => C.doc c != TERMINATED), window := [], bucketIdx := NB H,
      scores := Array.replicate H 0, ws := 0, doc := 0, score := 0, sum := sum }
  match refill C H s0 with
  | some s1 => advance C H s1
  | none => { s0 with doc := TERMINATED }

/-- inner `while let Some(val) = tinyset.pop_lowest()` of `fill_buffer` on the current bucket;
returns `some` when the buffer became full (then the popped doc is the new current doc) -/
def fillBucket (fx : Fix) : Nat → State σ → List Nat → Nat → Option (List Nat × State σ) × (List Nat × Nat × State σ)
  | 0, s, acc, cnt => (none, (acc, cnt, s))
  | n + 1, s, acc, cnt =>
    match popBucket s.bucketIdx s.window with
    | some (δ, w') =>
      let s1 := { s with doc := s.ws + δ, window := w' }
      if cnt ≥ BUFLEN then
        -- the popped document becomes the current one
        let s2 := if fx.fillScore then
            { s1 with score := if s.sum then s.scores.getD δ 0 else 1,
                      scores := if s.sum then s.scores.setIfInBounds δ 0 else s.scores }
          else s1
        (some (acc, s2), (acc, cnt, s2))
      else
        let s2 := if fx.fillClear && s.sum then { s1 with scores := s.scores.setIfInBounds δ 0 } else s1
        fillBucket fx n s2 (acc ++ [s2.doc]) (cnt + 1)
    | none => (none, (acc, cnt, s))

/-- `while self.bucket_idx < HORIZON_NUM_TINYBITSETS` of `fill_buffer` -/
def fillWindow (fx : Fix) (H : Nat) : Nat → State σ → List Nat → Nat → Option (List Nat × State σ) × (List Nat × Nat × State σ)
  | 0, s, acc, cnt => (none, (acc, cnt, s))
  | n + 1, s, acc, cnt =>
    if s.bucketIdx < NB H then
      match fillBucket fx 65 s acc cnt with
      | (some r, q) => (some r, q)
      | (none, (acc', cnt', s')) => fillWindow fx H n { s' with bucketIdx := s'.bucketIdx + 1 } acc' cnt'
    else (none, (acc, cnt, s))

/-- outer `loop` of `fill_buffer`: a full buffer of 64 documents needs at most 64 refills -/
def fillLoop (fx : Fix) (C : DS σ) (H : Nat) : Nat → State σ → List Nat → Nat → List Nat × State σ
  | 0, s, acc, _ => (acc, s)
  | n + 1, s, acc, cnt =>
    match fillWindow fx H (NB H + 1) s acc cnt with
    | (some r, _) => r
    | (none, (acc', cnt', s')) =>
      match refill C H s' with
      | none => (acc', { s' with doc := TERMINATED })
      | some s'' => fillLoop fx C H n s'' acc' cnt'

/-- mirrors: src/query/union/buffered_union.rs::fill_buffer — note: neither `self.score` nor the
drained slots' combiners are touched (DESIGN §8 S4) -/
def fillBuffer (fx : Fix) (C : DS σ) (H : Nat) (s : State σ) : List Nat × State σ :=
  if s.doc = TERMINATED then ([], s) else fillLoop fx C H (BUFLEN + 2) s [s.doc] 1

def clearScores (sc : Array Nat) (lo hi : Nat) : Array Nat :=
  (List.range (hi - lo)).foldl (fun a i => a.setIfInBounds (lo + i) 0) sc

/-- `while doc < target { doc = self.advance() }` -/
def seekLoop (C : DS σ) (H : Nat) (t : Nat) : Nat → State σ → State σ
  | 0, s => s
  | n + 1, s => if s.doc < t then seekLoop C H t n (advance C H s) else s

/-- mirrors: src/query/union/buffered_union.rs::seek -/
def seek (fx : Fix) (C : DS σ) (H : Nat) (t : Nat) (s : State σ) : State σ :=
  if s.doc ≥ t then s
  else
    let gap := t - s.ws
    if inHorizonGap gap H then
      let nb := gap / 64
      let s1 := { s with
        window := s.window.filter (fun δ => !(decide (s.bucketIdx ≤ δ / 64) && decide (δ / 64 < nb))),
        scores := if s.sum then clearScores s.scores (s.bucketIdx * 64) (nb * 64) else s.scores,
        bucketIdx := nb }
      seekLoop C H t (H + 2) s1
    else
      let ds1 := if fx.childRevalidate || decide (Gen.UNION_SEEK_REVALIDATES_CHILDREN = 1) then s.docsets.map (fun c => C.seek (max (C.doc c) t) c)
        else s.docsets.map (fun c => if C.doc c < t then C.seek t c else c)
      let ds2 := ds1.filter (fun c => C.doc c != TERMINATED)
      let s1 := { s with window := [], scores := if s.sum then Array.replicate s.scores.size 0 else s.scores,
                         docsets := ds2 }
      match refill C H s1 with
      | none => { s1 with doc := TERMINATED }
      | some s2 => advance C H s2

/-- mirrors: src/query/union/buffered_union.rs::is_in_horizon (`wrapping_sub`) -/
def isInHorizon (H : Nat) (s : State σ) (t : Nat) : Bool := decide (s.ws ≤ t) && decide (t - s.ws < H)

/-- the guard of the buffered branch of `seek_danger`, regenerated from the source -/
def dangerBuffered (fx : Fix) (H : Nat) (s : State σ) (t : Nat) : Bool :=
  ((fx.dangerWindow || decide (Gen.UNION_SEEK_DANGER_BELOW_WINDOW_BUFFERED = 1)) && decide (t < s.ws))
    || isInHorizon H s t

/-- the `for docset in self.docsets.iter_mut()` of `seek_danger` (breaks at the first hit) -/
def dangerChildren (C : DS σ) (t : Nat) : List σ → Nat → (Bool × Nat) × List σ
  | [], m => ((false, m), [])
  | c :: cs, m =>
    match C.seekDanger t c with
    | (.found, c') => ((true, m), c' :: cs)
    | (.lower b, c') => let r := dangerChildren C t cs (min m b); (r.1, c' :: r.2)

/-- mirrors: src/query/union/buffered_union.rs::seek_danger -/
def seekDanger (fx : Fix) (C : DS σ) (H : Nat) (t : Nat) (s : State σ) : SD × State σ :=
  if t ≥ TERMINATED then (.lower TERMINATED, s)
  else if dangerBuffered fx H s t then
    let s' := seek fx C H t s
    if s'.doc = t then (.found, s') else (.lower s'.doc, s')
  else
    let r := dangerChildren C t s.docsets TERMINATED
    let s1 := { s with docsets := r.2 }
    if r.1.1 then (.found, seek fx C H t s1) else (.lower r.1.2, s1)

/-- `while self.refill() { count += …; clear }` -/
def countLoop (C : DS σ) (H : Nat) : Nat → State σ → Nat → Nat × State σ
  | 0, s, cnt => (cnt, s)
  | n + 1, s, cnt =>
    match refill C H s with
    | none => (cnt, s)
    | some s' => countLoop C H n { s' with window := [] } (cnt + s'.window.length)

/-- mirrors: src/query/union/buffered_union.rs::count_including_deleted — note: `self.doc` is
left where the last refill put it -/
def count (fx : Fix) (C : DS σ) (H : Nat) (s : State σ) : Nat × State σ :=
  if s.doc = TERMINATED then (0, s)
  else
    let c0 := (s.window.filter (fun δ => decide (s.bucketIdx ≤ δ / 64) && decide (δ / 64 < NB H))).length + 1
    let r := countLoop C H FUEL { s with window := [] } c0
    (r.1, { r.2 with bucketIdx := NB H, doc := if fx.unionCountEnd then TERMINATED else r.2.doc })

def ds (C : DS σ) (H : Nat) (fx : Fix := {}) : DS (State σ) where
  doc := fun s => s.doc
  advance := advance C H
  seek := seek fx C H
  seekDanger := seekDanger fx C H
  fillBuffer := fillBuffer fx C H
  fillBitset := defaultFillBitset (fun s => s.doc) (advance C H) (seek fx C H)
  count := count fx C H
  score := fun s => (s.score, s)

end TantivyModel.DocSet.BUnion
