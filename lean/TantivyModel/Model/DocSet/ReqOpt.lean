import TantivyModel.Model.DocSet.Spec
/-! mirrors: src/query/reqopt_scorer.rs — the document sequence is the required scorer's; the
optional scorer is only touched by `score()`, whose result is cached until the next move. -/
namespace TantivyModel.DocSet.ReqOpt

structure State (σ τ : Type) where
  req : σ
  opt : τ
  cache : Option Nat := none
  /-- `SumCombiner` (true) or `DoNothingCombiner` (false) -/
  sum : Bool := true

variable {σ τ : Type}

def doc (R : DS σ) (s : State σ τ) : Nat := R.doc s.req
/-- mirrors: src/query/reqopt_scorer.rs::advance -/
def advance (R : DS σ) (s : State σ τ) : State σ τ := { s with req := R.advance s.req, cache := none }
/-- mirrors: src/query/reqopt_scorer.rs::seek -/
def seek (R : DS σ) (t : Nat) (s : State σ τ) : State σ τ := { s with req := R.seek t s.req, cache := none }
/-- mirrors: src/query/reqopt_scorer.rs::seek_danger -/
def seekDanger (R : DS σ) (t : Nat) (s : State σ τ) : SD × State σ τ :=
  let r := R.seekDanger t s.req
  (r.1, { s with req := r.2, cache := none })

/-- mirrors: src/query/reqopt_scorer.rs::score -/
def score (R : DS σ) (O : DS τ) (s : State σ τ) : Nat × State σ τ :=
  match s.cache with
  | some v => (v, s)
  | none =>
    let d := R.doc s.req
    let r := R.score s.req
    let s1 := { s with req := r.2 }
    if O.doc s.opt ≤ d then
      let o' := O.seek d s.opt
      if O.doc o' = d then
        let q := O.score o'
        let v := if s.sum then r.1 + q.1 else 1
        (v, { s1 with opt := q.2, cache := some v })
      else
        let v := if s.sum then r.1 else 1
        (v, { s1 with opt := o', cache := some v })
    else
      let v := if s.sum then r.1 else 1
      (v, { s1 with cache := some v })

def ds (R : DS σ) (O : DS τ) : DS (State σ τ) where
  doc := doc R
  advance := advance R
  seek := seek R
  seekDanger := seekDanger R
  fillBuffer := defaultFillBuffer (doc R) (advance R)
  fillBitset := defaultFillBitset (doc R) (advance R) (seek R)
  count := defaultCount (doc R) (advance R)
  score := score R O

end TantivyModel.DocSet.ReqOpt
