import TantivyModel.Model.DocSet.Spec
/-! mirrors: src/query/union/simple_union.rs -/
namespace TantivyModel.DocSet.SimpleUnion

structure State (σ : Type) where
  docsets : List σ
  doc : Nat

variable {σ : Type}

def minDoc (C : DS σ) (ds : List σ) : Nat := ds.foldr (fun c m => min (C.doc c) m) TERMINATED

/-- mirrors: src/query/union/simple_union.rs::build + initialize_first_doc_id -/
def build (C : DS σ) (ds : List σ) : State σ :=
  let ds' := ds.filter (fun c => C.doc c != TERMINATED)
  { docsets := ds', doc := minDoc C ds' }

/-- mirrors: src/query/union/simple_union.rs::advance_to_next -/
def advance (C : DS σ) (s : State σ) : State σ :=
  let ds' := s.docsets.map (fun c => if C.doc c ≤ s.doc then C.advance c else c)
  { docsets := ds', doc := minDoc C ds' }

/-- mirrors: src/query/union/simple_union.rs::seek -/
def seek (C : DS σ) (t : Nat) (s : State σ) : State σ :=
  let ds' := s.docsets.map (fun c => if C.doc c < t then C.seek t c else c)
  { docsets := ds', doc := minDoc C ds' }

/-- mirrors: src/query/union/simple_union.rs::count_including_deleted -/
def countLoop (C : DS σ) : Nat → State σ → Nat × State σ
  | 0, s => (0, s)
  | n + 1, s =>
    let s' := advance C s
    if s'.doc = TERMINATED then (0, s') else let r := countLoop C n s'; (r.1 + 1, r.2)

def count (C : DS σ) (s : State σ) : Nat × State σ :=
  if s.doc = TERMINATED then (0, s) else let r := countLoop C FUEL s; (r.1 + 1, r.2)

def ds (C : DS σ) : DS (State σ) where
  doc := fun s => s.doc
  advance := advance C
  seek := seek C
  seekDanger := defaultSeekDanger (fun s => s.doc) (seek C)
  fillBuffer := defaultFillBuffer (fun s => s.doc) (advance C)
  fillBitset := defaultFillBitset (fun s => s.doc) (advance C) (seek C)
  count := count C
  score := fun s => (1, s)   -- SimpleUnion is a `Postings`/`DocSet`, not a `Scorer`

end TantivyModel.DocSet.SimpleUnion
