import TantivyModel.Model.DocSet.Vec
import TantivyModel.Model.DocSet.BitSet
import TantivyModel.Model.DocSet.Exclude
import TantivyModel.Model.DocSet.SimpleUnion
import TantivyModel.Model.DocSet.Intersection
import TantivyModel.Model.DocSet.ReqOpt
import TantivyModel.Model.DocSet.BufferedUnion
import TantivyModel.Model.DocSet.Disjunction
/-!
Nestings: `Comb σ` is "one combinator (or none) over children of type `σ`"; `Level n` iterates it
`n` times over the vector leaf. Every combinator model takes the children's `DS` as a parameter,
so `Level n` is an instance of the same definitions the theorems are about.
-/
namespace TantivyModel.DocSet

inductive Comb (σ : Type) where
  | leaf (s : σ)
  | bunion (u : BUnion.State σ)
  | sunion (u : SimpleUnion.State σ)
  | inter (i : Inter.State σ)
  | excl (e : Exclude.State σ σ)
  | reqopt (r : ReqOpt.State σ σ)
  | disj (d : Disj.State σ)

namespace Comb
variable {σ : Type}

def H : Nat := Gen.UNION_HORIZON

def lift1 (f : α → β × α) (g : α → Comb σ) (x : α) : β × Comb σ := let r := f x; (r.1, g r.2)

def ds (C : DS σ) (fx : Fix := {}) : DS (Comb σ) where
  doc
    | .leaf s => C.doc s
    | .bunion u => (BUnion.ds C H fx).doc u
    | .sunion u => (SimpleUnion.ds C).doc u
    | .inter i => (Inter.ds C fx).doc i
    | .excl e => (Exclude.ds C C).doc e
    | .reqopt r => (ReqOpt.ds C C).doc r
    | .disj d => (Disj.ds C).doc d
  advance
    | .leaf s => .leaf (C.advance s)
    | .bunion u => .bunion ((BUnion.ds C H fx).advance u)
    | .sunion u => .sunion ((SimpleUnion.ds C).advance u)
    | .inter i => .inter ((Inter.ds C fx).advance i)
    | .excl e => .excl ((Exclude.ds C C).advance e)
    | .reqopt r => .reqopt ((ReqOpt.ds C C).advance r)
    | .disj d => .disj ((Disj.ds C).advance d)
  seek t
    | .leaf s => .leaf (C.seek t s)
    | .bunion u => .bunion ((BUnion.ds C H fx).seek t u)
    | .sunion u => .sunion ((SimpleUnion.ds C).seek t u)
    | .inter i => .inter ((Inter.ds C fx).seek t i)
    | .excl e => .excl ((Exclude.ds C C).seek t e)
    | .reqopt r => .reqopt ((ReqOpt.ds C C).seek t r)
    | .disj d => .disj ((Disj.ds C).seek t d)
  seekDanger t
    | .leaf s => lift1 (C.seekDanger t) .leaf s
    | .bunion u => lift1 ((BUnion.ds C H fx).seekDanger t) .bunion u
    | .sunion u => lift1 ((SimpleUnion.ds C).seekDanger t) .sunion u
    | .inter i => lift1 ((Inter.ds C fx).seekDanger t) .inter i
    | .excl e => lift1 ((Exclude.ds C C).seekDanger t) .excl e
    | .reqopt r => lift1 ((ReqOpt.ds C C).seekDanger t) .reqopt r
    | .disj d => lift1 ((Disj.ds C).seekDanger t) .disj d
  fillBuffer
    | .leaf s => lift1 C.fillBuffer .leaf s
    | .bunion u => lift1 (BUnion.ds C H fx).fillBuffer .bunion u
    | .sunion u => lift1 (SimpleUnion.ds C).fillBuffer .sunion u
    | .inter i => lift1 (Inter.ds C fx).fillBuffer .inter i
    | .excl e => lift1 (Exclude.ds C C).fillBuffer .excl e
    | .reqopt r => lift1 (ReqOpt.ds C C).fillBuffer .reqopt r
    | .disj d => lift1 (Disj.ds C).fillBuffer .disj d
  fillBitset m
    | .leaf s => lift1 (C.fillBitset m) .leaf s
    | .bunion u => lift1 ((BUnion.ds C H fx).fillBitset m) .bunion u
    | .sunion u => lift1 ((SimpleUnion.ds C).fillBitset m) .sunion u
    | .inter i => lift1 ((Inter.ds C fx).fillBitset m) .inter i
    | .excl e => lift1 ((Exclude.ds C C).fillBitset m) .excl e
    | .reqopt r => lift1 ((ReqOpt.ds C C).fillBitset m) .reqopt r
    | .disj d => lift1 ((Disj.ds C).fillBitset m) .disj d
  count
    | .leaf s => lift1 C.count .leaf s
    | .bunion u => lift1 (BUnion.ds C H fx).count .bunion u
    | .sunion u => lift1 (SimpleUnion.ds C).count .sunion u
    | .inter i => lift1 (Inter.ds C fx).count .inter i
    | .excl e => lift1 (Exclude.ds C C).count .excl e
    | .reqopt r => lift1 (ReqOpt.ds C C).count .reqopt r
    | .disj d => lift1 (Disj.ds C).count .disj d
  score
    | .leaf s => lift1 C.score .leaf s
    | .bunion u => lift1 (BUnion.ds C H fx).score .bunion u
    | .sunion u => lift1 (SimpleUnion.ds C).score .sunion u
    | .inter i => lift1 (Inter.ds C fx).score .inter i
    | .excl e => lift1 (Exclude.ds C C).score .excl e
    | .reqopt r => lift1 (ReqOpt.ds C C).score .reqopt r
    | .disj d => lift1 (Disj.ds C).score .disj d

end Comb

/-- nesting depth `n` over vector leaves -/
def Level : Nat → Type
  | 0 => Leaf
  | n + 1 => Comb (Level n)

def levelDS (fx : Fix := {}) : (n : Nat) → DS (Level n)
  | 0 => Leaf.ds fx
  | n + 1 => Comb.ds (levelDS fx n) fx

/-- description of a scorer tree as sent by the harness -/
inductive Tree where
  | vec (docs : List Nat) (score : Nat)
  | bits (docs : List Nat) (maxValue score : Nat)
  | bunion (sum : Bool) (cs : List Tree)
  | sunion (cs : List Tree)
  | inter (dense : Bool) (cs : List Tree)
  | excl (u : Tree) (es : List Tree)
  | reqopt (sum : Bool) (req opt : Tree)
  | disj (sum : Bool) (minMatch : Nat) (cs : List Tree)

/-- build the initial state of a tree at nesting level `n` (`none`: deeper than `n`, or an
intersection of fewer than two) -/
def buildTree (fx : Fix := {}) : (n : Nat) → Tree → Option (Level n)
  | 0, .vec docs sc => some (.vec (Vec.init docs sc))
  | 0, .bits docs mx sc => some (.bits (BitSet.init docs mx sc))
  | 0, _ => none
  | n + 1, .vec docs sc => (buildTree fx n (.vec docs sc)).map .leaf
  | n + 1, .bits docs mx sc => (buildTree fx n (.bits docs mx sc)).map .leaf
  | n + 1, .bunion sum cs =>
    (cs.mapM (buildTree fx n)).map
      (fun l => .bunion (BUnion.build (levelDS fx n) Comb.H sum l))
  | n + 1, .sunion cs =>
    (cs.mapM (buildTree fx n)).map (fun l => .sunion (SimpleUnion.build (levelDS fx n) l))
  | n + 1, .disj sum k cs =>
    (cs.mapM (buildTree fx n)).map (fun l => .disj (Disj.new (levelDS fx n) sum k l))
  | n + 1, .inter dense cs =>
    match cs.mapM (buildTree fx n) with
    | some (l :: r :: os) => some (.inter (Inter.new (levelDS fx n) dense l r os))
    | _ => none
  | n + 1, .excl u es =>
    match buildTree fx n u, es.mapM (buildTree fx n) with
    | some u', some es' => some (.excl (Exclude.new (levelDS fx n) (levelDS fx n) u' es'))
    | _, _ => none
  | n + 1, .reqopt sum req opt =>
    match buildTree fx n req, buildTree fx n opt with
    | some r, some o => some (.reqopt { req := r, opt := o, cache := none, sum := sum })
    | _, _ => none

end TantivyModel.DocSet
