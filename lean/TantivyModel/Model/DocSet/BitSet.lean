import TantivyModel.Model.DocSet.Vec
/-!
mirrors: src/query/bitset/mod.rs — `BitSetDocSet`: a bitset of 64-bit buckets, a cursor bucket and
the not yet consumed bits of that bucket. The bitset is represented by the strictly increasing list
`all` of its members (bucket `b` = the members `d` with `d / 64 = b`); that this is what the
translated `TinySet` words compute is proved in Proofs/DocSet/TinySetBridge.lean (`C13_src_bitset_*`). `seek` beyond `max_value` only sets `doc` (KNOWN_FINDINGS
`C13:bitset-seek-past-max-not-sticky`); `Fix.bitsetSticky` is the repaired behaviour.
-/
namespace TantivyModel.DocSet.BitSet

structure State where
  all : List Nat
  maxValue : Nat
  cursorBucket : Nat
  /-- remaining members of the cursor bucket (`cursor_tinybitset`) -/
  cursorTiny : List Nat
  doc : Nat
  score : Nat

def bucketOf (all : List Nat) (b : Nat) : List Nat := all.filter (fun d => d / 64 == b)

/-- mirrors: src/query/bitset/mod.rs::advance -/
def advance (s : State) : State :=
  match s.cursorTiny with
  | d :: rest => { s with cursorTiny := rest, doc := d }
  | [] =>
    -- `first_non_empty_bucket(cursor_bucket + 1)`
    match s.all.find? (fun d => d / 64 ≥ s.cursorBucket + 1) with
    | some d =>
      let b := d / 64
      match bucketOf s.all b with
      | x :: rest => { s with cursorBucket := b, cursorTiny := rest, doc := x }
      | [] => { s with doc := TERMINATED }
    | none => { s with doc := TERMINATED }

def seekLoop (t : Nat) : Nat → State → State
  | 0, s => s
  | n + 1, s => if s.doc < t then seekLoop t n (advance s) else s

/-- mirrors: src/query/bitset/mod.rs::seek -/
def seek (fx : Fix) (t : Nat) (s : State) : State :=
  if t ≥ s.maxValue then
    if fx.bitsetSticky || decide (Gen.BITSET_SEEK_PAST_MAX_EXHAUSTS_CURSOR = 1) then
      { s with cursorTiny := [], cursorBucket := (s.maxValue - 1) / 64, doc := TERMINATED }
    else { s with doc := TERMINATED }
  else
    let tb := t / 64
    if tb > s.cursorBucket then
      advance { s with cursorBucket := tb, cursorTiny := (bucketOf s.all tb).filter (fun d => d ≥ t) }
    else seekLoop t (s.all.length + 1) s

/-- mirrors: `From<BitSet> for BitSetDocSet` -/
def init (docs : List Nat) (maxValue score : Nat) : State :=
  advance { all := docs, maxValue := maxValue, cursorBucket := 0,
            cursorTiny := if maxValue = 0 then [] else bucketOf docs 0, doc := 0, score := score }

def ds (fx : Fix := {}) : DS State :=
  DS.ofCore (fun s => s.doc) advance (seek fx) (fun s => (s.score, s))

end TantivyModel.DocSet.BitSet

namespace TantivyModel.DocSet

/-- the leaves of a scorer tree -/
inductive Leaf where
  | vec (s : Vec.State)
  | bits (s : BitSet.State)

def Leaf.ds (fx : Fix := {}) : DS Leaf where
  doc | .vec s => Vec.ds.doc s | .bits s => (BitSet.ds fx).doc s
  advance | .vec s => .vec (Vec.ds.advance s) | .bits s => .bits ((BitSet.ds fx).advance s)
  seek t | .vec s => .vec (Vec.ds.seek t s) | .bits s => .bits ((BitSet.ds fx).seek t s)
  seekDanger t
    | .vec s => let r := Vec.ds.seekDanger t s; (r.1, .vec r.2)
    | .bits s => let r := (BitSet.ds fx).seekDanger t s; (r.1, .bits r.2)
  fillBuffer
    | .vec s => let r := Vec.ds.fillBuffer s; (r.1, .vec r.2)
    | .bits s => let r := (BitSet.ds fx).fillBuffer s; (r.1, .bits r.2)
  fillBitset m
    | .vec s => let r := Vec.ds.fillBitset m s; (r.1, .vec r.2)
    | .bits s => let r := (BitSet.ds fx).fillBitset m s; (r.1, .bits r.2)
  count
    | .vec s => let r := Vec.ds.count s; (r.1, .vec r.2)
    | .bits s => let r := (BitSet.ds fx).count s; (r.1, .bits r.2)
  score
    | .vec s => let r := Vec.ds.score s; (r.1, .vec r.2)
    | .bits s => let r := (BitSet.ds fx).score s; (r.1, .bits r.2)

end TantivyModel.DocSet
