import TantivyModel.Model.TopN
/-!
# Lazy evaluation of tuple sort keys (C06)

`TopDocs::order_by((k1, k2, …))`: a tuple of sort key computers is the chain `(k1, (k2, (k3, …)))`
(3- and 4-tuples through `MappedSegmentSortKeyComputer`, which forwards every method). A segment
computer compares two segment keys with `compare_segment_sort_key` and, once the `TopNComputer`
has a threshold, evaluates a document's key lazily with `accept_sort_key_lazy`: component by
component, giving up as soon as a component is `Less` than the threshold's.

A comparator is its `compare` function `κ → κ → Ordering`. No Mathlib.
-/
namespace TantivyModel.TopN

variable {κ κ₁ κ₂ : Type}

/-- mirrors: src/collector/sort_key/sort_key_computer.rs::accept_sort_key_lazy (the trait's default:
compute the key, `compare_segment_sort_key` with the threshold, reject iff `Less`) -/
def acceptLeaf (cmp : κ → κ → Ordering) (key thr : κ) : Option (Ordering × κ) :=
  let c := cmp key thr
  if c = .lt then none else some (c, key)

/-- mirrors: src/collector/sort_key/sort_key_computer.rs::compare_segment_sort_key of a pair —
`self.0.compare(..).then_with(|| self.1.compare(..))` -/
def lexCmp (c₁ : κ₁ → κ₁ → Ordering) (c₂ : κ₂ → κ₂ → Ordering) (a b : κ₁ × κ₂) : Ordering :=
  (c₁ a.1 b.1).then (c₂ a.2 b.2)

/-- mirrors: `accept_sort_key_lazy` of `(Head, Tail)`: the head decides unless it ties with the
threshold's head; the tail key is computed anyway when the head is `Greater`. The document's
components are `key.1`, `key.2` (what `segment_sort_key` of the components would return). -/
def acceptPair (a₁ : κ₁ → κ₁ → Option (Ordering × κ₁)) (a₂ : κ₂ → κ₂ → Option (Ordering × κ₂))
    (key thr : κ₁ × κ₂) : Option (Ordering × (κ₁ × κ₂)) :=
  match a₁ key.1 thr.1 with
  | none => none
  | some (headCmp, headKey) =>
    if headCmp = .eq then
      match a₂ key.2 thr.2 with
      | none => none
      | some (tailCmp, tailKey) => some (tailCmp, (headKey, tailKey))
    else some (headCmp, (headKey, key.2))

/-- mirrors: `compute_sort_key_and_collect` of `(Head, Tail)`: without a threshold the key is
computed and appended; with one, the document is appended iff the lazy evaluation accepts it
(`Equal` to the threshold included — unlike `TopNComputer::push`, which wants `Greater`) -/
def collectLazy (accept : κ → κ → Option (Ordering × κ)) (sel : List (Entry κ) → List (Entry κ))
    (c : Computer κ) (e : Entry κ) : Computer κ :=
  match c.threshold with
  | some t =>
    match accept e.key t with
    | some (_, k) => appendDoc sel c ⟨k, e.addr⟩
    | none => c
  | none => appendDoc sel c e

/-! ## the comparators of `order.rs` on optional keys

`τ` is the value type with its own comparison `c` (`partial_cmp(..).unwrap_or(Equal)`; a total
order for integers, dates, strings, and floats without NaN). A fast-field key is `Option τ`. -/

variable {τ : Type}

/-- mirrors: src/collector/sort_key/order.rs::compare of `NaturalComparator` on `Option<T>` —
`lhs.partial_cmp(rhs)` of `Option`: `None < Some(_)`, `Some(a)` vs `Some(b)` by the values -/
def natOpt (c : τ → τ → Ordering) : Option τ → Option τ → Ordering
  | none, none => .eq
  | none, some _ => .lt
  | some _, none => .gt
  | some a, some b => c a b

/-- `ReverseComparator`: `NaturalComparator.compare(rhs, lhs)` -/
def revOpt (c : τ → τ → Ordering) (a b : Option τ) : Ordering := natOpt c b a

/-- `ReverseNoneIsLowerComparator` on `Option<T>` (what `Order::Asc` becomes) -/
def revNoneLower (c : τ → τ → Ordering) : Option τ → Option τ → Ordering
  | none, none => .eq
  | none, some _ => .lt
  | some _, none => .gt
  | some a, some b => c b a

/-- `NaturalNoneIsHigherComparator` on `Option<T>` -/
def natNoneHigher (c : τ → τ → Ordering) : Option τ → Option τ → Ordering
  | none, none => .eq
  | none, some _ => .gt
  | some _, none => .lt
  | some a, some b => c a b

/-- `impl From<Order> for ComparatorEnum`: `Asc => ReverseNoneLower`, `Desc => Natural` -/
def ofOrder (asc : Bool) (c : τ → τ → Ordering) : Option τ → Option τ → Ordering :=
  if asc then revNoneLower c else natOpt c

end TantivyModel.TopN
