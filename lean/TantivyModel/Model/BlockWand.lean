import TantivyModel.Model.Wand
/-!
# The concrete loops of `block_wand` and `block_wand_intersection` (C06)

Line-by-line mirrors of `src/query/boolean_query/block_wand_union.rs::{find_pivot_doc,
block_max_was_too_low_advance_one_scorer, restore_ordering, align_scorers,
advance_all_scorers_on_pivot, block_wand}` and `block_wand_intersection.rs::block_wand_intersection`
over a model of `TermScorer` (`TS`): the remaining postings with their scores, the skip list
(full 128-document blocks with their stored bounds, then the VInt tail block) and which bound
`block_max_score()` returns for the tail block (its true maximum once the block has been decoded,
`Bm25Weight::max_score` after a shallow `seek_block` into it).

Scores are abstract (`Sc α`): the driver runs the loops in `Float32` (same additions in the same
order as the Rust code), the theorems are about `Nat` scores (exact sums).
The `debug_assert!(… is_sorted())` of the Rust loop is mirrored as an outcome (`assertFailed`).
No Mathlib.
-/
namespace TantivyModel.BlockWand

class Sc (α : Type) where
  zero : α
  add : α → α → α
  gt : α → α → Bool
  /-- `a > θ - b` (the candidate filter of block_wand_intersection). In `Float32` the rounded
  subtraction of the Rust code; for exact scores its meaning over the integers, `a + b > θ`
  (`Nat` subtraction would truncate where the float goes negative). -/
  gtSub : α → α → α → Bool

instance : Sc Nat := ⟨0, (· + ·), fun a b => decide (b < a), fun a θ b => decide (θ < a + b)⟩
instance : Sc Float32 := ⟨0, (· + ·), fun a b => decide (b < a), fun a θ b => decide (θ - b < a)⟩

/-- `TERMINATED` -/
def T : Nat := 2147483647

/-- mirrors: TermScorer + SegmentPostings + BlockSegmentPostings + SkipReader, as far as the
pruning loops can observe them -/
structure TS (α : Type) where
  /-- remaining postings `(doc, score)`, ascending; the head is the current document -/
  rest : List (Nat × α)
  /-- `Bm25Weight::max_score()` -/
  maxScore : α
  /-- the full blocks of the posting list: `(last_doc_in_block, stored block-max score)` -/
  blocks : List (Nat × α)
  /-- index of the block the skip reader is on (`blocks.length` = the VInt tail block) -/
  skip : Nat
  /-- true maximum score of the tail block -/
  tailMax : α
  /-- the tail block is decoded (`block_loaded`): `block_max_score` then computes its true maximum -/
  tailLoaded : Bool
  /-- `size_hint()` (doc_freq) -/
  cost : Nat

variable {α : Type} [Sc α]
open Sc

def TS.doc (s : TS α) : Nat := match s.rest with | (d, _) :: _ => d | [] => T
/-- mirrors: src/query/term_query/term_scorer.rs::score at the current document -/
def TS.score (s : TS α) : α := match s.rest with | (_, sc) :: _ => sc | [] => zero
/-- mirrors: src/postings/skip.rs::last_doc_in_block -/
def TS.lastDocInBlock (s : TS α) : Nat := match s.blocks[s.skip]? with | some (l, _) => l | none => T
/-- mirrors: src/postings/block_segment_postings.rs::block_max_score -/
def TS.blockMax (s : TS α) : α :=
  match s.blocks[s.skip]? with
  | some (_, bm) => bm
  | none => if s.tailLoaded then s.tailMax else s.maxScore
/-- mirrors: src/postings/block_segment_postings.rs::seek_block (shallow): the skip reader moves to the first block
whose last document is `≥ target`; moving it unloads the block -/
def TS.seekBlock (s : TS α) (target : Nat) : TS α :=
  let k := s.skip + ((s.blocks.drop s.skip).takeWhile (fun b => decide (b.1 < target))).length
  if k = s.skip then s else { s with skip := k, tailLoaded := false }
/-- last document of the full block that contains `d` (`none` = tail block) -/
def TS.blockEnd (s : TS α) (d : Nat) : Option Nat := (s.blocks.find? (fun b => decide (d ≤ b.1))).map (·.1)
/-- the document after the current one in the decoded block (`TERMINATED` padding at the end) -/
def TS.nextDoc (s : TS α) : Nat := match s.rest.tail with | (d, _) :: _ => d | [] => T
/-- mirrors: src/postings/segment_postings.rs::seek (deep). `self.cur = (self.cur + 1).min(BLOCK_SIZE - 1)`: if the
cursor is not at the end of the decoded block and the next document is `≥ target`, nothing else
moves; otherwise `block_cursor.seek(target)` = `seek_block` + `load_block` + search in the block -/
def TS.seek (s : TS α) (target : Nat) : TS α :=
  if target ≤ s.doc then s
  else if (!(s.blockEnd s.doc == some s.doc) && decide (target ≤ s.nextDoc)) then { s with rest := s.rest.tail }
  else
    { s.seekBlock target with
        rest := s.rest.dropWhile (fun p => decide (p.1 < target)),
        tailLoaded := if (s.seekBlock target).skip = (s.seekBlock target).blocks.length then true
                      else (s.seekBlock target).tailLoaded }
/-- mirrors: src/postings/segment_postings.rs::advance -/
def TS.advance (s : TS α) : TS α :=
  if s.blockEnd s.doc == some s.doc then
    { s with rest := s.rest.tail, skip := s.skip + 1,
             tailLoaded := if s.skip + 1 = s.blocks.length then true else s.tailLoaded }
  else { s with rest := s.rest.tail }

def sumBy (f : TS α → α) (l : List (TS α)) : α := l.foldl (fun acc s => add acc (f s)) zero

/-- mirrors: src/query/boolean_query/block_wand_union.rs::find_pivot_doc — `(before_pivot_len, pivot_len, pivot_doc)` -/
def findPivotDoc (θ : α) (arr : List (TS α)) : Option (Nat × Nat × Nat) :=
  let rec go (acc : α) (i : Nat) : List (TS α) → Option (Nat × Nat)
    | [] => none
    | s :: rest =>
      let acc' := add acc s.maxScore
      if gt acc' θ then some (i, s.doc) else go acc' (i + 1) rest
  match go zero 0 arr with
  | none => none
  | some (bl, pd) =>
    if pd = T then none
    else
      let pl := bl + 1 + ((arr.drop (bl + 1)).takeWhile (fun s => s.doc == pd)).length
      some (bl, pl, pd)

/-- mirrors: src/query/boolean_query/block_wand_union.rs::restore_ordering — `arr[ord]` may be ahead of its rank: bubble it to the right past
the following scorers whose doc is smaller -/
def restoreOrdering (arr : List (TS α)) (ord : Nat) : List (TS α) :=
  match arr[ord]? with
  | none => arr
  | some x =>
    let following := arr.drop (ord + 1)
    arr.take ord ++ following.takeWhile (fun s => decide (s.doc < x.doc)) ++ [x]
      ++ following.dropWhile (fun s => decide (s.doc < x.doc))

/-- mirrors: Vec::swap_remove — the last element takes the place of the removed one -/
def swapRemove (arr : List (TS α)) (i : Nat) : List (TS α) :=
  match arr.getLast? with
  | none => arr
  | some last =>
    if i + 1 < arr.length then arr.take i ++ last :: (arr.drop (i + 1)).dropLast
    else arr.dropLast

/-- index of the block that contains document `d` (`blocks.length` = tail block) -/
def TS.blockIdx (s : TS α) (d : Nat) : Nat := (s.blocks.takeWhile (fun b => decide (b.1 < d))).length

/-- the scan `for scorer_ord in (0..pivot_len - 1).rev()` of block_max_was_too_low_advance_one_scorer:
state = (scorer_to_seek, global_max_score, doc_to_seek_after) -/
def tooLowScan (pre : List (TS α)) (init : Nat × α × Nat) : Nat × α × Nat :=
  (pre.zipIdx.reverse).foldl (fun (st : Nat × α × Nat) (si : TS α × Nat) =>
    let after' := if si.1.lastDocInBlock ≤ st.2.2 then si.1.lastDocInBlock else st.2.2
    if gt si.1.maxScore st.2.1 then (si.2, si.1.maxScore, after') else (st.1, st.2.1, after')) init

/-- `doc_to_seek_after`: one past the smallest last-doc-in-block of scorers[..pivot_len], capped by
the docs of scorers[pivot_len..] -/
def seekAfter (arr : List (TS α)) (pl : Nat) (after0 : Nat) : Nat :=
  (arr.drop pl).foldl (fun a s => if s.doc ≤ a then s.doc else a) (if after0 ≠ T then after0 + 1 else after0)

/-- mirrors: src/query/boolean_query/block_wand_union.rs::block_max_was_too_low_advance_one_scorer -/
def blockMaxTooLow (arr : List (TS α)) (pl : Nat) : List (TS α) :=
  match arr[pl - 1]? with
  | none => arr
  | some lastPre =>
    let r := tooLowScan (arr.take (pl - 1)) (pl - 1, lastPre.maxScore, lastPre.lastDocInBlock)
    let after := seekAfter arr pl r.2.2
    match arr[r.1]? with
    | none => arr
    | some s => restoreOrdering (arr.set r.1 (s.seek after)) r.1

/-- mirrors: src/query/boolean_query/block_wand_union.rs::align_scorers — `(scorers, all aligned?)` -/
def alignScorers (arr : List (TS α)) (pd : Nat) : Nat → List (TS α) × Bool
  | 0 => (arr, true)
  | i + 1 =>
    match arr[i]? with
    | none => (arr, true)
    | some s =>
      let s' := s.seek pd
      let arr' := arr.set i s'
      if s'.doc ≠ pd then
        let arr'' := if s'.doc = T then swapRemove arr' i else arr'
        (restoreOrdering arr'' i, false)
      else alignScorers arr' pd i

/-- stable insertion by current doc (mirrors the stable `sort_by_key(doc)`) -/
def insertByDoc (x : TS α) : List (TS α) → List (TS α)
  | [] => [x]
  | y :: ys => if x.doc ≤ y.doc then x :: y :: ys else y :: insertByDoc x ys
def sortByDoc (l : List (TS α)) : List (TS α) := l.foldr insertByDoc []

/-- the `while i != len { if TERMINATED swap_remove(i) else i += 1 }` loop -/
def removeTerminated (arr : List (TS α)) (i : Nat) : Nat → List (TS α)
  | 0 => arr
  | fuel + 1 =>
    if arr.length ≤ i then arr
    else match arr[i]? with
      | some s => if s.doc = T then removeTerminated (swapRemove arr i) i fuel else removeTerminated arr (i + 1) fuel
      | none => arr

/-- mirrors: src/query/boolean_query/block_wand_union.rs::advance_all_scorers_on_pivot -/
def advanceAllOnPivot (arr : List (TS α)) (pl : Nat) : List (TS α) :=
  let arr' := (arr.take pl).map TS.advance ++ arr.drop pl
  sortByDoc (removeTerminated arr' 0 (arr'.length + 1))

def isSortedByDoc : List (TS α) → Bool
  | [] => true
  | [_] => true
  | a :: b :: rest => decide (a.doc ≤ b.doc) && isSortedByDoc (b :: rest)

inductive Outcome (β : Type) where
  | ok (out : β)
  /-- the `debug_assert!(… is_sorted())` of the Rust loop would fire -/
  | assertFailed
  /-- a skip reader is ahead of the pivot's block when a block bound is used (not asserted in the
  Rust code; never observed) -/
  | skipAhead
  | outOfFuel

/-- the loop completed with this result -/
def Outcome.isOk {β : Type} [DecidableEq β] : Outcome β → β → Bool
  | .ok o, x => decide (o = x)
  | _, _ => false

/-- mirrors: the `while let Some(..) = find_pivot_doc(..)` loop of block_wand (≥ 2 scorers) -/
def wandLoop {σ : Type} (cb : σ → Nat → α → σ × α) : Nat → σ × α → List (TS α) → Outcome (σ × α)
  | 0, _, _ => .outOfFuel
  | fuel + 1, (s, θ), arr =>
    -- the Rust code asserts sortedness after every mutation of the scorer array
    if !isSortedByDoc arr then .assertFailed
    else
    match findPivotDoc θ arr with
    | none => .ok (s, θ)
    | some (bl, pl, pd) =>
        -- `scorer.seek_block(pivot_doc); scorer.block_max_score()` on scorers[..pivot_len]
        let arr1 := (arr.take pl).map (·.seekBlock pd) ++ arr.drop pl
        let ub := sumBy TS.blockMax (arr1.take pl)
        if !gt ub θ then
          if (arr1.take pl).all (fun s => s.skip == s.blockIdx pd) then
            wandLoop cb fuel (s, θ) (blockMaxTooLow arr1 pl)
          else .skipAhead
        else
          match alignScorers arr1 pd bl with
          | (arr2, false) => wandLoop cb fuel (s, θ) arr2
          | (arr2, true) =>
            let score := sumBy TS.score (arr2.take pl)
            let st' := if gt score θ then cb s pd score else (s, θ)
            wandLoop cb fuel st' (advanceAllOnPivot arr2 pl)

/-- mirrors: src/query/boolean_query/block_wand_union.rs::block_wand for two or more term scorers (terminated ones removed, sorted by doc) -/
def blockWand {σ : Type} (cb : σ → Nat → α → σ × α) (fuel : Nat) (st : σ × α) (scorers : List (TS α)) :
    Outcome (σ × α) :=
  wandLoop cb fuel st (sortByDoc (scorers.filter (fun s => decide (s.doc < T))))

/-! ## block_wand_intersection -/

/-- mirrors: src/postings/skip.rs::has_remaining_docs — `remaining_docs` counts the documents from the start
of the block the skip reader is on (`doc_freq − 128 · blocks passed`) -/
def TS.hasRemaining (s : TS α) : Bool := decide (128 * s.skip < s.cost)

/-- mirrors: src/postings/block_segment_postings.rs::load_block (inside `BlockSegmentPostings::seek`) as far as `block_max_score` observes it -/
def TS.loadBlock (s : TS α) : TS α := if s.skip = s.blocks.length then { s with tailLoaded := true } else s

/-- stable insertion by cost (mirrors the stable `sort_by_key(TermScorer::size_hint)`) -/
def insertByCost (x : TS α) : List (TS α) → List (TS α)
  | [] => [x]
  | y :: ys => if x.cost ≤ y.cost then x :: y :: ys else y :: insertByCost x ys
def sortByCost (l : List (TS α)) : List (TS α) := l.foldr insertByCost []

/-- mirrors: `running = 0; for idx in (0..n).rev() { suffix[idx] = running; running += bms[idx] }`
— `(suffix, running)` -/
def suffixSums : List α → List α × α
  | [] => ([], zero)
  | b :: bs => let r := suffixSums bs; (r.2 :: r.1, add r.2 b)

/-- mirrors: the inner `for (secondary_idx, secondary)` loop for one candidate: the secondaries
after the seeks, and the total score if every secondary matched and no suffix bound pruned it -/
def checkCand (cand : Nat) (θ : α) : List (TS α) → List α → α → List (TS α) × Option α
  | [], _, total => ([], some total)
  | x :: xs, sufs, total =>
    if cand < x.doc then (x :: xs, none)
    else
      let x' := x.seek cand
      if x'.doc ≠ cand then (x' :: xs, none)
      else
        let total' := add total x'.score
        if !gt (add total' (sufs.headD zero)) θ then (x' :: xs, none)
        else
          let r := checkCand cand θ xs sufs.tail total'
          (x' :: r.1, r.2)

/-- mirrors: pass 2 over the surviving candidates of a window: `(state, secondaries, returned early?)` -/
def candLoop {σ : Type} (cb : σ → Nat → α → σ × α) (gmax : α) (sufs : List α) :
    List (Nat × α) → σ × α → List (TS α) → (σ × α) × List (TS α) × Bool
  | [], st, secs => (st, secs, false)
  | (d, sc) :: cs, (s, θ), secs =>
    let r := checkCand d θ secs sufs sc
    match r.2 with
    | none => candLoop cb gmax sufs cs (s, θ) r.1
    | some total =>
      if gt total θ then
        let st' := cb s d total
        if !gt gmax st'.2 then (st', r.1, true) else candLoop cb gmax sufs cs st' r.1
      else candLoop cb gmax sufs cs (s, θ) r.1

/-- mirrors: the `while doc < TERMINATED` loop of block_wand_intersection -/
def interLoop {σ : Type} (cb : σ → Nat → α → σ × α) (gmax : α) :
    Nat → σ × α → TS α → List (TS α) → Nat → Outcome (σ × α)
  | 0, _, _, _, _ => .outOfFuel
  | fuel + 1, (s, θ), l, secs, doc =>
    if T ≤ doc then .ok (s, θ)
    else
      -- phase 1: all skip readers on the block containing `doc`
      let l1 := l.seekBlock doc
      let secs1 := secs.map (·.seekBlock doc)
      -- (not in the Rust code: the block bounds below are those of the block containing `doc` only
      --  if no skip reader is ahead of it; never observed otherwise)
      if !(l1.skip == l1.blockIdx doc && secs1.all (fun x => x.skip == x.blockIdx doc)) then .skipAhead
      else if secs1.any (fun x => !x.hasRemaining) then .ok (s, θ)
      else
        let wEnd := secs1.foldl (fun w x => min w x.lastDocInBlock) l1.lastDocInBlock
        let bms := secs1.map TS.blockMax
        let sumB := bms.foldl add zero
        if !gt (add l1.blockMax sumB) θ then interLoop cb gmax fuel (s, θ) l1 secs1 (wEnd + 1)
        else
          -- phase 2: the leader's documents of the window, filtered by `score > threshold - Σ block maxima`
          let l2 := l1.loadBlock
          let cands := ((l2.rest.dropWhile (fun p => decide (p.1 < doc))).takeWhile (fun p => decide (p.1 ≤ wEnd))).filter
            (fun p => gtSub p.2 θ sumB)
          if cands.isEmpty then interLoop cb gmax fuel (s, θ) l2 secs1 (wEnd + 1)
          else
            let r := candLoop cb gmax (suffixSums bms).1 cands (s, θ) secs1
            if r.2.2 then .ok r.1 else interLoop cb gmax fuel r.1 l2 r.2.1 (wEnd + 1)

/-- mirrors: src/query/boolean_query/block_wand_intersection.rs::block_wand_intersection (`assert!(scorers.len() >= 2)`) -/
def blockWandInter {σ : Type} (cb : σ → Nat → α → σ × α) (fuel : Nat) (st : σ × α) (scorers : List (TS α)) :
    Outcome (σ × α) :=
  match sortByCost scorers with
  | [] => .assertFailed
  | [_] => .assertFailed
  | l :: secs =>
    let gmax := add l.maxScore (secs.foldl (fun a x => add a x.maxScore) zero)
    if !gt gmax st.2 then .ok st else interLoop cb gmax fuel st l secs l.doc

end TantivyModel.BlockWand
