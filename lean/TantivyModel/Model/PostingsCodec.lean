import TantivyModel.Gen.Postings
import TantivyModel.Model.VInt
import TantivyModel.Model.Invert
/-!
# Postings codec of one term (C07): 128-blocks, skip entries, VInt tail, cursor

Bytes are `Nat`s (`< 256` on well-formed data).  The SIMD bit packer of the external crate
`bitpacking` is a parameter (`BitPacker`, contract `GoodPacker`); `bp4x` below models the byte
layout of `BitPacker4x` so that real bytes can be cross-decoded.

Two layers:
* bytes ⇄ `List Block` (`encodeTerm`, `decodeTerm`) — mirrors the serializer and
  `SkipReader::read_block_info` / `BlockSegmentPostings::load_block` (all blocks are decoded
  eagerly here; the code decodes the block under the cursor lazily);
* `Cursor` over the block list — mirrors `SkipReader::{advance,seek}`, `SegmentPostings::{advance,
  seek,doc,term_freq}` and the read offset into the position stream.

-- mirrors: src/postings/serializer.rs::write_block
-- mirrors: src/postings/serializer.rs::close_term
-- mirrors: src/postings/skip.rs::encode_bitwidth
-- mirrors: src/postings/skip.rs::decode_bitwidth
-- mirrors: src/postings/skip.rs::write_doc
-- mirrors: src/postings/skip.rs::read_block_info
-- mirrors: src/postings/skip.rs::seek
-- mirrors: src/postings/skip.rs::advance
-- mirrors: src/postings/compression/mod.rs::compress_block_sorted
-- mirrors: src/postings/compression/mod.rs::compress_block_unsorted
-- mirrors: src/postings/compression/mod.rs::uncompress_block_sorted
-- mirrors: src/postings/compression/vint.rs::compress_sorted
-- mirrors: src/postings/compression/vint.rs::uncompress_sorted
-- mirrors: src/postings/block_segment_postings.rs::split_into_skips_and_postings
-- mirrors: src/postings/block_segment_postings.rs::load_block
-- mirrors: src/postings/block_segment_postings.rs::seek
-- mirrors: src/postings/segment_postings.rs::advance
-- mirrors: src/postings/segment_postings.rs::seek
-- mirrors: src/postings/segment_postings.rs::append_positions_with_offset
-- mirrors: src/postings/block_search.rs::kary_search
-- mirrors: bitpacker/src/lib.rs::compute_num_bits
-/
namespace TantivyModel.Postings
open TantivyModel.Invert (RecOpt)

/-! ### bit lengths -/

/-- number of significant bits (`32 - leading_zeros`) -/
def bitLen (n : Nat) : Nat := if n = 0 then 0 else bitLen (n / 2) + 1
decreasing_by omega

/-- `tantivy_bitpacker::compute_num_bits` -/
def computeNumBits (n : Nat) : Nat :=
  if bitLen n ≤ Gen.Postings.NUM_BITS_THRESHOLD then bitLen n else Gen.Postings.NUM_BITS_FULL

/-- `BitPacker::num_bits`: most significant bit of the OR of all values = max bit length -/
def numBits : List Nat → Nat
  | [] => 0
  | v :: vs => max (bitLen v) (numBits vs)

/-! ### little-endian u32 -/

def u32le (n : Nat) : List Nat := [n % 256, n / 256 % 256, n / 65536 % 256, n / 16777216 % 256]

def readU32 : List Nat → Nat
  | a :: b :: c :: d :: _ => a + 256 * b + 65536 * c + 16777216 * d
  | _ => 0

/-! ### the bit packer parameter -/

structure BitPacker where
  /-- `compress(values, out, width)`: `width·B/8` bytes -/
  pack : Nat → List Nat → List Nat
  /-- `decompress(bytes, out, width)`: `B` values read from the first `width·B/8` bytes -/
  unpack : Nat → List Nat → List Nat

/-- contract assumed of the external bit packer for blocks of `B` values -/
structure GoodPacker (B : Nat) (P : BitPacker) : Prop where
  pack_length : ∀ w vs, vs.length = B → (P.pack w vs).length = w * B / 8
  unpack_pack : ∀ w vs rest, vs.length = B → (∀ v ∈ vs, v < 2 ^ w) →
    P.unpack w (P.pack w vs ++ rest) = vs

/-- bit `p` of lane `j` of the 4-lane layout: value `4·(p / w) + j`, bit `p % w` -/
def laneBit (w : Nat) (vs : List Nat) (j p : Nat) : Bool := (vs.getD (4 * (p / w) + j) 0).testBit (p % w)

def byteOfBits (f : Nat → Bool) : Nat :=
  (List.range 8).foldr (fun t acc => (if f t then 2 ^ t else 0) + acc) 0

/-- layout of `BitPacker4x` (bitpacking 0.9): 4 interleaved lanes (value `n` belongs to lane
`n % 4`), each lane is an LSB-first bit stream of its 32 values, cut into little-endian u32 words;
word `r` of lane `j` is the `(4·r + j)`-th u32 of the output -/
def bp4xPack (w : Nat) (vs : List Nat) : List Nat :=
  (List.range (16 * w)).map (fun k =>
    let word := k / 4
    byteOfBits (fun t => laneBit w vs (word % 4) ((word / 4) * 32 + (k % 4) * 8 + t)))

def bp4xUnpack (w : Nat) (bs : List Nat) : List Nat :=
  let a := (bs.take (16 * w)).toArray
  (List.range 128).map (fun n =>
    (List.range w).foldr (fun b acc =>
      let p := (n / 4) * w + b
      (if (a.getD (4 * (4 * (p / 32) + n % 4) + (p % 32) / 8) 0).testBit (p % 8) then 2 ^ b else 0) + acc) 0)

def bp4x : BitPacker := { pack := bp4xPack, unpack := bp4xUnpack }

/-! ### delta coding -/

/-- `compress_block_sorted` turns offset 0 into `None` -/
def offsetOpt (prev : Nat) : Option Nat := if prev = 0 then none else some prev

/-- `compress_strictly_sorted(initial, block)`: `v − prev − 1`, the first value as is when there
is no initial value -/
def strictDeltas : Option Nat → List Nat → List Nat
  | _, [] => []
  | none, v :: vs => v :: strictDeltas (some v) vs
  | some p, v :: vs => (v - p - 1) :: strictDeltas (some v) vs

def strictIntegrate : Option Nat → List Nat → List Nat
  | _, [] => []
  | none, d :: ds => d :: strictIntegrate (some d) ds
  | some p, d :: ds => (p + d + 1) :: strictIntegrate (some (p + d + 1)) ds

/-- `compress_sorted` (old, non strict, and the VInt tail): `v − prev` -/
def deltas : Nat → List Nat → List Nat
  | _, [] => []
  | p, v :: vs => (v - p) :: deltas v vs

def integrate : Nat → List Nat → List Nat
  | _, [] => []
  | p, d :: ds => (p + d) :: integrate (p + d) ds

/-! ### configuration -/

structure Cfg where
  /-- COMPRESSION_BLOCK_SIZE -/
  B : Nat
  /-- VInt stop bit -/
  S : Nat
  /-- TERMINATED -/
  T : Nat
  P : BitPacker

/-- the configuration the code uses, from the extracted constants -/
def cfg : Cfg :=
  { B := Gen.Postings.COMPRESSION_BLOCK_SIZE, S := Gen.Postings.PVINT_STOP_BIT,
    T := Gen.Postings.TERMINATED, P := bp4x }

/-- the extracted configuration with another bit packer -/
def cfgWith (P : BitPacker) : Cfg := { B := cfg.B, S := cfg.S, T := cfg.T, P := P }

def hasFreq : RecOpt → Bool
  | .basic => false
  | _ => true

def entryLen : RecOpt → Nat
  | .basic => Gen.Postings.SKIP_ENTRY_LEN_BASIC
  | .freqs => Gen.Postings.SKIP_ENTRY_LEN_FREQS
  | .positions => Gen.Postings.SKIP_ENTRY_LEN_POSITIONS

/-- `encode_bitwidth(bits, delta_1 = true)`: `bits | (1 << 6)` (asserts `bits < 32`) -/
def encodeBitwidth (bits : Nat) (strict : Bool) : Nat :=
  bits + (if strict then 2 ^ Gen.Postings.BITWIDTH_DELTA_SHIFT else 0)

/-- `decode_bitwidth(raw)`: `(raw & 0x1f, (raw >> 6) & 1 != 0)` -/
def decodeBitwidth (raw : Nat) : Nat × Bool :=
  (raw % (Gen.Postings.BITWIDTH_MASK + 1), raw / 2 ^ Gen.Postings.BITWIDTH_DELTA_SHIFT % 2 = 1)

/-- one skip entry: last doc (u32 LE), doc bit width byte, [tf bit width], [tf sum u32 LE],
[block-wand fieldnorm id, block-wand tf code] -/
def skipEntry (o : RecOpt) (lastDoc docBits tfBits tfSum : Nat) (wand : Nat × Nat) : List Nat :=
  u32le lastDoc ++ [encodeBitwidth docBits true] ++
  match o with
  | .basic => []
  | .freqs => [tfBits, wand.1, wand.2]
  | .positions => [tfBits] ++ u32le tfSum ++ [wand.1, wand.2]

/-! ### encoder -/

/-- the VInt tail: plain deltas of the docs, then the term frequencies -/
def vintTail (c : Cfg) (o : RecOpt) (prev : Nat) (docs tfs : List Nat) : List Nat :=
  VInt.encList c.S (deltas prev docs) ++ (if hasFreq o then VInt.encList c.S tfs else [])

/-- `k` full blocks, then the tail; returns (skip bytes, postings bytes) -/
def encBlocks (c : Cfg) (o : RecOpt) : Nat → Nat → List Nat → List Nat → List Nat × List Nat
  | 0, prev, docs, tfs => ([], vintTail c o prev docs tfs)
  | k + 1, prev, docs, tfs =>
    let bd := docs.take c.B
    let bt := tfs.take c.B
    let last := bd.getLastD 0
    let ds := strictDeltas (offsetOpt prev) bd
    let tfm := bt.map (· - 1)
    let r := encBlocks c o k last (docs.drop c.B) (tfs.drop c.B)
    (skipEntry o last (numBits ds) (numBits tfm) (bt.sum % 2 ^ 32) (0, 0) ++ r.1,
     c.P.pack (numBits ds) ds ++ (if hasFreq o then c.P.pack (numBits tfm) tfm else []) ++ r.2)

/-- bytes of one term in the postings file (`close_term`): skip data, prefixed by its VInt length,
only when `doc_freq ≥ B` -/
def encodeTerm (c : Cfg) (o : RecOpt) (docs tfs : List Nat) : List Nat :=
  let r := encBlocks c o (docs.length / c.B) 0 docs tfs
  (if c.B ≤ docs.length then VInt.enc c.S r.1.length ++ r.1 else []) ++ r.2

/-! ### decoder: bytes → blocks -/

structure Block where
  /-- `last_doc_in_block` of the skip entry; TERMINATED for the VInt tail -/
  lastDoc : Nat
  docs : List Nat
  /-- empty when frequencies are not stored (read as 1) -/
  tfs : List Nat
  /-- `tf_sum` of the skip entry (0 unless positions are recorded) -/
  tfSum : Nat
  full : Bool
deriving Repr, DecidableEq

def emptyTail (c : Cfg) : Block := { lastDoc := c.T, docs := [], tfs := [], tfSum := 0, full := false }

def decBlocks (c : Cfg) (o : RecOpt) : Nat → Nat → Nat → List Nat → List Nat → Option (List Block)
  | 0, rem, prev, _, data =>
    if rem = 0 then some [emptyTail c] else
    match VInt.decList c.S rem data with
    | none => none
    | some (ds, r) =>
      if hasFreq o then
        match VInt.decList c.S rem r with
        | none => none
        | some (tfs, _) => some [{ lastDoc := c.T, docs := integrate prev ds, tfs := tfs, tfSum := 0, full := false }]
      else some [{ lastDoc := c.T, docs := integrate prev ds, tfs := [], tfSum := 0, full := false }]
  | k + 1, rem, prev, skip, data =>
    if skip.length < entryLen o then none else
    let lastDoc := readU32 skip
    let bw := decodeBitwidth (skip.getD 4 0)
    let tfBits := if hasFreq o then skip.getD 5 0 else 0
    let tfSum := if o = .positions then readU32 (skip.drop 6) else 0
    let nd := bw.1 * c.B / 8
    let nt := tfBits * c.B / 8
    if data.length < nd + (if hasFreq o then nt else 0) then none else
    let raw := c.P.unpack bw.1 data
    let docs := if bw.2 then strictIntegrate (offsetOpt prev) raw else integrate prev raw
    let tfs := if hasFreq o then
        (c.P.unpack tfBits (data.drop nd)).map (fun x => if bw.2 then x + 1 else x) else []
    match decBlocks c o k (rem - c.B) lastDoc (skip.drop (entryLen o))
        (data.drop (nd + (if hasFreq o then nt else 0))) with
    | none => none
    | some bs => some ({ lastDoc := lastDoc, docs := docs, tfs := tfs, tfSum := tfSum, full := true } :: bs)

/-- `BlockSegmentPostings::open`: split skip data off, then the blocks -/
def decodeTerm (c : Cfg) (o : RecOpt) (docFreq : Nat) (bytes : List Nat) : Option (List Block) :=
  if docFreq < c.B then decBlocks c o 0 docFreq 0 [] bytes
  else
    match VInt.dec c.S bytes with
    | none => none
    | some (n, r) =>
      if r.length < n then none else decBlocks c o (docFreq / c.B) docFreq 0 (r.take n) (r.drop n)

def allDocs (bs : List Block) : List Nat := bs.flatMap (·.docs)
def allTfs (bs : List Block) : List Nat := bs.flatMap (·.tfs)

/-- sequential read of everything -/
def decodeAll (c : Cfg) (o : RecOpt) (docFreq : Nat) (bytes : List Nat) : Option (List Nat × List Nat) :=
  (decodeTerm c o docFreq bytes).map (fun bs => (allDocs bs, allTfs bs))

/-- the blocks an encoded list decodes to -/
def chunkBlocks (c : Cfg) (o : RecOpt) : Nat → List Nat → List Nat → List Block
  | 0, docs, tfs =>
    [{ lastDoc := c.T, docs := docs, tfs := if hasFreq o then tfs else [], tfSum := 0, full := false }]
  | k + 1, docs, tfs =>
    { lastDoc := (docs.take c.B).getLastD 0, docs := docs.take c.B,
      tfs := if hasFreq o then tfs.take c.B else [],
      tfSum := if o = .positions then (tfs.take c.B).sum % 2 ^ 32 else 0, full := true } ::
      chunkBlocks c o k (docs.drop c.B) (tfs.drop c.B)

/-! ### in-block search -/

/-- number of segment-end pivots `arr[base + i·step − 1]`, `i = 1..K−1`, below the target -/
def pivotCount (K : Nat) (arr : List Nat) (target base step : Nat) : Nat :=
  (List.range (K - 1)).countP (fun i => arr.getD (base + (i + 1) * step - 1) 0 < target)

def linearCount (arr : List Nat) (target base range : Nat) : Nat :=
  (List.range range).countP (fun i => arr.getD (base + i) 0 < target)

/-- `kary_search::<K>`: repeatedly keep one of `K` segments, then scan the last `< K` elements -/
def karyLoop (K : Nat) (arr : List Nat) (target : Nat) (base range : Nat) : Nat :=
  if _h : 2 ≤ K ∧ 0 < range / K then
    karyLoop K arr target (base + pivotCount K arr target base (range / K) * (range / K)) (range / K)
  else base + linearCount arr target base range
termination_by range
decreasing_by
  have h0 : 0 < range := by
    rcases Nat.eq_zero_or_pos range with h0 | h0
    · simp [h0] at _h
    · exact h0
  exact Nat.div_lt_self h0 (by omega)

def searchBlock (c : Cfg) (arr : List Nat) (target : Nat) : Nat :=
  karyLoop Gen.Postings.BLOCK_SEARCH_K arr target 0 c.B

/-! ### cursor (`SegmentPostings`) -/

structure Cursor where
  /-- head = block under the cursor (never empty for a cursor made by `Cursor.init`) -/
  blocks : List Block
  cur : Nat
  /-- `SkipReader::position_offset` -/
  posOffset : Nat
deriving Repr

/-- the decoded doc buffer: a short block is padded with TERMINATED -/
def padded (c : Cfg) (b : Block) : List Nat := b.docs ++ List.replicate (c.B - b.docs.length) c.T

def curDocs (c : Cfg) (s : Cursor) : List Nat :=
  match s.blocks with
  | [] => List.replicate c.B c.T
  | b :: _ => padded c b

def Cursor.init (bs : List Block) : Cursor := { blocks := bs, cur := 0, posOffset := 0 }

def doc (c : Cfg) (s : Cursor) : Nat := (curDocs c s).getD s.cur c.T

/-- `term_freq()`: the frequency buffer is pre-filled with 1 -/
def termFreq (s : Cursor) : Nat :=
  match s.blocks with
  | [] => 1
  | b :: _ => b.tfs.getD s.cur 1

/-- offset of the current document's positions in the term's position stream:
`position_offset + Σ freqs[..cur]` -/
def readOffset (s : Cursor) : Nat :=
  match s.blocks with
  | [] => s.posOffset
  | b :: _ => s.posOffset + (b.tfs.take s.cur).sum

/-- `SkipReader::advance` + `load_block` -/
def blockAdvance (c : Cfg) (s : Cursor) : Cursor :=
  match s.blocks with
  | [] => s
  | b :: rest =>
    if b.full then { blocks := rest, cur := s.cur, posOffset := s.posOffset + b.tfSum }
    else { blocks := [emptyTail c], cur := s.cur, posOffset := s.posOffset }

def advance (c : Cfg) (s : Cursor) : Cursor :=
  if s.cur = c.B - 1 then { blockAdvance c s with cur := 0 } else { s with cur := s.cur + 1 }

/-- `SkipReader::seek`: advance while `last_doc_in_block < target`
(the code loops forever for `target > TERMINATED`; the model stops at the tail) -/
def skipSeek (c : Cfg) (target : Nat) : List Block → Nat → List Block × Nat
  | [], p => ([], p)
  | b :: rest, p =>
    if target ≤ b.lastDoc then (b :: rest, p)
    else if b.full then skipSeek c target rest (p + b.tfSum)
    else ([emptyTail c], p)

def seek (c : Cfg) (s : Cursor) (target : Nat) : Cursor :=
  if target ≤ doc c s then s else
  let s1 : Cursor := { s with cur := min (s.cur + 1) (c.B - 1) }
  if target ≤ doc c s1 then s1 else
  let r := skipSeek c target s1.blocks s1.posOffset
  let s2 : Cursor := { blocks := r.1, cur := 0, posOffset := r.2 }
  { s2 with cur := searchBlock c (curDocs c s2) target }

inductive Op
  | advance
  | seek (target : Nat)
deriving Repr, DecidableEq

def step (c : Cfg) (s : Cursor) : Op → Cursor
  | .advance => advance c s
  | .seek t => seek c s t

/-- what is observable at a cursor: the doc, and — on a real document only — its term frequency
and (when positions are recorded) the offset of its positions in the term's position stream -/
def observe (c : Cfg) (o : RecOpt) (s : Cursor) : Nat × Nat × Nat :=
  if doc c s = c.T then (c.T, 0, 0)
  else (doc c s, termFreq s, if o = .positions then readOffset s else 0)

/-- run a program, reporting `(doc, term_freq, read offset)` after every operation -/
def run (c : Cfg) (o : RecOpt) : Cursor → List Op → List (Nat × Nat × Nat)
  | _, [] => []
  | s, op :: ops =>
    let s' := step c s op
    observe c o s' :: run c o s' ops

/-! ### the same programs on the specification: a sorted list and an index -/

structure SpecCursor where
  idx : Nat

def specDoc (T : Nat) (docs : List Nat) (s : SpecCursor) : Nat := docs.getD s.idx T

def specStep (docs : List Nat) (s : SpecCursor) : Op → SpecCursor
  | .advance => { idx := min (s.idx + 1) docs.length }
  | .seek t => { idx := max s.idx (docs.countP (· < t)) }

def specObserve (T : Nat) (o : RecOpt) (docs tfs : List Nat) (s : SpecCursor) : Nat × Nat × Nat :=
  if specDoc T docs s = T then (T, 0, 0)
  else (specDoc T docs s, tfs.getD s.idx 1, if o = .positions then (tfs.take s.idx).sum else 0)

def specRun (T : Nat) (o : RecOpt) (docs tfs : List Nat) : SpecCursor → List Op → List (Nat × Nat × Nat)
  | _, [] => []
  | s, op :: ops =>
    let s' := specStep docs s op
    specObserve T o docs tfs s' :: specRun T o docs tfs s' ops

end TantivyModel.Postings
