import TantivyModel.Gen.Lock
/-!
# Writer lock model (C18)

State: the lock resource (`.tantivy-writer.lock` exists / the flock is held), the
`DirectoryLock` guard objects in existence together with *where each one lives* — in the
`_directory_lock` field of a live writer, or in a local variable of a call in progress (between
`acquire_lock` and the return of `IndexWriter::new` inside `Index::writer_with_options`; between
`_directory_lock.take()` and `*self = new_index_writer` inside `IndexWriter::rollback`) — and the
live `IndexWriter` objects.

Small-step events make every interleaving of several threads / `Index` handles a history:
`acquire` is the only event that tests the resource, and it is an atomic test-and-set (the
contract of `Directory::acquire_lock`: `open_write` with create-new semantics, resp.
`flock(LOCK_EX | LOCK_NB)`). Dropping a guard object frees the resource
(`DirectoryLockGuard::drop` deletes the file, `ReleaseLockFile` closes the descriptor).

-- mirrors: src/index/index.rs::writer_with_options
-- mirrors: src/indexer/index_writer.rs::new
-- mirrors: src/indexer/index_writer.rs::rollback
-- mirrors: src/indexer/index_writer.rs::wait_merging_threads
-- mirrors: src/indexer/index_writer.rs::drop
-- mirrors: src/indexer/index_writer.rs::add_indexing_worker
-- mirrors: src/directory/directory.rs::try_acquire_lock
-- mirrors: src/directory/directory.rs::acquire_lock
-- mirrors: src/directory/mmap_directory/mod.rs::acquire_lock
-/
namespace TantivyModel.Lock

/-- a live `IndexWriter` object -/
structure Writer where
  id : Nat
  /-- an indexing worker failed: the bomb closed the pipeline (`IndexWriterStatus::kill`) -/
  killed : Bool
  deriving DecidableEq, Repr

/-- where a `DirectoryLock` guard object lives -/
inductive Owner where
  /-- `_directory_lock = Some(guard)` of live writer `w` -/
  | writer (w : Nat)
  /-- local of thread `t` inside `writer_with_options`, after `acquire_lock` returned `Ok` -/
  | creating (t : Nat)
  /-- local of `rollback` of writer `w`, after `_directory_lock.take()` -/
  | rolling (w : Nat)
  deriving DecidableEq, Repr

structure St where
  held : Bool
  guards : List Owner
  writers : List Writer
  next : Nat
  deriving DecidableEq, Repr

def init : St := { held := false, guards := [], writers := [], next := 0 }

inductive Ev where
  /-- `directory.acquire_lock(&INDEX_WRITER_LOCK)` by thread / handle `t` -/
  | acquire (t : Nat)
  /-- `IndexWriter::new(index, options, directory_lock)` run by `t`: `argsOk` = the three argument
      guards pass, `newOk` = `load_metas` / `SegmentUpdater::create` / `start_workers` succeed -/
  | construct (t : Nat) (argsOk newOk : Bool)
  /-- `self._directory_lock.take()` in `rollback` of writer `w` -/
  | rollbackTake (w : Nat)
  /-- `IndexWriter::new(.., directory_lock)?; *self = new_index_writer` in `rollback` -/
  | rollbackNew (w : Nat) (newOk : Bool)
  /-- `rollback` of a code that builds the replacement writer *before* it takes the guard out of
      `self` (`Gen.ROLLBACK_TAKES_GUARD_AFTER_NEW = 1`): the replacement could not be built, the
      call returns `Err`, nothing happened to the guard -/
  | rollbackFailedEarly (w : Nat)
  | drop (w : Nat)
  /-- `wait_merging_threads(self)` — consumes the writer -/
  | wait (w : Nat)
  /-- an indexing worker of `w` returns `Err`: the bomb goes off -/
  | kill (w : Nat)
  deriving DecidableEq, Repr

inductive Out where
  | ok (w : Nat)
  | lockBusy
  | invalidArg
  | ioErr
  | done
  /-- `expect("The IndexWriter does not have any lock. This is a bug, please report.")` -/
  | panic
  /-- the event does not apply in this state (no such writer / no such call in progress) -/
  | stuck
  deriving DecidableEq, Repr

def hasWriter (s : St) (w : Nat) : Bool := s.writers.any (·.id == w)

/-- the guard object moves: same object, new place -/
def move (gs : List Owner) (a b : Owner) : List Owner := gs.map (fun o => if o = a then b else o)

def setKilled (ws : List Writer) (w : Nat) (k : Bool) : List Writer :=
  ws.map (fun x => if x.id == w then { x with killed := k } else x)

/-- dropping the writer object drops its `Option<DirectoryLock>` field -/
def dropWriter (s : St) (w : Nat) : St × Out :=
  if !hasWriter s w || s.guards.contains (.rolling w) then (s, .stuck)
  else if s.guards.contains (.writer w) then
    ({ s with writers := s.writers.filter (·.id != w), guards := s.guards.erase (.writer w),
              held := false }, .done)
  else ({ s with writers := s.writers.filter (·.id != w) }, .done)

def step (s : St) : Ev → St × Out
  | .acquire t =>
    if s.guards.contains (.creating t) then (s, .stuck)
    else if s.held then (s, .lockBusy)                 -- no effect at all
    else ({ s with held := true, guards := .creating t :: s.guards }, .done)
  | .construct t argsOk newOk =>
    if s.guards.contains (.creating t) then
      if !argsOk then        -- early `return Err(InvalidArgument)`: the guard is dropped
        ({ s with guards := s.guards.erase (.creating t), held := false }, .invalidArg)
      else if !newOk then    -- `?`: the guard is dropped
        ({ s with guards := s.guards.erase (.creating t), held := false }, .ioErr)
      else
        ({ s with guards := move s.guards (.creating t) (.writer s.next),
                  writers := s.writers ++ [⟨s.next, false⟩], next := s.next + 1 }, .ok s.next)
    else (s, .stuck)
  | .rollbackTake w =>
    if !hasWriter s w || s.guards.contains (.rolling w) then (s, .stuck)
    else if s.guards.contains (.writer w) then
      ({ s with guards := move s.guards (.writer w) (.rolling w) }, .done)
    else (s, .panic)
  | .rollbackNew w newOk =>
    if s.guards.contains (.rolling w) then
      if newOk then
        -- `*self = new_index_writer`: the old object (guard = None) is dropped, the replacement
        -- owns the very same guard object and is alive again
        ({ s with guards := move s.guards (.rolling w) (.writer w),
                  writers := setKilled s.writers w false }, .ok w)
      else
        -- `?` inside rollback: the guard is dropped with the failed `IndexWriter::new`; `self`
        -- stays alive with `_directory_lock = None`
        ({ s with guards := s.guards.erase (.rolling w), held := false }, .ioErr)
    else (s, .stuck)
  | .rollbackFailedEarly w =>
    if !hasWriter s w || s.guards.contains (.rolling w) then (s, .stuck) else (s, .ioErr)
  | .drop w => dropWriter s w
  | .wait w => dropWriter s w
  | .kill w =>
    if hasWriter s w then ({ s with writers := setKilled s.writers w true }, .done) else (s, .stuck)

def run (s : St) : List Ev → St × List Out
  | [] => (s, [])
  | e :: es => ((run (step s e).1 es).1, (step s e).2 :: (run (step s e).1 es).2)

def final (s : St) (h : List Ev) : St := (run s h).1

/-- `Index::writer_with_options` as one call of thread `t` (uninterrupted) -/
def create (s : St) (t : Nat) (argsOk newOk : Bool) : St × Out :=
  if (step s (.acquire t)).2 = .done then step (step s (.acquire t)).1 (.construct t argsOk newOk)
  else step s (.acquire t)

/-- `IndexWriter::rollback` as one call (uninterrupted) -/
def rollback (s : St) (w : Nat) (newOk : Bool) : St × Out :=
  if (step s (.rollbackTake w)).2 = .done then step (step s (.rollbackTake w)).1 (.rollbackNew w newOk)
  else step s (.rollbackTake w)

/-- the argument guards of `IndexWriter::new` evaluated with the extracted constants -/
def argsOk (budgetPerThread numThreads : Nat) : Bool :=
  let tooSmall : Bool := if Gen.BUDGET_MIN_GUARD_INCLUSIVE = 0
    then decide (budgetPerThread < Gen.MEMORY_BUDGET_NUM_BYTES_MIN)
    else decide (budgetPerThread ≤ Gen.MEMORY_BUDGET_NUM_BYTES_MIN)
  let tooBig : Bool := if Gen.BUDGET_MAX_GUARD_INCLUSIVE = 1
    then decide (budgetPerThread ≥ Gen.MEMORY_BUDGET_NUM_BYTES_MAX)
    else decide (budgetPerThread > Gen.MEMORY_BUDGET_NUM_BYTES_MAX)
  !tooSmall && !tooBig && numThreads != 0

end TantivyModel.Lock
