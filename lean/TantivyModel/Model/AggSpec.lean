/-
C14 — specification side of the aggregation model.

Documents are lists of `(field, values)`; values are integers in a fixed unit chosen by the
harness (all generated values / interval / offsets / bounds are exact multiples of the unit, so
bucket arithmetic is exact integer arithmetic; the real code does the same computation in f64 on
exactly representable numbers).  Request trees (`Req`) carry the normalised parameters of the
request JSON (`agg_req.rs`, `bucket/*`, `metric/*`):

* sibling aggregations are `both`, the empty set is `none` (so the tree is a plain inductive
  type and every function below is structurally recursive);
* `metric f missing` stands for count / sum / min / max / avg / stats / extended_stats over the
  values of `f`: one accumulator `(count, Σv, Σv², min, max)` serves them all
  (mirrors: src/aggregation/metric/stats.rs::IntermediateStats, extended_stats.rs);
* `terms`, `hist` (histogram and date_histogram), `range` (normalised to its sorted cut points,
  mirrors: bucket/range.rs::extend_validate_ranges), `filter` (documents having value `v` in
  field `f`).

`evalAgg` is the direct computation over the matching documents: a bucket holds exactly the
documents with a value in it, its count is their number, its sub-result is `evalAgg` of the
sub-request on these documents.  Sums are taken in an abstract commutative monoid.
-/
namespace TantivyModel.Agg

/-- carrier of sums: data only (the driver instantiates it with exact integers; `Float` would
also fit here but is never used inside a theorem) -/
class AddOp (M : Type) where
  zero : M
  add : M → M → M
  /-- embedding of one collected value -/
  ofInt : Int → M

/-- the laws the theorems assume of the carrier -/
class LawfulAddOp (M : Type) [AddOp M] : Prop where
  add_comm : ∀ a b : M, AddOp.add a b = AddOp.add b a
  add_assoc : ∀ a b c : M, AddOp.add (AddOp.add a b) c = AddOp.add a (AddOp.add b c)
  zero_add : ∀ a : M, AddOp.add AddOp.zero a = a

instance : AddOp Int := ⟨0, (· + ·), id⟩
instance : LawfulAddOp Int := ⟨Int.add_comm, Int.add_assoc, Int.zero_add⟩
instance : AddOp Rat := ⟨0, (· + ·), fun i => (i : Rat)⟩
instance : LawfulAddOp Rat := ⟨Rat.add_comm, Rat.add_assoc, Rat.zero_add⟩

abbrev Field := Nat
abbrev Doc := List (Field × List Int)

def Doc.vals (d : Doc) (f : Field) : List Int := (d.lookup f).getD []

/-- values a metric sees: every value of a multi-valued field; `missing` stands in for a
document without value (mirrors: column_block_accessor fetch_block_with_missing) -/
def metricVals (f : Field) (missing : Option Int) (d : Doc) : List Int :=
  match d.vals f with
  | [] => missing.toList
  | vs => vs

inductive Order | countDesc | countAsc | keyAsc | keyDesc
deriving DecidableEq, Repr

structure TermsP where
  field : Field
  missing : Option Int
  size : Nat
  segSize : Nat
  minDocCount : Nat
  order : Order
deriving Repr

structure HistP where
  field : Field
  interval : Int
  offset : Int
  minDocCount : Nat
  hard : Option (Int × Int)
  ext : Option (Int × Int)
deriving Repr

/-- one source of a composite aggregation: the source keys of a document are the values of
`field`, already numbered `0 … base-1` in source-key order by the harness (terms source: rank
of the term; histogram source: rank of the bucket start); `desc` reverses the order -/
structure CompSrc where
  field : Field
  base : Nat
  desc : Bool
deriving Repr

inductive Req
  | none
  | both (a b : Req)
  | metric (f : Field) (missing : Option Int)
  | terms (p : TermsP) (sub : Req)
  | hist (p : HistP) (sub : Req)
  | range (f : Field) (cuts : List Int) (sub : Req)
  | filter (f : Field) (v : Int) (sub : Req)
  /-- top_hits: the best `k` `(sort key, document address)` pairs; the sort key is a value of
  field `f`, the address the first value of field `addr` (mirrors: metric/top_hits.rs) -/
  | topHits (f addr : Field) (k : Nat) (desc : Bool)
  /-- composite: buckets keyed by the product of the source keys, in composite-key order
  (per-source ascending / descending); the page starts after `after` and has `size` buckets
  (mirrors: bucket/composite/*, IntermediateCompositeBucketResult::into_final_result) -/
  | composite (srcs : List CompSrc) (size : Nat) (after : Option Int) (sub : Req)
deriving Repr

/-! ### bucket arithmetic -/

/-- mirrors: bucket/histogram/histogram.rs::get_bucket_pos_f64 — `⌊(v − offset)/interval⌋`
(`Int./` is floor division for a positive divisor) -/
def histPos (interval offset v : Int) : Int := (v - offset) / interval

/-- mirrors: histogram.rs::get_bucket_key_from_pos -/
def histKey (interval offset pos : Int) : Int := pos * interval + offset

/-- mirrors: HistogramBounds::contains (hard bounds are inclusive on both sides) -/
def inHard (hard : Option (Int × Int)) (v : Int) : Bool :=
  match hard with
  | some (lo, hi) => decide (lo ≤ v) && decide (v ≤ hi)
  | Option.none => true

/-- index of the range bucket of `v` for sorted cut points `c₀ < c₁ < …`: the number of cuts
`≤ v`; bucket `0` is `(-∞, c₀)`, bucket `i` is `[c_{i-1}, c_i)`, the last is `[c_n, ∞)`
(mirrors: bucket/range.rs::get_bucket_pos — binary search on the range starts) -/
def rangeIdx (cuts : List Int) (v : Int) : Nat := (cuts.filter (· ≤ v)).length

/-- distinct values (structurally recursive: keeps the last occurrence of each value) -/
def dedup : List Int → List Int
  | [] => []
  | x :: xs => if xs.contains x then dedup xs else x :: dedup xs

/-- term keys of a document: distinct values, `missing` for a document without value
(mirrors: fetch_block_with_missing_unique_per_doc) -/
def termKeys (p : TermsP) (d : Doc) : List Int :=
  match d.vals p.field with
  | [] => p.missing.toList
  | vs => dedup vs

/-- bucket positions of a document, one per value inside the hard bounds -/
def histPoss (p : HistP) (d : Doc) : List Int :=
  ((d.vals p.field).filter (inHard p.hard)).map (histPos p.interval p.offset)

def rangeIdxs (f : Field) (cuts : List Int) (d : Doc) : List Int :=
  (d.vals f).map (fun v => (rangeIdx cuts v : Int))

def filterMatch (f : Field) (v : Int) (d : Doc) : Bool := (d.vals f).contains v

/-- number of composite keys below the sources `ss` (mixed radix) -/
def compRadix : List CompSrc → Int
  | [] => 1
  | s :: ss => (s.base : Int) * compRadix ss

/-- the composite keys of a document: the product of its source keys, each tuple encoded as one
integer in mixed radix so that integer order is the composite-key order (first source most
significant, a descending source counted from the top); a document without value for some
source has no key (`missing_bucket = false`)
(mirrors: composite/collector.rs::CompositeKeyVisitor) -/
def compKeys : List CompSrc → Doc → List Int
  | [], _ => [0]
  | s :: ss, d =>
    (d.vals s.field).flatMap fun v =>
      (compKeys ss d).map fun r => (if s.desc then (s.base : Int) - 1 - v else v) * compRadix ss + r

/-! ### top hits -/

/-- `(sort key, document address)` -/
abbrev HitE := Int × Int

/-- order of top_hits: by sort key (ascending or descending), ties by ascending address
(mirrors: top_score_collector.rs::compare_for_top_k through `TopNComputer`) -/
def hitLe (desc : Bool) (a b : HitE) : Bool :=
  if desc then decide (b.1 < a.1) || (a.1 == b.1 && decide (a.2 ≤ b.2))
  else decide (a.1 < b.1) || (a.1 == b.1 && decide (a.2 ≤ b.2))

def hitEntries (f addr : Field) (d : Doc) : List HitE :=
  (d.vals f).map (fun v => (v, (d.vals addr).headD 0))

/-! ### metric accumulator -/

structure Acc (M : Type) where
  count : Nat
  sum : M
  sumsq : M
  min : Option Int
  max : Option Int

def optMin : Option Int → Option Int → Option Int
  | Option.none, b => b
  | a, Option.none => a
  | some a, some b => some (if a ≤ b then a else b)

def optMax : Option Int → Option Int → Option Int
  | Option.none, b => b
  | a, Option.none => a
  | some a, some b => some (if a ≤ b then b else a)

variable {M : Type} [AddOp M]

def Acc.empty : Acc M := ⟨0, AddOp.zero, AddOp.zero, Option.none, Option.none⟩

/-- mirrors: IntermediateStats::merge_fruits / IntermediateExtendedStats::merge_fruits -/
def Acc.merge (a b : Acc M) : Acc M :=
  ⟨a.count + b.count, AddOp.add a.sum b.sum, AddOp.add a.sumsq b.sumsq,
   optMin a.min b.min, optMax a.max b.max⟩

/-- mirrors: IntermediateStats::collect for one value -/
def Acc.single (v : Int) : Acc M := ⟨1, AddOp.ofInt v, AddOp.ofInt (v * v), some v, some v⟩

def Acc.ofVals (vs : List Int) : Acc M :=
  vs.foldl (fun a v => Acc.merge a (Acc.single v)) Acc.empty

/-! ### final results -/

/-- final result, shaped by the request; bucket lists are in output order -/
@[reducible] def Res (M : Type) : Req → Type
  | .none => Unit
  | .both a b => Res M a × Res M b
  | .metric _ _ => Acc M
  | .terms _ sub => List (Int × Nat × Res M sub) × Nat × Nat
  | .hist _ sub => List (Int × Nat × Res M sub)
  | .range _ _ sub => List (Int × Nat × Res M sub)
  | .filter _ _ sub => Nat × Res M sub
  | .topHits _ _ _ _ => List HitE
  | .composite _ _ _ sub => List (Int × Nat × Res M sub)

/-- integers `lo, lo+1, …` (`n` of them) -/
def intRange (lo : Int) : Nat → List Int
  | 0 => []
  | n + 1 => lo :: intRange (lo + 1) n

/-- all integers of `[lo, hi]` -/
def intSpan (lo hi : Int) : List Int := intRange lo (hi + 1 - lo).toNat

def spanOf (h : Option (Int × Int)) : List Int :=
  match h with
  | some (lo, hi) => intSpan lo hi
  | Option.none => []

def hullMerge : Option (Int × Int) → Option (Int × Int) → Option (Int × Int)
  | Option.none, b => b
  | a, Option.none => a
  | some (a, b), some (c, d) => some (if a ≤ c then a else c, if b ≤ d then d else b)

def hullOfList (ks : List Int) : Option (Int × Int) :=
  ks.foldl (fun h k => hullMerge h (some (k, k))) Option.none

/-- the order a terms aggregation puts its buckets in; ties are broken by ascending key (the
code leaves ties of `_count` unspecified, see the harness) -/
def Order.le (o : Order) (a b : Int × Nat) : Bool :=
  match o with
  | .countDesc => decide (b.2 < a.2) || (a.2 == b.2 && decide (a.1 ≤ b.1))
  | .countAsc => decide (a.2 < b.2) || (a.2 == b.2 && decide (a.1 ≤ b.1))
  | .keyAsc => decide (a.1 ≤ b.1)
  | .keyDesc => decide (b.1 ≤ a.1)

/-- stable insertion sort (structurally recursive, so that it evaluates in the kernel) -/
def insertBy {α : Type} (le : α → α → Bool) (x : α) : List α → List α
  | [] => [x]
  | y :: ys => if le x y then x :: y :: ys else y :: insertBy le x ys

def isort {α : Type} (le : α → α → Bool) (l : List α) : List α := l.foldr (insertBy le) []

def sortBuckets {V : Type} (o : Order) (l : List (Int × Nat × V)) : List (Int × Nat × V) :=
  isort (fun a b => o.le (a.1, a.2.1) (b.1, b.2.1)) l

/-- one page of a composite result: the buckets after the `after` key, at most `size` -/
def compPage {V : Type} (size : Nat) (after : Option Int) (all : List (Int × Nat × V)) : List (Int × Nat × V) :=
  (all.filter (fun b => match after with | some a => decide (a < b.1) | Option.none => true)).take size

def sumCounts {V : Type} (l : List (Int × Nat × V)) : Nat := (l.map (·.2.1)).sum

/-- final shaping of a terms aggregation (mirrors:
intermediate_agg_result.rs::IntermediateTermBucketResult::into_final_result): `min_doc_count`
filter, ordering, `size` cut; cut buckets go to `sum_other_doc_count` -/
def termsFinal {V : Type} (p : TermsP) (all : List (Int × Nat × V)) (other err : Nat) :
    List (Int × Nat × V) × Nat × Nat :=
  let kept := all.filter (fun b => decide (p.minDocCount ≤ b.2.1))
  let sorted := sortBuckets p.order kept
  (sorted.take p.size, other + sumCounts (sorted.drop p.size), err)

/-- bucket positions a histogram reports when `min_doc_count = 0`: from the smallest to the
largest non-empty bucket, widened by `extended_bounds`, clipped by `hard_bounds`
(mirrors: histogram.rs::get_req_min_max / generate_buckets_with_opt_minmax) -/
def histSpan (p : HistP) (hull : Option (Int × Int)) : List Int :=
  let pos := histPos p.interval p.offset
  let widened := match p.ext with
    | some (lo, hi) => hullMerge hull (some (pos lo, pos hi))
    | Option.none => hull
  match widened with
  | Option.none => []
  | some (lo, hi) =>
    match p.hard with
    | some (hlo, hhi) => intSpan (if lo ≤ pos hlo then pos hlo else lo) (if hi ≤ pos hhi then hi else pos hhi)
    | Option.none => intSpan lo hi

variable (M)

/-- the direct computation (specification) -/
def evalAgg : (r : Req) → List Doc → Res M r
  | .none, _ => ()
  | .both a b, docs => (evalAgg a docs, evalAgg b docs)
  | .metric f missing, docs => Acc.ofVals (docs.flatMap (metricVals f missing))
  | .terms p sub, docs =>
    let keys := (spanOf (hullOfList (docs.flatMap (termKeys p)))).filter
      (fun k => docs.any (fun d => (termKeys p d).contains k))
    let all := keys.map fun k =>
      let ds := docs.filter (fun d => (termKeys p d).contains k)
      (k, ds.length, evalAgg sub ds)
    termsFinal p all 0 0
  | .hist p sub, docs =>
    let hull := hullOfList (docs.flatMap (histPoss p))
    let bucket := fun k =>
      let ds := docs.filter (fun d => (histPoss p d).contains k)
      (k, ds.length, evalAgg sub ds)
    if p.minDocCount = 0 then (histSpan p hull).map bucket
    else ((spanOf hull).map bucket).filter (fun b => decide (p.minDocCount ≤ b.2.1))
  | .range f cuts sub, docs =>
    (intSpan 0 cuts.length).map fun k =>
      let ds := docs.filter (fun d => (rangeIdxs f cuts d).contains k)
      (k, ds.length, evalAgg sub ds)
  | .filter f v sub, docs =>
    let ds := docs.filter (filterMatch f v)
    (ds.length, evalAgg sub ds)
  | .topHits f addr k desc, docs =>
    (isort (hitLe desc) (docs.flatMap (hitEntries f addr))).take k
  | .composite srcs size after sub, docs =>
    let keys := (spanOf (hullOfList (docs.flatMap (compKeys srcs)))).filter
      (fun k => docs.any (fun d => (compKeys srcs d).contains k))
    compPage size after (keys.map fun k =>
      let ds := docs.filter (fun d => (compKeys srcs d).contains k)
      (k, ds.length, evalAgg sub ds))

/-- the documents of bucket `k` as the collectors see them: one copy per VALUE of the document
that falls into the bucket -/
def repDocs (keysOf : Doc → List Int) (k : Int) (docs : List Doc) : List Doc :=
  docs.flatMap (fun d => List.replicate ((keysOf d).count k) d)

/-- what the mechanism computes for EVERY input (no hypothesis): like `evalAgg`, but a bucket of a
histogram / range / composite node counts one per value and hands the document to the
sub-request once per value.  It coincides with `evalAgg` when no document has two values in one
bucket (`DocOK`); the difference is the recorded finding
`C14:histogram-range-doc-count-counts-values`. -/
def evalAggPV : (r : Req) → List Doc → Res M r
  | .none, _ => ()
  | .both a b, docs => (evalAggPV a docs, evalAggPV b docs)
  | .metric f missing, docs => Acc.ofVals (docs.flatMap (metricVals f missing))
  | .terms p sub, docs =>
    let keys := (spanOf (hullOfList (docs.flatMap (termKeys p)))).filter
      (fun k => docs.any (fun d => (termKeys p d).contains k))
    let all := keys.map fun k =>
      let ds := repDocs (termKeys p) k docs
      (k, ds.length, evalAggPV sub ds)
    termsFinal p all 0 0
  | .hist p sub, docs =>
    let hull := hullOfList (docs.flatMap (histPoss p))
    let bucket := fun k =>
      let ds := repDocs (histPoss p) k docs
      (k, ds.length, evalAggPV sub ds)
    if p.minDocCount = 0 then (histSpan p hull).map bucket
    else ((spanOf hull).map bucket).filter (fun b => decide (p.minDocCount ≤ b.2.1))
  | .range f cuts sub, docs =>
    (intSpan 0 cuts.length).map fun k =>
      let ds := repDocs (rangeIdxs f cuts) k docs
      (k, ds.length, evalAggPV sub ds)
  | .filter f v sub, docs =>
    let ds := docs.filter (filterMatch f v)
    (ds.length, evalAggPV sub ds)
  | .topHits f addr k desc, docs =>
    (isort (hitLe desc) (docs.flatMap (hitEntries f addr))).take k
  | .composite srcs size after sub, docs =>
    let keys := (spanOf (hullOfList (docs.flatMap (compKeys srcs)))).filter
      (fun k => docs.any (fun d => (compKeys srcs d).contains k))
    compPage size after (keys.map fun k =>
      let ds := repDocs (compKeys srcs) k docs
      (k, ds.length, evalAggPV sub ds))

end TantivyModel.Agg
