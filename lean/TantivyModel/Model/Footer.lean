import TantivyModel.Model.Crc32
import TantivyModel.Gen.Consts
/-
Model of `src/directory/footer.rs` (Footer::append_footer, Footer::extract_footer,
Footer::is_compatible, FooterProxy) and of `ManagedDirectory::{open_read, validate_checksum}`.

file = body ++ payload ++ u32le(|payload|) ++ u32le(FOOTER_MAGIC_NUMBER)

The JSON payload codec (serde_json) is a parameter `PayloadCodec`; `decimalCodec` is the concrete
executable instance the driver uses (canonical serde_json output for this fixed shape).
-/
namespace TantivyModel.Footer
open TantivyModel

abbrev Bytes := List UInt8

structure Version where
  major : BitVec 32
  minor : BitVec 32
  patch : BitVec 32
  fmt   : BitVec 32
deriving DecidableEq, Repr

structure Footer where
  version : Version
  crc : BitVec 32
deriving DecidableEq, Repr

structure PayloadCodec where
  enc : Footer → Bytes
  dec : Bytes → Option Footer

def u32le (n : Nat) : Bytes :=
  [UInt8.ofNat (n % 256), UInt8.ofNat (n / 256 % 256), UInt8.ofNat (n / 65536 % 256),
   UInt8.ofNat (n / 16777216 % 256)]

def readU32le : Bytes → Nat
  | a :: b :: c :: d :: _ => a.toNat + 256 * b.toNat + 65536 * c.toNat + 16777216 * d.toNat
  | _ => 0

def footerBytesOfPayload (p : Bytes) : Bytes :=
  p ++ u32le p.length ++ u32le Gen.FOOTER_MAGIC_NUMBER

/-- `Footer::append_footer` — mirrors: src/directory/footer.rs::append_footer -/
def footerBytes (C : PayloadCodec) (f : Footer) : Bytes := footerBytesOfPayload (C.enc f)

inductive Err
  | tooSmall | magic | tooLong | shorterThanFooter | payload
deriving DecidableEq, Repr

/-- `Footer::extract_footer` — mirrors: src/directory/footer.rs::extract_footer -/
def extract (C : PayloadCodec) (file : Bytes) : Except Err (Footer × Bytes) :=
  let n := file.length
  if n < Gen.FOOTER_MIN_FILE_LEN then .error .tooSmall else
  let tail8 := file.drop (n - 8)
  let footerLen := readU32le tail8
  let magic := readU32le (tail8.drop 4)
  if magic ≠ Gen.FOOTER_MAGIC_NUMBER then .error .magic else
  if footerLen > Gen.FOOTER_MAX_LEN then .error .tooLong else
  let total := footerLen + 8
  if n < total then .error .shorterThanFooter else
  match C.dec ((file.drop (n - total)).take footerLen) with
  | none => .error .payload
  | some f => .ok (f, file.take (n - total))

/-- `Footer::is_compatible` — mirrors: src/directory/footer.rs::is_compatible -/
def isCompatible (f : Footer) : Bool :=
  Gen.INDEX_FORMAT_OLDEST_SUPPORTED_VERSION ≤ f.version.fmt.toNat ∧ f.version.fmt.toNat ≤ Gen.INDEX_FORMAT_VERSION

inductive OpenResult
  | body (b : Bytes)
  | incompatible
  | corrupt (e : Err)
deriving DecidableEq, Repr

/-- `ManagedDirectory::open_read` on the raw bytes — mirrors: src/directory/managed_directory.rs::open_read -/
def openRead (C : PayloadCodec) (file : Bytes) : OpenResult :=
  match extract C file with
  | .error e => .corrupt e
  | .ok (f, body) => if isCompatible f then .body body else .incompatible

inductive Verdict
  | intact | damaged | unreadable (e : Err)
deriving DecidableEq, Repr

/-- `ManagedDirectory::validate_checksum` on the raw bytes — mirrors: src/directory/managed_directory.rs::validate_checksum -/
def validate (C : PayloadCodec) (file : Bytes) : Verdict :=
  match extract C file with
  | .error e => .unreadable e
  | .ok (f, body) => if Crc32.crc32 body = f.crc then .intact else .damaged

/-! ### FooterProxy: a writer that hashes exactly what the sink accepted -/

/-- one `write(buf)` call on the proxy: the sink accepts `count ≤ |buf|` bytes -/
structure WriteCall where
  buf : Bytes
  count : Nat

structure ProxyState where
  hasher : BitVec 32      -- running crc state
  sink : Bytes            -- what the wrapped writer holds

def proxyInit : ProxyState := { hasher := Crc32.init, sink := [] }

/-- `FooterProxy::write`: forwards, then hashes `buf[..count]` — mirrors: src/directory/footer.rs::write -/
def proxyWrite (s : ProxyState) (w : WriteCall) : ProxyState :=
  let acc := w.buf.take w.count
  { hasher := Crc32.update s.hasher acc, sink := s.sink ++ acc }

/-- `FooterProxy::terminate_ref` — mirrors: src/directory/footer.rs::terminate_ref -/
def proxyTerminate (C : PayloadCodec) (v : Version) (s : ProxyState) : Bytes :=
  s.sink ++ footerBytes C { version := v, crc := Crc32.finalize s.hasher }

/-! ### `Index::validate_checksum`: walk the managed files of the committed segments -/

/-- mirrors: src/index/index.rs::validate_checksum — `active` = files listed by the committed segment metas,
`managed` = `.managed.json`, `read p` = raw bytes of `p` (`none`: cannot be opened).
Returns `none` when some file is unreadable (the `?` in the loop), else the damaged paths. -/
def indexValidate (C : PayloadCodec) (active managed : List Nat) (read : Nat → Option Bytes) :
    Option (List Nat) :=
  let walk := active.filter (fun p => managed.contains p)
  walk.foldr (fun p acc =>
    match acc, read p with
    | none, _ => none
    | _, none => none
    | some ds, some bytes =>
      match validate C bytes with
      | .intact => some ds
      | .damaged => some (p :: ds)
      | .unreadable _ => none) (some [])

/-! ### concrete payload codec: canonical serde_json text of the fixed shape -/

def asciiOfString (s : String) : Bytes := s.toList.map (fun c => UInt8.ofNat c.toNat)

/-- decimal digits of `n`, most significant first (`fuel` digits at most) -/
def digitsAux : Nat → Nat → List Nat → List Nat
  | 0, _, acc => acc
  | fuel + 1, n, acc => if n < 10 then n :: acc else digitsAux fuel (n / 10) (n % 10 :: acc)

def digits (n : Nat) : List Nat := digitsAux 10 n []

def digitByte (d : Nat) : UInt8 := UInt8.ofNat (48 + d)

def decBytes (n : Nat) : Bytes := (digits n).map digitByte

/-- `{"version":{"major":` -/
def lit1 : Bytes := [123, 34, 118, 101, 114, 115, 105, 111, 110, 34, 58, 123, 34, 109, 97, 106, 111, 114, 34, 58]
/-- `,"minor":` -/
def lit2 : Bytes := [44, 34, 109, 105, 110, 111, 114, 34, 58]
/-- `,"patch":` -/
def lit3 : Bytes := [44, 34, 112, 97, 116, 99, 104, 34, 58]
/-- `,"index_format_version":` -/
def lit4 : Bytes := [44, 34, 105, 110, 100, 101, 120, 95, 102, 111, 114, 109, 97, 116, 95, 118, 101, 114, 115, 105, 111, 110, 34, 58]
/-- `},"crc":` -/
def lit5 : Bytes := [125, 44, 34, 99, 114, 99, 34, 58]
/-- `}` -/
def lit6 : Bytes := [125]

def decimalEnc (f : Footer) : Bytes :=
  lit1 ++ (decBytes f.version.major.toNat ++ (lit2 ++ (decBytes f.version.minor.toNat ++ (lit3
    ++ (decBytes f.version.patch.toNat ++ (lit4 ++ (decBytes f.version.fmt.toNat ++ (lit5
    ++ (decBytes f.crc.toNat ++ lit6)))))))))

def isDigit (b : UInt8) : Bool := 48 ≤ b.toNat && b.toNat ≤ 57

/-- split off the leading run of ASCII digits -/
def takeDigits : Bytes → List Nat × Bytes
  | [] => ([], [])
  | b :: rest =>
    if isDigit b then
      let r := takeDigits rest
      ((b.toNat - 48) :: r.1, r.2)
    else ([], b :: rest)

def expectPrefix (p : Bytes) (s : Bytes) : Option Bytes :=
  if p.isPrefixOf s then some (s.drop p.length) else none

def digitsValue (ds : List Nat) : Nat := ds.foldl (fun acc x => acc * 10 + x) 0

/-- a `u32` in JSON: digits, no leading zero, value < 2^32 (as serde_json does) -/
def parseU32 (s : Bytes) : Option (BitVec 32 × Bytes) :=
  let r := takeDigits s
  match r.1 with
  | [] => none
  | d :: more =>
    if d = 0 ∧ !more.isEmpty then none else
    let v := digitsValue r.1
    if v < 4294967296 then some (BitVec.ofNat 32 v, r.2) else none

def decimalDec (s : Bytes) : Option Footer :=
  (expectPrefix lit1 s).bind fun s =>
  (parseU32 s).bind fun (major, s) =>
  (expectPrefix lit2 s).bind fun s =>
  (parseU32 s).bind fun (minor, s) =>
  (expectPrefix lit3 s).bind fun s =>
  (parseU32 s).bind fun (patch, s) =>
  (expectPrefix lit4 s).bind fun s =>
  (parseU32 s).bind fun (fmt, s) =>
  (expectPrefix lit5 s).bind fun s =>
  (parseU32 s).bind fun (crc, s) =>
  if s = lit6 then some { version := { major, minor, patch, fmt }, crc := crc } else none

/-- The driver's codec. `dec` only recognises the canonical text; anything else is reported as
`payload` error by the model and the harness treats non-canonical-but-valid JSON as "model
abstains" (it cannot be produced by damaging the *body* of a file). -/
def decimalCodec : PayloadCodec := { enc := decimalEnc, dec := decimalDec }

end TantivyModel.Footer
