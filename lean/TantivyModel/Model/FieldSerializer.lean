import TantivyModel.Model.Recorder
import TantivyModel.Model.TermInfoStore
/-!
# `FieldSerializer`: the terms of a field laid out back to back (C07)

`new_term` snapshots the current offsets of the postings and positions writers, `close_term`
appends the term's postings bytes (and position bytes) and records the end offsets; the resulting
`TermInfo` goes to the term dictionary's `TermInfoStore`.

-- mirrors: src/postings/serializer.rs::current_term_info
-- mirrors: src/postings/serializer.rs::new_term
-- mirrors: src/postings/serializer.rs::close_term
-/
namespace TantivyModel.FieldSerializer
open TantivyModel.Recorder (TermBytes)
open TantivyModel.TermInfoStore (TermInfo)

structure Files where
  postings : List Nat
  positions : List Nat
  infos : List TermInfo
deriving Repr, DecidableEq

/-- one `new_term … close_term` -/
def writeTerm (f : Files) (t : TermBytes) : Files :=
  { postings := f.postings ++ t.postings,
    positions := f.positions ++ t.positions,
    infos := f.infos ++ [{ docFreq := t.docFreq,
                           postStart := f.postings.length, postEnd := f.postings.length + t.postings.length,
                           posStart := f.positions.length, posEnd := f.positions.length + t.positions.length }] }

def writeTerms (ts : List TermBytes) : Files := ts.foldl writeTerm { postings := [], positions := [], infos := [] }

/-- `InvertedIndexReader::read_postings_from_terminfo`: the slices the TermInfo points at -/
def sliceTerm (f : Files) (i : TermInfo) : TermBytes :=
  { docFreq := i.docFreq,
    postings := (f.postings.drop i.postStart).take (i.postEnd - i.postStart),
    positions := (f.positions.drop i.posStart).take (i.posEnd - i.posStart) }

/-- `serialize_postings` for one field: the terms of the table in byte order, each serialized
through `new_term … close_term` (an absent term cannot occur; it would be written empty)

-- mirrors: src/postings/postings_writer.rs::serialize_postings -/
def segmentTerms (o : Invert.RecOpt) (c : Invert.Corpus) : List TermBytes :=
  (Invert.termsOf Gen.Postings.POSITION_GAP c).map (fun t =>
    match (Recorder.indexCorpus o c).table t with
    | some r => Recorder.serializeTerm o r
    | none => { docFreq := 0, postings := [], positions := [] })

/-- the field's `.idx` / `.pos` files and TermInfos -/
def segmentFiles (o : Invert.RecOpt) (c : Invert.Corpus) : Files := writeTerms (segmentTerms o c)

end TantivyModel.FieldSerializer
