import TantivyModel.Model.Writer
/-
The state machine of `Model/Writer.lean` WITH the bookkeeping of `advance_deletes`
(`SegmentMeta::delete_opstamp` / `num_deleted_docs` of the registered entries, kept by segment id):
every call of the core `advance` in `commit` (purge_deletes), `merge` and `end_merge` becomes
`advanceDeletes` - the early return "We are already up-to-date here" when the entry's
`delete_opstamp` is the target, a new delete file (and a new `delete_opstamp`) only when more
documents are deleted than the meta records.

  -- mirrors: src/indexer/index_writer.rs::advance_deletes
  -- mirrors: src/indexer/segment_updater.rs::purge_deletes / merge / end_merge
  -- mirrors: src/indexer/segment_entry.rs (the meta of the registered entry; `merge` advances
  --          clones: what it records about the sources is not kept; the merged entry is new)

`Props/C02.lean`: `C02_bookkeeping_refines` (as long as the stamper never goes below `meta.opstamp`
- `delete_all_documents` only on a writer that has not committed since it was created; rollbacks
and reopen allowed - every run of this machine IS the run of the core machine),
`C02_bookkeeping_counterexample` (after a `delete_all_documents` that reverts the stamper it is
not: finding `C02:reused-opstamp-advance-deletes-early-return`).  The driver replays the events of
every `C02 impl` run on this machine too (`pubD`), and the harness compares it with the real index.
-/
namespace TantivyModel.Writer

variable {α : Type}

/-- the metas of the registered segment entries, by segment id -/
structure Book where
  /-- `SegmentMeta::delete_opstamp` -/
  delOp : Nat → Option Nat
  /-- `SegmentMeta::num_deleted_docs` -/
  dead : Nat → Nat
  /-- `delete_opstamp` as `meta.json` has it (what a re-created writer starts from) -/
  metaDelOp : Nat → Option Nat

def Book.init : Book := { delOp := fun _ => none, dead := fun _ => 0, metaDelOp := fun _ => none }

/-- the entry with its meta -/
def withBook (B : Book) (sg : Seg α) : Seg α := { sg with delOp := B.delOp sg.id, metaDead := B.dead sg.id }

/-- `advance_deletes` on the entry `sg`: documents and cursor -/
def advB (B : Book) (log : List (DelOp α)) (t : Nat) (sg : Seg α) : Seg α :=
  let r := advanceDeletes log t (withBook B sg)
  { sg with docs := r.docs, cursor := r.cursor }

/-- `advance_deletes` on the entry `sg`: its meta afterwards -/
def bookAfter (B : Book) (log : List (DelOp α)) (t : Nat) (sg : Seg α) : Book :=
  let r := advanceDeletes log t (withBook B sg)
  { B with delOp := fun i => if i = sg.id then r.delOp else B.delOp i,
           dead := fun i => if i = sg.id then r.metaDead else B.dead i }

def mergeSegsB (B : Book) (log : List (DelOp α)) (target : Nat) (newId : Nat) (srcs : List (Seg α)) :
    Option (Seg α) :=
  let adv := srcs.map (advB B log target)
  let docs := (adv.flatMap (fun sg => sg.docs.filter (·.alive)))
  match adv with
  | [] => none
  | first :: _ => if docs.isEmpty then none else some { id := newId, docs := docs, cursor := first.cursor }

def catchUpB (B : Book) (log : List (DelOp α)) (committedOpstamp : Nat) (sg : Seg α) : Seg α :=
  match log[sg.cursor]? with
  | some del => if catchUpGuard del.op committedOpstamp then advB B log committedOpstamp sg else sg
  | none => sg

def catchUpBook (B : Book) (log : List (DelOp α)) (committedOpstamp : Nat) (sg : Seg α) : Book :=
  match log[sg.cursor]? with
  | some del => if catchUpGuard del.op committedOpstamp then bookAfter B log committedOpstamp sg else B
  | none => B

/-- one step of the machine with bookkeeping -/
def stepD (sb : WState α × Book) : Event α → Option ((WState α × Book) × Nat)
  | .commit p =>
    let s := sb.1
    let B := sb.2
    if quiescent s then
      let o := s.stamper
      let entries := (s.uncommitted ++ s.committed).map (advB B s.log o)
      let B1 := (s.uncommitted ++ s.committed).foldl (fun B sg => bookAfter B s.log o sg) B
      let s1 : WState α :=
        { s with stamper := o + 1,
                 workers := s.workers.map (fun _ => { cur := s.flushed, seg := none }),
                 flushed := if (s.uncommitted ++ s.committed).isEmpty then s.flushed else s.log.length,
                 uncommitted := [], committed := entries }
      some ((saveMetas s1 o p, { B1 with metaDelOp := B1.delOp }), o)
    else none
  | .mergeStart ids policy =>
    let s := sb.1
    let B := sb.2
    -- the merged entry is new: no delete file yet
    let B' : Book := { B with delOp := fun i => if i = s.nextId then none else B.delOp i,
                              dead := fun i => if i = s.nextId then 0 else B.dead i }
    if ids.isEmpty || !decide ids.Nodup then none else
    if idsIn ids s.uncommitted && policy then
      let srcs := ids.filterMap (lookup s.uncommitted)
      some (({ s with stamper := s.stamper + 1, nextId := s.nextId + 1,
                      merges := s.merges ++ [{ ids := ids, result := mergeSegsB B s.log s.stamper s.nextId srcs }] }, B'), 0)
    else if idsIn ids s.committed then
      let srcs := ids.filterMap (lookup s.committed)
      some (({ s with nextId := s.nextId + 1,
                      merges := s.merges ++ [{ ids := ids, result := mergeSegsB B s.log s.metas.opstamp s.nextId srcs }] }, B'), 0)
    else none
  | .mergeEnd k =>
    let s := sb.1
    let B := sb.2
    match s.merges[k]? with
    | none => none
    | some m =>
      let s0 := { s with merges := s.merges.eraseIdx k }
      let res := m.result.map (catchUpB B s.log s.metas.opstamp)
      let B1 : Book := match m.result with
        | some M => catchUpBook B s.log s.metas.opstamp M
        | none => B
      if idsIn m.ids s.uncommitted then
        some (({ s0 with uncommitted := replaceIn s.uncommitted m.ids res }, B1), 0)
      else if idsIn m.ids s.committed then
        let s1 := { s0 with committed := replaceIn s.committed m.ids res }
        some ((saveMetas s1 s.metas.opstamp s.metas.payload, { B1 with metaDelOp := B1.delOp }), 0)
      else some ((s0, B1), 0)
  | .rollback =>
    (step sb.1 .rollback).map (fun p =>
      ((p.1, { delOp := sb.2.metaDelOp, dead := fun _ => 0, metaDelOp := sb.2.metaDelOp }), p.2))
  | e => (step sb.1 e).map (fun p => ((p.1, sb.2), p.2))

def runD (sb : WState α × Book) : List (Event α) → Option (WState α × Book)
  | [] => some sb
  | e :: es => match stepD sb e with
    | some (sb', _) => runD sb' es
    | none => none

/-- has this writer object committed since it was created (`IndexWriter::new`, `rollback`) -/
def sessStep (c : Bool) : Event α → Bool
  | .commit _ => true
  | .rollback => false
  | _ => c

/-- the hypothesis `bookRun` of `C02_bookkeeping_refines` read off the sequence of calls: `delete_all_documents` only before
the first commit of the writer object; no sub-steps -/
def bookHist (c : Bool) : List (Event α) → Bool
  | [] => true
  | e :: es =>
    (match e with
      | .deleteAll => !c
      | .stamp _ => false
      | .publish _ => false
      | _ => true) && bookHist (sessStep c e) es

end TantivyModel.Writer
