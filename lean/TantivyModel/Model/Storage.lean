import TantivyModel.Gen.Storage
/-!
# Storage model (C01, C10): a directory with a *visible* and a *durable* layer

The fault model is the one written in property C01's quantifier; it is deliberately weaker than
what ext4-ordered gives. Operations (the storage boundaries of the quantifier):

* `create p`        visible entry, nothing durable           -- mirrors: src/directory/mmap_directory/mod.rs::open_write
* `write p n`       `n` more bytes appended (buffered)        -- mirrors: SafeFileWriter::write
* `flush p`         written bytes become readable             -- mirrors: src/directory/ram_directory.rs::VecWriter::flush
* `terminate p`     footer written before, data fsync: the content is durable *if the entry is*
                                                              -- mirrors: SafeFileWriter::terminate_ref (flush + sync_data)
* `syncDir`         all visible entries, renames and unlinks become durable
                                                              -- mirrors: MmapDirectory::sync_directory (fsync of the directory fd)
* `atomicWrite p b` tmp file + data fsync + rename: visible at once and atomically; the rename is
                    durable only after the next `syncDir`; content is old or new, never torn
                                                              -- mirrors: src/directory/mmap_directory/mod.rs::atomic_write
* `delete p`        unlink: visible at once, durable only after `syncDir`
                                                              -- mirrors: MmapDirectory::delete
* `ack c`           not a storage operation: the call `commit()` with opstamp `c` returned.

File contents are abstracted to the length of the append-only byte stream written so far (a crash
leaves a prefix, identified by its length) plus one bit `sealed` = "these bytes are exactly the
terminated file, footer and checksum included" (what C20's `validate` decides on real bytes).
Payloads of atomically written files carry what the protocol needs: the commit id, the set of
referenced paths, and `ver`, the position of the `atomic_write` call in the log (so that the
harness can find the bytes again).
-/
namespace TantivyModel.Storage

abbrev Path := Nat

/-- `meta.json` (src/core/mod.rs::META_FILEPATH) and `.managed.json` (MANAGED_FILEPATH) are
interned by the harness as paths 0 and 1 (`Gen.Storage` keeps their names). -/
def META : Path := 0
def MANAGED : Path := 1

structure Payload where
  commit : Nat
  ver : Nat
  len : Nat
  refs : List Path
deriving DecidableEq, Repr, Inhabited

inductive Op
  | create (p : Path)
  | write (p : Path) (n : Nat)
  | flush (p : Path)
  | terminate (p : Path)
  | syncDir
  | atomicWrite (p : Path) (b : Payload)
  | delete (p : Path)
  | ack (c : Nat)
deriving DecidableEq, Repr, Inhabited

/-- what is known about a regular (open_write) path -/
structure FileSt where
  ever : Bool := false      -- was created at some point
  vis : Bool := false       -- the entry is visible
  written : Nat := 0        -- bytes appended so far
  flushed : Nat := 0        -- bytes a reader sees
  term : Bool := false      -- terminated: data fsynced
  dur : Bool := false       -- the entry was visible at the last `syncDir`
  churn : Bool := false     -- created or unlinked since the last `syncDir`
deriving DecidableEq, Repr, Inhabited

/-- an atomically written path: durable version + renames not yet synced (oldest first) -/
structure AtomSt where
  dur : Option Payload := none
  pend : List Payload := []
deriving DecidableEq, Repr, Inhabited

structure Dir where
  file : Path → FileSt
  atom : Path → AtomSt
  /-- regular / atomic paths touched so far; used only to enumerate crash images -/
  paths : List Path
  apaths : List Path

def Dir.empty : Dir := { file := fun _ => {}, atom := fun _ => {}, paths := [], apaths := [] }

def upd {α : Type} (f : Path → α) (p : Path) (v : α) : Path → α := fun q => if q = p then v else f q

@[simp] theorem upd_same {α : Type} (f : Path → α) (p : Path) (v : α) : upd f p v p = v := by
  simp [upd]

theorem upd_other {α : Type} (f : Path → α) (p q : Path) (v : α) (h : q ≠ p) :
    upd f p v q = f q := by
  simp [upd, h]

def addPath (l : List Path) (p : Path) : List Path := if l.contains p then l else p :: l

/-- the version a reader of the live directory sees -/
def AtomSt.visible (a : AtomSt) : Option Payload :=
  match a.pend.getLast? with
  | some b => some b
  | none => a.dur

/-- every version a crash may leave: the durable one or any un-synced rename -/
def AtomSt.cands (a : AtomSt) : List Payload :=
  (match a.dur with | some b => [b] | none => []) ++ a.pend

def AtomSt.options (a : AtomSt) : List (Option Payload) := a.dur :: a.pend.map some

def FileSt.sync (st : FileSt) : FileSt := { st with dur := st.vis, churn := false }
def AtomSt.sync (a : AtomSt) : AtomSt := { dur := a.visible, pend := [] }

def Dir.step (s : Dir) : Op → Dir
  | .create p =>
    let st := s.file p
    { s with file := upd s.file p { st with ever := true, vis := true, written := 0,
                                            flushed := 0, term := false, churn := true },
             paths := addPath s.paths p }
  | .write p n =>
    -- a write after `terminate` (forbidden by D2) makes the content un-synced again
    let st := s.file p
    { s with file := upd s.file p { st with written := st.written + n, term := false } }
  | .flush p =>
    let st := s.file p
    { s with file := upd s.file p { st with flushed := st.written } }
  | .terminate p =>
    let st := s.file p
    { s with file := upd s.file p { st with flushed := st.written, term := true } }
  | .syncDir => { s with file := fun p => (s.file p).sync, atom := fun p => (s.atom p).sync }
  | .atomicWrite p b =>
    let a := s.atom p
    { s with atom := upd s.atom p { a with pend := a.pend ++ [b] },
             apaths := addPath s.apaths p }
  | .delete p =>
    let st := s.file p
    { s with file := upd s.file p { st with vis := false, churn := true } }
  | .ack _ => s

def Dir.run (s : Dir) (t : List Op) : Dir := t.foldl Dir.step s

/-! ## what the live directory answers (used to check that a real log is explained) -/

/-- `open_read p`: length seen, `none` = FileDoesNotExist -/
def Dir.readLen (s : Dir) (p : Path) : Option Nat :=
  match (s.atom p).visible with
  | some b => some b.len
  | none => if (s.file p).vis then some (s.file p).flushed else none

def Dir.existsP (s : Dir) (p : Path) : Bool := (s.readLen p).isSome

/-! ## crash images -/

/-- what a crash leaves of the directory: per regular path absent or `(length, sealed)`,
per atomic path absent or one payload -/
structure Image where
  file : Path → Option (Nat × Bool)
  atom : Path → Option Payload

/-- the entry and the content are both safe from a crash -/
def FileSt.firm (st : FileSt) : Bool := st.dur && st.vis && !st.churn && st.term

/-- outcomes the fault model allows for one regular path.
absent: unless the entry is durable and nothing happened to it since;
present: if the entry is durable, or visible (un-synced create applied), or was created and
unlinked since the last sync (create applied, unlink not);
content of a present file: everything if it was terminated, otherwise any prefix (lost tail /
empty / truncated / full), and such a prefix may look sealed only when nothing is missing. -/
def FileSt.outcome (st : FileSt) : Option (Nat × Bool) → Bool
  | none => !(st.dur && st.vis && !st.churn)
  | some (n, sealed) =>
    (st.dur || st.vis || st.churn) &&
      (if st.term then n == st.written && sealed else decide (n ≤ st.written) && (!sealed || n == st.written))

/-- `img` is one of the images the storage may leave if everything stops in state `s` -/
def CrashImage (s : Dir) (img : Image) : Prop :=
  (∀ p, (s.file p).outcome (img.file p) = true) ∧ (∀ p, img.atom p ∈ (s.atom p).options)

/-- the directory a process finds after a crash left `img`: everything in it is durable -/
def Dir.ofImage (img : Image) (paths apaths : List Path) : Dir :=
  { file := fun p => match img.file p with
      | some (n, sealed) => { ever := true, vis := true, written := n, flushed := n, term := sealed, dur := true }
      | none => {},
    atom := fun p => { dur := img.atom p, pend := [] },
    paths := paths, apaths := apaths }

/-! ### enumeration (driver, counterexamples): images as finite tables over the touched paths -/

structure LImage where
  files : List (Path × Option (Nat × Bool))
  atoms : List (Path × Option Payload)
deriving DecidableEq, Repr, Inhabited

def lookupD {α : Type} (l : List (Path × Option α)) (p : Path) : Option α :=
  match l.lookup p with
  | some v => v
  | none => none

def LImage.toImage (i : LImage) : Image := { file := lookupD i.files, atom := lookupD i.atoms }

/-- all outcomes of one regular path -/
def FileSt.outcomes (st : FileSt) : List (Option (Nat × Bool)) :=
  (if st.dur && st.vis && !st.churn then [] else [none]) ++
  (if st.dur || st.vis || st.churn then
     (if st.term then [some (st.written, true)]
      else (List.range (st.written + 1)).map (fun n => some (n, false)) ++ [some (st.written, true)])
   else [])

def prodOutcomes {α : Type} : List (Path × List α) → List (List (Path × α))
  | [] => [[]]
  | (p, os) :: rest => os.flatMap (fun o => (prodOutcomes rest).map (fun r => (p, o) :: r))

/-- every image over the touched paths (exponential; for theorems and tiny examples only) -/
def crashImages (s : Dir) : List LImage :=
  (prodOutcomes (s.paths.map (fun p => (p, (s.file p).outcomes)))).flatMap (fun fs =>
    (prodOutcomes (s.apaths.map (fun p => (p, (s.atom p).options)))).map (fun as => { files := fs, atoms := as }))

/-! ### the quick-tier subset: named single deviations from the two extreme images -/

/-- image in which every un-synced item is applied / fully present (= the visible directory) -/
def Dir.allApplied (s : Dir) : LImage :=
  { files := s.paths.map (fun p => let st := s.file p
      (p, if st.vis then some (st.written, st.term) else none)),
    atoms := s.apaths.map (fun p => (p, (s.atom p).visible)) }

/-- image in which every un-synced item is lost: un-synced creates and renames not applied,
un-synced unlinks not applied, un-terminated content empty -/
def Dir.allLost (s : Dir) : LImage :=
  { files := s.paths.map (fun p => let st := s.file p
      (p, if st.dur then some (if st.term then st.written else 0, st.term) else none)),
    atoms := s.apaths.map (fun p => (p, (s.atom p).dur)) }

def setEntry {α : Type} (l : List (Path × α)) (p : Path) (v : α) : List (Path × α) :=
  l.map (fun e => if e.1 = p then (p, v) else e)

/-- a quick-tier image with the name of its single deviation:
kind 0 = everything applied; 1 = everything un-synced lost;
2 = applied, but the un-synced create of `subject` lost;
3 = applied, but the un-synced unlink of `subject` not applied;
4 = applied, but atomic path `subject` shows its option number `arg` (0 = the durable version);
5 = lost, but the un-synced create of `subject` applied (content complete as far as written);
6 = lost, but the un-synced unlink of `subject` applied;
7 = lost, but atomic path `subject` shows its option number `arg`;
8 = applied, but the un-terminated file `subject` truncated to `arg` bytes -/
structure NamedImage where
  kind : Nat
  subject : Path
  arg : Nat
  img : LImage
deriving Repr, Inhabited

def enumFrom {α : Type} : Nat → List α → List (Nat × α)
  | _, [] => []
  | i, a :: l => (i, a) :: enumFrom (i + 1) l

def truncPoints (n : Nat) : List Nat := ([0, 1, n / 2, n - 1].filter (fun k => decide (k < n))).eraseDups

def quickImages (s : Dir) : List NamedImage :=
  let A := s.allApplied
  let L := s.allLost
  [⟨0, 0, 0, A⟩, ⟨1, 0, 0, L⟩] ++
  s.paths.flatMap (fun p =>
    let st := s.file p
    (if st.vis && !(st.dur && !st.churn) then [⟨2, p, 0, { A with files := setEntry A.files p none }⟩] else []) ++
    (if !st.vis && (st.dur || st.churn) then
      [⟨3, p, 0, { A with files := setEntry A.files p (some (st.written, st.term)) }⟩] else []) ++
    (if !st.dur && (st.vis || st.churn) then
      [⟨5, p, 0, { L with files := setEntry L.files p (some (st.written, st.term)) }⟩] else []) ++
    (if st.dur && (!st.vis || st.churn) then [⟨6, p, 0, { L with files := setEntry L.files p none }⟩] else []) ++
    (if st.vis && !st.term then
      (truncPoints st.written).map (fun n => ⟨8, p, n, { A with files := setEntry A.files p (some (n, false)) }⟩)
     else [])) ++
  s.apaths.flatMap (fun p =>
    let a := s.atom p
    (enumFrom 0 a.options).flatMap (fun (i, o) =>
      (if o != a.visible then [⟨4, p, i, { A with atoms := setEntry A.atoms p o }⟩] else []) ++
      (if o != a.dur then [⟨7, p, i, { L with atoms := setEntry L.atoms p o }⟩] else [])))

/-- run-time self check of an enumerated image against the fault model (touched paths) -/
def LImage.allowed (s : Dir) (i : LImage) : Bool :=
  i.files.all (fun e => (s.file e.1).outcome e.2) && i.atoms.all (fun e => (s.atom e.1).options.contains e.2)

end TantivyModel.Storage
