import TantivyModel.Gen.Bm25
/-!
# BM25 scoring (C12): statistics, formula, score of a query tree, explain value

Mirrors `src/query/bm25.rs` operation by operation, `src/query/term_query/term_scorer.rs`,
`score_combiner.rs` (Sum, DisjunctionMax), `boost_query.rs`, `const_score_query.rs`,
`explanation.rs` (root values), `fieldnorm/code.rs` and the statistics provider of `Searcher`.

The arithmetic is abstract (`Arith F`): the driver runs it in `Float32` (the same IEEE single
operations, in the same order, as the Rust code); the exact facts are proved over `ℚ`
(`Proofs/Bm25Q.lean`) and the structural theorems hold for every `F` (floats are opaque to the
kernel, so no theorem mentions a float operation). No Mathlib.
-/
namespace TantivyModel.Bm25

/-- the arithmetic the formula uses -/
class Arith (F : Type) where
  ofNat : Nat → F            -- `x as Score`
  add : F → F → F
  sub : F → F → F
  mul : F → F → F
  div : F → F → F
  ln : F → F
  max : F → F → F
  half : F                   -- the literal 0.5
  isOne : F → Bool           -- `boost == 1.0f32`

instance : Arith Float32 where
  ofNat := Float32.ofNat
  add := (· + ·)
  sub := (· - ·)
  mul := (· * ·)
  div := (· / ·)
  ln := Float32.log
  -- `f32::max`: NaN-ignoring maximum; scores are never NaN here
  max a b := if a < b then b else a
  half := 0.5
  isOne x := x == 1.0

section Formula
variable {F : Type} [Arith F]
open Arith

def zero : F := ofNat 0
def one : F := ofNat 1
/-- `const K1: Score = 1.2`, `const B: Score = 0.75` (decimal literals regenerated from the source;
a correctly rounded quotient of two exactly representable integers is the literal's value) -/
def K1 : F := div (ofNat Gen.K1_NUM) (ofNat Gen.K1_DEN)
def B : F := div (ofNat Gen.B_NUM) (ofNat Gen.B_DEN)

/-- mirrors: fieldnorm/code.rs::id_to_fieldnorm -/
def idToFieldnorm (id : Nat) : Nat := Gen.FIELD_NORMS_TABLE.getD id 0

/-- mirrors: fieldnorm/code.rs::fieldnorm_to_id — `binary_search(..).unwrap_or_else(|idx| idx - 1)`
on the strictly increasing table = index of the last entry `≤ fieldnorm` -/
def fieldnormToId (fieldnorm : Nat) : Nat :=
  (Gen.FIELD_NORMS_TABLE.takeWhile (· ≤ fieldnorm)).length - 1

/-- mirrors: bm25.rs::idf — `x = ((N - n) as f32 + 0.5) / (n as f32 + 0.5); (1.0 + x).ln()` -/
def idf (docFreq docCount : Nat) : F :=
  let x : F := div (add (ofNat (docCount - docFreq)) half) (add (ofNat docFreq) half)
  ln (add one x)

/-- mirrors: bm25.rs::cached_tf_component — `K1 * (1.0 - B + B * fieldnorm as f32 / avg)` -/
def cachedTfComponent (fieldnorm : Nat) (avg : F) : F :=
  mul K1 (add (sub one B) (div (mul B (ofNat fieldnorm)) avg))

/-- mirrors: bm25.rs::compute_tf_cache — 256 entries over the extracted table -/
def tfCache (avg : F) : List F := (List.range 256).map fun id => cachedTfComponent (idToFieldnorm id) avg

/-- searcher-wide statistics: `total_num_docs`, `total_num_tokens(field)` -/
structure Stats where
  numDocs : Nat
  numTokens : Nat
deriving Repr, DecidableEq

/-- mirrors: Bm25Weight::for_terms — `average_fieldnorm = total_num_tokens as f32 / total_num_docs as f32` -/
def avgFieldnorm (s : Stats) : F := div (ofNat s.numTokens) (ofNat s.numDocs)

/-- mirrors: Bm25Weight::new — `weight = idf * (1.0 + K1)`; boost_by — `weight * boost` unless `boost == 1.0` -/
def weight (s : Stats) (docFreq : Nat) (boost : F) : F :=
  let w : F := mul (idf docFreq s.numDocs) (add one K1)
  if isOne boost then w else mul w boost

/-- mirrors: Bm25Weight::tf_factor — `tf / (tf + cache[fieldnorm_id])` -/
def tfFactor (s : Stats) (fieldnormId tf : Nat) : F :=
  let norm : F := cachedTfComponent (idToFieldnorm fieldnormId) (avgFieldnorm s)
  div (ofNat tf) (add (ofNat tf) norm)

/-- mirrors: Bm25Weight::score — `weight * tf_factor` -/
def termScore (s : Stats) (docFreq fieldnormId tf : Nat) (boost : F) : F :=
  mul (weight s docFreq boost) (tfFactor s fieldnormId tf)

/-- mirrors: Bm25Weight::for_terms for a phrase — `idf_sum = 0.0; idf_sum += idf(df_i, N)` in term
order; `weight = idf_sum * (1 + K1)`; the phrase count plays the role of the term frequency
(phrase_scorer.rs::score) -/
def idfSum (s : Stats) (docFreqs : List Nat) : F :=
  docFreqs.foldl (fun acc n => add acc (idf n s.numDocs)) zero

def phraseScore (s : Stats) (docFreqs : List Nat) (fieldnormId count : Nat) (boost : F) : F :=
  let w : F := mul (idfSum s docFreqs) (add one K1)
  mul (if isOne boost then w else mul w boost) (tfFactor s fieldnormId count)

/-- mirrors: Bm25Weight::max_score — `score(255, 2_013_265_944)` -/
def maxScore (s : Stats) (docFreq : Nat) (boost : F) : F :=
  termScore s docFreq Gen.MAX_SCORE_FIELDNORM_ID Gen.MAX_SCORE_TF boost

/-- a scoring query as seen from ONE matching document: only the clauses that match it, each term
leaf carrying the document's `(tf, fieldnorm_id)` and the term's searcher-wide `doc_freq` -/
inductive QTree (F : Type) where
  | term (docFreq fieldnormId tf : Nat)
  | phrase (docFreqs : List Nat) (fieldnormId count : Nat)
  | boost (q : QTree F) (b : F)
  | const (q : QTree F) (s : F)
  | sum (qs : List (QTree F))
  | dismax (qs : List (QTree F)) (tie : F)

mutual
/-- the score a scorer built with `weight.scorer(reader, boost)` returns on the document -/
def score (s : Stats) : QTree F → F → F
  | .term n id tf, boost => termScore s n id tf boost
  | .phrase ns id c, boost => phraseScore s ns id c boost
  -- mirrors: BoostWeight::scorer — `self.weight.scorer(reader, boost * self.boost)`
  | .boost q b, boost => score s q (mul boost b)
  -- mirrors: ConstWeight::scorer — `ConstScorer::new(inner, boost * self.score)`
  | .const _ c, boost => mul boost c
  -- mirrors: SumCombiner — `score = 0.0; score += clause.score()` in clause order
  | .sum qs, boost => sumScores s qs boost zero
  -- mirrors: DisjunctionMaxCombiner — `max + (sum - max) * tie_breaker`
  | .dismax qs tie, boost =>
    let m := maxScores s qs boost zero
    let t := sumScores s qs boost zero
    add m (mul (sub t m) tie)
def sumScores (s : Stats) : List (QTree F) → F → F → F
  | [], _, acc => acc
  | q :: qs, boost, acc => sumScores s qs boost (add acc (score s q boost))
def maxScores (s : Stats) : List (QTree F) → F → F → F
  | [], _, acc => acc
  | q :: qs, boost, acc => maxScores s qs boost (Arith.max (score s q boost) acc)
end

/-- the root value of `Weight::explain` on the document -/
def explainValue (s : Stats) : QTree F → F
  -- mirrors: TermWeight::explain → TermScorer::explain → Bm25Weight::explain: `self.score(..)` of the unboosted scorer
  | .term n id tf => termScore s n id tf one
  -- mirrors: PhraseWeight::explain — `Explanation::new("Phrase Scorer", scorer.score())`
  | .phrase ns id c => phraseScore s ns id c one
  -- mirrors: BoostWeight::explain — `underlying_explanation.value() * self.boost`
  | .boost q b => mul (explainValue s q) b
  -- mirrors: ConstWeight::explain — `Explanation::new("Const", self.score)`
  | .const _ c => c
  -- mirrors: BooleanWeight::explain — `scorer.score()` of `self.scorer(reader, 1.0)`
  | .sum qs => score s (.sum qs) one
  | .dismax qs tie => score s (.dismax qs tie) one

/-- is the tree a plain term query? -/
def QTree.isTerm : QTree F → Bool
  | .term _ _ _ => true
  | _ => false

/-- the score `TopDocs::order_by_score` reports. mirrors: BooleanWeight::for_each_pruning — a union
of plain term scorers is handed to `block_wand`, which ADDS the clause scores whatever the score
combiner of the weight is; every other shape goes through the scorer. -/
def topDocsScore (s : Stats) : QTree F → F
  | .dismax qs tie => if qs.all QTree.isTerm then score s (.sum qs) one else score s (.dismax qs tie) one
  | q => score s q one

/-- the state of `DisjunctionMaxCombiner` (score_combiner.rs; its shape is checked by the extractor:
`Gen.DISMAX_COMBINER_SHAPE`) -/
structure DisMaxState (F : Type) where
  max : F
  sum : F

/-- `with_tie_breaker` / `clear`: `max = 0.0; sum = 0.0` -/
def DisMaxState.init : DisMaxState F := ⟨zero, zero⟩
/-- `update`: `self.max = Score::max(score, self.max); self.sum += score` -/
def DisMaxState.update (st : DisMaxState F) (x : F) : DisMaxState F :=
  { max := Arith.max x st.max, sum := add st.sum x }
/-- `score`: `self.max + (self.sum - self.max) * self.tie_breaker` -/
def DisMaxState.score (st : DisMaxState F) (tie : F) : F := add st.max (mul (sub st.sum st.max) tie)

end Formula

/-! ## statistics of a segmented corpus -/

/-- a document = the token ids of the field -/
abbrev Doc := List Nat

/-- mirrors: `impl Bm25StatisticsProvider for Searcher` — sums over the segment readers
(`max_doc`, `inverted_index.total_num_tokens()`) -/
def statsOf (segments : List (List Doc)) : Stats :=
  { numDocs := (segments.map List.length).sum,
    numTokens := (segments.map fun seg => (seg.map List.length).sum).sum }

/-- mirrors: Searcher::doc_freq — sum over the segments of the segment's `doc_freq(term)` -/
def docFreqOf (segments : List (List Doc)) (term : Nat) : Nat :=
  (segments.map fun seg => seg.countP (·.contains term)).sum

/-- term frequency and quantised length of a document -/
def tfOf (d : Doc) (term : Nat) : Nat := d.count term
def fieldnormIdOf (d : Doc) : Nat := fieldnormToId d.length

/-- the score of a single-term query on a document of a segmented corpus -/
def termScoreIn {F : Type} [Arith F] (segments : List (List Doc)) (term : Nat) (d : Doc) (boost : F) : F :=
  termScore (statsOf segments) (docFreqOf segments term) (fieldnormIdOf d) (tfOf d term) boost

end TantivyModel.Bm25
