import TantivyModel.Gen.Postings
/-!
# Field norm codes (C07) over the extracted 256-entry `FIELD_NORMS_TABLE`

-- mirrors: src/fieldnorm/code.rs::id_to_fieldnorm
-- mirrors: src/fieldnorm/code.rs::fieldnorm_to_id
-/
namespace TantivyModel.FieldNorm

abbrev table : List Nat := Gen.Postings.FIELD_NORMS_TABLE

/-- `FIELD_NORMS_TABLE[id as usize]` (`id : u8`, so `id < 256`) -/
def idToFieldnorm (T : List Nat) (i : Nat) : Nat := T.getD i 0

/-- `T.binary_search(&n).unwrap_or_else(|idx| idx - 1)` on a strictly increasing table:
`Ok(i)` is the index of `n`, `Err(idx)` the insertion point; both equal
(number of entries `≤ n`) − 1.  (`idx - 1` would underflow only if `n < T[0]`; `T[0] = 0`.) -/
def fieldnormToId (T : List Nat) (n : Nat) : Nat := T.countP (· ≤ n) - 1

/-- the per-document value stored: `fieldnorm_to_id(num_tokens)` -/
def fieldnormId (numTokens : Nat) : Nat := fieldnormToId table numTokens

end TantivyModel.FieldNorm
