/-!
# Text, byte offsets, tokens (C19)

A text is a list of code points. The UTF-8 width of a code point follows from its scalar value
(1..4 bytes); the Unicode class `char::is_alphanumeric` is Rust `std`'s table and is a
**parameter** carried by each code point (the harness sends it). Byte offsets are prefix sums of
widths; "on a character boundary" (`str::is_char_boundary`) = member of the prefix-sum list.
-/
namespace TantivyModel.Tok

/-- one code point of the text -/
structure Cp where
  code : Nat
  /-- `char::is_alphanumeric` as computed by Rust std (parameter) -/
  alnum : Bool
  deriving Repr, DecidableEq, Inhabited

/-- `char::len_utf8` -/
def utf8Len (c : Nat) : Nat :=
  if c < 0x80 then 1 else if c < 0x800 then 2 else if c < 0x10000 then 3 else 4

/-- first byte of the UTF-8 encoding of a scalar value -/
def leadByte (c : Nat) : Nat :=
  if c < 0x80 then c else if c < 0x800 then 0xC0 + c / 64
  else if c < 0x10000 then 0xE0 + c / 4096 else 0xF0 + c / 262144

def Cp.w (c : Cp) : Nat := utf8Len c.code

abbrev Text := List Cp

/-- `str::len` in bytes -/
def byteLen : Text → Nat
  | [] => 0
  | c :: s => c.w + byteLen s

/-- byte offsets of the code-point boundaries of a text that starts at byte `o`
(includes `o` itself and the end) -/
def boundariesFrom (o : Nat) : Text → List Nat
  | [] => [o]
  | c :: s => o :: boundariesFrom (o + c.w) s

/-- `text.is_char_boundary(o)` -/
def IsBoundary (s : Text) (o : Nat) : Prop := o ∈ boundariesFrom 0 s

instance (s : Text) (o : Nat) : Decidable (IsBoundary s o) := by
  unfold IsBoundary; infer_instance

/-- code points of a text (starting at byte `o`) whose first byte lies in `[a, b)` -/
def sliceFrom (o : Nat) : Text → Nat → Nat → Text
  | [], _, _ => []
  | c :: s, a, b => (if a ≤ o ∧ o < b then [c] else []) ++ sliceFrom (o + c.w) s a b

/-- `&text[a..b]`: panics (`none`) unless `a ≤ b` and both are character boundaries -/
def sliceB (s : Text) (a b : Nat) : Option Text :=
  if a ≤ b ∧ IsBoundary s a ∧ IsBoundary s b then some (sliceFrom 0 s a b) else none

/-- a token: byte offsets into the source text, position, text as scalar values -/
structure Token where
  from_ : Nat
  to : Nat
  pos : Nat
  text : List Nat
  deriving Repr, DecidableEq, Inhabited

/-- token over `s[a..b]` (mirrors `token.text.push_str(&self.text[offset_from..offset_to])`) -/
def mkToken (s : Text) (a b pos : Nat) : Token :=
  ⟨a, b, pos, (sliceFrom 0 s a b).map Cp.code⟩

/-- the token contract every built-in tokenizer/filter chain is shown to satisfy: offsets in
bounds, `from ≤ to`, on character boundaries; `offset_from` and `position` never decrease -/
structure Contract (s : Text) (ts : List Token) : Prop where
  inb : ∀ t ∈ ts, t.from_ ≤ t.to ∧ t.to ≤ byteLen s ∧ IsBoundary s t.from_ ∧ IsBoundary s t.to
  mono : ts.Pairwise (fun a b => a.from_ ≤ b.from_ ∧ a.pos ≤ b.pos)

/-- the token's text is the slice it points to -/
def TextIsSlice (s : Text) (t : Token) : Prop :=
  t.text = (sliceFrom 0 s t.from_ t.to).map Cp.code

end TantivyModel.Tok
