import TantivyModel.Model.Tokenizer.Filters
/-!
# State that lives in the analyzer and survives its streams (C19)

A `TextAnalyzer` is reused: `token_stream(text)` borrows buffers that live in the tokenizer /
filter structs (`token: Token` of every tokenizer, `parts: Vec<Token>` of
`SplitCompoundWordsFilter`). A stream may be dropped before it is drained, so what the buffers
hold when the next stream is created depends on the history. This file models those buffers and
the code that (re)initialises them in `token_stream`, as read from the source by the extractor;
`Props/C19.lean` proves that the tokens of a text do not depend on the history.
-/
namespace TantivyModel.Tok

/-! ### SplitCompoundWordsFilter -/

/-- `parts: Vec<Token>` as a stack with the top at the head (`parts.last()` = head, `parts.pop()` =
tail); the code fills it in reverse so that the first part is on top -/
abbrev PartsBuf := List Token

/-- the parts pushed by `split()` for the token the tail stream is at: the dictionary parts with
the token's offsets and position, first part on top; nothing if the token does not split
-- mirrors: src/tokenizer/split_compound_words.rs::split -/
def splitFill (g : List Nat → Option (List (List Nat))) (t : Token) : PartsBuf :=
  match g t.text with
  | some (p :: ps) => (p :: ps).map (fun q => { t with text := q })
  | _ => []

/-- one `advance()`: pop; if parts remain the top one is the token; otherwise advance the tail
stream (`inner` = the tokens it still yields) and split. `none` = the stream has ended.
Returns the token now exposed by `token()`, the buffer and the rest of the tail stream.
-- mirrors: src/tokenizer/split_compound_words.rs::advance -/
def splitAdvance (g : List Nat → Option (List (List Nat))) (P : PartsBuf) (inner : List Token) :
    Option (Token × PartsBuf × List Token) :=
  match P.tail with
  | q :: P' => some (q, q :: P', inner)
  | [] =>
    match inner with
    | [] => none
    | t :: rest =>
      let np := splitFill g t
      some (np.head?.getD t, np, rest)

/-- read at most `k` tokens from a stream, then drop it: the tokens read and the buffer left
behind in the analyzer -/
def splitRun (g : List Nat → Option (List (List Nat))) : Nat → PartsBuf → List Token →
    List Token × PartsBuf
  | 0, P, _ => ([], P)
  | k + 1, P, inner =>
    match splitAdvance g P inner with
    | none => ([], [])
    | some (t, P', inner') =>
      let r := splitRun g k P' inner'
      (t :: r.1, r.2)

/-- `SplitCompoundWordsFilter::token_stream`: what the new stream finds in `parts`, given what the
previous streams of this analyzer left there. `clears` is read from the source
(`Gen.SPLIT_COMPOUND_CLEARS_PARTS`).
-- mirrors: src/tokenizer/split_compound_words.rs::token_stream -/
def splitNewStream (clears : Nat) (left : PartsBuf) : PartsBuf :=
  if clears = 0 then left else []

/-- a history of the analyzer: for each earlier text the tokens that reached the filter and how many
tokens were read before the stream was dropped; returns the buffer it leaves -/
def splitHistory (clears : Nat) (g : List Nat → Option (List (List Nat))) :
    PartsBuf → List (List Token × Nat) → PartsBuf
  | P, [] => P
  | P, (inner, k) :: hs => splitHistory clears g (splitRun g k (splitNewStream clears P) inner).2 hs

/-! ### the tokenizers' own `Token` (position counter) -/

def usizeMax : Nat := 2 ^ 64 - 1

/-- `position.wrapping_add(1)` -/
def wrapAdd1 (p : Nat) : Nat := (p + 1) % 2 ^ 64

/-- the value `token.position` holds when a new stream starts, given what the previous stream left
there: `self.token.reset()` (if the tokenizers call it) sets it to `usize::MAX` (if `reset` does)
-- mirrors: tokenizer-api/src/lib.rs::reset -/
def streamStartPosition (resets resetIsMax : Nat) (left : Nat) : Nat :=
  if resets = 0 then left else if resetIsMax = 0 then 0 else usizeMax

/-- Simple/Whitespace tokenizer on an analyzer whose token was left at position `left` -/
def scanStream (resets resetIsMax : Nat) (p : Cp → Bool) (left : Nat) (s : Text) : List Token :=
  (scanAux p none 0 (wrapAdd1 (streamStartPosition resets resetIsMax left)) s).map
    (fun x => mkToken s x.1 x.2.1 x.2.2)

end TantivyModel.Tok

namespace TantivyModel.Tok

/-! ### filters that write into a reusable `String` buffer and swap it with the token text -/

/-- `h(text)` is appended to the buffer (after `clear()`, if the code clears), the buffer and the
token text are swapped: the new token text and what the buffer holds afterwards -/
def viaBuffer (clears : Nat) (h : List Nat → List Nat) (buf text : List Nat) :
    List Nat × List Nat :=
  ((if clears = 0 then buf else []) ++ h text, text)

/-- LowerCaser: ASCII texts are lower-cased in place, others go through the buffer
-- mirrors: src/tokenizer/lower_caser.rs::to_lowercase_unicode -/
def lowerStep (clears : Nat) (f : Nat → List Nat) (buf text : List Nat) : List Nat × List Nat :=
  if isAsciiText text then (text.map asciiLower, buf)
  else viaBuffer clears (fun t => t.flatMap f) buf text

/-- AsciiFoldingFilter: ASCII texts are left alone, others go through the buffer -/
def foldStep (clears : Nat) (f : Nat → Option (List Nat)) (buf text : List Nat) :
    List Nat × List Nat :=
  if isAsciiText text then (text, buf)
  else viaBuffer clears (fun t => t.flatMap (fun c => (f c).getD [c])) buf text

/-- Stemmer: an owned result replaces the text, a borrowed one goes through the buffer
(`owned` = which case the stemming library reports: a parameter) -/
def stemStep (clears : Nat) (g : List Nat → List Nat) (owned : List Nat → Bool)
    (buf text : List Nat) : List Nat × List Nat :=
  if owned text then (g text, buf) else viaBuffer clears g buf text

/-- a stream of such a filter over the tokens of its tail, threading the buffer -/
def bufferedStream (step : List Nat → List Nat → List Nat × List Nat) :
    List Nat → List Token → List Token × List Nat
  | buf, [] => ([], buf)
  | buf, t :: ts =>
    let r := step buf t.text
    let rest := bufferedStream step r.2 ts
    ({ t with text := r.1 } :: rest.1, rest.2)

end TantivyModel.Tok

namespace TantivyModel.Tok

/-- FacetTokenizer on an analyzer whose token text was left at `left` by an earlier (possibly
abandoned) stream: `self.token.reset()` clears the text the tokenizer appends to -/
def facetStream (resets : Nat) (sep : Nat) (fs : List Filter) (left : List Nat) (s : Text) :
    List Token :=
  (facetChainAux fs (if resets = 0 then left else []) (facetPieces sep s)).map
    (fun t => ⟨0, 0, 0, t⟩)

end TantivyModel.Tok

namespace TantivyModel.Tok

/-- everything an analyzer `Simple|Whitespace tokenizer → LowerCaser → SplitCompoundWords` keeps
between streams: the tokenizer's position counter, the lower-caser's buffer, the splitter's parts -/
structure AnalyzerState where
  pos : Nat
  lowerBuf : List Nat
  parts : PartsBuf

/-- `token_stream(s)` on such an analyzer in state `st`, read for `k` tokens and dropped: every
component (re)initialises its buffers as the source says (`Gen.*`) -/
def analyzerRun (p : Cp → Bool) (f : Nat → List Nat) (g : List Nat → Option (List (List Nat)))
    (st : AnalyzerState) (s : Text) (k : Nat) : List Token :=
  let toks := scanStream Gen.TOKENIZERS_RESET_TOKEN Gen.TOKEN_RESET_POSITION_IS_MAX p st.pos s
  let low := (bufferedStream (lowerStep Gen.LOWERCASER_CLEARS_OUTPUT f) st.lowerBuf toks).1
  (splitRun g k (splitNewStream Gen.SPLIT_COMPOUND_CLEARS_PARTS st.parts) low).1

end TantivyModel.Tok

namespace TantivyModel.Tok

/-- the reusable buffers one filter of a chain keeps in the analyzer -/
structure FilterState where
  buf : List Nat
  parts : PartsBuf

/-- everything a drained stream of filter `f` yields over the tokens of its tail when its buffers
hold `st` at stream creation (filters without buffers are their stateless selves); `owned` = which
`Cow` case the stemming library reports -/
def Filter.stream (owned : List Nat → Bool) (f : Filter) (st : FilterState) (inner : List Token) :
    List Token :=
  match f with
  | .lower g => (bufferedStream (lowerStep Gen.LOWERCASER_CLEARS_OUTPUT g) st.buf inner).1
  | .fold g => (bufferedStream (foldStep Gen.ASCII_FOLDING_CLEARS_OUTPUT g) st.buf inner).1
  | .stem g => (bufferedStream (stemStep Gen.STEMMER_CLEARS_BUFFER g owned) st.buf inner).1
  | .split g =>
    (splitRun g (st.parts.length + ((Filter.split g).apply inner).length)
      (splitNewStream Gen.SPLIT_COMPOUND_CLEARS_PARTS st.parts) inner).1
  | other => other.apply inner

/-- a whole chain, innermost filter first, each with its own buffers -/
def chainStream (owned : List Nat → Bool) : List Filter → List FilterState → List Token → List Token
  | [], _, ts => ts
  | f :: fs, st :: sts, ts => chainStream owned fs sts (f.stream owned st ts)
  | f :: fs, [], ts => chainStream owned fs [] (f.stream owned ⟨[], []⟩ ts)

end TantivyModel.Tok
