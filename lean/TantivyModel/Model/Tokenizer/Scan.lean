import TantivyModel.Model.Tokenizer.Basic
/-!
# SimpleTokenizer, WhitespaceTokenizer, RawTokenizer, RegexTokenizer, FacetTokenizer (C19)
-/
namespace TantivyModel.Tok

/-- `char::is_ascii_whitespace`: U+0020, U+0009, U+000A, U+000C, U+000D -/
def isAsciiWs (c : Nat) : Bool := c == 0x20 || c == 0x09 || c == 0x0A || c == 0x0C || c == 0x0D

/-- `char::is_ascii_alphanumeric` -/
def isAsciiAlnum (c : Nat) : Bool :=
  (0x30 ≤ c && c ≤ 0x39) || (0x41 ≤ c && c ≤ 0x5A) || (0x61 ≤ c && c ≤ 0x7A)

/-- One pass over `char_indices()`.
`cur = none`: the outer `while let Some((offset_from, c)) = self.chars.next()` loop looking for
the first token character; `cur = some start`: inside `search_token_end`, consuming until the
first non-token character (which is consumed too) or the end of the text (`unwrap_or(len)`).
`o` = byte offset of the next code point, `pos` = position of the next token to emit.
-- mirrors: src/tokenizer/simple_tokenizer.rs::advance
-- mirrors: src/tokenizer/simple_tokenizer.rs::search_token_end
-- mirrors: src/tokenizer/whitespace_tokenizer.rs::advance
-- mirrors: src/tokenizer/whitespace_tokenizer.rs::search_token_end -/
def scanAux (p : Cp → Bool) : Option Nat → Nat → Nat → Text → List (Nat × Nat × Nat)
  | none, _, _, [] => []
  | some st, o, pos, [] => [(st, o, pos)]
  | none, o, pos, c :: s =>
    if p c then scanAux p (some o) (o + c.w) pos s else scanAux p none (o + c.w) pos s
  | some st, o, pos, c :: s =>
    if p c then scanAux p (some st) (o + c.w) pos s
    else (st, o, pos) :: scanAux p none (o + c.w) (pos + 1) s

def scanTokens (p : Cp → Bool) (s : Text) : List Token :=
  (scanAux p none 0 0 s).map (fun x => mkToken s x.1 x.2.1 x.2.2)

/-- SimpleTokenizer: maximal runs of `is_alphanumeric` code points -/
def simpleTokens (s : Text) : List Token := scanTokens (fun c => c.alnum) s

/-- WhitespaceTokenizer: maximal runs of non-`is_ascii_whitespace` code points -/
def whitespaceTokens (s : Text) : List Token := scanTokens (fun c => !isAsciiWs c.code) s

/-- RawTokenizer: the whole text as one token (also for the empty text)
-- mirrors: src/tokenizer/raw_tokenizer.rs::token_stream -/
def rawTokens (s : Text) : List Token := [mkToken s 0 (byteLen s) 0]

/-- RegexTokenizer. `ms` = the successive results of `regex.find(rest)` as (start, end) relative
to the remaining text (parameter: the `regex` crate); the stream stops at the first missing or
empty match. `cursor` = bytes already cut off.
-- mirrors: src/tokenizer/regex_tokenizer.rs::advance -/
def regexAux : Nat → Nat → List (Nat × Nat) → List (Nat × Nat × Nat)
  | _, _, [] => []
  | cursor, pos, (a, b) :: ms =>
    if a = b then [] else (cursor + a, cursor + b, pos) :: regexAux (cursor + b) (pos + 1) ms

def regexTokens (s : Text) (ms : List (Nat × Nat)) : List Token :=
  (regexAux 0 0 ms).map (fun x => mkToken s x.1 x.2.1 x.2.2)

/-- FacetTokenizer: byte 0 (`FACET_SEP_BYTE`) separates path segments. Emits the root (empty
text), then the prefix up to (not including) every separator at byte position ≥ 1, then the whole
text. The code never assigns `offset_from`/`offset_to`/`position` after `reset()`+`position = 0`:
every token carries (0, 0, 0) and the *text* grows.
`o` = byte offset of the next code point; `first` = no code point consumed yet (a separator at
byte 0 is not looked at: the search starts at `cursor + 1`).
-- mirrors: src/tokenizer/facet_tokenizer.rs::advance -/
def facetCuts (sep : Nat) : Bool → Nat → Text → List Nat
  | _, o, [] => [o]
  | first, o, c :: s =>
    (if !first && c.code == sep then [o] else []) ++ facetCuts sep false (o + c.w) s

def facetTokens (sep : Nat) (s : Text) : List Token :=
  ⟨0, 0, 0, []⟩ ::
    (if s.isEmpty then [] else
      (facetCuts sep true 0 s).map (fun p => ⟨0, 0, 0, (sliceFrom 0 s 0 p).map Cp.code⟩))

end TantivyModel.Tok
