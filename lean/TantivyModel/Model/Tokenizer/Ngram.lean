import TantivyModel.Model.Tokenizer.Basic
import TantivyModel.Gen.Tokenizer
/-!
# NgramTokenizer (C19): CodepointFrontiers over the extracted width table + StutteringIterator
-/
namespace TantivyModel.Tok

/-- `utf8_codepoint_width(b)`: the extracted 16-entry table indexed by the high nibble
-- mirrors: src/tokenizer/ngram_tokenizer.rs::utf8_codepoint_width -/
def tableWidth (b : Nat) : Nat :=
  Gen.CODEPOINT_UTF8_WIDTH.getD (b >>> Gen.UTF8_WIDTH_SHIFT) 0

/-- `CodepointFrontiers::for_str(text).collect()`: each step adds the table width of the first
byte of the remaining text (never looks at the scalar value). -/
def frontiersFrom (o : Nat) : Text → List Nat
  | [] => [o]
  | c :: s => o :: frontiersFrom (o + tableWidth (leadByte c.code)) s

def frontiers (s : Text) : List Nat := frontiersFrom 0 s

/-- state of `StutteringIterator` (`underlying` = frontiers not yet pulled) -/
structure Stutter where
  underlying : List Nat
  minGram : Nat
  maxGram : Nat
  memory : List Nat
  cursor : Nat
  gramLen : Nat
  deriving Repr

-- mirrors: src/tokenizer/ngram_tokenizer.rs::new
def Stutter.new (fs : List Nat) (minG maxG : Nat) : Stutter :=
  let memory := fs.take (maxG + 1)
  let rest := fs.drop (maxG + 1)
  if memory.length ≤ minG then ⟨rest, 1, 0, memory, 0, 0⟩
  else ⟨rest, minG, memory.length - 1, memory, 0, minG⟩

/-- one `next()` of the stuttering iterator: ring buffer `memory`, `cursor` = slot of the current
start frontier, `gramLen` = next gram length to emit; when the underlying iterator is exhausted
the window shrinks (`max_gram -= 1`).
-- mirrors: src/tokenizer/ngram_tokenizer.rs::next -/
def Stutter.next (st0 : Stutter) : Option ((Nat × Nat) × Stutter) :=
  let st : Stutter :=
    if st0.gramLen > st0.maxGram then
      let cur := st0.cursor + 1
      match st0.underlying with
      | v :: r =>
        { st0 with gramLen := st0.minGram, memory := st0.memory.set st0.cursor v, underlying := r,
                   cursor := if cur ≥ st0.memory.length then 0 else cur }
      | [] =>
        { st0 with gramLen := st0.minGram, maxGram := st0.maxGram - 1,
                   cursor := if cur ≥ st0.memory.length then 0 else cur }
    else st0
  if st.maxGram < st.minGram then none
  else
    let start := st.memory.getD (st.cursor % st.memory.length) 0
    let stop := st.memory.getD ((st.cursor + st.gramLen) % st.memory.length) 0
    some ((start, stop), { st with gramLen := st.gramLen + 1 })

/-- run the iterator to exhaustion (fuel = an upper bound of the number of pairs) -/
def Stutter.collect : Nat → Stutter → List (Nat × Nat)
  | 0, _ => []
  | fuel + 1, st =>
    match st.next with
    | none => []
    | some (p, st') => p :: Stutter.collect fuel st'

def stutterAll (fs : List Nat) (minG maxG : Nat) : List (Nat × Nat) :=
  Stutter.collect (fs.length * fs.length + 1) (Stutter.new fs minG maxG)

/-- `NgramTokenStream`: every pair becomes a token with position 0; in prefix-only mode the
stream ends at the first pair that does not start at byte 0.
-- mirrors: src/tokenizer/ngram_tokenizer.rs::advance -/
def ngramOffsets (s : Text) (minG maxG : Nat) (prefixOnly : Bool) : List (Nat × Nat) :=
  let all := stutterAll (frontiers s) minG maxG
  if prefixOnly then all.takeWhile (fun p => p.1 == 0) else all

def ngramTokens (s : Text) (minG maxG : Nat) (prefixOnly : Bool) : List Token :=
  (ngramOffsets s minG maxG prefixOnly).map (fun p => mkToken s p.1 p.2 0)

/-- specification of the n-gram enumeration over a frontier list `F`: for every start index `i`
in order, every gram length `k` with `min ≤ k ≤ max` and `i + k` still a frontier, in order -/
def ngramSpec (F : List Nat) (minG maxG : Nat) : List (Nat × Nat) :=
  (List.range F.length).flatMap fun i =>
    (List.range' minG (maxG + 1 - minG)).filterMap fun k =>
      if i + k < F.length then some (F.getD i 0, F.getD (i + k) 0) else none

end TantivyModel.Tok
