import TantivyModel.Model.Tokenizer.Basic
import TantivyModel.Gen.Tokenizer
/-!
# NgramTokenizer (C19): CodepointFrontiers over the extracted width table + StutteringIterator
-/
namespace TantivyModel.Tok

/-- `utf8_codepoint_width(b)`: the extracted 16-entry table indexed by the high nibble
-- mirrors: src/tokenizer/ngram_tokenizer.rs::utf8_codepoint_width -/
def tableWidth (b : Nat) : Nat :=
  Gen.CODEPOINT_UTF8_WIDTH.getD (b >>> Gen.UTF8_WIDTH_SHIFT) 0

/-- `CodepointFrontiers::for_str(text).collect()`: each step adds the table width of the first
byte of the remaining text (never looks at the scalar value). -/
def frontiersFrom (o : Nat) : Text → List Nat
  | [] => [o]
  | c :: s => o :: frontiersFrom (o + tableWidth (leadByte c.code)) s

def frontiers (s : Text) : List Nat := frontiersFrom 0 s

/-- state of `StutteringIterator` (`underlying` = frontiers not yet pulled) -/
structure Stutter where
  underlying : List Nat
  minGram : Nat
  maxGram : Nat
  memory : List Nat
  cursor : Nat
  gramLen : Nat
  deriving Repr

-- mirrors: src/tokenizer/ngram_tokenizer.rs::new
def Stutter.new (fs : List Nat) (minG maxG : Nat) : Stutter :=
  let memory := fs.take (maxG + 1)
  let rest := fs.drop (maxG + 1)
  if memory.length ≤ minG then ⟨rest, 1, 0, memory, 0, 0⟩
  else ⟨rest, minG, memory.length - 1, memory, 0, minG⟩

/-- the "time to advance" block of `next()`: pull one frontier into the ring buffer slot of the
old start (or, when the underlying iterator is exhausted, shrink the window: `max_gram -= 1`),
reset the gram length, move the cursor one slot forward (wrapping). -/
def Stutter.advance (st0 : Stutter) : Stutter :=
  let cur := st0.cursor + 1
  match st0.underlying with
  | v :: r =>
    { st0 with gramLen := st0.minGram, memory := st0.memory.set st0.cursor v, underlying := r,
               cursor := if cur ≥ st0.memory.length then 0 else cur }
  | [] =>
    { st0 with gramLen := st0.minGram, maxGram := st0.maxGram - 1,
               cursor := if cur ≥ st0.memory.length then 0 else cur }

/-- the tail of `next()`: emit `(memory[cursor], memory[cursor + gram_len])` (indices mod the
buffer length) unless the window became smaller than `min_gram` -/
def Stutter.emit (st : Stutter) : Option ((Nat × Nat) × Stutter) :=
  if st.maxGram < st.minGram then none
  else
    let start := st.memory.getD (st.cursor % st.memory.length) 0
    let stop := st.memory.getD ((st.cursor + st.gramLen) % st.memory.length) 0
    some ((start, stop), { st with gramLen := st.gramLen + 1 })

/-- one `next()` of the stuttering iterator: ring buffer `memory`, `cursor` = slot of the current
start frontier, `gramLen` = next gram length to emit.
-- mirrors: src/tokenizer/ngram_tokenizer.rs::next -/
def Stutter.next (st0 : Stutter) : Option ((Nat × Nat) × Stutter) :=
  (if st0.gramLen > st0.maxGram then st0.advance else st0).emit

/-- run the iterator to exhaustion (fuel = an upper bound of the number of pairs) -/
def Stutter.collect : Nat → Stutter → List (Nat × Nat)
  | 0, _ => []
  | fuel + 1, st =>
    match st.next with
    | none => []
    | some (p, st') => p :: Stutter.collect fuel st'

def stutterAll (fs : List Nat) (minG maxG : Nat) : List (Nat × Nat) :=
  Stutter.collect (fs.length * fs.length + 1) (Stutter.new fs minG maxG)

/-- `NgramTokenStream`: every pair becomes a token with position 0; in prefix-only mode the
stream ends at the first pair that does not start at byte 0.
-- mirrors: src/tokenizer/ngram_tokenizer.rs::advance -/
def ngramOffsets (s : Text) (minG maxG : Nat) (prefixOnly : Bool) : List (Nat × Nat) :=
  let all := stutterAll (frontiers s) minG maxG
  if prefixOnly then all.takeWhile (fun p => p.1 == 0) else all

def ngramTokens (s : Text) (minG maxG : Nat) (prefixOnly : Bool) : List Token :=
  (ngramOffsets s minG maxG prefixOnly).map (fun p => mkToken s p.1 p.2 0)

/-- specification of the n-gram enumeration over a frontier list `F`: for every start index `i`
in order, every gram length `k` from `min` up to `min(max, |F| − 1 − i)` in order (so that `i + k`
is still a frontier): the pair `(F[i], F[i+k])`. Texts with fewer than `min` code points give
no pair. -/
def ngramRow (F : List Nat) (maxG i k : Nat) : List (Nat × Nat) :=
  (List.range' k (min maxG (F.length - 1 - i) + 1 - k)).map fun k' => (F.getD i 0, F.getD (i + k') 0)

def ngramSpec (F : List Nat) (minG maxG : Nat) : List (Nat × Nat) :=
  (List.range F.length).flatMap fun i => ngramRow F maxG i minG

end TantivyModel.Tok

namespace TantivyModel.Tok

/-- `NgramTokenizer::new(min_gram, max_gram, _)` returns `Ok`: the two guards read from the source
-- mirrors: src/tokenizer/ngram_tokenizer.rs::new -/
def ngramNewOk (minG maxG : Nat) : Bool :=
  !(Gen.NGRAM_NEW_REJECTS_ZERO_MIN != 0 && minG == 0) &&
  !(Gen.NGRAM_NEW_REJECTS_MIN_GT_MAX != 0 && decide (minG > maxG))

end TantivyModel.Tok
