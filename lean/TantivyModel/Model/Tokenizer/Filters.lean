import TantivyModel.Model.Tokenizer.Scan
import TantivyModel.Gen.Tokenizer
/-!
# Token filters (C19) as transforms of the token list

Every filter rewrites or drops tokens but never assigns `offset_from`, `offset_to` or `position`.
Text-level functions that belong to Rust `std` or external crates are **parameters**:
`char::to_lowercase`, the `fold_non_ascii_char` table, `rust_stemmers`, the Aho-Corasick
dictionary matcher.
-/
namespace TantivyModel.Tok

/-- `str::len` of a token text -/
def textByteLen (t : List Nat) : Nat := (t.map utf8Len).sum

def isAsciiText (t : List Nat) : Bool := t.all (fun c => c < 128)

/-- `make_ascii_lowercase` on one scalar -/
def asciiLower (c : Nat) : Nat := if 0x41 ≤ c ∧ c ≤ 0x5A then c + 32 else c

inductive Filter where
  /-- LowerCaser; `f` = `char::to_lowercase` (used only on non-ASCII token texts) -/
  | lower (f : Nat → List Nat)
  /-- AsciiFoldingFilter; `f` = `fold_non_ascii_char` -/
  | fold (f : Nat → Option (List Nat))
  /-- RemoveLongFilter::limit -/
  | removeLong (limit : Nat)
  /-- AlphaNumOnlyFilter -/
  | alnumOnly
  /-- StopWordFilter -/
  | stop (words : List (List Nat))
  /-- Stemmer; `f` = the stemming algorithm -/
  | stem (f : List Nat → List Nat)
  /-- SplitCompoundWords; `f t` = `some parts` when the dictionary splits `t` completely -/
  | split (f : List Nat → Option (List (List Nat)))

-- mirrors: src/tokenizer/lower_caser.rs::advance
def lowerText (f : Nat → List Nat) (t : List Nat) : List Nat :=
  if isAsciiText t then t.map asciiLower else t.flatMap f

-- mirrors: src/tokenizer/ascii_folding_filter.rs::advance
-- mirrors: src/tokenizer/ascii_folding_filter.rs::to_ascii
def foldText (f : Nat → Option (List Nat)) (t : List Nat) : List Nat :=
  if isAsciiText t then t else t.flatMap (fun c => (f c).getD [c])

-- mirrors: src/tokenizer/remove_long.rs::predicate
def removeLongKeeps (limit : Nat) (t : List Nat) : Bool :=
  if Gen.REMOVE_LONG_KEEPS_EQUAL = 0 then decide (textByteLen t < limit)
  else decide (textByteLen t ≤ limit)

/-- what one filter makes of one token (0, 1 or several tokens, all with the token's offsets)
-- mirrors: src/tokenizer/alphanum_only.rs::predicate
-- mirrors: src/tokenizer/stop_word_filter/mod.rs::predicate
-- mirrors: src/tokenizer/stemmer.rs::advance
-- mirrors: src/tokenizer/split_compound_words.rs::split -/
def Filter.onToken : Filter → Token → List Token
  | .lower f, t => [{ t with text := lowerText f t.text }]
  | .fold f, t => [{ t with text := foldText f t.text }]
  | .removeLong limit, t => if removeLongKeeps limit t.text then [t] else []
  | .alnumOnly, t => if t.text.all isAsciiAlnum then [t] else []
  | .stop words, t => if words.contains t.text then [] else [t]
  | .stem f, t => [{ t with text := f t.text }]
  | .split f, t =>
    match f t.text with
    | some (p :: ps) => (p :: ps).map (fun q => { t with text := q })
    | _ => [t]

def Filter.apply (f : Filter) (ts : List Token) : List Token := ts.flatMap f.onToken

def applyChain (fs : List Filter) (ts : List Token) : List Token :=
  fs.foldl (fun acc f => f.apply acc) ts

end TantivyModel.Tok
